#!/bin/sh
# Build the whole framework from files on disk (offline): Coq (.vo, full build), extraction,
# OCaml drivers, Go harness and translator.
set -e
cd "$(dirname "$0")"
export GOFLAGS=-mod=mod GOPROXY=off GOSUMDB=off GOTOOLCHAIN=local
./coq/mk_coqproject.sh
( cd coq && timeout 3000 make -j16 )
./ocaml/build_model.sh
cp /repo/go.sum harness/go.sum
( cd harness && timeout 900 go build -o bin/harness . ) || echo 'note: whole-package harness build failed; per-property binaries are built by ./check' || echo 'note: whole-package harness build failed; per-property binaries are built by ./check'
if [ -d translator ]; then cp /repo/go.sum translator/go.sum 2>/dev/null || true; ( cd translator && timeout 900 go build -o bin/translator . ); fi
echo setup-ok
