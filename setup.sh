#!/bin/sh
# Build the whole framework from files on disk (offline): Coq (.vo, full build), extraction,
# OCaml drivers, Go harness and translator.
set -e
cd "$(dirname "$0")"
export GOFLAGS=-mod=mod GOPROXY=off GOSUMDB=off GOTOOLCHAIN=local
./coq/mk_coqproject.sh
# -k: one broken proof file must not prevent the other properties' checks from being set up;
# every ./check re-runs make for its own targets and reports a failure there as its own alarm.
( cd coq && ulimit -v 16000000 && timeout 3000 make -k -j16 COQC='timeout 1500 coqc' ) || echo 'note: coq build incomplete; the affected ./check will report it'
./ocaml/build_model.sh || echo 'note: some driver did not build; the affected ./check will report it'
cp /repo/go.sum harness/go.sum
( cd harness && timeout 900 go build -o bin/harness . ) || echo 'note: whole-package harness build failed; per-property binaries are built by ./check' || echo 'note: whole-package harness build failed; per-property binaries are built by ./check'
if [ -d translator ]; then cp /repo/go.sum translator/go.sum 2>/dev/null || true; ( cd translator && timeout 900 go build -o bin/translator . ); fi
echo setup-ok
