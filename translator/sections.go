package main

import (
	"fmt"
	"sort"
	"strings"

	"golang.org/x/tools/go/ssa"
)

type accOut struct {
	Kind byte
	Loc  string
}

type Section struct {
	Mode    string // "R", "W", "N"
	Acc     map[accOut]string
	Callees map[string]bool
}

func (s *Section) clone() *Section {
	n := &Section{Mode: s.Mode, Acc: map[accOut]string{}, Callees: map[string]bool{}}
	for k, v := range s.Acc {
		n.Acc[k] = v
	}
	for k := range s.Callees {
		n.Callees[k] = true
	}
	return n
}

type Wrapper struct {
	Name      string
	File      string
	Irregular string
	Sections  []*Section
	APICalls  map[string]bool
	Spawns    []string
	Synthetic bool              // goroutine body started by a wrapper
	Escapes   map[string]string // shared memory the returned values point to -> site
}

type pstate struct {
	secs    []*Section
	open    int
	none    int
	defers  []ssa.Instruction
	api     map[string]bool
	spawns  []*ssa.Function
	irr     string
	lockSeq string
}

func (p *pstate) clone() *pstate {
	n := &pstate{open: p.open, none: p.none, irr: p.irr, api: map[string]bool{}, lockSeq: p.lockSeq}
	for _, s := range p.secs {
		n.secs = append(n.secs, s.clone())
	}
	n.defers = append(n.defers, p.defers...)
	n.spawns = append(n.spawns, p.spawns...)
	for k := range p.api {
		n.api[k] = true
	}
	return n
}

func (p *pstate) sig() string {
	var b strings.Builder
	for _, s := range p.secs {
		if s.Mode != "N" {
			b.WriteString(s.Mode)
		}
	}
	fmt.Fprintf(&b, "|%v|%d", p.open >= 0, len(p.defers))
	return b.String()
}

type wrapAnalysis struct {
	A      *Analyzer
	fa     *funcAnalysis
	fn     *ssa.Function
	paths  []*pstate
	npaths int
	isGo   bool
}

// lockOp recognises e.m.Lock / RLock / Unlock / RUnlock on the SyncedEnforcer's own mutex.
func (w *wrapAnalysis) lockOp(cc *ssa.CallCommon) string {
	f := cc.StaticCallee()
	if f == nil || len(cc.Args) == 0 {
		return ""
	}
	if r := recvTypeName(f); r != "sync.RWMutex" && r != "sync.Mutex" {
		return ""
	}
	if locOf(cc.Args[0]) != w.A.syncedM {
		return ""
	}
	return f.Name()
}

func (w *wrapAnalysis) sharedRoot(t Tag) bool {
	switch t.K {
	case tShared, tFree:
		return true
	case tParam:
		return t.I == 0 && !w.isGo
	}
	return false
}

func (w *wrapAnalysis) attribute(st *pstate, ins ssa.Instruction) {
	var accs []accRec
	for _, a := range w.fa.instrAcc[ins] {
		for _, r := range a.Roots {
			if w.sharedRoot(r) {
				accs = append(accs, a)
				break
			}
		}
	}
	apis := w.fa.instrAPI[ins]
	callee := ""
	if ci, ok := ins.(ssa.CallInstruction); ok {
		if f := ci.Common().StaticCallee(); f != nil {
			callee = fnName(f)
		} else if ci.Common().IsInvoke() {
			callee = typeName(ci.Common().Value.Type()) + "." + ci.Common().Method.Name()
		}
	}
	if len(apis) > 0 {
		if st.open >= 0 {
			st.irr = "calls " + callee + ", which acquires the SyncedEnforcer lock, while holding it (sync.RWMutex is not reentrant)"
			return
		}
		// a call of another wrapper outside any section: a separate API call, its accesses
		// belong to that wrapper's own sections
		st.api[callee] = true
		return
	}
	if len(accs) == 0 && (callee == "" || st.open < 0) {
		return
	}
	var sec *Section
	if st.open >= 0 {
		sec = st.secs[st.open]
	} else {
		if st.none < 0 {
			st.secs = append(st.secs, &Section{Mode: "N", Acc: map[accOut]string{}, Callees: map[string]bool{}})
			st.none = len(st.secs) - 1
		}
		sec = st.secs[st.none]
	}
	for _, a := range accs {
		k := accOut{a.Kind, a.Loc}
		if old, ok := sec.Acc[k]; !ok || a.Site < old {
			sec.Acc[k] = a.Site
		}
	}
	if callee != "" && !strings.HasPrefix(callee, "(*sync.") {
		sec.Callees[callee] = true
	}
}

func (w *wrapAnalysis) doLock(st *pstate, op string) {
	switch op {
	case "Lock", "RLock":
		if st.open >= 0 {
			st.irr = "acquires the lock while already holding it"
			return
		}
		m := "W"
		if op == "RLock" {
			m = "R"
		}
		st.secs = append(st.secs, &Section{Mode: m, Acc: map[accOut]string{}, Callees: map[string]bool{}})
		st.open = len(st.secs) - 1
		st.none = -1
	case "Unlock", "RUnlock":
		if st.open < 0 {
			st.irr = "releases the lock without holding it"
			return
		}
		want := "Unlock"
		if st.secs[st.open].Mode == "R" {
			want = "RUnlock"
		}
		if op != want {
			st.irr = "releases with " + op + " a lock taken in mode " + st.secs[st.open].Mode
			return
		}
		st.open = -1
	}
}

func (w *wrapAnalysis) finish(st *pstate) {
	w.paths = append(w.paths, st)
}

func (w *wrapAnalysis) walk(b *ssa.BasicBlock, st *pstate, onPath map[*ssa.BasicBlock]string) {
	if w.npaths > 20000 {
		st.irr = "too many paths"
		w.finish(st)
		return
	}
	if prev, ok := onPath[b]; ok {
		if prev != st.sig() {
			st.irr = "lock state changes inside a loop"
		}
		w.finish(st)
		return
	}
	onPath[b] = st.sig()
	defer delete(onPath, b)
	for _, ins := range b.Instrs {
		if st.irr != "" {
			w.finish(st)
			return
		}
		switch x := ins.(type) {
		case *ssa.Call:
			if op := w.lockOp(x.Common()); op != "" {
				w.doLock(st, op)
			} else {
				w.attribute(st, ins)
			}
		case *ssa.Defer:
			st.defers = append(st.defers, ins)
		case *ssa.RunDefers:
			for i := len(st.defers) - 1; i >= 0; i-- {
				d := st.defers[i].(*ssa.Defer)
				if op := w.lockOp(d.Common()); op != "" {
					w.doLock(st, op)
				} else {
					w.attribute(st, d)
				}
			}
			st.defers = nil
		case *ssa.Go:
			if f := w.fa.spawned[ins]; f != nil {
				st.spawns = append(st.spawns, f)
			} else {
				st.irr = "starts a goroutine the analysis cannot resolve"
			}
		case *ssa.Return:
			if st.open >= 0 {
				st.irr = "returns while holding the lock"
			}
			w.npaths++
			w.finish(st)
			return
		case *ssa.Panic:
			w.npaths++
			w.finish(st)
			return
		default:
			w.attribute(st, ins)
		}
	}
	if st.irr != "" {
		w.finish(st)
		return
	}
	succs := b.Succs
	for i, s := range succs {
		ns := st
		if i < len(succs)-1 {
			ns = st.clone()
		}
		w.walk(s, ns, onPath)
	}
	if len(succs) == 0 {
		w.finish(st)
	}
}

func modes(secs []*Section) string {
	var b strings.Builder
	for _, s := range secs {
		b.WriteString(s.Mode)
	}
	return b.String()
}

func (A *Analyzer) analyzeWrapper(fn *ssa.Function, name string, isGo bool) (*Wrapper, []*ssa.Function) {
	fa := A.final[fn]
	wr := &Wrapper{Name: name, APICalls: map[string]bool{}, Synthetic: isGo}
	if fn.Pos().IsValid() {
		p := A.prog.Fset.Position(fn.Pos())
		wr.File = p.Filename[strings.LastIndex(p.Filename, "/")+1:]
	}
	if fa == nil {
		wr.Irregular = "not analysed"
		return wr, nil
	}
	w := &wrapAnalysis{A: A, fa: fa, fn: fn, isGo: isGo}
	st := &pstate{open: -1, none: -1, api: map[string]bool{}}
	w.walk(fn.Blocks[0], st, map[*ssa.BasicBlock]string{})
	// merge the paths: every path must be a prefix of the longest one
	var longest *pstate
	for _, p := range w.paths {
		if p.irr != "" {
			wr.Irregular = p.irr
		}
		if longest == nil || len(p.secs) > len(longest.secs) {
			longest = p
		}
	}
	var spawned []*ssa.Function
	seenSp := map[*ssa.Function]bool{}
	if longest != nil {
		lm := modes(longest.secs)
		for _, s := range longest.secs {
			wr.Sections = append(wr.Sections, s.clone())
		}
		for _, p := range w.paths {
			pm := modes(p.secs)
			if !strings.HasPrefix(lm, pm) {
				if wr.Irregular == "" {
					wr.Irregular = fmt.Sprintf("control-flow paths disagree on the critical sections (%s vs %s)", lm, pm)
				}
				continue
			}
			for i, s := range p.secs {
				for k, v := range s.Acc {
					if old, ok := wr.Sections[i].Acc[k]; !ok || v < old {
						wr.Sections[i].Acc[k] = v
					}
				}
				for k := range s.Callees {
					wr.Sections[i].Callees[k] = true
				}
			}
			for k := range p.api {
				wr.APICalls[k] = true
			}
			for _, f := range p.spawns {
				if !seenSp[f] {
					seenSp[f] = true
					spawned = append(spawned, f)
				}
			}
		}
	}
	if len(wr.Sections) == 0 && wr.Irregular == "" {
		// takes no lock and touches nothing shared: one empty lock-free section
		wr.Sections = []*Section{{Mode: "N", Acc: map[accOut]string{}, Callees: map[string]bool{}}}
	}
	wr.Escapes = map[string]string{}
	for k, site := range fa.sum.RetLoc {
		if w.sharedRoot(k.Root) {
			if old, ok := wr.Escapes[k.Loc]; !ok || site < old {
				wr.Escapes[k.Loc] = site
			}
		}
	}
	for _, f := range spawned {
		wr.Spawns = append(wr.Spawns, fnName(f))
	}
	sort.Strings(wr.Spawns)
	return wr, spawned
}
