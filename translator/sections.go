package main

import (
	"fmt"
	"go/constant"
	"go/token"
	"go/types"
	"sort"
	"strings"

	"golang.org/x/tools/go/ssa"
)

// Section extraction (see the header of main.go).
//
// The walk is INTERPROCEDURAL for helpers: the SSA paths of a wrapper are followed instruction
// by instruction; a call of a function that is not itself an exported API wrapper and that is
// "lockish" (its body, transitively, operates on the SyncedEnforcer's own mutex, or it creates /
// hands on a function value that does) is walked INLINE, continuation-passing: every path of the
// callee that reaches its Return continues with the caller's remaining instructions.  Each
// activation has its own defer stack, run at its RunDefers.  Function values are followed through
// parameters, closure bindings, call results, phi nodes (the edge actually taken) and local
// variable cells with a single store, so that
//
//	func (e *SyncedEnforcer) withRLock(f func()) { e.m.RLock(); defer e.m.RUnlock(); f() }
//	defer e.acquireRead()()      // acquireRead: e.m.RLock(); return e.m.RUnlock
//
// give the same sections as the direct style.  A function value that reaches a call through the
// context of the walk is ALWAYS walked inline (its accesses are not part of the calling frame's
// own may-access record); one that cannot be resolved makes the wrapper Irregular whenever it may
// matter (never guess).  Accesses seen in an inlined body are attributed to the section open at
// that moment, using the body's own funcAnalysis; their roots (parameter i / free variable j of
// that body) are mapped back through the call sites and closure bindings to the wrapper's frame,
// where only the receiver, globals and captured variables of goroutine bodies count as shared.
// The lock state (sections, open section) is global to the walk; all the soundness checks
// (re-entrant acquisition, release without holding, return of the WRAPPER while holding, paths
// that disagree, lock state changing inside a loop of any activation, recursion among helpers)
// make the wrapper Irregular with a reason.

type accOut struct {
	Kind byte
	Loc  string
}

type Section struct {
	Mode    string // "R", "W", "N"
	Acc     map[accOut]string
	Callees map[string]bool
}

func (s *Section) clone() *Section {
	n := &Section{Mode: s.Mode, Acc: map[accOut]string{}, Callees: map[string]bool{}}
	for k, v := range s.Acc {
		n.Acc[k] = v
	}
	for k := range s.Callees {
		n.Callees[k] = true
	}
	return n
}

type Wrapper struct {
	Name      string
	File      string
	Irregular string
	Sections  []*Section
	APICalls  map[string]bool
	Spawns    []string
	Inlined   []string          // helpers walked inline (informational)
	Synthetic bool              // goroutine body started by a wrapper
	Escapes   map[string]string // shared memory the returned values point to -> site
}

// fval is a function value the walk has resolved: a function plus, for a closure, its bindings
// and the activation they were evaluated in.
type fval struct {
	fn   *ssa.Function
	bind []ssa.Value
	in   *inst
}

// aref is an actual argument: a value of the activation that evaluated it.
type aref struct {
	v  ssa.Value
	in *inst
}

// inst is one activation of a function in the walk (immutable apart from the caches; the
// path-specific parts live in act / pstate).
type inst struct {
	fn       *ssa.Function
	fa       *funcAnalysis
	caller   *inst  // nil: the wrapper / goroutine body itself
	args     []aref // per parameter
	clo      *fval  // the closure value this activation runs (bindings), nil for plain functions
	goStatic bool   // top-level body started by `go f(args)`: every parameter is shared with the spawner
	depth    int
	onPath   map[*ssa.BasicBlock]string
}

type deferRec struct {
	ins   *ssa.Defer
	fv    *fval // resolved at the defer statement when the callee is a function value
	tried bool
}

// act is the path-specific part of an activation.
type act struct {
	in     *inst
	defers []deferRec
	retB   *ssa.BasicBlock // where the caller continues
	retI   int
	retVal ssa.Value // the call in the caller whose results get bound (nil: deferred / none)
}

type fvKey struct {
	in  *inst
	v   ssa.Value
	idx int
}

type spawnRec struct {
	fn     *ssa.Function
	static bool // go f(args) rather than go func(){...}()
}

type pstate struct {
	secs    []*Section
	open    int
	none    int
	stack   []*act
	fv      map[fvKey]*fval // function values known on this path: call results, phi nodes
	api     map[string]bool
	spawns  []spawnRec
	inlined map[string]bool
	irr     string
}

func (p *pstate) clone() *pstate {
	n := &pstate{open: p.open, none: p.none, irr: p.irr, api: map[string]bool{}, fv: map[fvKey]*fval{}, inlined: map[string]bool{}}
	for _, s := range p.secs {
		n.secs = append(n.secs, s.clone())
	}
	for _, a := range p.stack {
		c := *a
		c.defers = append([]deferRec(nil), a.defers...)
		n.stack = append(n.stack, &c)
	}
	for k, v := range p.fv {
		n.fv[k] = v
	}
	n.spawns = append(n.spawns, p.spawns...)
	for k := range p.api {
		n.api[k] = true
	}
	for k := range p.inlined {
		n.inlined[k] = true
	}
	return n
}

func (p *pstate) top() *act { return p.stack[len(p.stack)-1] }

func (p *pstate) sig() string {
	var b strings.Builder
	for _, s := range p.secs {
		if s.Mode != "N" {
			b.WriteString(s.Mode)
		}
	}
	fmt.Fprintf(&b, "|%v|%d|%d", p.open >= 0, len(p.top().defers), len(p.stack))
	return b.String()
}

type wrapAnalysis struct {
	A      *Analyzer
	fn     *ssa.Function
	root   *inst
	paths  []*pstate
	npaths int
	isGo   bool
}

const maxPaths = 20000
const maxInlineDepth = 40

var lockOps = map[string]bool{"Lock": true, "RLock": true, "Unlock": true, "RUnlock": true}

func isMutexMethod(f *ssa.Function) bool {
	if f == nil {
		return false
	}
	r := recvTypeName(f)
	return r == "sync.RWMutex" || r == "sync.Mutex"
}

// mutexLoc names the mutex a lock operation works on, following parameters and closure bindings
// of inlined activations back to where the address was taken.
func (w *wrapAnalysis) mutexLoc(in *inst, v ssa.Value, depth int) string {
	if depth > 30 {
		return "?"
	}
	switch x := v.(type) {
	case *ssa.Parameter:
		for i, p := range in.fn.Params {
			if p == x && i < len(in.args) {
				return w.mutexLoc(in.args[i].in, in.args[i].v, depth+1)
			}
		}
		return "?"
	case *ssa.FreeVar:
		if in.clo != nil {
			for i, p := range in.fn.FreeVars {
				if p == x && i < len(in.clo.bind) && in.clo.in != nil {
					return w.mutexLoc(in.clo.in, in.clo.bind[i], depth+1)
				}
			}
		}
		return "?"
	case *ssa.ChangeType:
		return w.mutexLoc(in, x.X, depth+1)
	case *ssa.Phi, *ssa.Call, *ssa.Extract:
		return "?"
	}
	l := locOf(v)
	if l == "sync.RWMutex" || l == "sync.Mutex" || strings.HasPrefix(l, "?") {
		return "?"
	}
	return l
}

// shared reports whether an access root of activation `in` denotes memory shared between API
// calls: roots are mapped through the call sites / closure bindings down to the wrapper's frame.
func (w *wrapAnalysis) shared(in *inst, t Tag, depth int) bool {
	if depth > 60 {
		return true
	}
	switch t.K {
	case tShared:
		return true
	case tLoc, tVia:
		return false
	case tParam:
		if in.caller == nil {
			if in.goStatic {
				return true
			}
			return t.I == 0 && !w.isGo
		}
		if t.I >= len(in.args) {
			return true
		}
		a := in.args[t.I]
		d := t.D
		if d > 2 {
			d = 2
		}
		for tt := range a.in.fa.D(a.v)[d] {
			if w.shared(a.in, tt, depth+1) {
				return true
			}
		}
		return false
	case tFree:
		if in.clo == nil || in.clo.in == nil {
			return true // a goroutine body / callback: its captured variables are shared
		}
		if t.I >= len(in.clo.bind) {
			return true
		}
		d := t.D
		if d > 2 {
			d = 2
		}
		for tt := range in.clo.in.fa.D(in.clo.bind[t.I])[d] {
			if w.shared(in.clo.in, tt, depth+1) {
				return true
			}
		}
		return false
	}
	return true
}

func (w *wrapAnalysis) sharedRoot(t Tag) bool { return w.shared(w.root, t, 0) }

func calleeName(ins ssa.Instruction) string {
	if ci, ok := ins.(ssa.CallInstruction); ok {
		if f := ci.Common().StaticCallee(); f != nil {
			return fnName(f)
		} else if ci.Common().IsInvoke() {
			return typeName(ci.Common().Value.Type()) + "." + ci.Common().Method.Name()
		}
	}
	return ""
}

func (w *wrapAnalysis) attribute(st *pstate, in *inst, ins ssa.Instruction) {
	var accs []accRec
	for _, a := range in.fa.instrAcc[ins] {
		for _, r := range a.Roots {
			if w.shared(in, r, 0) {
				accs = append(accs, a)
				break
			}
		}
	}
	apis := in.fa.instrAPI[ins]
	callee := calleeName(ins)
	if len(apis) > 0 {
		if st.open >= 0 {
			st.irr = "calls " + callee + ", which acquires the SyncedEnforcer lock, while holding it (sync.RWMutex is not reentrant)"
			return
		}
		// a call of another wrapper outside any section: a separate API call, its accesses
		// belong to that wrapper's own sections
		st.api[callee] = true
		return
	}
	if len(accs) == 0 && (callee == "" || st.open < 0) {
		return
	}
	var sec *Section
	if st.open >= 0 {
		sec = st.secs[st.open]
	} else {
		if st.none < 0 {
			st.secs = append(st.secs, &Section{Mode: "N", Acc: map[accOut]string{}, Callees: map[string]bool{}})
			st.none = len(st.secs) - 1
		}
		sec = st.secs[st.none]
	}
	for _, a := range accs {
		k := accOut{a.Kind, a.Loc}
		if old, ok := sec.Acc[k]; !ok || a.Site < old {
			sec.Acc[k] = a.Site
		}
	}
	if callee != "" && !strings.HasPrefix(callee, "(*sync.") {
		sec.Callees[callee] = true
	}
}

func (w *wrapAnalysis) doLock(st *pstate, op string) {
	switch op {
	case "Lock", "RLock":
		if st.open >= 0 {
			st.irr = "acquires the lock while already holding it"
			return
		}
		m := "W"
		if op == "RLock" {
			m = "R"
		}
		st.secs = append(st.secs, &Section{Mode: m, Acc: map[accOut]string{}, Callees: map[string]bool{}})
		st.open = len(st.secs) - 1
		st.none = -1
	case "Unlock", "RUnlock":
		if st.open < 0 {
			st.irr = "releases the lock without holding it"
			return
		}
		want := "Unlock"
		if st.secs[st.open].Mode == "R" {
			want = "RUnlock"
		}
		if op != want {
			st.irr = "releases with " + op + " a lock taken in mode " + st.secs[st.open].Mode
			return
		}
		st.open = -1
	}
}

func (w *wrapAnalysis) finish(st *pstate) {
	w.npaths++
	w.paths = append(w.paths, st)
}

func isFuncType(t types.Type) bool {
	_, ok := t.Underlying().(*types.Signature)
	return ok
}

// resolve follows a function value to the function / closure it denotes on this path.
func (w *wrapAnalysis) resolve(st *pstate, in *inst, v ssa.Value, depth int) *fval {
	if depth > 40 || in == nil {
		return nil
	}
	switch x := v.(type) {
	case *ssa.Function:
		return &fval{fn: x}
	case *ssa.MakeClosure:
		return &fval{fn: x.Fn.(*ssa.Function), bind: x.Bindings, in: in}
	case *ssa.ChangeType:
		return w.resolve(st, in, x.X, depth+1)
	case *ssa.Parameter:
		for i, p := range in.fn.Params {
			if p == x && i < len(in.args) {
				return w.resolve(st, in.args[i].in, in.args[i].v, depth+1)
			}
		}
		return nil
	case *ssa.FreeVar:
		if in.clo == nil {
			return nil
		}
		for i, p := range in.fn.FreeVars {
			if p == x && i < len(in.clo.bind) {
				return w.resolve(st, in.clo.in, in.clo.bind[i], depth+1)
			}
		}
		return nil
	case *ssa.Call:
		return st.fv[fvKey{in, x, 0}]
	case *ssa.Extract:
		if c, ok := x.Tuple.(*ssa.Call); ok {
			return st.fv[fvKey{in, c, x.Index}]
		}
		return nil
	case *ssa.Phi:
		return st.fv[fvKey{in, x, 0}]
	case *ssa.UnOp:
		if x.Op != token.MUL {
			return nil
		}
		// a local variable cell (possibly captured): exactly one store, made by its owner
		cv, cin := x.X, in
		for k := 0; k < 20; k++ {
			fvr, ok := cv.(*ssa.FreeVar)
			if !ok {
				break
			}
			if cin.clo == nil || cin.clo.in == nil {
				return nil
			}
			found := false
			for i, p := range cin.fn.FreeVars {
				if p == fvr && i < len(cin.clo.bind) {
					cv, cin = cin.clo.bind[i], cin.clo.in
					found = true
					break
				}
			}
			if !found {
				return nil
			}
		}
		a, ok := cv.(*ssa.Alloc)
		if !ok || cin.fn != a.Parent() {
			return nil
		}
		ci := w.A.cell(a)
		if ci.escapes || len(ci.stores) != 1 || ci.stores[0].g != a.Parent() {
			return nil
		}
		return w.resolve(st, cin, ci.stores[0].val, depth+1)
	}
	return nil
}

// constOf evaluates a value that is a compile-time constant in this activation: a constant, a
// parameter of an inlined helper whose actual argument is one, a comparison / negation of such.
func (w *wrapAnalysis) constOf(in *inst, v ssa.Value, depth int) constant.Value {
	if depth > 20 || in == nil {
		return nil
	}
	switch x := v.(type) {
	case *ssa.Const:
		if x.Value == nil {
			return nil
		}
		return x.Value
	case *ssa.Parameter:
		if in.caller == nil {
			return nil
		}
		for i, p := range in.fn.Params {
			if p == x && i < len(in.args) {
				return w.constOf(in.args[i].in, in.args[i].v, depth+1)
			}
		}
	case *ssa.ChangeType:
		return w.constOf(in, x.X, depth+1)
	case *ssa.UnOp:
		if x.Op == token.NOT {
			if c := w.constOf(in, x.X, depth+1); c != nil && c.Kind() == constant.Bool {
				return constant.MakeBool(!constant.BoolVal(c))
			}
		}
	case *ssa.BinOp:
		switch x.Op {
		case token.EQL, token.NEQ:
			a, b := w.constOf(in, x.X, depth+1), w.constOf(in, x.Y, depth+1)
			if a != nil && b != nil && a.Kind() == b.Kind() && a.Kind() != constant.Unknown {
				return constant.MakeBool(constant.Compare(a, x.Op, b))
			}
		}
	}
	return nil
}

// ctxDerived: the value comes from the caller of this activation (parameter / captured variable).
func ctxDerived(v ssa.Value) bool {
	switch x := v.(type) {
	case *ssa.Parameter, *ssa.FreeVar:
		return true
	case *ssa.ChangeType:
		return ctxDerived(x.X)
	case *ssa.UnOp:
		if x.Op == token.MUL {
			_, ok := x.X.(*ssa.FreeVar)
			return ok
		}
	}
	return false
}

// goTargets collects the goroutine bodies started by f and, transitively, by what f calls (as the
// may-access analysis resolves the calls).  ok = false: a go statement whose function cannot be named.
func (A *Analyzer) goTargets(f *ssa.Function, seen map[*ssa.Function]bool, out *[]spawnRec) bool {
	if f == nil || f.Blocks == nil || seen[f] {
		return true
	}
	seen[f] = true
	if s := A.sum[f]; s == nil || !s.Spawns {
		return true
	}
	fa := A.frames[f]
	ok := true
	for _, b := range f.Blocks {
		for _, ins := range b.Instrs {
			ci, isCall := ins.(ssa.CallInstruction)
			if !isCall {
				continue
			}
			cc := ci.Common()
			if _, isGo := ins.(*ssa.Go); isGo {
				switch v := cc.Value.(type) {
				case *ssa.MakeClosure:
					*out = append(*out, spawnRec{v.Fn.(*ssa.Function), false})
				case *ssa.Function:
					if cc.IsInvoke() || v.Blocks == nil {
						ok = false
					} else {
						*out = append(*out, spawnRec{v, true})
					}
				default:
					ok = false
				}
				continue
			}
			if fa == nil {
				if t := cc.StaticCallee(); t != nil && !A.goTargets(t, seen, out) {
					ok = false
				}
				continue
			}
			ts, _, _ := fa.resolve(cc)
			for _, t := range ts {
				if !A.goTargets(t.fn, seen, out) {
					ok = false
				}
			}
		}
	}
	return ok
}

// spawnsBehind records the goroutines started behind a call that is not walked inline.
func (w *wrapAnalysis) spawnsBehind(st *pstate, in *inst, cc *ssa.CallCommon) {
	if !in.fa.sum.Spawns {
		return
	}
	ts, _, _ := in.fa.resolve(cc)
	for _, t := range ts {
		if w.A.wrapperSet[t.fn] {
			continue // an API call: its goroutines belong to that wrapper's entry
		}
		var out []spawnRec
		if !w.A.goTargets(t.fn, map[*ssa.Function]bool{}, &out) {
			st.irr = "starts a goroutine the analysis cannot resolve (behind " + fnName(t.fn) + ")"
			return
		}
		for _, sp := range out {
			if w.A.wrapperSet[sp.fn] {
				st.api[fnName(sp.fn)] = true
			} else {
				st.spawns = append(st.spawns, sp)
			}
		}
	}
}

// call handles one call (immediate, or a deferred one at RunDefers).  It returns true when the
// callee is walked inline: the walk of the current block is then resumed at (retB, retI) by the
// callee's Return.
func (w *wrapAnalysis) call(st *pstate, ins ssa.Instruction, cc *ssa.CallCommon, callVal ssa.Value, d *deferRec, retB *ssa.BasicBlock, retI int) bool {
	cur := st.top()
	in := cur.in
	if cc.IsInvoke() {
		w.spawnsBehind(st, in, cc)
		w.attribute(st, in, ins)
		return false
	}
	var target *fval
	viaCtx := false
	switch v := cc.Value.(type) {
	case *ssa.Builtin:
		w.spawnsBehind(st, in, cc)
		w.attribute(st, in, ins)
		return false
	case *ssa.Function:
		target = &fval{fn: v}
	case *ssa.MakeClosure:
		target = &fval{fn: v.Fn.(*ssa.Function), bind: v.Bindings, in: in}
	default:
		viaCtx = true
		if d != nil && d.tried {
			target = d.fv
		} else {
			target = w.resolve(st, in, cc.Value, 0)
		}
		if target == nil {
			if len(in.fa.instrAPI[ins]) > 0 {
				st.irr = "calls a function value the analysis cannot resolve, which may acquire the SyncedEnforcer lock"
				return false
			}
			if ctxDerived(cc.Value) && (in.caller != nil || in.clo != nil || w.isGo) {
				st.irr = "calls a function value handed in from outside the walked code (" + fnName(in.fn) + "): what it does is unknown here"
				return false
			}
			w.spawnsBehind(st, in, cc)
			w.attribute(st, in, ins)
			return false
		}
	}
	f := target.fn
	if isMutexMethod(f) && len(cc.Args) > 0 {
		loc := w.mutexLoc(in, cc.Args[0], 0)
		switch {
		case loc == w.A.syncedM:
			if !lockOps[f.Name()] {
				st.irr = "uses " + f.Name() + " on the SyncedEnforcer lock (not modelled)"
				return false
			}
			w.doLock(st, f.Name())
		case loc == "?":
			st.irr = "operates on a mutex the analysis cannot identify (" + f.Name() + " in " + fnName(in.fn) + ")"
		default:
			w.spawnsBehind(st, in, cc)
			w.attribute(st, in, ins)
		}
		return false
	}
	if w.A.wrapperSet[f] {
		if viaCtx {
			// not part of the calling frame's own record: handle the API call here
			if st.open >= 0 && len(w.A.sumAPI(f)) > 0 {
				st.irr = "calls " + fnName(f) + ", which acquires the SyncedEnforcer lock, while holding it (sync.RWMutex is not reentrant)"
				return false
			}
			if len(w.A.sumAPI(f)) > 0 {
				st.api[fnName(f)] = true
				return false
			}
			// a lock-free wrapper reached through a function value: walk it
		} else {
			w.spawnsBehind(st, in, cc)
			w.attribute(st, in, ins)
			return false
		}
	}
	if !viaCtx && !w.A.lockish[f] && len(in.fa.instrAPI[ins]) == 0 {
		// nothing in it (or in what it is handed) operates the lock: its accesses are in this
		// frame's own record
		w.spawnsBehind(st, in, cc)
		w.attribute(st, in, ins)
		return false
	}
	if f.Blocks == nil {
		if viaCtx {
			st.irr = "calls the function value " + fnName(f) + ", whose body is not analysed"
		} else {
			w.spawnsBehind(st, in, cc)
			w.attribute(st, in, ins)
		}
		return false
	}
	fa := w.A.final[f]
	if fa == nil {
		st.irr = "helper " + fnName(f) + " was not analysed"
		return false
	}
	for _, a := range st.stack {
		if a.in.fn == f {
			st.irr = "recursion among the helpers that operate the lock (" + fnName(f) + ")"
			return false
		}
	}
	if len(st.stack) >= maxInlineDepth {
		st.irr = "helpers nested too deeply"
		return false
	}
	ni := &inst{fn: f, fa: fa, caller: in, depth: in.depth + 1, onPath: map[*ssa.BasicBlock]string{}}
	for _, a := range cc.Args {
		ni.args = append(ni.args, aref{a, in})
	}
	if target.bind != nil || len(f.FreeVars) > 0 {
		ni.clo = target
	}
	st.inlined[fnName(f)] = true
	st.stack = append(st.stack, &act{in: ni, retB: retB, retI: retI, retVal: callVal})
	w.enterBlock(st, f.Blocks[0], nil)
	return true
}

func (w *wrapAnalysis) enterBlock(st *pstate, b *ssa.BasicBlock, from *ssa.BasicBlock) {
	if w.npaths > maxPaths {
		st.irr = "too many paths"
		w.finish(st)
		return
	}
	in := st.top().in
	if prev, ok := in.onPath[b]; ok {
		if prev != st.sig() {
			st.irr = "lock state changes inside a loop"
		}
		w.finish(st)
		return
	}
	in.onPath[b] = st.sig()
	defer delete(in.onPath, b)
	if from != nil {
		pi := -1
		for i, p := range b.Preds {
			if p == from {
				pi = i
			}
		}
		for _, ins := range b.Instrs {
			phi, ok := ins.(*ssa.Phi)
			if !ok {
				break
			}
			if !isFuncType(phi.Type()) {
				continue
			}
			k := fvKey{in, phi, 0}
			var fv *fval
			if pi >= 0 && pi < len(phi.Edges) {
				fv = w.resolve(st, in, phi.Edges[pi], 0)
			}
			if fv != nil {
				st.fv[k] = fv
			} else {
				delete(st.fv, k)
			}
		}
	}
	w.run(st, b, 0)
}

func (w *wrapAnalysis) run(st *pstate, b *ssa.BasicBlock, i int) {
	for ; i < len(b.Instrs); i++ {
		if st.irr != "" {
			w.finish(st)
			return
		}
		cur := st.top()
		in := cur.in
		ins := b.Instrs[i]
		switch x := ins.(type) {
		case *ssa.Call:
			if w.call(st, ins, x.Common(), x, nil, b, i+1) {
				return
			}
		case *ssa.Defer:
			rec := deferRec{ins: x}
			cc := x.Common()
			if !cc.IsInvoke() {
				switch cc.Value.(type) {
				case *ssa.Function, *ssa.MakeClosure, *ssa.Builtin:
				default:
					// the function value of a defer statement is evaluated here
					rec.fv = w.resolve(st, in, cc.Value, 0)
					rec.tried = true
				}
			}
			cur.defers = append(cur.defers, rec)
		case *ssa.RunDefers:
			if n := len(cur.defers); n > 0 {
				d := cur.defers[n-1]
				cur.defers = cur.defers[:n-1]
				if w.call(st, d.ins, d.ins.Common(), nil, &d, b, i) {
					return
				}
				i-- // the same RunDefers again, for the remaining deferred calls
			}
		case *ssa.Go:
			cc := x.Common()
			var f *ssa.Function
			static := false
			if !cc.IsInvoke() {
				switch v := cc.Value.(type) {
				case *ssa.MakeClosure:
					f = v.Fn.(*ssa.Function)
				case *ssa.Function:
					f, static = v, true
				default:
					if fv := w.resolve(st, in, cc.Value, 0); fv != nil && fv.bind == nil && len(fv.fn.FreeVars) == 0 {
						f, static = fv.fn, true
					}
				}
			}
			switch {
			case f == nil || f.Blocks == nil:
				st.irr = "starts a goroutine the analysis cannot resolve"
			case w.A.wrapperSet[f]:
				st.api[fnName(f)] = true // an API call made from a new goroutine
			default:
				st.spawns = append(st.spawns, spawnRec{f, static})
			}
		case *ssa.Return:
			if len(st.stack) == 1 {
				if st.open >= 0 {
					st.irr = "returns while holding the lock"
				}
				w.finish(st)
				return
			}
			if len(cur.defers) > 0 {
				st.irr = "internal: deferred calls left at the return of " + fnName(in.fn)
				w.finish(st)
				return
			}
			callerIn := st.stack[len(st.stack)-2].in
			if cur.retVal != nil {
				for k, r := range x.Results {
					if !isFuncType(r.Type()) {
						continue
					}
					key := fvKey{callerIn, cur.retVal, k}
					if fv := w.resolve(st, in, r, 0); fv != nil {
						st.fv[key] = fv
					} else {
						delete(st.fv, key)
					}
				}
			}
			st.stack = st.stack[:len(st.stack)-1]
			w.run(st, cur.retB, cur.retI)
			return
		case *ssa.Panic:
			w.finish(st)
			return
		default:
			w.attribute(st, in, ins)
		}
	}
	if st.irr != "" {
		w.finish(st)
		return
	}
	succs := b.Succs
	if n := len(b.Instrs); n > 0 && len(succs) == 2 {
		// a branch on a value the call sites fix (withLock(write bool, f)): only that side
		if br, ok := b.Instrs[n-1].(*ssa.If); ok {
			if c := w.constOf(st.top().in, br.Cond, 0); c != nil && c.Kind() == constant.Bool {
				if constant.BoolVal(c) {
					succs = succs[:1]
				} else {
					succs = succs[1:]
				}
			}
		}
	}
	for k, s := range succs {
		ns := st
		if k < len(succs)-1 {
			ns = st.clone()
		}
		w.enterBlock(ns, s, b)
	}
	if len(succs) == 0 {
		w.finish(st)
	}
}

func modes(secs []*Section) string {
	var b strings.Builder
	for _, s := range secs {
		b.WriteString(s.Mode)
	}
	return b.String()
}

// analyzeWrapper extracts the sections of one API wrapper (isGo false) or of a goroutine body /
// callback (isGo true; static: started by `go f(args)`).
func (A *Analyzer) analyzeWrapper(fn *ssa.Function, name string, isGo, static bool) (*Wrapper, []spawnRec) {
	fa := A.final[fn]
	wr := &Wrapper{Name: name, APICalls: map[string]bool{}, Synthetic: isGo}
	if fn.Pos().IsValid() {
		p := A.prog.Fset.Position(fn.Pos())
		wr.File = p.Filename[strings.LastIndex(p.Filename, "/")+1:]
	}
	if fa == nil {
		wr.Irregular = "not analysed"
		return wr, nil
	}
	root := &inst{fn: fn, fa: fa, goStatic: isGo && static, onPath: map[*ssa.BasicBlock]string{}}
	w := &wrapAnalysis{A: A, fn: fn, isGo: isGo, root: root}
	st := &pstate{open: -1, none: -1, api: map[string]bool{}, fv: map[fvKey]*fval{}, inlined: map[string]bool{}}
	st.stack = []*act{{in: root}}
	w.enterBlock(st, fn.Blocks[0], nil)
	// merge the paths: every path must be a prefix of the longest one
	var longest *pstate
	for _, p := range w.paths {
		if p.irr != "" && (wr.Irregular == "" || p.irr < wr.Irregular) {
			wr.Irregular = p.irr
		}
		if longest == nil || len(p.secs) > len(longest.secs) {
			longest = p
		}
	}
	var spawned []spawnRec
	seenSp := map[*ssa.Function]bool{}
	inl := map[string]bool{}
	if longest != nil {
		lm := modes(longest.secs)
		for _, s := range longest.secs {
			wr.Sections = append(wr.Sections, s.clone())
		}
		for _, p := range w.paths {
			pm := modes(p.secs)
			if !strings.HasPrefix(lm, pm) {
				if wr.Irregular == "" {
					wr.Irregular = fmt.Sprintf("control-flow paths disagree on the critical sections (%s vs %s)", lm, pm)
				}
				continue
			}
			for i, s := range p.secs {
				for k, v := range s.Acc {
					if old, ok := wr.Sections[i].Acc[k]; !ok || v < old {
						wr.Sections[i].Acc[k] = v
					}
				}
				for k := range s.Callees {
					wr.Sections[i].Callees[k] = true
				}
			}
			for k := range p.api {
				wr.APICalls[k] = true
			}
			for k := range p.inlined {
				inl[k] = true
			}
			for _, f := range p.spawns {
				if !seenSp[f.fn] {
					seenSp[f.fn] = true
					spawned = append(spawned, f)
				}
			}
		}
	}
	wr.Inlined = keys(inl)
	if len(wr.Sections) == 0 && wr.Irregular == "" {
		// takes no lock and touches nothing shared: one empty lock-free section
		wr.Sections = []*Section{{Mode: "N", Acc: map[accOut]string{}, Callees: map[string]bool{}}}
	}
	wr.Escapes = map[string]string{}
	for k, site := range fa.sum.RetLoc {
		if w.sharedRoot(k.Root) {
			if old, ok := wr.Escapes[k.Loc]; !ok || site < old {
				wr.Escapes[k.Loc] = site
			}
		}
	}
	for _, f := range spawned {
		wr.Spawns = append(wr.Spawns, fnName(f.fn))
	}
	sort.Strings(wr.Spawns)
	return wr, spawned
}
