package main

import (
	"fmt"
	"go/token"
	"go/types"
	"os"
	"sort"
	"strings"

	"golang.org/x/tools/go/ssa"
	"golang.org/x/tools/go/ssa/ssautil"
)

// Access kinds: 'r' plain read, 'w' plain write, 'R' synchronised read, 'W' synchronised write
// (sync.Map / sync/atomic / channel operation / access bracketed by a callee's own mutex).
type accKey struct {
	Kind byte
	Loc  string
	Root Tag
}

type Summary struct {
	Acc    map[accKey]string        // -> site of a representative instruction
	Ret    []Val                    // per result
	RetLoc map[retKey]string        // memory a returned value points to directly: (result, location, root) -> site
	EscFn  map[*ssa.Function]string // function values handed to code behind an interface -> site
	Cb     map[Tag]TagSet           // function-typed parameter / free variable that is invoked -> roots of the arguments it gets
	API    map[string]bool
	Spawns bool
}

func newSummary() *Summary {
	return &Summary{Acc: map[accKey]string{}, Cb: map[Tag]TagSet{}, API: map[string]bool{}, RetLoc: map[retKey]string{}, EscFn: map[*ssa.Function]string{}}
}

func (s *Summary) size() int {
	n := len(s.Acc) + len(s.API) + len(s.RetLoc) + len(s.EscFn)
	for _, r := range s.Ret {
		n += len(r[0]) + len(r[1]) + len(r[2])
	}
	for _, t := range s.Cb {
		n += 1 + len(t)
	}
	if s.Spawns {
		n++
	}
	return n
}

type retKey struct {
	Idx  int
	Loc  string
	Root Tag
}

type benignKey struct{ Fn, Loc, Via string }

type benignEntry struct {
	Key    benignKey
	Reason string
	Used   int
	Line   int
}

type accRec struct {
	Kind  byte
	Loc   string
	Roots []Tag
	Site  string
}

type cellInfo struct {
	escapes bool
	stores  []cellStore
}

type cellStore struct {
	g   *ssa.Function
	val ssa.Value
}

type Analyzer struct {
	prog        *ssa.Program
	sum         map[*ssa.Function]*Summary
	reach       map[*ssa.Function]bool
	order       []*ssa.Function
	closureSite map[*ssa.Function]*ssa.MakeClosure
	addrTaken   []*ssa.Function
	namedTypes  []types.Type
	implCache   map[string][]*ssa.Function
	benign      map[benignKey]*benignEntry
	record      map[*ssa.Function]bool
	frames      map[*ssa.Function]*funcAnalysis // current iteration
	final       map[*ssa.Function]*funcAnalysis // frames of the last iteration for recorded functions
	groupStores map[*ssa.Function][]storeRec
	cells       map[*ssa.Alloc]*cellInfo
	guardsOf    map[string]map[string]bool
	notes       map[string]bool
	excluded    map[string]bool
	syncedM     string
	helpers     []string
	wrapperSet  map[*ssa.Function]bool            // the exported API wrappers (never walked inline)
	lockish     map[*ssa.Function]bool            // functions that (transitively) operate e.m, or create / pass on a function that does
	modTaken    map[*ssa.Function]bool            // functions whose address is taken inside the module
	boundRecv   map[*ssa.Function]map[string]bool // bound method wrapper -> locations of the receivers bound to it
	exprFn      types.Type                        // govaluate.ExpressionFunction
	exprParams  types.Type                        // govaluate.Parameters
	rounds      int
}

type storeRec struct {
	g    *ssa.Function
	addr ssa.Value
	val  ssa.Value
	link []ssa.Value // for calls: the other arguments (may get linked into the object)
}

func newAnalyzer(prog *ssa.Program) *Analyzer {
	A := &Analyzer{prog: prog, sum: map[*ssa.Function]*Summary{}, reach: map[*ssa.Function]bool{},
		closureSite: map[*ssa.Function]*ssa.MakeClosure{}, implCache: map[string][]*ssa.Function{},
		benign: map[benignKey]*benignEntry{}, record: map[*ssa.Function]bool{}, groupStores: map[*ssa.Function][]storeRec{},
		guardsOf: map[string]map[string]bool{}, notes: map[string]bool{}, excluded: map[string]bool{},
		syncedM: "casbin.SyncedEnforcer.m", final: map[*ssa.Function]*funcAnalysis{}, cells: map[*ssa.Alloc]*cellInfo{},
		wrapperSet: map[*ssa.Function]bool{}, lockish: map[*ssa.Function]bool{}, modTaken: map[*ssa.Function]bool{},
		boundRecv: map[*ssa.Function]map[string]bool{}}
	taken := map[*ssa.Function]bool{}
	for fn := range ssautil.AllFunctions(prog) {
		if fn.Blocks == nil {
			continue
		}
		inMod := fn.Pkg != nil && isBuilt(fn.Pkg)
		for _, b := range fn.Blocks {
			for _, ins := range b.Instrs {
				if mc, ok := ins.(*ssa.MakeClosure); ok {
					if f, ok := mc.Fn.(*ssa.Function); ok {
						A.closureSite[f] = mc
						taken[f] = true
						if inMod {
							A.modTaken[f] = true
						}
						if strings.HasPrefix(f.Synthetic, "bound method wrapper") && len(mc.Bindings) == 1 {
							if A.boundRecv[f] == nil {
								A.boundRecv[f] = map[string]bool{}
							}
							A.boundRecv[f][locOf(mc.Bindings[0])] = true
						}
					}
					continue
				}
				var callee ssa.Value
				if ci, ok := ins.(ssa.CallInstruction); ok && !ci.Common().IsInvoke() {
					callee = ci.Common().Value
				}
				for _, op := range ins.Operands(nil) {
					if f, ok := (*op).(*ssa.Function); ok && f.Blocks != nil {
						if callee != nil && callee == ssa.Value(f) && !usedAsArg(ins, f) {
							continue
						}
						taken[f] = true
						if inMod {
							A.modTaken[f] = true
						}
					}
				}
			}
		}
	}
	for f := range taken {
		A.addrTaken = append(A.addrTaken, f)
	}
	sort.Slice(A.addrTaken, func(i, j int) bool { return A.addrTaken[i].String() < A.addrTaken[j].String() })
	for _, p := range prog.AllPackages() {
		if p.Pkg.Path() == "github.com/casbin/govaluate" {
			if o := p.Pkg.Scope().Lookup("ExpressionFunction"); o != nil {
				A.exprFn = o.Type()
			}
			if o := p.Pkg.Scope().Lookup("Parameters"); o != nil {
				A.exprParams = o.Type()
			}
		}
		if !isBuilt(p) {
			continue
		}
		for _, m := range p.Members {
			if t, ok := m.(*ssa.Type); ok {
				A.namedTypes = append(A.namedTypes, t.Type())
			}
		}
	}
	sort.Slice(A.namedTypes, func(i, j int) bool { return A.namedTypes[i].String() < A.namedTypes[j].String() })
	return A
}

func usedAsArg(ins ssa.Instruction, f *ssa.Function) bool {
	ci, ok := ins.(ssa.CallInstruction)
	if !ok {
		return false
	}
	for _, a := range ci.Common().Args {
		if a == ssa.Value(f) {
			return true
		}
	}
	return false
}

var builtPkgs = map[*ssa.Package]bool{}

func isBuilt(p *ssa.Package) bool { return builtPkgs[p] }

func (A *Analyzer) note(s string) { A.notes[s] = true }

func (A *Analyzer) sumAPI(f *ssa.Function) map[string]bool {
	if s := A.sum[f]; s != nil {
		return s.API
	}
	return nil
}

// computeLockish marks the functions the section walk has to look into: those whose summary says
// they may operate the SyncedEnforcer's mutex, and (to a fixpoint) those that create or mention a
// function value that does.
func (A *Analyzer) computeLockish() {
	A.lockish = map[*ssa.Function]bool{}
	for f, s := range A.sum {
		if s != nil && len(s.API) > 0 {
			A.lockish[f] = true
		}
	}
	refs := map[*ssa.Function][]*ssa.Function{}
	for _, f := range A.order {
		for _, b := range f.Blocks {
			for _, ins := range b.Instrs {
				if mc, ok := ins.(*ssa.MakeClosure); ok {
					if g, ok := mc.Fn.(*ssa.Function); ok {
						refs[f] = append(refs[f], g)
					}
					continue
				}
				var callee ssa.Value
				if ci, ok := ins.(ssa.CallInstruction); ok && !ci.Common().IsInvoke() {
					callee = ci.Common().Value
				}
				for _, op := range ins.Operands(nil) {
					if g, ok := (*op).(*ssa.Function); ok {
						if callee != nil && callee == ssa.Value(g) && !usedAsArg(ins, g) {
							continue
						}
						refs[f] = append(refs[f], g)
					}
				}
			}
		}
	}
	for changed := true; changed; {
		changed = false
		for f, gs := range refs {
			if A.lockish[f] {
				continue
			}
			for _, g := range gs {
				if A.lockish[g] {
					A.lockish[f] = true
					changed = true
					break
				}
			}
		}
	}
}

func (A *Analyzer) need(f *ssa.Function) {
	if f == nil || f.Blocks == nil || A.reach[f] {
		return
	}
	A.reach[f] = true
	A.order = append(A.order, f)
}

// run iterates the summaries to a fixpoint (the sets only grow).
func (A *Analyzer) run() {
	for it := 0; it < 80; it++ {
		A.rounds = it + 1
		A.frames = map[*ssa.Function]*funcAnalysis{}
		for _, e := range A.benign {
			e.Used = 0
		}
		changed := false
		for i := 0; i < len(A.order); i++ {
			f := A.order[i]
			fa := A.frame(f)
			fa.run()
			old := A.sum[f]
			if old == nil || old.size() != fa.sum.size() {
				changed = true
			}
			A.sum[f] = fa.sum
			if A.record[f] {
				A.final[f] = fa
			}
		}
		if !changed {
			return
		}
	}
	A.note("summary fixpoint not reached in 80 rounds")
}

type funcAnalysis struct {
	A        *Analyzer
	fn       *ssa.Function
	vals     map[ssa.Value]Val
	inprog   map[ssa.Value]bool
	cont     map[ssa.Value][2]TagSet
	contProg map[ssa.Value]bool
	sum      *Summary
	instrAcc map[ssa.Instruction][]accRec
	instrAPI map[ssa.Instruction][]string
	spawned  map[ssa.Instruction]*ssa.Function
	held     map[ssa.Instruction]map[string]byte
	cur      ssa.Instruction
	ran      bool
}

func (A *Analyzer) frame(f *ssa.Function) *funcAnalysis {
	if fa, ok := A.frames[f]; ok {
		return fa
	}
	fa := &funcAnalysis{A: A, fn: f, vals: map[ssa.Value]Val{}, inprog: map[ssa.Value]bool{},
		cont: map[ssa.Value][2]TagSet{}, contProg: map[ssa.Value]bool{}, sum: newSummary(),
		instrAcc: map[ssa.Instruction][]accRec{}, instrAPI: map[ssa.Instruction][]string{}, spawned: map[ssa.Instruction]*ssa.Function{}}
	A.frames[f] = fa
	return fa
}

func (fa *funcAnalysis) site(ins ssa.Instruction) string {
	if ins != nil && ins.Pos() != token.NoPos {
		p := fa.A.prog.Fset.Position(ins.Pos())
		fn := p.Filename
		if i := strings.LastIndex(fn, "/"); i >= 0 {
			j := strings.LastIndex(fn[:i], "/")
			fn = fn[j+1:]
		}
		return fmt.Sprintf("%s:%d (%s)", fn, p.Line, fnName(fa.fn))
	}
	return fnName(fa.fn)
}

// ---------------------------------------------------------------- roots of values

func (fa *funcAnalysis) D(v ssa.Value) Val {
	if v == nil {
		return newVal()
	}
	if d, ok := fa.vals[v]; ok {
		return d
	}
	if fa.inprog[v] {
		return newVal()
	}
	fa.inprog[v] = true
	d := fa.d1(v)
	delete(fa.inprog, v)
	fa.vals[v] = d
	return d
}

func (fa *funcAnalysis) O(v ssa.Value) TagSet { return fa.D(v)[0] }

func (fa *funcAnalysis) All(v ssa.Value) TagSet { return fa.D(v).all() }

func (fa *funcAnalysis) d1(v ssa.Value) Val {
	if !hasPointers(v.Type()) {
		return newVal()
	}
	switch x := v.(type) {
	case *ssa.Parameter:
		for i, p := range fa.fn.Params {
			if p == x {
				return rootVal(tParam, i)
			}
		}
		return sharedVal
	case *ssa.FreeVar:
		for i, p := range fa.fn.FreeVars {
			if p == x {
				return rootVal(tFree, i)
			}
		}
		return sharedVal
	case *ssa.Global:
		return sharedVal
	case *ssa.Const, *ssa.Function, *ssa.Builtin:
		return newVal()
	case *ssa.Alloc, *ssa.MakeMap, *ssa.MakeSlice, *ssa.MakeChan:
		c := fa.contents(v)
		return Val{TagSet{tagLoc: true}, c[0], c[1]}
	case *ssa.MakeClosure:
		r := Val{TagSet{tagLoc: true}, TagSet{}, TagSet{}}
		for _, b := range x.Bindings {
			d := fa.D(b)
			r[1].addAll(d[0])
			r[2].addAll(d[1])
			r[2].addAll(d[2])
		}
		return r
	case *ssa.MakeInterface:
		return fa.D(x.X)
	case *ssa.ChangeType:
		return fa.D(x.X)
	case *ssa.ChangeInterface:
		return fa.D(x.X)
	case *ssa.Convert:
		return fa.D(x.X)
	case *ssa.SliceToArrayPointer:
		return fa.D(x.X)
	case *ssa.TypeAssert:
		return fa.D(x.X)
	case *ssa.Slice:
		return fa.D(x.X)
	case *ssa.FieldAddr:
		return fa.D(x.X)
	case *ssa.IndexAddr:
		return fa.D(x.X)
	case *ssa.Field:
		return fa.D(x.X)
	case *ssa.Index:
		return fa.D(x.X)
	case *ssa.Lookup:
		return fa.D(x.X).shift()
	case *ssa.UnOp:
		if x.Op == token.MUL {
			return fa.D(x.X).shift()
		}
		if x.Op == token.ARROW {
			return flat(fa.All(x.X))
		}
		return newVal()
	case *ssa.BinOp:
		return newVal()
	case *ssa.Phi:
		r := newVal()
		for _, e := range x.Edges {
			r.addVal(fa.D(e))
		}
		return r
	case *ssa.Extract:
		if c, ok := x.Tuple.(*ssa.Call); ok {
			rs := fa.callResults(c)
			if x.Index < len(rs) {
				return fa.withStores(x, rs[x.Index])
			}
		}
		return fa.D(x.Tuple)
	case *ssa.Next:
		if r, ok := x.Iter.(*ssa.Range); ok {
			return fa.D(r.X).shift()
		}
		return sharedVal
	case *ssa.Range:
		return fa.D(x.X)
	case *ssa.Select:
		u := TagSet{}
		for _, st := range x.States {
			u.addAll(fa.All(st.Chan))
		}
		return flat(u)
	case *ssa.Call:
		r := newVal()
		for _, x := range fa.callResults(x) {
			r.addVal(x)
		}
		return fa.withStores(v, r)
	}
	return sharedVal
}

// withStores adds, for a fresh object returned by a callee, what this frame stores into it.
func (fa *funcAnalysis) withStores(v ssa.Value, r Val) Val {
	if r[0][tagLoc] {
		c := fa.contents(v)
		r = Val{r[0], union(r[1], c[0]), union(r[2], c[1])}
	}
	return r
}

// ---------------------------------------------------------------- contents of local objects

func outermost(f *ssa.Function) *ssa.Function {
	for f.Parent() != nil {
		f = f.Parent()
	}
	return f
}

func collectGroup(f *ssa.Function, out *[]*ssa.Function) {
	*out = append(*out, f)
	for _, a := range f.AnonFuncs {
		collectGroup(a, out)
	}
}

func (A *Analyzer) stores(root *ssa.Function) []storeRec {
	if r, ok := A.groupStores[root]; ok {
		return r
	}
	var fns []*ssa.Function
	collectGroup(root, &fns)
	var recs []storeRec
	for _, g := range fns {
		for _, b := range g.Blocks {
			for _, ins := range b.Instrs {
				switch x := ins.(type) {
				case *ssa.Store:
					if hasPointers(x.Val.Type()) {
						recs = append(recs, storeRec{g: g, addr: x.Addr, val: x.Val})
					}
				case *ssa.MapUpdate:
					if hasPointers(x.Value.Type()) {
						recs = append(recs, storeRec{g: g, addr: x.Map, val: x.Value})
					}
					if hasPointers(x.Key.Type()) {
						recs = append(recs, storeRec{g: g, addr: x.Map, val: x.Key})
					}
				case *ssa.Send:
					if hasPointers(x.X.Type()) {
						recs = append(recs, storeRec{g: g, addr: x.Chan, val: x.X})
					}
				case ssa.CallInstruction:
					cc := x.Common()
					all := append([]ssa.Value{}, cc.Args...)
					if cc.IsInvoke() {
						all = append(all, cc.Value)
					}
					for i, a := range all {
						if !hasPointers(a.Type()) {
							continue
						}
						var others []ssa.Value
						for j, o := range all {
							if j != i && hasPointers(o.Type()) {
								others = append(others, o)
							}
						}
						if len(others) > 0 {
							recs = append(recs, storeRec{g: g, addr: a, link: others})
						}
					}
				}
			}
		}
	}
	A.groupStores[root] = recs
	return recs
}

// resolveCell follows a free variable to the local variable cell it captures.
func (A *Analyzer) resolveCell(v ssa.Value) *ssa.Alloc {
	for i := 0; i < 20; i++ {
		switch x := v.(type) {
		case *ssa.Alloc:
			return x
		case *ssa.FreeVar:
			fn := x.Parent()
			mc := A.closureSite[fn]
			if mc == nil {
				return nil
			}
			found := false
			for k, fv := range fn.FreeVars {
				if fv == x && k < len(mc.Bindings) {
					v = mc.Bindings[k]
					found = true
				}
			}
			if !found {
				return nil
			}
		default:
			return nil
		}
	}
	return nil
}

// cell describes a local variable cell: the values stored straight into it, and whether its
// address is used for anything but loads, direct stores and closure capture.
func (A *Analyzer) cell(a *ssa.Alloc) *cellInfo {
	if ci, ok := A.cells[a]; ok {
		return ci
	}
	ci := &cellInfo{}
	A.cells[a] = ci
	var visit func(v ssa.Value, g *ssa.Function)
	visit = func(v ssa.Value, g *ssa.Function) {
		refs := v.Referrers()
		if refs == nil {
			ci.escapes = true
			return
		}
		for _, r := range *refs {
			switch x := r.(type) {
			case *ssa.Store:
				if x.Addr == v && x.Val != v {
					ci.stores = append(ci.stores, cellStore{g, x.Val})
				} else {
					ci.escapes = true
				}
			case *ssa.UnOp:
			case *ssa.DebugRef:
			case *ssa.MakeClosure:
				f := x.Fn.(*ssa.Function)
				for k, b := range x.Bindings {
					if b == v && k < len(f.FreeVars) {
						visit(f.FreeVars[k], f)
					}
				}
			default:
				ci.escapes = true
			}
		}
	}
	visit(a, a.Parent())
	return ci
}

// baseSites walks an address back to the local allocation sites it may lie in.  Level 1: the
// site's own memory; level 2: reached through a pointer loaded from the site (collapsed).
func (A *Analyzer) baseSites(g *ssa.Function, v ssa.Value, lvl int, seen map[ssa.Value]int, out map[ssa.Value]int) {
	if v == nil || seen[v] >= lvl {
		return
	}
	seen[v] = lvl
	switch x := v.(type) {
	case *ssa.Alloc, *ssa.MakeMap, *ssa.MakeSlice, *ssa.MakeChan, *ssa.Call:
		if out[v] < lvl {
			out[v] = lvl
		}
	case *ssa.Extract:
		if _, ok := x.Tuple.(*ssa.Call); ok {
			if out[v] < lvl {
				out[v] = lvl
			}
			return
		}
		A.baseSites(g, x.Tuple, lvl, seen, out)
	case *ssa.FieldAddr:
		A.baseSites(g, x.X, lvl, seen, out)
	case *ssa.IndexAddr:
		A.baseSites(g, x.X, lvl, seen, out)
	case *ssa.Slice:
		A.baseSites(g, x.X, lvl, seen, out)
	case *ssa.ChangeType:
		A.baseSites(g, x.X, lvl, seen, out)
	case *ssa.Convert:
		A.baseSites(g, x.X, lvl, seen, out)
	case *ssa.MakeInterface:
		A.baseSites(g, x.X, lvl, seen, out)
	case *ssa.TypeAssert:
		A.baseSites(g, x.X, lvl, seen, out)
	case *ssa.Field:
		A.baseSites(g, x.X, 2, seen, out)
	case *ssa.Index:
		A.baseSites(g, x.X, 2, seen, out)
	case *ssa.Lookup:
		A.baseSites(g, x.X, 2, seen, out)
	case *ssa.UnOp:
		if x.Op == token.MUL {
			if c := A.resolveCell(x.X); c != nil {
				if ci := A.cell(c); !ci.escapes {
					for _, st := range ci.stores {
						A.baseSites(st.g, st.val, lvl, seen, out)
					}
					return
				}
			}
			A.baseSites(g, x.X, 2, seen, out)
		}
	case *ssa.Next:
		if r, ok := x.Iter.(*ssa.Range); ok {
			A.baseSites(g, r.X, 2, seen, out)
		}
	case *ssa.Phi:
		for _, e := range x.Edges {
			A.baseSites(g, e, lvl, seen, out)
		}
	case *ssa.FreeVar:
		fn := x.Parent()
		if mc := A.closureSite[fn]; mc != nil {
			for i, fv := range fn.FreeVars {
				if fv == x && i < len(mc.Bindings) {
					A.baseSites(mc.Parent(), mc.Bindings[i], lvl, seen, out)
				}
			}
		}
	}
}

func (fa *funcAnalysis) contents(site ssa.Value) [2]TagSet {
	if c, ok := fa.cont[site]; ok {
		return c
	}
	if fa.contProg[site] {
		return [2]TagSet{{}, {}}
	}
	fa.contProg[site] = true
	res := [2]TagSet{{}, {}}
	for _, rec := range fa.A.stores(outermost(fa.fn)) {
		sites := map[ssa.Value]int{}
		fa.A.baseSites(rec.g, rec.addr, 1, map[ssa.Value]int{}, sites)
		lvl := sites[site]
		if lvl == 0 {
			continue
		}
		gfa := fa.A.frame(rec.g)
		if rec.val != nil {
			dv := fa.A.lift(rec.g, fa.fn, gfa.D(rec.val))
			if lvl == 1 {
				res[0].addAll(dv[0])
				res[1].addAll(dv[1])
				res[1].addAll(dv[2])
			} else {
				u := dv.all()
				res[0].addAll(u)
				res[1].addAll(u)
			}
		}
		for _, o := range rec.link {
			u := fa.A.lift(rec.g, fa.fn, gfa.D(o)).all().nonLocal()
			res[0].addAll(u)
			res[1].addAll(u)
		}
	}
	delete(fa.contProg, site)
	fa.cont[site] = res
	return res
}

// lift translates a value of frame g into the frame of its lexical ancestor f.
func (A *Analyzer) lift(g, f *ssa.Function, d Val) Val {
	if g == f {
		return d
	}
	res := newVal()
	for lv := 0; lv < 3; lv++ {
		for t := range d[lv] {
			switch t.K {
			case tLoc:
				res[lv][tagLoc] = true
			case tShared, tParam, tVia:
				res[lv][tagShared] = true
			case tFree:
				mc := A.closureSite[g]
				if mc == nil || g.Parent() == nil || t.I >= len(mc.Bindings) {
					res[lv][tagShared] = true
					continue
				}
				p := g.Parent()
				up := A.lift(p, f, A.frame(p).D(mc.Bindings[t.I]))
				res[lv].addAll(up[t.D])
			}
		}
	}
	return res
}

// ---------------------------------------------------------------- calls

type target struct {
	fn    *ssa.Function
	pmap  []Val       // roots for each parameter
	fmap  []Val       // roots for each free variable (nil: escaped closure => shared)
	argv  []ssa.Value // actual parameter values when known
	bindv []ssa.Value // actual bindings when known
}

var capturedVia = Tag{K: tVia, S: "captured"}

func (t *target) mapTag(tag Tag) TagSet {
	switch tag.K {
	case tLoc:
		return TagSet{tagLoc: true}
	case tShared:
		return TagSet{tagShared: true}
	case tParam:
		if tag.I < len(t.pmap) {
			return t.pmap[tag.I][tag.D]
		}
		return TagSet{tagShared: true}
	case tFree:
		if t.fmap != nil && tag.I < len(t.fmap) {
			return t.fmap[tag.I][tag.D]
		}
		return TagSet{tagShared: true, capturedVia: true}
	}
	return TagSet{}
}

func (t *target) mapSet(s TagSet) TagSet {
	r := TagSet{}
	for tag := range s {
		r.addAll(t.mapTag(tag))
	}
	return r
}

func (t *target) mapVal(v Val) Val {
	return Val{t.mapSet(v[0]), t.mapSet(v[1]), t.mapSet(v[2])}
}

func (A *Analyzer) isMock(t types.Type) bool {
	n, ok := t.(*types.Named)
	if !ok {
		return false
	}
	if n.Obj().Pkg() != nil && strings.HasSuffix(n.Obj().Pkg().Path(), "/mocks") {
		return true
	}
	return strings.HasSuffix(n.Obj().Name(), "Mock")
}

func (A *Analyzer) impls(iface types.Type, pkg *types.Package, method string) []*ssa.Function {
	key := iface.String() + "#" + method
	if r, ok := A.implCache[key]; ok {
		return r
	}
	it, ok := iface.Underlying().(*types.Interface)
	var res []*ssa.Function
	if ok {
		for _, T := range A.namedTypes {
			if _, isI := T.Underlying().(*types.Interface); isI {
				continue
			}
			pt := types.NewPointer(T)
			if !types.Implements(pt, it) {
				continue
			}
			if A.isMock(T) {
				A.excluded[typeName(T)] = true
				continue
			}
			sel := A.prog.MethodSets.MethodSet(pt).Lookup(pkg, method)
			if sel == nil {
				continue
			}
			if f := A.prog.MethodValue(sel); f != nil && f.Blocks != nil {
				res = append(res, f)
			}
		}
	}
	A.implCache[key] = res
	return res
}

var curFn string
var debugSig = map[string]bool{}

func (A *Analyzer) bySig(t types.Type) []*ssa.Function {
	if os.Getenv("TR_DEBUG") != "" && !debugSig[t.String()+curFn] {
		debugSig[t.String()+curFn] = true
		fmt.Fprintln(os.Stderr, "bySig", t.String(), "in", curFn)
	}
	sig, ok := t.Underlying().(*types.Signature)
	if !ok {
		return nil
	}
	var res []*ssa.Function
	for _, f := range A.addrTaken {
		if types.Identical(f.Signature, sig) {
			res = append(res, f)
		}
	}
	return res
}

func (fa *funcAnalysis) paramVals(args []ssa.Value) []Val {
	r := make([]Val, len(args))
	for i, a := range args {
		r[i] = fa.D(a)
	}
	return r
}

func uniform(n int, tags TagSet) []Val {
	r := make([]Val, n)
	for i := range r {
		r[i] = flat(tags)
	}
	return r
}

// funcSources classifies where a function value comes from.
func (fa *funcAnalysis) funcSources(v ssa.Value, seen map[ssa.Value]bool, out *[]ssa.Value) {
	if seen[v] {
		return
	}
	seen[v] = true
	cellStores := func(a *ssa.Alloc) bool {
		ci := fa.A.cell(a)
		if ci.escapes || a.Parent() != fa.fn {
			return false
		}
		for _, st := range ci.stores {
			if st.g != fa.fn {
				return false
			}
		}
		for _, st := range ci.stores {
			fa.funcSources(st.val, seen, out)
		}
		return true
	}
	switch x := v.(type) {
	case *ssa.Phi:
		for _, e := range x.Edges {
			fa.funcSources(e, seen, out)
		}
	case *ssa.ChangeType:
		fa.funcSources(x.X, seen, out)
	case *ssa.Alloc:
		if !cellStores(x) {
			*out = append(*out, v)
		}
	case *ssa.UnOp:
		if x.Op == token.MUL {
			switch c := x.X.(type) {
			case *ssa.Alloc:
				if cellStores(c) {
					return
				}
			case *ssa.FreeVar:
				*out = append(*out, c)
				return
			}
		}
		*out = append(*out, v)
	default:
		*out = append(*out, v)
	}
}

func (fa *funcAnalysis) addCb(k Tag, tags TagSet) {
	k.D = 0
	if fa.sum.Cb[k] == nil {
		fa.sum.Cb[k] = TagSet{}
	}
	fa.sum.Cb[k].addAll(tags)
}

// targetsOfValue resolves a call through a function value.
func (fa *funcAnalysis) targetsOfValue(val ssa.Value, pm []Val, argv []ssa.Value, cbTags TagSet) []*target {
	var srcs []ssa.Value
	fa.funcSources(val, map[ssa.Value]bool{}, &srcs)
	var ts []*target
	mk := func(f *ssa.Function) *target {
		p := pm
		if p == nil {
			p = uniform(len(f.Params), cbTags)
		}
		return &target{fn: f, pmap: p, argv: argv}
	}
	for _, s := range srcs {
		switch x := s.(type) {
		case *ssa.Function:
			if x.Blocks != nil {
				ts = append(ts, mk(x))
			}
		case *ssa.MakeClosure:
			f := x.Fn.(*ssa.Function)
			t := mk(f)
			t.bindv = x.Bindings
			t.fmap = fa.paramVals(x.Bindings)
			ts = append(ts, t)
		case *ssa.Parameter:
			for i, p := range fa.fn.Params {
				if p == x {
					fa.addCb(Tag{K: tParam, I: i}, cbTags)
				}
			}
		case *ssa.FreeVar:
			for i, p := range fa.fn.FreeVars {
				if p == x {
					fa.addCb(Tag{K: tFree, I: i}, cbTags)
				}
			}
		case *ssa.Const:
		default:
			ty := s.Type()
			if p, ok := ty.Underlying().(*types.Pointer); ok {
				ty = p.Elem()
			}
			for _, f := range fa.A.bySig(ty) {
				ts = append(ts, mk(f))
			}
		}
	}
	return ts
}

func (fa *funcAnalysis) allArgTags(cc *ssa.CallCommon) TagSet {
	u := TagSet{}
	for _, a := range cc.Args {
		u.addAll(fa.All(a))
	}
	if cc.IsInvoke() {
		u.addAll(fa.All(cc.Value))
	}
	return u
}

// resolve returns the analysed targets of a call, or the opaque callee / builtin.
func (fa *funcAnalysis) resolve(cc *ssa.CallCommon) (ts []*target, opaque *ssa.Function, bi *ssa.Builtin) {
	if cc.IsInvoke() {
		all := append([]ssa.Value{cc.Value}, cc.Args...)
		pm := fa.paramVals(all)
		for _, f := range fa.A.impls(cc.Value.Type(), cc.Method.Pkg(), cc.Method.Name()) {
			ts = append(ts, &target{fn: f, pmap: pm, argv: all})
		}
		return
	}
	switch v := cc.Value.(type) {
	case *ssa.Builtin:
		return nil, nil, v
	case *ssa.Function:
		if v.Blocks == nil {
			return nil, v, nil
		}
		return []*target{{fn: v, pmap: fa.paramVals(cc.Args), argv: cc.Args}}, nil, nil
	}
	return fa.targetsOfValue(cc.Value, fa.paramVals(cc.Args), cc.Args, fa.allArgTags(cc)), nil, nil
}

var containerTypes = map[string]bool{"sync.Map": true, "list.List": true, "list.Element": true, "atomic.Value": true, "sync.Pool": true, "ring.Ring": true}

func recvTypeName(f *ssa.Function) string {
	if f.Signature.Recv() == nil {
		return ""
	}
	return typeName(f.Signature.Recv().Type())
}

func (fa *funcAnalysis) callResults(call *ssa.Call) []Val {
	n := 1
	if tup, ok := call.Type().(*types.Tuple); ok {
		n = tup.Len()
	}
	one := func(v Val) []Val {
		r := make([]Val, n)
		for i := range r {
			r[i] = v
		}
		return r
	}
	cc := call.Common()
	ts, opaque, bi := fa.resolve(cc)
	fresh := Val{TagSet{tagLoc: true}, TagSet{}, TagSet{}}
	if bi != nil || opaque != nil || len(ts) == 0 {
		return one(fa.callResult1(cc, ts, opaque, bi))
	}
	_ = fresh
	rs := make([]Val, n)
	for i := range rs {
		rs[i] = newVal()
	}
	for _, t := range ts {
		fa.A.need(t.fn)
		s := fa.A.sum[t.fn]
		if s == nil {
			continue
		}
		for i := 0; i < n && i < len(s.Ret); i++ {
			rs[i].addVal(t.mapVal(s.Ret[i]))
		}
	}
	name := ""
	if cc.IsInvoke() {
		name = typeName(cc.Value.Type()) + "." + cc.Method.Name()
	} else if len(ts) == 1 {
		name = fnName(ts[0].fn)
	} else {
		name = "dynamic"
	}
	via := Tag{K: tVia, S: name}
	for k := range rs {
		for i := 0; i < 3; i++ {
			delete(rs[k][i], capturedVia)
		}
		if len(rs[k].all().nonLocal()) > 0 {
			for i := 0; i < 3; i++ {
				rs[k][i] = union(rs[k][i], TagSet{via: true})
			}
		}
	}
	return rs
}

func (fa *funcAnalysis) callResult1(cc *ssa.CallCommon, ts []*target, opaque *ssa.Function, bi *ssa.Builtin) Val {
	fresh := Val{TagSet{tagLoc: true}, TagSet{}, TagSet{}}
	if bi != nil {
		if bi.Name() == "append" {
			s := fa.D(cc.Args[0])
			r := Val{union(s[0], TagSet{tagLoc: true}), union(s[1], nil), union(s[2], nil)}
			if len(cc.Args) > 1 {
				x := fa.D(cc.Args[1])
				r[1].addAll(x[1])
				r[2].addAll(x[2])
			}
			return r
		}
		return fresh
	}
	if opaque != nil {
		if containerTypes[recvTypeName(opaque)] && len(cc.Args) > 0 {
			return flat(fa.All(cc.Args[0]))
		}
		return fresh
	}
	if len(ts) == 0 {
		// user-supplied implementation behind an interface: result assumed fresh; a call through
		// a function value we cannot resolve: unknown
		if !cc.IsInvoke() {
			return sharedVal
		}
		return fresh
	}
	return fresh
}

// ---------------------------------------------------------------- accesses

func (fa *funcAnalysis) access(kind byte, loc string, roots TagSet, site string) {
	real := roots.realRoots()
	if len(real) == 0 {
		return
	}
	if loc == fa.A.syncedM || strings.HasPrefix(loc, "sync.") {
		return
	}
	for _, via := range roots.vias() {
		if e := fa.A.benign[benignKey{fnName(fa.fn), loc, via}]; e != nil {
			e.Used++
			return
		}
	}
	if kind == 'r' || kind == 'w' {
		if h := fa.held[fa.cur]; len(h) > 0 {
			var ws, rs []string
			for m, mode := range h {
				if mode == 'W' {
					ws = append(ws, m)
				} else {
					rs = append(rs, m)
				}
			}
			sort.Strings(ws)
			sort.Strings(rs)
			g := ""
			if len(ws) > 0 {
				g = ws[0]
			} else if kind == 'r' {
				g = rs[0]
			}
			if g != "" {
				if kind == 'r' {
					kind = 'R'
				} else {
					kind = 'W'
				}
				if fa.A.guardsOf[loc] == nil {
					fa.A.guardsOf[loc] = map[string]bool{}
				}
				fa.A.guardsOf[loc][g] = true
			}
		}
	}
	if dl := os.Getenv("TR_DEBUG_LOC"); dl != "" && dl == loc {
		fmt.Fprintf(os.Stderr, "access %c %s in %s roots %v site %s\n", kind, loc, fnName(fa.fn), roots, site)
	}
	sort.Slice(real, func(i, j int) bool {
		if real[i].K != real[j].K {
			return real[i].K < real[j].K
		}
		if real[i].I != real[j].I {
			return real[i].I < real[j].I
		}
		return real[i].D < real[j].D
	})
	for _, r := range real {
		k := accKey{kind, loc, r}
		if old, ok := fa.sum.Acc[k]; !ok || site < old {
			fa.sum.Acc[k] = site
		}
	}
	if fa.A.record[fa.fn] {
		fa.instrAcc[fa.cur] = append(fa.instrAcc[fa.cur], accRec{kind, loc, real, site})
	}
}

func (fa *funcAnalysis) apply(t *target) {
	fa.A.need(t.fn)
	s := fa.A.sum[t.fn]
	if s == nil {
		return
	}
	for k, site := range s.Acc {
		fa.access(k.Kind, k.Loc, t.mapTag(k.Root), site)
	}
	for src, argTags := range s.Cb {
		mapped := t.mapSet(argTags)
		delete(mapped, capturedVia)
		var val ssa.Value
		if src.K == tParam && src.I < len(t.argv) {
			val = t.argv[src.I]
		} else if src.K == tFree && src.I < len(t.bindv) {
			val = t.bindv[src.I]
		}
		if val == nil {
			// the callable is not visible here: every address-taken function of that signature
			var ty types.Type
			if src.K == tParam && src.I < len(t.fn.Params) {
				ty = t.fn.Params[src.I].Type()
			} else if src.K == tFree && src.I < len(t.fn.FreeVars) {
				ty = t.fn.FreeVars[src.I].Type()
			}
			if ty != nil {
				if p, ok := ty.Underlying().(*types.Pointer); ok {
					ty = p.Elem()
				}
				for _, f := range fa.A.bySig(ty) {
					fa.apply(&target{fn: f, pmap: uniform(len(f.Params), mapped)})
				}
			}
			continue
		}
		for _, ct := range fa.targetsOfValue(val, nil, nil, mapped) {
			fa.apply(ct)
		}
	}
	for a := range s.API {
		fa.sum.API[a] = true
		if fa.A.record[fa.fn] {
			fa.instrAPI[fa.cur] = append(fa.instrAPI[fa.cur], a)
		}
	}
	if s.Spawns {
		fa.sum.Spawns = true
	}
	for f, site := range s.EscFn {
		if old, ok := fa.sum.EscFn[f]; !ok || site < old {
			fa.sum.EscFn[f] = site
		}
	}
}

var threadSafeRecv = map[string]bool{"regexp.Regexp": true, "os.File": true, "log.Logger": true, "time.Ticker": true, "time.Timer": true,
	"sync.WaitGroup": true, "sync.Once": true, "sync.Pool": true, "sync.Cond": true, "reflect.Value": true, "time.Location": true}

func (fa *funcAnalysis) opaqueCall(f *ssa.Function, cc *ssa.CallCommon, ins ssa.Instruction) {
	pkg := ""
	if f.Pkg != nil {
		pkg = f.Pkg.Pkg.Path()
	}
	recv := recvTypeName(f)
	name := f.Name()
	site := fa.site(ins)
	switch {
	case recv == "sync.Mutex" || recv == "sync.RWMutex":
		if len(cc.Args) > 0 {
			switch r := cc.Args[0].(type) {
			case *ssa.Parameter:
				// a mutex handed in by the caller: which one is known only at the call site
				// (the section walk resolves it; until then: may be the SyncedEnforcer's)
				fa.sum.API["<lock ?>"] = true
			case *ssa.FreeVar:
				// the receiver of a bound method value (e.m.RUnlock used as a func())
				for l := range fa.A.boundRecv[fa.fn] {
					if l == fa.A.syncedM || l == "sync.RWMutex" || l == "sync.Mutex" {
						fa.sum.API["<lock e.m>"] = true
					}
				}
				_ = r
			default:
				if locOf(cc.Args[0]) == fa.A.syncedM {
					fa.sum.API["<lock e.m>"] = true
				}
			}
		}
		return
	case recv == "sync.Map":
		k := byte('W')
		if name == "Load" || name == "Range" {
			k = 'R'
		}
		fa.access(k, locOf(cc.Args[0])+"{}", fa.O(cc.Args[0]), site)
	case pkg == "sync/atomic":
		k := byte('W')
		if strings.HasPrefix(name, "Load") {
			k = 'R'
		}
		if len(cc.Args) > 0 {
			fa.access(k, locOf(cc.Args[0]), fa.O(cc.Args[0]), site)
		}
	case pkg == "sort" && recv == "" && len(cc.Args) > 0:
		d := fa.D(cc.Args[0])
		fa.access('w', withElems(locOf(cc.Args[0])), union(d[0], d[1]), site)
	case pkg == "github.com/casbin/govaluate":
		// opaque by decision (see the header of main.go): evaluating / compiling an expression is assumed not to
		// write to the compiled expression; the functions and parameters it was given are
		// invoked from here
		tags := union(fa.allArgTags(cc), TagSet{tagShared: true})
		if fa.A.exprFn != nil {
			for _, g := range fa.A.bySig(fa.A.exprFn) {
				fa.apply(&target{fn: g, pmap: uniform(len(g.Params), tags)})
			}
		}
		if fa.A.exprParams != nil {
			for _, g := range fa.A.impls(fa.A.exprParams, nil, "Get") {
				fa.apply(&target{fn: g, pmap: uniform(len(g.Params), tags)})
			}
		}
	case recv != "" && !threadSafeRecv[recv] && len(cc.Args) > 0:
		if _, isPtr := f.Signature.Recv().Type().(*types.Pointer); isPtr {
			fa.access('w', locOf(cc.Args[0]), fa.O(cc.Args[0]), site)
		}
	}
	// callbacks handed to code we cannot see are assumed to be invoked there
	var tags TagSet
	for _, a := range cc.Args {
		if _, ok := a.Type().Underlying().(*types.Signature); ok {
			if tags == nil {
				tags = fa.allArgTags(cc)
			}
			for _, t := range fa.targetsOfValue(a, nil, nil, tags) {
				fa.apply(t)
			}
		}
	}
}

func (fa *funcAnalysis) builtinCall(b *ssa.Builtin, cc *ssa.CallCommon, ins ssa.Instruction) {
	site := fa.site(ins)
	isMap := func(v ssa.Value) bool { _, ok := v.Type().Underlying().(*types.Map); return ok }
	isSlice := func(v ssa.Value) bool { _, ok := v.Type().Underlying().(*types.Slice); return ok }
	switch b.Name() {
	case "append":
		fa.access('w', withElems(locOf(cc.Args[0])), fa.O(cc.Args[0]), site)
		if len(cc.Args) > 1 && isSlice(cc.Args[1]) {
			fa.access('r', withElems(locOf(cc.Args[1])), fa.O(cc.Args[1]), site)
		}
	case "copy":
		fa.access('w', withElems(locOf(cc.Args[0])), fa.O(cc.Args[0]), site)
		if isSlice(cc.Args[1]) {
			fa.access('r', withElems(locOf(cc.Args[1])), fa.O(cc.Args[1]), site)
		}
	case "delete":
		fa.access('w', withElems(locOf(cc.Args[0])), fa.O(cc.Args[0]), site)
	case "len", "cap":
		if isMap(cc.Args[0]) {
			fa.access('r', withElems(locOf(cc.Args[0])), fa.O(cc.Args[0]), site)
		}
	case "clear":
		fa.access('w', withElems(locOf(cc.Args[0])), fa.O(cc.Args[0]), site)
	}
}

// escaping records the function values a call hands to an implementation behind an interface:
// interfaces are open, the receiver may be user code that keeps the function and calls it at any
// time from any goroutine (persist.Watcher.SetUpdateCallback is the case in point).
func (fa *funcAnalysis) escaping(cc *ssa.CallCommon, ins ssa.Instruction) {
	if !cc.IsInvoke() {
		return
	}
	for _, a := range cc.Args {
		if _, ok := a.Type().Underlying().(*types.Signature); !ok {
			continue
		}
		var srcs []ssa.Value
		fa.funcSources(a, map[ssa.Value]bool{}, &srcs)
		for _, s := range srcs {
			var f *ssa.Function
			switch x := s.(type) {
			case *ssa.MakeClosure:
				f = x.Fn.(*ssa.Function)
			case *ssa.Function:
				f = x
			}
			if f != nil && f.Blocks != nil {
				site := fa.site(ins)
				if old, ok := fa.sum.EscFn[f]; !ok || site < old {
					fa.sum.EscFn[f] = site
				}
			}
		}
	}
}

func (fa *funcAnalysis) call(cc *ssa.CallCommon, ins ssa.Instruction) {
	fa.escaping(cc, ins)
	ts, opaque, bi := fa.resolve(cc)
	if bi != nil {
		fa.builtinCall(bi, cc, ins)
		return
	}
	if opaque != nil {
		fa.opaqueCall(opaque, cc, ins)
		return
	}
	for _, t := range ts {
		fa.apply(t)
	}
}

// ---------------------------------------------------------------- mutexes held inside callees

func (fa *funcAnalysis) mutexOp(ins ssa.Instruction) (loc string, op string) {
	c, ok := ins.(*ssa.Call)
	if !ok {
		return "", ""
	}
	f := c.Common().StaticCallee()
	if f == nil || len(c.Common().Args) == 0 {
		return "", ""
	}
	r := recvTypeName(f)
	if r != "sync.Mutex" && r != "sync.RWMutex" {
		return "", ""
	}
	l := locOf(c.Common().Args[0])
	if l == fa.A.syncedM {
		return "", ""
	}
	return l, f.Name()
}

func (fa *funcAnalysis) computeHeld() {
	fa.held = map[ssa.Instruction]map[string]byte{}
	any := false
	for _, b := range fa.fn.Blocks {
		for _, ins := range b.Instrs {
			if l, _ := fa.mutexOp(ins); l != "" {
				any = true
			}
		}
	}
	if !any {
		return
	}
	in := map[*ssa.BasicBlock]map[string]byte{}
	out := map[*ssa.BasicBlock]map[string]byte{}
	transfer := func(b *ssa.BasicBlock, st map[string]byte, rec bool) map[string]byte {
		cur := map[string]byte{}
		for k, v := range st {
			cur[k] = v
		}
		for _, ins := range b.Instrs {
			if rec {
				cp := map[string]byte{}
				for k, v := range cur {
					cp[k] = v
				}
				fa.held[ins] = cp
			}
			l, op := fa.mutexOp(ins)
			switch op {
			case "Lock":
				cur[l] = 'W'
			case "RLock":
				cur[l] = 'R'
			case "Unlock", "RUnlock":
				delete(cur, l)
			}
		}
		return cur
	}
	for changed, n := true, 0; changed && n < 50; n++ {
		changed = false
		for _, b := range fa.fn.Blocks {
			var st map[string]byte
			if len(b.Preds) == 0 {
				st = map[string]byte{}
			} else {
				first := true
				for _, p := range b.Preds {
					o, ok := out[p]
					if !ok {
						continue
					}
					if first {
						st = map[string]byte{}
						for k, v := range o {
							st[k] = v
						}
						first = false
					} else {
						for k, v := range st {
							if o[k] != v {
								delete(st, k)
							}
						}
					}
				}
				if st == nil {
					st = map[string]byte{}
				}
			}
			in[b] = st
			no := transfer(b, st, false)
			if fmt.Sprint(no) != fmt.Sprint(out[b]) {
				out[b] = no
				changed = true
			}
		}
	}
	for _, b := range fa.fn.Blocks {
		transfer(b, in[b], true)
	}
}

// ---------------------------------------------------------------- references handed to the caller

// pointeeLoc names the memory a returned value points to directly.
func pointeeLoc(v ssa.Value) string {
	switch v.Type().Underlying().(type) {
	case *types.Slice, *types.Map:
		return withElems(locOf(v))
	case *types.Chan:
		return locOf(v) + "{}"
	}
	return locOf(v)
}

// retLocs records which shared memory result idx may point to (depth 0 only: the object the
// caller can read or write through the returned reference without any lock).
func (fa *funcAnalysis) retLocs(idx int, v ssa.Value, seen map[ssa.Value]bool, ins ssa.Instruction) {
	fa.retLocsTo(idx, v, seen, ins, func(loc string, roots TagSet, site string) {
		for _, r := range roots.realRoots() {
			k := retKey{idx, loc, r}
			if old, ok := fa.sum.RetLoc[k]; !ok || site < old {
				fa.sum.RetLoc[k] = site
			}
		}
	})
}

// retLocsTo is retLocs with the sink left open (roots are relative to fa's frame).
func (fa *funcAnalysis) retLocsTo(idx int, v ssa.Value, seen map[ssa.Value]bool, ins ssa.Instruction, sink func(loc string, roots TagSet, site string)) {
	if v == nil || seen[v] || !hasPointers(v.Type()) {
		return
	}
	if n, ok := v.Type().(*types.Named); ok && n.Obj().Pkg() == nil && n.Obj().Name() == "error" {
		return // error values are immutable once created
	}
	seen[v] = true
	add := func(loc string, roots TagSet, site string) {
		if loc == fa.A.syncedM || strings.HasPrefix(loc, "sync.") {
			return
		}
		if os.Getenv("TR_DEBUG_RET") != "" && len(roots.realRoots()) > 0 {
			fmt.Fprintf(os.Stderr, "retloc %s idx %d loc %s roots %v via %T %s\n", fnName(fa.fn), idx, loc, roots, v, v.String())
		}
		sink(loc, roots, site)
	}
	fromCall := func(c *ssa.Call, ridx int) {
		ts, opaque, bi := fa.resolve(c.Common())
		if bi != nil || opaque != nil || len(ts) == 0 {
			if d := fa.D(v); len(d[0].realRoots()) > 0 {
				add(pointeeLoc(v), d[0], fa.site(ins))
			}
			return
		}
		for _, t := range ts {
			fa.A.need(t.fn)
			s := fa.A.sum[t.fn]
			if s == nil {
				continue
			}
			for k, site := range s.RetLoc {
				if k.Idx == ridx {
					add(k.Loc, t.mapTag(k.Root), site)
				}
			}
		}
	}
	switch x := v.(type) {
	case *ssa.Phi:
		for _, e := range x.Edges {
			fa.retLocsTo(idx, e, seen, ins, sink)
		}
	case *ssa.MakeInterface:
		fa.retLocsTo(idx, x.X, seen, ins, sink)
	case *ssa.ChangeType:
		fa.retLocsTo(idx, x.X, seen, ins, sink)
	case *ssa.ChangeInterface:
		fa.retLocsTo(idx, x.X, seen, ins, sink)
	case *ssa.TypeAssert:
		fa.retLocsTo(idx, x.X, seen, ins, sink)
	case *ssa.Slice:
		fa.retLocsTo(idx, x.X, seen, ins, sink)
	case *ssa.Call:
		fromCall(x, 0)
	case *ssa.UnOp:
		if x.Op == token.MUL {
			if a, ok := x.X.(*ssa.Alloc); ok {
				// a result variable (functions with defer keep their results in cells)
				if ci := fa.A.cell(a); !ci.escapes {
					for _, st := range ci.stores {
						if st.g == fa.fn {
							fa.retLocsTo(idx, st.val, seen, ins, sink)
							continue
						}
						// assigned inside a closure of this function (named results set by a
						// func literal run under the lock): what the closure stores, seen from
						// here -- its captured variables are followed to this frame
						g := st.g
						gfa := fa.A.frame(g)
						gfa.retLocsTo(idx, st.val, map[ssa.Value]bool{}, ins, func(loc string, roots TagSet, site string) {
							sink(loc, fa.A.lift(g, fa.fn, Val{roots, TagSet{}, TagSet{}})[0], site)
						})
					}
					return
				}
			}
		}
		add(pointeeLoc(v), fa.D(v)[0], fa.site(ins))
	case *ssa.Extract:
		if c, ok := x.Tuple.(*ssa.Call); ok {
			fromCall(c, x.Index)
			return
		}
		add(pointeeLoc(v), fa.D(v)[0], fa.site(ins))
	case *ssa.Const, *ssa.Function, *ssa.MakeClosure:
	default:
		add(pointeeLoc(v), fa.D(v)[0], fa.site(ins))
	}
}

// ---------------------------------------------------------------- one pass over a function

func (fa *funcAnalysis) run() {
	if fa.ran {
		return
	}
	fa.ran = true
	curFn = fnName(fa.fn)
	fa.computeHeld()
	for _, b := range fa.fn.Blocks {
		for _, ins := range b.Instrs {
			fa.cur = ins
			switch x := ins.(type) {
			case *ssa.Store:
				fa.access('w', locOf(x.Addr), fa.O(x.Addr), fa.site(ins))
			case *ssa.MapUpdate:
				fa.access('w', withElems(locOf(x.Map)), fa.O(x.Map), fa.site(ins))
			case *ssa.UnOp:
				if x.Op == token.MUL {
					if _, isAlloc := x.X.(*ssa.Alloc); !isAlloc {
						fa.access('r', locOf(x.X), fa.O(x.X), fa.site(ins))
					}
				} else if x.Op == token.ARROW {
					fa.access('W', locOf(x.X)+"{}", fa.O(x.X), fa.site(ins))
				}
			case *ssa.Lookup:
				if _, ok := x.X.Type().Underlying().(*types.Map); ok {
					fa.access('r', withElems(locOf(x.X)), fa.O(x.X), fa.site(ins))
				}
			case *ssa.Range:
				if _, ok := x.X.Type().Underlying().(*types.Map); ok {
					fa.access('r', withElems(locOf(x.X)), fa.O(x.X), fa.site(ins))
				}
			case *ssa.Send:
				fa.access('W', locOf(x.Chan)+"{}", fa.O(x.Chan), fa.site(ins))
			case *ssa.Select:
				for _, st := range x.States {
					fa.access('W', locOf(st.Chan)+"{}", fa.O(st.Chan), fa.site(ins))
				}
			case *ssa.Call:
				fa.call(x.Common(), ins)
			case *ssa.Defer:
				fa.call(x.Common(), ins)
			case *ssa.Go:
				fa.sum.Spawns = true
				cc := x.Common()
				if mc, ok := cc.Value.(*ssa.MakeClosure); ok {
					fa.spawned[ins] = mc.Fn.(*ssa.Function)
				} else if f := cc.StaticCallee(); f != nil {
					fa.spawned[ins] = f
				}
			case *ssa.Return:
				for len(fa.sum.Ret) < len(x.Results) {
					fa.sum.Ret = append(fa.sum.Ret, newVal())
				}
				for i, r := range x.Results {
					fa.sum.Ret[i].addVal(fa.D(r))
					fa.retLocs(i, r, map[ssa.Value]bool{}, ins)
				}
			}
		}
	}
	// markers are meaningless outside this frame
	for k := range fa.sum.Ret {
		for i := 0; i < 3; i++ {
			for t := range fa.sum.Ret[k][i] {
				if t.K == tVia {
					delete(fa.sum.Ret[k][i], t)
				}
			}
		}
	}
}
