package main

import (
	"go/token"
	"go/types"
	"sort"
	"strings"

	"golang.org/x/tools/go/ssa"
)

// Abstract roots of a pointer value, relative to the frame of the function being analysed.
type tagKind int

const (
	tLoc    tagKind = iota // object allocated in this frame (or returned fresh by a callee)
	tShared                // global / captured by an escaped closure / unknown origin
	tParam                 // reachable from parameter I of the current function
	tFree                  // reachable from free variable I of the current closure
	tVia                   // (marker) derived from the result of a call to S in this frame
)

type Tag struct {
	K tagKind
	I int
	D int // depth below the root: 0 the object itself, 1 stored directly in it, 2 anything deeper
	S string
}

// Val abstracts a pointer-carrying value: [0] the objects it points to, [1] the objects stored
// directly inside those, [2] everything reachable below.
type Val [3]TagSet

func newVal() Val { return Val{TagSet{}, TagSet{}, TagSet{}} }

func (v Val) all() TagSet {
	r := TagSet{}
	for i := 0; i < 3; i++ {
		r.addAll(v[i])
	}
	return r
}

func (v Val) addVal(o Val) {
	for i := 0; i < 3; i++ {
		v[i].addAll(o[i])
	}
}

func (v Val) shift() Val { return Val{v[1], v[2], v[2]} }

func flat(t TagSet) Val { return Val{t, t, t} }

func rootVal(k tagKind, i int) Val {
	return Val{TagSet{Tag{K: k, I: i, D: 0}: true}, TagSet{Tag{K: k, I: i, D: 1}: true}, TagSet{Tag{K: k, I: i, D: 2}: true}}
}

var sharedVal = flat(TagSet{Tag{K: tShared}: true})

type TagSet map[Tag]bool

func (s TagSet) add(t Tag) bool {
	if s[t] {
		return false
	}
	s[t] = true
	return true
}

func (s TagSet) addAll(o TagSet) {
	for t := range o {
		s[t] = true
	}
}

func union(a, b TagSet) TagSet {
	r := TagSet{}
	r.addAll(a)
	r.addAll(b)
	return r
}

func (s TagSet) nonLocal() TagSet {
	r := TagSet{}
	for t := range s {
		if t.K != tLoc {
			r[t] = true
		}
	}
	return r
}

// shared reports whether the set names at least one root other than Loc and Via markers.
func (s TagSet) realRoots() []Tag {
	var r []Tag
	for t := range s {
		if t.K != tLoc && t.K != tVia {
			r = append(r, t)
		}
	}
	return r
}

func (s TagSet) vias() []string {
	var r []string
	for t := range s {
		if t.K == tVia {
			r = append(r, t.S)
		}
	}
	sort.Strings(r)
	return r
}

var (
	tagLoc    = Tag{K: tLoc}
	tagShared = Tag{K: tShared}
)

func hasPointers(t types.Type) bool {
	switch u := t.Underlying().(type) {
	case *types.Basic:
		return u.Kind() == types.UnsafePointer
	case *types.Struct:
		for i := 0; i < u.NumFields(); i++ {
			if hasPointers(u.Field(i).Type()) {
				return true
			}
		}
		return false
	case *types.Array:
		return hasPointers(u.Elem())
	case *types.Tuple:
		for i := 0; i < u.Len(); i++ {
			if hasPointers(u.At(i).Type()) {
				return true
			}
		}
		return false
	}
	return true
}

func shortPkg(p *types.Package) string {
	if p == nil {
		return ""
	}
	return p.Name()
}

func typeName(t types.Type) string {
	for {
		if p, ok := t.(*types.Pointer); ok {
			t = p.Elem()
			continue
		}
		break
	}
	if n, ok := t.(*types.Named); ok {
		if n.Obj().Pkg() != nil {
			return shortPkg(n.Obj().Pkg()) + "." + n.Obj().Name()
		}
		return n.Obj().Name()
	}
	return types.TypeString(t, func(p *types.Package) string { return p.Name() })
}

func namedNonInterface(t types.Type) (string, bool) {
	for {
		if p, ok := t.(*types.Pointer); ok {
			t = p.Elem()
			continue
		}
		break
	}
	if n, ok := t.(*types.Named); ok {
		if _, isI := n.Underlying().(*types.Interface); isI {
			return "", false
		}
		if _, isS := n.Underlying().(*types.Signature); isS {
			return "", false
		}
		return typeName(n), true
	}
	return "", false
}

func fnName(f *ssa.Function) string {
	if f == nil {
		return "?"
	}
	s := f.RelString(nil)
	s = strings.ReplaceAll(s, "github.com/casbin/casbin/v2/rbac/default-role-manager", "defaultrolemanager")
	s = strings.ReplaceAll(s, "github.com/casbin/casbin/v2/persist/file-adapter", "fileadapter")
	s = strings.ReplaceAll(s, "github.com/casbin/casbin/v2/persist/string-adapter", "stringadapter")
	s = strings.ReplaceAll(s, "github.com/casbin/casbin/v2/", "")
	s = strings.ReplaceAll(s, "github.com/casbin/casbin/v2", "casbin")
	s = strings.ReplaceAll(s, "github.com/casbin/", "")
	return s
}

// withElems names the elements of a container location; elements of elements get one more
// "[]" (rule slots of Policy are Policy[], the strings of a rule are Policy[][]), deeper
// nesting is merged.
func withElems(s string) string {
	if strings.HasSuffix(s, "[][]") {
		return s
	}
	return s + "[]"
}

// locOf names the abstract location an address / container value denotes: the innermost
// Type.field when there is one, else the named container type, else a package variable or a
// captured local, else the static type.
func locOf(v ssa.Value) string {
	return locOfD(v, 0)
}

func locOfD(v ssa.Value, d int) string {
	if d > 40 {
		return typeName(v.Type())
	}
	switch x := v.(type) {
	case *ssa.FieldAddr:
		st := x.X.Type().Underlying().(*types.Pointer).Elem()
		return typeName(st) + "." + st.Underlying().(*types.Struct).Field(x.Field).Name()
	case *ssa.Field:
		st := x.X.Type()
		return typeName(st) + "." + st.Underlying().(*types.Struct).Field(x.Field).Name()
	case *ssa.Global:
		return shortPkg(x.Pkg.Pkg) + "." + x.Name()
	case *ssa.Alloc:
		if n, ok := namedNonInterface(x.Type()); ok && x.Comment == "" {
			return n
		}
		c := x.Comment
		if c == "" {
			c = "new"
		}
		return fnName(x.Parent()) + "." + c
	case *ssa.FreeVar:
		return fnName(x.Parent().Parent()) + "." + x.Name()
	}
	if u, ok := v.(*ssa.UnOp); ok && u.Op == token.MUL {
		switch u.X.(type) {
		case *ssa.FieldAddr, *ssa.Global, *ssa.FreeVar:
			// the pointee of a pointer-typed field / variable is named after the field
			return locOfD(u.X, d+1)
		}
	}
	if n, ok := namedNonInterface(v.Type()); ok {
		return n
	}
	switch x := v.(type) {
	case *ssa.IndexAddr:
		return withElems(locOfD(x.X, d+1))
	case *ssa.Index:
		return withElems(locOfD(x.X, d+1))
	case *ssa.Lookup:
		return withElems(locOfD(x.X, d+1))
	case *ssa.Slice:
		return locOfD(x.X, d+1)
	case *ssa.UnOp:
		if a, ok := x.X.(*ssa.Alloc); ok && a.Referrers() != nil {
			// a local variable holding a copy of a field / container: name what was stored
			var st []ssa.Value
			for _, r := range *a.Referrers() {
				if s, ok := r.(*ssa.Store); ok && s.Addr == ssa.Value(a) {
					st = append(st, s.Val)
				}
			}
			if len(st) == 1 {
				if _, isCall := st[0].(*ssa.Call); !isCall {
					return locOfD(st[0], d+1)
				}
			}
		}
		return locOfD(x.X, d+1)
	case *ssa.MakeInterface:
		return locOfD(x.X, d+1)
	case *ssa.ChangeType:
		return locOfD(x.X, d+1)
	case *ssa.ChangeInterface:
		return locOfD(x.X, d+1)
	case *ssa.Convert:
		return locOfD(x.X, d+1)
	case *ssa.TypeAssert:
		return locOfD(x.X, d+1)
	case *ssa.Extract:
		return locOfD(x.Tuple, d+1)
	case *ssa.Phi:
		if len(x.Edges) > 0 {
			return locOfD(x.Edges[0], d+1)
		}
	case *ssa.Next:
		if r, ok := x.Iter.(*ssa.Range); ok {
			return withElems(locOfD(r.X, d+1))
		}
	case *ssa.Range:
		return locOfD(x.X, d+1)
	}
	return typeName(v.Type())
}
