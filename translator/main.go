// Command translator regenerates coq/Gen/SyncTable.v from the Go source of the casbin
// SyncedEnforcer (DESIGN.md Appendix B).  It is part of the TRUSTED BASE of C12/C13: its
// soundness is not proved.
//
// What it does.  For every EXPORTED method DECLARED with receiver *SyncedEnforcer (the wrapped API;
// unexported methods cannot be called from outside the package: they are helpers, looked into
// where a wrapper uses them, and listed in the JSON dump) and for every goroutine body such a
// method -- or a helper of it -- starts (go func(){...}() or go e.helper(args)):
//   - the ordered critical sections on e.m, from the SSA control-flow graph, along every path:
//     Lock/RLock ... Unlock/RUnlock incl. deferred unlocks; all paths must be prefixes of the
//     longest one, every acquired lock must be released before return, no acquisition while
//     holding, no lock state change inside a loop, no call of something that itself acquires
//     e.m while holding it -- otherwise the wrapper is emitted as Irregular (table_ok fails);
//     code outside any section that touches shared memory forms a lock-free (NoLock) section.
//     The walk is interprocedural for helpers (sections.go): a callee that is not an exported
//     wrapper and that operates e.m -- directly, transitively, or through a function value it
//     creates, returns, receives or calls -- is walked inline with its own defer stack, and
//     function values are followed through parameters, closure bindings, call results, phi
//     nodes and single-assignment local variables, so that `e.withRLock(func(){...})`,
//     `defer e.acquireRead()()` (helper locks and returns e.m.RUnlock), `defer guard(&e.m)()`,
//     `locked(write bool, f)` (branches on constant arguments are followed on the side the call
//     site fixes) and a LoadPolicy split into loadIntoNewModel / installModel give the table of
//     the direct style.  A function value the walk cannot resolve, a mutex it cannot identify,
//     TryLock & co on e.m, recursion among such helpers => Irregular (never guessed);
//   - per section the abstract locations (Type.field, package variables, captured variables,
//     "[]" = elements of a slice / map, "{}" = contents of a sync.Map or channel) that MAY be
//     accessed inside it by the wrapper and, transitively, by everything it calls:
//     plain reads / plain writes / synchronised reads / synchronised writes (sync.Map,
//     sync/atomic, channel operations, accesses made while a callee holds its own
//     sync.(RW)Mutex in write mode -- reads also in read mode; a location bracketed by two
//     different mutexes is demoted to plain);
//   - the shape of the auto-load protocol (non-blocking send in Stop, CompareAndSwap and drain
//     in Start, flag cleared by the loader) as boolean constants;
//   - the exception labels (F19 for multi-section wrappers, F20 for read sections with
//     synchronised writes): dumb labels, re-checked against the findings' signatures in Sync.v.
//
// The may-access analysis (analysis.go).  Function summaries over SSA, iterated to a fixpoint.
// A pointer-carrying value is abstracted by where the object it points to may live: allocated
// in this frame (or returned fresh by a callee) / reachable from parameter i / from free
// variable j / shared, each with a depth 0 (the object), 1 (stored directly in it), 2 (anything
// below).  An access whose address may be non-local is recorded with its roots and mapped
// through call sites; at a wrapper only roots reachable from the receiver, globals and captured
// variables count as shared -- the other arguments of an API call belong to the caller.
// Calls: static callees; interface calls to EVERY implementation in the module (test doubles
// *Mock and /mocks excluded, listed in the JSON dump); function values through parameters,
// closure bindings and local variables when visible, else EVERY address-taken function of the
// same signature with its captured variables treated as shared; callbacks handed to code that
// is not analysed are taken to be invoked there.
//
// Conservative choices / known gaps (all in the trusted base):
//   - flow-insensitive, context-insensitive summaries; objects below depth 2 are merged, so a
//     deep copy cannot be proved local (=> benign.txt entries for LoadPolicy phase 1);
//   - the standard library and govaluate are not analysed: their functions are assumed not to
//     write through their arguments, except sort.*, copy, append, delete, clear and
//     pointer-receiver methods of types not known to be thread-safe (recorded as plain writes
//     to the receiver); sync.Map / list / atomic.Value accessors return something reachable
//     from the container, everything else returns a fresh value; evaluating or compiling a
//     govaluate expression is assumed not to write to an expression shared between goroutines,
//     and the ExpressionFunction / Parameters callbacks are attributed to that call;
//   - implementations supplied by the user behind interfaces (adapter, watcher, dispatcher,
//     logger, role manager) and user functions are assumed pure and to return fresh values;
//   - values that only cycle through phi nodes / recursive stores may be under-approximated on
//     the first visit of a cycle (the fixpoint over summaries recovers inter-procedural cycles,
//     not intra-procedural ones);
//   - reflection, unsafe and cgo are not modelled (not used on these paths).
//
// Sites the analysis cannot prove local can be removed only through benign.txt, by naming
// function | location | via-callee | reason; an entry that matches nothing is a fatal error.
package main

import (
	"bufio"
	"encoding/json"
	"flag"
	"fmt"
	"go/types"
	"os"
	"path/filepath"
	"sort"
	"strings"

	"golang.org/x/tools/go/packages"
	"golang.org/x/tools/go/ssa"
	"golang.org/x/tools/go/ssa/ssautil"
)

const modPath = "github.com/casbin/casbin/v2"

type Consts struct {
	StopSendNonblocking bool `json:"stop_send_nonblocking"`
	StartUsesCAS        bool `json:"start_uses_cas"`
	StartDrains         bool `json:"start_drains_stale_stop"`
	LoaderClearsFlag    bool `json:"loader_clears_flag_on_exit"`
}

func fatal(f string, a ...interface{}) {
	fmt.Fprintf(os.Stderr, "translator: "+f+"\n", a...)
	os.Exit(1)
}

func readBenign(path string, A *Analyzer) []*benignEntry {
	var list []*benignEntry
	fh, err := os.Open(path)
	if err != nil {
		if os.IsNotExist(err) {
			return nil
		}
		fatal("%v", err)
	}
	defer fh.Close()
	sc := bufio.NewScanner(fh)
	ln := 0
	for sc.Scan() {
		ln++
		line := strings.TrimSpace(sc.Text())
		if line == "" || strings.HasPrefix(line, "#") {
			continue
		}
		parts := strings.Split(line, "|")
		if len(parts) != 4 {
			fatal("%s:%d: want `function | location | via-callee | reason`", path, ln)
		}
		for i := range parts {
			parts[i] = strings.TrimSpace(parts[i])
		}
		if parts[3] == "" {
			fatal("%s:%d: a reason is required", path, ln)
		}
		e := &benignEntry{Key: benignKey{parts[0], parts[1], parts[2]}, Reason: parts[3], Line: ln}
		A.benign[e.Key] = e
		list = append(list, e)
	}
	return list
}

func main() {
	repo := flag.String("repo", "/repo", "casbin checkout")
	out := flag.String("out", "", "Coq file to (re)write")
	jsonOut := flag.String("json", "", "JSON dump (default: <out> with .json)")
	benignPath := flag.String("benign", "", "allow-list (default: benign.txt next to the translator sources)")
	dump := flag.String("dump", "", "print the accesses of one wrapper (debug)")
	golite := flag.String("golite", "", "second translator: write the GoLite terms of -funcs to this Coq file and exit")
	glFuncs := flag.String("funcs", "", "with -golite: comma separated CoqName=pkgdir.[Recv.]Func")
	flag.Parse()
	if *golite != "" {
		if err := goliteMain(*repo, *golite, *glFuncs); err != nil {
			fmt.Fprintln(os.Stderr, "golite:", err)
			os.Exit(1)
		}
		return
	}
	if *benignPath == "" {
		exe, _ := os.Executable()
		*benignPath = filepath.Join(filepath.Dir(filepath.Dir(exe)), "benign.txt")
	}
	cfg := &packages.Config{Dir: *repo, Mode: packages.LoadAllSyntax,
		Env: append(os.Environ(), "GOFLAGS=-mod=mod", "GOPROXY=off", "GOSUMDB=off", "GOTOOLCHAIN=local")}
	pkgs, err := packages.Load(cfg, "./...")
	if err != nil {
		fatal("load: %v", err)
	}
	nerr := 0
	packages.Visit(pkgs, nil, func(p *packages.Package) {
		for _, e := range p.Errors {
			if strings.HasPrefix(p.PkgPath, modPath) {
				fmt.Fprintln(os.Stderr, e)
				nerr++
			}
		}
	})
	if nerr > 0 {
		fatal("%s does not type-check", *repo)
	}
	prog, _ := ssautil.AllPackages(pkgs, 0)
	var root *ssa.Package
	for _, p := range prog.AllPackages() {
		path := p.Pkg.Path()
		if path == modPath || strings.HasPrefix(path, modPath+"/") {
			p.Build()
			builtPkgs[p] = true
		}
		if path == modPath {
			root = p
		}
	}
	if root == nil {
		fatal("package %s not found", modPath)
	}
	st := root.Type("SyncedEnforcer")
	if st == nil {
		fatal("type SyncedEnforcer not found")
	}
	A := newAnalyzer(prog)
	benignList := readBenign(*benignPath, A)

	// the wrapped API: methods DECLARED with receiver *SyncedEnforcer
	pt := types.NewPointer(st.Type())
	ms := prog.MethodSets.MethodSet(pt)
	var wrappers []wfn
	var promoted []string
	var helpers []string
	for i := 0; i < ms.Len(); i++ {
		sel := ms.At(i)
		fn := prog.MethodValue(sel)
		if fn == nil {
			continue
		}
		if fn.Synthetic != "" {
			if sel.Obj().Exported() {
				promoted = append(promoted, sel.Obj().Name())
			}
			continue
		}
		if !sel.Obj().Exported() {
			// not callable from outside the package: a helper of the wrappers, looked into
			// where a wrapper (or a goroutine it starts) calls it
			helpers = append(helpers, sel.Obj().Name())
			continue
		}
		wrappers = append(wrappers, wfn{sel.Obj().Name(), fn})
		A.wrapperSet[fn] = true
	}
	sort.Slice(wrappers, func(i, j int) bool { return wrappers[i].name < wrappers[j].name })
	sort.Strings(promoted)
	sort.Strings(helpers)
	for _, w := range wrappers {
		A.record[w.fn] = true
		A.need(w.fn)
	}
	// goroutine bodies: every function started by a go statement anywhere in the module is
	// analysed and recorded (which ones the wrappers start is found by the section walk)
	for fn := range ssautil.AllFunctions(prog) {
		if fn.Blocks == nil || fn.Pkg == nil || !isBuilt(fn.Pkg) {
			continue
		}
		for _, b := range fn.Blocks {
			for _, ins := range b.Instrs {
				if g, ok := ins.(*ssa.Go); ok && !g.Common().IsInvoke() {
					var f *ssa.Function
					switch v := g.Common().Value.(type) {
					case *ssa.MakeClosure:
						f = v.Fn.(*ssa.Function)
					case *ssa.Function:
						f = v
					}
					if f != nil && f.Blocks != nil {
						A.record[f] = true
						A.need(f)
					}
				}
			}
		}
	}
	A.run()
	// the helpers the section walk may have to look into: functions that operate e.m or create /
	// pass on function values that do, and every function whose address is taken in the module
	// (closures handed to such helpers): record their per-instruction accesses
	recordHelpers := func() bool {
		A.computeLockish()
		added := false
		add := func(f *ssa.Function) {
			if f.Blocks != nil && !A.record[f] {
				A.record[f] = true
				A.need(f)
				added = true
			}
		}
		for f := range A.lockish {
			add(f)
		}
		for f := range A.modTaken {
			if A.reach[f] || strings.HasPrefix(f.Synthetic, "bound method wrapper") {
				add(f)
			}
		}
		return added
	}
	for round := 0; round < 5 && recordHelpers(); round++ {
		A.run()
	}
	// function values that reach user code behind an interface: lock-free pseudo-wrappers
	var callbacks []wfn
	seenCb := map[*ssa.Function]bool{}
	for round := 0; round < 5; round++ {
		added := false
		for _, w := range wrappers {
			s := A.sum[w.fn]
			if s == nil {
				continue
			}
			var fs []*ssa.Function
			for f := range s.EscFn {
				fs = append(fs, f)
			}
			sort.Slice(fs, func(i, j int) bool { return fs[i].String() < fs[j].String() })
			n := 0
			for _, f := range fs {
				n++
				if seenCb[f] {
					continue
				}
				seenCb[f] = true
				A.record[f] = true
				A.need(f)
				callbacks = append(callbacks, wfn{fmt.Sprintf("%s$callback%d", w.name, n), f})
				added = true
			}
		}
		if !added {
			break
		}
		A.run()
		for r := 0; r < 5 && recordHelpers(); r++ {
			A.run()
		}
	}

	var table []*Wrapper
	type goBody struct {
		name string
		sp   spawnRec
	}
	var goBodies []goBody
	seenGo := map[*ssa.Function]bool{}
	addSpawned := func(parent string, sps []spawnRec) {
		n := 0
		for _, sp := range sps {
			n++
			if seenGo[sp.fn] {
				continue
			}
			seenGo[sp.fn] = true
			goBodies = append(goBodies, goBody{fmt.Sprintf("%s$go%d", parent, n), sp})
		}
	}
	for _, w := range wrappers {
		wr, sps := A.analyzeWrapper(w.fn, w.name, false, false)
		table = append(table, wr)
		addSpawned(w.name, sps)
	}
	var cbTable []*Wrapper
	for _, g := range callbacks {
		wr, sps := A.analyzeWrapper(g.fn, g.name, true, false)
		cbTable = append(cbTable, wr)
		addSpawned(g.name, sps)
	}
	for i := 0; i < len(goBodies); i++ { // grows while goroutine bodies start further goroutines
		g := goBodies[i]
		wr, sps := A.analyzeWrapper(g.sp.fn, g.name, true, g.sp.static)
		table = append(table, wr)
		addSpawned(g.name, sps)
	}
	// a location synchronised by two different mutexes is not synchronised
	demoted := map[string]bool{}
	for loc, gs := range A.guardsOf {
		if len(gs) > 1 {
			demoted[loc] = true
			A.note("location " + loc + " is bracketed by different mutexes; its accesses are classed plain")
		}
	}
	for _, wr := range append(append([]*Wrapper{}, table...), cbTable...) {
		for _, s := range wr.Sections {
			for k, v := range s.Acc {
				if demoted[k.Loc] && (k.Kind == 'R' || k.Kind == 'W') {
					delete(s.Acc, k)
					nk := accOut{byte(strings.ToLower(string(k.Kind))[0]), k.Loc}
					s.Acc[nk] = v
				}
			}
		}
	}
	for _, e := range benignList {
		if e.Used == 0 {
			fatal("%s:%d: allow-list entry matches no site any more (%s | %s | %s): remove it", *benignPath, e.Line, e.Key.Fn, e.Key.Loc, e.Key.Via)
		}
	}
	consts := autoLoadConsts(A, wrappers2map(wrappers))
	A.helpers = helpers

	if *dump != "" {
		for _, wr := range table {
			if wr.Name == *dump {
				for i, s := range wr.Sections {
					fmt.Printf("section %d mode %s callees %v\n", i, s.Mode, keys(s.Callees))
					var ks []accOut
					for k := range s.Acc {
						ks = append(ks, k)
					}
					sort.Slice(ks, func(i, j int) bool {
						if ks[i].Kind != ks[j].Kind {
							return ks[i].Kind < ks[j].Kind
						}
						return ks[i].Loc < ks[j].Loc
					})
					for _, k := range ks {
						fmt.Printf("  %c %-60s %s\n", k.Kind, k.Loc, s.Acc[k])
					}
				}
				fmt.Println("irregular:", wr.Irregular, "api:", keys(wr.APICalls), "spawns:", wr.Spawns, "escapes:", wr.Escapes)
			}
		}
	}
	if *out == "" {
		summary(table)
		fmt.Println("-- callbacks handed to user code:")
		summary(cbTable)
		return
	}
	emit(*out, *jsonOut, *repo, table, cbTable, consts, benignList, A, promoted)
}

type wfn struct {
	name string
	fn   *ssa.Function
}

func wrappers2map(ws []wfn) map[string]*ssa.Function {
	m := map[string]*ssa.Function{}
	for _, w := range ws {
		m[w.name] = w.fn
	}
	return m
}

func keys(m map[string]bool) []string {
	var r []string
	for k := range m {
		r = append(r, k)
	}
	sort.Strings(r)
	return r
}

func summary(table []*Wrapper) {
	for _, wr := range table {
		var parts []string
		for _, s := range wr.Sections {
			n := map[byte]int{}
			for k := range s.Acc {
				n[k.Kind]++
			}
			parts = append(parts, fmt.Sprintf("%s(r%d w%d R%d W%d)", s.Mode, n['r'], n['w'], n['R'], n['W']))
		}
		fmt.Printf("%-40s %s %s\n", wr.Name, strings.Join(parts, " "), wr.Irregular)
		for l, site := range wr.Escapes {
			fmt.Printf("      RETURNS A REFERENCE to %s  at %s\n", l, site)
		}
		for _, s := range wr.Sections {
			if s.Mode != "W" {
				for k, v := range s.Acc {
					if k.Kind == 'w' {
						fmt.Printf("      PLAIN WRITE in %s section: %s  at %s\n", s.Mode, k.Loc, v)
					}
				}
			}
		}
	}
}

// autoLoadConsts reads the shape of the auto-load protocol off the SSA of
// StartAutoLoadPolicy / StopAutoLoadPolicy so that the Coq model follows the source.  Helpers of
// the root package that are not API wrappers are looked into (static calls, deferred calls,
// closures), and the loader is whatever Start -- or a helper of it -- starts with a go statement.
func autoLoadConsts(A *Analyzer, ws map[string]*ssa.Function) Consts {
	var c Consts
	chanLoc := "casbin.SyncedEnforcer.stopAutoLoad"
	flagLoc := "casbin.SyncedEnforcer.autoLoadRunning"
	// reach: the function, the helpers it calls / defers and the closures it creates (other than
	// goroutine bodies); spawned: the functions started as goroutines from there
	reach := func(roots ...*ssa.Function) (fns []*ssa.Function, spawned []*ssa.Function) {
		seen := map[*ssa.Function]bool{}
		seenSp := map[*ssa.Function]bool{}
		var visit func(f *ssa.Function)
		visit = func(f *ssa.Function) {
			if f == nil || f.Blocks == nil || seen[f] {
				return
			}
			seen[f] = true
			fns = append(fns, f)
			for _, b := range f.Blocks {
				for _, ins := range b.Instrs {
					if g, ok := ins.(*ssa.Go); ok {
						var t *ssa.Function
						switch v := g.Common().Value.(type) {
						case *ssa.MakeClosure:
							t = v.Fn.(*ssa.Function)
						case *ssa.Function:
							t = v
						}
						if t != nil && !seenSp[t] && !A.wrapperSet[t] {
							seenSp[t] = true
							spawned = append(spawned, t)
						}
						continue
					}
					if ci, ok := ins.(ssa.CallInstruction); ok {
						if t := ci.Common().StaticCallee(); t != nil && !A.wrapperSet[t] && t.Pkg == f.Pkg && t.Pkg != nil {
							visit(t)
						}
					}
					if mc, ok := ins.(*ssa.MakeClosure); ok {
						isGo := false
						if refs := mc.Referrers(); refs != nil {
							for _, r := range *refs {
								if g, ok := r.(*ssa.Go); ok && g.Common().Value == ssa.Value(mc) {
									isGo = true
								}
							}
						}
						if !isGo {
							visit(mc.Fn.(*ssa.Function))
						}
					}
				}
			}
		}
		for _, r := range roots {
			visit(r)
		}
		return
	}
	if stop := ws["StopAutoLoadPolicy"]; stop != nil {
		bare, nb := 0, 0
		fns, _ := reach(stop)
		for _, f := range fns {
			for _, b := range f.Blocks {
				for _, ins := range b.Instrs {
					switch x := ins.(type) {
					case *ssa.Send:
						if locOf(x.Chan) == chanLoc {
							bare++
						}
					case *ssa.Select:
						for _, s := range x.States {
							if s.Dir == types.SendOnly && locOf(s.Chan) == chanLoc {
								if x.Blocking {
									bare++
								} else {
									nb++
								}
							}
						}
					}
				}
			}
		}
		c.StopSendNonblocking = bare == 0 && nb > 0
	}
	atomicOn := func(ins ssa.Instruction, prefix string) bool {
		ci, ok := ins.(ssa.CallInstruction)
		if !ok {
			return false
		}
		if _, isGo := ins.(*ssa.Go); isGo {
			return false
		}
		cc := ci.Common()
		f := cc.StaticCallee()
		return f != nil && f.Pkg != nil && f.Pkg.Pkg.Path() == "sync/atomic" && strings.HasPrefix(f.Name(), prefix) &&
			len(cc.Args) > 0 && locOf(cc.Args[0]) == flagLoc
	}
	if start := ws["StartAutoLoadPolicy"]; start != nil {
		fns, spawned := reach(start)
		for _, f := range fns {
			for _, b := range f.Blocks {
				for _, ins := range b.Instrs {
					if _, isDefer := ins.(*ssa.Defer); !isDefer && atomicOn(ins, "CompareAndSwap") {
						c.StartUsesCAS = true
					}
					if x, ok := ins.(*ssa.Select); ok {
						for _, s := range x.States {
							if s.Dir == types.RecvOnly && locOf(s.Chan) == chanLoc && !x.Blocking {
								c.StartDrains = true
							}
						}
					}
				}
			}
		}
		loader, _ := reach(spawned...)
		for _, g := range loader {
			for _, b := range g.Blocks {
				for _, ins := range b.Instrs {
					if atomicOn(ins, "Store") {
						c.LoaderClearsFlag = true
					}
				}
			}
		}
	}
	return c
}

// ---------------------------------------------------------------- output

type jsonSection struct {
	Mode    string   `json:"mode"`
	Callees []string `json:"callees"`
	PR      []string `json:"plain_reads"`
	PW      []string `json:"plain_writes"`
	AR      []string `json:"sync_reads"`
	AW      []string `json:"sync_writes"`
	PWSites []string `json:"plain_write_sites"`
	AWSites []string `json:"sync_write_sites"`
}

type jsonWrapper struct {
	Name      string        `json:"name"`
	File      string        `json:"file"`
	Irregular string        `json:"irregular,omitempty"`
	Sections  []jsonSection `json:"sections"`
	APICalls  []string      `json:"api_calls,omitempty"`
	Spawns    []string      `json:"spawns,omitempty"`
	Inlined   []string      `json:"helpers_walked_inline,omitempty"`
	Synthetic bool          `json:"goroutine_body,omitempty"`
	Exception string        `json:"exception,omitempty"`
	Escapes   []string      `json:"returned_references,omitempty"`
}

type jsonDump struct {
	Repo           string        `json:"repo"`
	Wrappers       []jsonWrapper `json:"wrappers"`
	Callbacks      []jsonWrapper `json:"callbacks_handed_to_user_code"`
	Consts         Consts        `json:"constants"`
	Benign         []string      `json:"benign_applied"`
	Notes          []string      `json:"notes"`
	Excluded       []string      `json:"excluded_test_doubles"`
	Promoted       []string      `json:"promoted_unwrapped_methods"`
	Functions      int           `json:"functions_analysed"`
	Exceptions     [][2]string   `json:"exceptions"`
	RaceExceptions [][3]string   `json:"race_exceptions"`
	Helpers        []string      `json:"unexported_helper_methods"`
}

func coqStr(s string) string { return "\"" + strings.ReplaceAll(s, "\"", "\"\"") + "\"" }

func coqStrList(ss []string) string {
	q := make([]string, len(ss))
	for i, s := range ss {
		q[i] = coqStr(s)
	}
	return "[" + strings.Join(q, "; ") + "]"
}

func coqBool(b bool) string {
	if b {
		return "true"
	}
	return "false"
}

func classify(wr *Wrapper) string {
	if wr.Synthetic || wr.Irregular != "" {
		return ""
	}
	if len(wr.Sections) > 1 {
		return "F19"
	}
	if len(wr.Sections) == 1 && wr.Sections[0].Mode == "R" {
		for k := range wr.Sections[0].Acc {
			if k.Kind == 'W' {
				return "F20"
			}
		}
	}
	return ""
}

func emit(out, jsonOut, repo string, table, cbTable []*Wrapper, consts Consts, benign []*benignEntry, A *Analyzer, promoted []string) {
	locSet := map[string]bool{}
	for _, wr := range append(append([]*Wrapper{}, table...), cbTable...) {
		for _, s := range wr.Sections {
			for k := range s.Acc {
				locSet[k.Loc] = true
			}
		}
		for l := range wr.Escapes {
			locSet[l] = true
		}
	}
	var locs []string
	for l := range locSet {
		locs = append(locs, l)
	}
	sort.Strings(locs)
	id := map[string]int{}
	for i, l := range locs {
		id[l] = i
	}
	var b strings.Builder
	b.WriteString("(* GENERATED by /verif/translator from the Go source of SyncedEnforcer -- do not edit.\n")
	b.WriteString("   Rewritten by the `pre` step of props/C12.json and props/C13.json on every run.\n")
	b.WriteString("   One entry per method declared with receiver *SyncedEnforcer (plus the goroutine bodies\n")
	b.WriteString("   they start): the ordered critical sections on e.m and, per section, the abstract\n")
	b.WriteString("   locations that may be accessed inside it: s_pr/s_pw plain reads/writes, s_ar/s_aw reads/\n")
	b.WriteString("   writes through sync.Map, sync/atomic, channels or a callee's own mutex. *)\n")
	b.WriteString("From Coq Require Import List String NArith.\nFrom Casbin Require Import Sync.\nImport ListNotations.\nOpen Scope string_scope.\nOpen Scope N_scope.\n\n")
	b.WriteString("Definition loc_names : list (N * string) := [\n")
	for i, l := range locs {
		sep := ";"
		if i == len(locs)-1 {
			sep = ""
		}
		fmt.Fprintf(&b, "  (%d, %s)%s\n", i, coqStr(l), sep)
	}
	b.WriteString("].\n\n")
	nums := func(s *Section, kind byte) string {
		var ns []int
		for k := range s.Acc {
			if k.Kind == kind {
				ns = append(ns, id[k.Loc])
			}
		}
		sort.Ints(ns)
		q := make([]string, len(ns))
		for i, n := range ns {
			q[i] = fmt.Sprint(n)
		}
		return "[" + strings.Join(q, "; ") + "]"
	}
	names := func(s *Section, kind byte, sites bool) []string {
		var r []string
		for k, v := range s.Acc {
			if k.Kind == kind {
				if sites {
					r = append(r, k.Loc+" @ "+v)
				} else {
					r = append(r, k.Loc)
				}
			}
		}
		sort.Strings(r)
		if r == nil {
			r = []string{}
		}
		return r
	}
	jd := jsonDump{Repo: repo, Consts: consts, Promoted: promoted, Functions: len(A.order), Helpers: A.helpers}
	var exceptions [][2]string
	var irregulars [][2]string
	emitTable := func(defName string, table []*Wrapper, isMain bool) {
		fmt.Fprintf(&b, "Definition %s : list wrapper := [\n", defName)
		for i, wr := range table {
			shape := "Regular"
			if wr.Irregular != "" {
				shape = "Irregular"
				irregulars = append(irregulars, [2]string{wr.Name, wr.Irregular})
			}
			fmt.Fprintf(&b, "  {| w_name := %s; w_shape := %s; w_sections := [", coqStr(wr.Name), shape)
			jw := jsonWrapper{Name: wr.Name, File: wr.File, Irregular: wr.Irregular, APICalls: keys(wr.APICalls), Spawns: wr.Spawns, Inlined: wr.Inlined, Synthetic: wr.Synthetic}
			for j, s := range wr.Sections {
				m := map[string]string{"R": "R", "W": "W", "N": "NoLock"}[s.Mode]
				if j > 0 {
					b.WriteString(";")
				}
				fmt.Fprintf(&b, "\n     {| s_mode := %s; s_callees := %s;\n        s_pr := %s;\n        s_pw := %s;\n        s_ar := %s;\n        s_aw := %s |}",
					m, coqStrList(keys(s.Callees)), nums(s, 'r'), nums(s, 'w'), nums(s, 'R'), nums(s, 'W'))
				jw.Sections = append(jw.Sections, jsonSection{Mode: s.Mode, Callees: keys(s.Callees), PR: names(s, 'r', false), PW: names(s, 'w', false),
					AR: names(s, 'R', false), AW: names(s, 'W', false), PWSites: names(s, 'w', true), AWSites: names(s, 'W', true)})
			}
			sep := ";"
			if i == len(table)-1 {
				sep = ""
			}
			var es []int
			var esn []string
			for l, site := range wr.Escapes {
				es = append(es, id[l])
				esn = append(esn, l+" @ "+site)
			}
			sort.Ints(es)
			sort.Strings(esn)
			eq := make([]string, len(es))
			for i, n := range es {
				eq[i] = fmt.Sprint(n)
			}
			jw.Escapes = esn
			fmt.Fprintf(&b, "];\n     w_escapes := [%s] |}%s\n", strings.Join(eq, "; "), sep)
			if ex := classify(wr); ex != "" && isMain {
				exceptions = append(exceptions, [2]string{wr.Name, ex})
				jw.Exception = ex
			}
			if isMain {
				jd.Wrappers = append(jd.Wrappers, jw)
			} else {
				jd.Callbacks = append(jd.Callbacks, jw)
			}
		}
		b.WriteString("].\n\n")
	}
	emitTable("table", table, true)
	b.WriteString("(* function values the wrappers hand to implementations behind an interface (user code may call\n   them at any time from any goroutine): each one as a lock-free pseudo-wrapper *)\n")
	emitTable("callback_table", cbTable, false)
	pairs := func(name, comment string, ps [][2]string) {
		fmt.Fprintf(&b, "(* %s *)\nDefinition %s : list (string * string) := [", comment, name)
		for i, p := range ps {
			if i > 0 {
				b.WriteString(";")
			}
			fmt.Fprintf(&b, "\n  (%s, %s)", coqStr(p[0]), coqStr(p[1]))
		}
		b.WriteString("].\n\n")
	}
	// plain writes outside write sections: each one is a data-race candidate; C12 accepts a
	// location only if Sync.v recognises the signature of a recorded known finding
	b.WriteString("(* plain writes found in read-locked or lock-free sections: (location, wrapper, finding label) *)\nDefinition race_exceptions : list (N * string * string) := [")
	nre := 0
	for _, wr := range table {
		for _, s := range wr.Sections {
			if s.Mode == "W" {
				continue
			}
			var ls []string
			for k := range s.Acc {
				if k.Kind == 'w' {
					ls = append(ls, k.Loc)
				}
			}
			sort.Strings(ls)
			for _, l := range ls {
				if nre > 0 {
					b.WriteString(";")
				}
				nre++
				fmt.Fprintf(&b, "\n  (%d, %s, %s)", id[l], coqStr(wr.Name), coqStr("unlisted"))
				jd.RaceExceptions = append(jd.RaceExceptions, [3]string{l, wr.Name, s.Acc[accOut{'w', l}]})
			}
		}
	}
	b.WriteString("].\n\n")
	pairs("exceptions", "wrappers that are not one write section / one write-free read section, labelled with the known finding the shape belongs to (Sync.v re-checks every label against the finding's signature)", exceptions)
	pairs("irregular_reasons", "why a wrapper was emitted as Irregular", irregulars)
	b.WriteString("(* shape of the auto-load protocol as found in Start/StopAutoLoadPolicy *)\n")
	fmt.Fprintf(&b, "Definition stop_send_nonblocking : bool := %s.\n", coqBool(consts.StopSendNonblocking))
	fmt.Fprintf(&b, "Definition start_uses_cas : bool := %s.\n", coqBool(consts.StartUsesCAS))
	fmt.Fprintf(&b, "Definition start_drains_stale_stop : bool := %s.\n", coqBool(consts.StartDrains))
	fmt.Fprintf(&b, "Definition loader_clears_flag_on_exit : bool := %s.\n\n", coqBool(consts.LoaderClearsFlag))
	var bl [][2]string
	for _, e := range benign {
		bl = append(bl, [2]string{e.Key.Fn + " | " + e.Key.Loc + " | via " + e.Key.Via, e.Reason})
		jd.Benign = append(jd.Benign, fmt.Sprintf("%s | %s | via %s | %s (matched %d site(s))", e.Key.Fn, e.Key.Loc, e.Key.Via, e.Reason, e.Used))
	}
	pairs("benign_applied", "sites removed through translator/benign.txt (trusted)", bl)
	jd.Exceptions = exceptions
	for n := range A.notes {
		jd.Notes = append(jd.Notes, n)
	}
	sort.Strings(jd.Notes)
	for n := range A.excluded {
		jd.Excluded = append(jd.Excluded, n)
	}
	sort.Strings(jd.Excluded)
	writeIfChanged(out, []byte(b.String()))
	if jsonOut == "" {
		jsonOut = strings.TrimSuffix(out, ".v") + ".json"
	}
	js, _ := json.MarshalIndent(jd, "", " ")
	writeIfChanged(jsonOut, js)
	fmt.Printf("translator: %d wrappers (%d irregular), %d locations, %d exceptions, %d functions analysed, %d allow-list entries\n",
		len(table), len(irregulars), len(locs), len(exceptions), len(A.order), len(benign))
}

func writeIfChanged(path string, data []byte) {
	if old, err := os.ReadFile(path); err == nil && string(old) == string(data) {
		return
	}
	if err := os.MkdirAll(filepath.Dir(path), 0o755); err != nil {
		fatal("%v", err)
	}
	if err := os.WriteFile(path, data, 0o644); err != nil {
		fatal("%v", err)
	}
}
