package main

import (
	"fmt"
	"os"
	"time"

	"golang.org/x/tools/go/packages"
	"golang.org/x/tools/go/ssa"
	"golang.org/x/tools/go/ssa/ssautil"
)

func main() {
	t0 := time.Now()
	cfg := &packages.Config{Dir: "/repo", Mode: packages.LoadAllSyntax, Env: append(os.Environ(), "GOFLAGS=-mod=mod", "GOPROXY=off", "GOSUMDB=off", "GOTOOLCHAIN=local")}
	pkgs, err := packages.Load(cfg, "./...")
	if err != nil {
		panic(err)
	}
	fmt.Println("loaded", len(pkgs), time.Since(t0))
	prog, spkgs := ssautil.AllPackages(pkgs, 0)
	n := 0
	for _, p := range prog.AllPackages() {
		if p.Pkg.Path() == "github.com/casbin/govaluate" || len(p.Pkg.Path()) >= 27 && p.Pkg.Path()[:27] == "github.com/casbin/casbin/v2" {
			p.Build()
			n++
		}
	}
	_ = ssa.NaiveForm
	fmt.Println("built", n, len(spkgs), time.Since(t0))
}
