// golite.go: the second translator.  `translator -golite <out.v> -funcs <list>` prints the
// type-checked Go AST of the named pure functions into terms of the deep embedding coq/GoLite.v
// (type func).  It refuses -- never guesses -- everything outside the fragment GoLite.v gives a
// meaning to; the refusal makes the generation step fail, which the check reports.
//
// Trusted: this printer (about 400 lines, one case per syntactic form, no analysis) and the
// reading of the Go specification written down in GoLite.v.  What it normalises:
//   - every declared variable of the function gets its own name (x, x#2, ...), so GoLite's flat
//     environment is faithful to Go's block scoping;
//   - constant expressions are replaced by their value as computed by go/types (iota constants
//     such as effector.Allow, string constants such as constant.PriorityEffect);
//   - `switch tag { case a, b: ... default: ... }` becomes a breakable block around a chain of
//     `if tag == a || tag == b`; the tag must be a variable or constant (evaluated once in Go);
//   - x++ / x-- / x op= e become assignments; `var x T` assigns the zero value;
//   - float64 values are carried as integers and may only be compared with a constant.
package main

import (
	"crypto/sha256"
	"fmt"
	"go/ast"
	"go/constant"
	"go/token"
	"go/types"
	"os"
	"sort"
	"strings"

	"golang.org/x/tools/go/packages"
)

type glFunc struct {
	spec string // pkgsuffix.[Recv.]Name
	coq  string // Coq identifier
}

type glTr struct {
	order []string
	info  *types.Info
	fset  *token.FileSet
	names map[types.Object]string
	used  map[string]bool
	recv  types.Object
}

type glErr struct{ msg string }

func (t *glTr) fail(n ast.Node, f string, a ...interface{}) {
	panic(glErr{fmt.Sprintf("%s: %s", t.fset.Position(n.Pos()), fmt.Sprintf(f, a...))})
}

func glStr(s string) string {
	for _, r := range s {
		if r < 32 || r > 126 {
			panic(glErr{"non-printable character in a string constant: " + fmt.Sprintf("%q", s)})
		}
	}
	return `"` + strings.ReplaceAll(s, `"`, `""`) + `"`
}

func glZ(s string) string {
	if strings.HasPrefix(s, "-") {
		return "(" + s + ")%Z"
	}
	return s + "%Z"
}

func (t *glTr) name(obj types.Object) string {
	if n, ok := t.names[obj]; ok {
		return n
	}
	base := obj.Name()
	n := base
	for k := 2; t.used[n]; k++ {
		n = fmt.Sprintf("%s#%d", base, k)
	}
	t.used[n] = true
	t.order = append(t.order, n)
	t.names[obj] = n
	return n
}

func isFloat(tp types.Type) bool {
	b, ok := tp.Underlying().(*types.Basic)
	return ok && b.Info()&types.IsFloat != 0
}
func isInt(tp types.Type) bool {
	b, ok := tp.Underlying().(*types.Basic)
	return ok && b.Info()&types.IsInteger != 0
}
func isString(tp types.Type) bool {
	b, ok := tp.Underlying().(*types.Basic)
	return ok && b.Info()&types.IsString != 0
}
func isBool(tp types.Type) bool {
	b, ok := tp.Underlying().(*types.Basic)
	return ok && b.Info()&types.IsBoolean != 0
}
func isSlice(tp types.Type) bool { _, ok := tp.Underlying().(*types.Slice); return ok }

func (t *glTr) constVal(e ast.Expr) (string, bool) {
	tv, ok := t.info.Types[e]
	if !ok || tv.Value == nil {
		return "", false
	}
	switch tv.Value.Kind() {
	case constant.Int:
		return "(EConst (VInt " + glZ(tv.Value.ExactString()) + "))", true
	case constant.Float:
		f := constant.ToInt(tv.Value)
		if f.Kind() != constant.Int {
			t.fail(e, "non-integral float constant %s", tv.Value)
		}
		return "(EConst (VInt " + glZ(f.ExactString()) + "))", true
	case constant.String:
		return "(EConst (VStr " + glStr(constant.StringVal(tv.Value)) + "))", true
	case constant.Bool:
		if constant.BoolVal(tv.Value) {
			return "(EConst (VBool true))", true
		}
		return "(EConst (VBool false))", true
	}
	t.fail(e, "constant of unsupported kind")
	return "", false
}

var glBinops = map[token.Token]string{token.ADD: "OAdd", token.SUB: "OSub", token.EQL: "OEq", token.NEQ: "ONe",
	token.LSS: "OLt", token.LEQ: "OLe", token.GTR: "OGt", token.GEQ: "OGe", token.LAND: "OAnd", token.LOR: "OOr"}

func (t *glTr) expr(e ast.Expr) string {
	if s, ok := t.constVal(e); ok {
		return s
	}
	switch x := e.(type) {
	case *ast.ParenExpr:
		return t.expr(x.X)
	case *ast.Ident:
		obj := t.info.Uses[x]
		if obj == nil {
			obj = t.info.Defs[x]
		}
		if _, ok := obj.(*types.Nil); ok {
			return "(EConst VNil)"
		}
		v, ok := obj.(*types.Var)
		if !ok {
			t.fail(e, "identifier %s is not a variable", x.Name)
		}
		if obj == t.recv {
			t.fail(e, "the receiver is used")
		}
		if v.Parent() == nil || v.Parent() == v.Pkg().Scope() {
			t.fail(e, "package-level variable %s", x.Name)
		}
		return "(EVar " + glStr(t.name(obj)) + ")"
	case *ast.IndexExpr:
		if !isSlice(t.info.TypeOf(x.X)) {
			t.fail(e, "index into something that is not a slice")
		}
		return "(EIndex " + t.expr(x.X) + " " + t.expr(x.Index) + ")"
	case *ast.SliceExpr:
		if x.Slice3 {
			t.fail(e, "3-index slice")
		}
		tp := t.info.TypeOf(x.X)
		if !isSlice(tp) && !isString(tp) {
			t.fail(e, "slice of something that is neither slice nor string")
		}
		opt := func(a ast.Expr) string {
			if a == nil {
				return "None"
			}
			return "(Some " + t.expr(a) + ")"
		}
		return "(ESlice " + t.expr(x.X) + " " + opt(x.Low) + " " + opt(x.High) + ")"
	case *ast.UnaryExpr:
		if x.Op == token.NOT {
			return "(ENot " + t.expr(x.X) + ")"
		}
		t.fail(e, "unary operator %s", x.Op)
	case *ast.BinaryExpr:
		op, ok := glBinops[x.Op]
		if !ok {
			t.fail(e, "binary operator %s", x.Op)
		}
		lt, rt := t.info.TypeOf(x.X), t.info.TypeOf(x.Y)
		if isFloat(lt) || isFloat(rt) {
			_, lc := t.constVal(x.X)
			_, rc := t.constVal(x.Y)
			if (x.Op != token.EQL && x.Op != token.NEQ) || (!lc && !rc) {
				t.fail(e, "float64 operation other than ==/!= against a constant")
			}
		}
		switch x.Op {
		case token.ADD:
			if !(isInt(lt) || isString(lt)) {
				t.fail(e, "+ on unsupported type")
			}
		case token.SUB, token.LSS, token.LEQ, token.GTR, token.GEQ:
			if !isInt(lt) {
				t.fail(e, "%s on a non-integer", x.Op)
			}
		case token.LAND, token.LOR:
			if !isBool(lt) {
				t.fail(e, "%s on a non-boolean", x.Op)
			}
		}
		return "(EBin " + op + " " + t.expr(x.X) + " " + t.expr(x.Y) + ")"
	case *ast.CallExpr:
		if tv, ok := t.info.Types[x.Fun]; ok && tv.IsType() {
			// conversion between integer types (Effect(i), int(e)) keeps the value
			if len(x.Args) == 1 && isInt(tv.Type) && isInt(t.info.TypeOf(x.Args[0])) {
				return t.expr(x.Args[0])
			}
			t.fail(e, "conversion to %s", tv.Type)
		}
		if id, ok := x.Fun.(*ast.Ident); ok {
			if b, ok := t.info.Uses[id].(*types.Builtin); ok {
				if b.Name() == "len" && len(x.Args) == 1 {
					tp := t.info.TypeOf(x.Args[0])
					if isSlice(tp) || isString(tp) {
						return "(ELen " + t.expr(x.Args[0]) + ")"
					}
				}
				t.fail(e, "builtin %s", b.Name())
			}
		}
		if sel, ok := x.Fun.(*ast.SelectorExpr); ok {
			if fn, ok := t.info.Uses[sel.Sel].(*types.Func); ok && fn.Pkg() != nil {
				full := fn.Pkg().Path() + "." + fn.Name()
				switch {
				case full == "errors.New" && len(x.Args) == 1:
					return "(ECall1 \"errors.New\" " + t.expr(x.Args[0]) + ")"
				case (full == "strings.Index" || full == "strings.HasPrefix") && len(x.Args) == 2:
					return "(ECall2 " + glStr(full) + " " + t.expr(x.Args[0]) + " " + t.expr(x.Args[1]) + ")"
				}
				t.fail(e, "call of %s", full)
			}
		}
		t.fail(e, "call of an unsupported function")
	}
	t.fail(e, "unsupported expression %T", e)
	return ""
}

func seq(parts []string) string {
	if len(parts) == 0 {
		return "SSkip"
	}
	out := parts[len(parts)-1]
	for i := len(parts) - 2; i >= 0; i-- {
		out = "(SSeq " + parts[i] + "\n " + out + ")"
	}
	return out
}

func (t *glTr) zero(n ast.Node, tp types.Type) string {
	switch {
	case isInt(tp), isFloat(tp):
		return "(EConst (VInt 0%Z))"
	case isString(tp):
		return "(EConst (VStr \"\"))"
	case isBool(tp):
		return "(EConst (VBool false))"
	case isSlice(tp), types.IsInterface(tp):
		return "(EConst VNil)"
	}
	t.fail(n, "zero value of %s", tp)
	return ""
}

func (t *glTr) lhs(e ast.Expr) string {
	id, ok := e.(*ast.Ident)
	if !ok {
		t.fail(e, "assignment to something that is not a variable")
	}
	if id.Name == "_" {
		return "_"
	}
	obj := t.info.Defs[id]
	if obj == nil {
		obj = t.info.Uses[id]
	}
	v, ok := obj.(*types.Var)
	if !ok || v.Parent() == nil || v.Parent() == v.Pkg().Scope() {
		t.fail(e, "assignment to %s", id.Name)
	}
	return t.name(obj)
}

func (t *glTr) block(b *ast.BlockStmt) string {
	if b == nil {
		return "SSkip"
	}
	var parts []string
	for _, s := range b.List {
		parts = append(parts, t.stmt(s))
	}
	return seq(parts)
}

func (t *glTr) stmt(s ast.Stmt) string {
	switch x := s.(type) {
	case *ast.EmptyStmt:
		return "SSkip"
	case *ast.BlockStmt:
		return t.block(x)
	case *ast.AssignStmt:
		if len(x.Lhs) != 1 || len(x.Rhs) != 1 {
			t.fail(s, "tuple assignment")
		}
		// evaluate the right-hand side first (a := declares the variable after it)
		var rhs string
		switch x.Tok {
		case token.ASSIGN, token.DEFINE:
			rhs = t.expr(x.Rhs[0])
		case token.ADD_ASSIGN, token.SUB_ASSIGN:
			if !isInt(t.info.TypeOf(x.Lhs[0])) {
				t.fail(s, "op-assignment on a non-integer")
			}
			op := "OAdd"
			if x.Tok == token.SUB_ASSIGN {
				op = "OSub"
			}
			rhs = "(EBin " + op + " " + t.expr(x.Lhs[0]) + " " + t.expr(x.Rhs[0]) + ")"
		default:
			t.fail(s, "assignment operator %s", x.Tok)
		}
		return "(SAssign " + glStr(t.lhs(x.Lhs[0])) + " " + rhs + ")"
	case *ast.IncDecStmt:
		if !isInt(t.info.TypeOf(x.X)) {
			t.fail(s, "++/-- on a non-integer")
		}
		op := "OAdd"
		if x.Tok == token.DEC {
			op = "OSub"
		}
		return "(SAssign " + glStr(t.lhs(x.X)) + " (EBin " + op + " " + t.expr(x.X) + " (EConst (VInt 1%Z))))"
	case *ast.DeclStmt:
		gd, ok := x.Decl.(*ast.GenDecl)
		if !ok || gd.Tok != token.VAR {
			t.fail(s, "declaration other than var")
		}
		var parts []string
		for _, sp := range gd.Specs {
			vs := sp.(*ast.ValueSpec)
			if len(vs.Values) != 0 && len(vs.Values) != len(vs.Names) {
				t.fail(s, "var with a tuple value")
			}
			for i, id := range vs.Names {
				var rhs string
				if len(vs.Values) != 0 {
					rhs = t.expr(vs.Values[i])
				} else {
					rhs = t.zero(s, t.info.Defs[id].Type())
				}
				parts = append(parts, "(SAssign "+glStr(t.lhs(id))+" "+rhs+")")
			}
		}
		return seq(parts)
	case *ast.IfStmt:
		var parts []string
		if x.Init != nil {
			parts = append(parts, t.stmt(x.Init))
		}
		els := "SSkip"
		if x.Else != nil {
			els = t.stmt(x.Else)
		}
		parts = append(parts, "(SIf "+t.expr(x.Cond)+"\n "+t.block(x.Body)+"\n "+els+")")
		return seq(parts)
	case *ast.SwitchStmt:
		var parts []string
		if x.Init != nil {
			parts = append(parts, t.stmt(x.Init))
		}
		tag := ""
		if x.Tag != nil {
			if _, isConst := t.constVal(x.Tag); !isConst {
				if _, isId := x.Tag.(*ast.Ident); !isId {
					t.fail(s, "switch tag that is neither a variable nor a constant")
				}
			}
			tag = t.expr(x.Tag)
		}
		chain := "SSkip"
		var clauses []*ast.CaseClause
		var def *ast.CaseClause
		for _, c := range x.Body.List {
			cc := c.(*ast.CaseClause)
			if cc.List == nil {
				def = cc
			} else {
				clauses = append(clauses, cc)
			}
			for _, b := range cc.Body {
				if br, ok := b.(*ast.BranchStmt); ok && br.Tok == token.FALLTHROUGH {
					t.fail(b, "fallthrough")
				}
			}
		}
		body := func(cc *ast.CaseClause) string {
			var ps []string
			for _, b := range cc.Body {
				ps = append(ps, t.stmt(b))
			}
			return seq(ps)
		}
		// translate in source order (variable names are handed out in order of first use)
		conds := make([]string, len(clauses))
		bodies := make([]string, len(clauses))
		for i, cc := range clauses {
			var ones []string
			for _, ce := range cc.List {
				if tag != "" {
					ones = append(ones, "(EBin OEq "+tag+" "+t.expr(ce)+")")
				} else {
					ones = append(ones, t.expr(ce))
				}
			}
			cond := ones[len(ones)-1]
			for j := len(ones) - 2; j >= 0; j-- {
				cond = "(EBin OOr " + ones[j] + " " + cond + ")"
			}
			conds[i] = cond
			bodies[i] = body(cc)
		}
		if def != nil {
			chain = body(def)
		}
		for i := len(clauses) - 1; i >= 0; i-- {
			chain = "(SIf " + conds[i] + "\n " + bodies[i] + "\n " + chain + ")"
		}
		parts = append(parts, "(SBlock "+chain+")")
		return seq(parts)
	case *ast.ForStmt:
		var parts []string
		if x.Init != nil {
			parts = append(parts, t.stmt(x.Init))
		}
		cond := "(EConst (VBool true))"
		if x.Cond != nil {
			cond = t.expr(x.Cond)
		}
		post := "SSkip"
		if x.Post != nil {
			post = t.stmt(x.Post)
		}
		parts = append(parts, "(SFor "+cond+" "+post+"\n "+t.block(x.Body)+")")
		return seq(parts)
	case *ast.RangeStmt:
		if !isSlice(t.info.TypeOf(x.X)) {
			t.fail(s, "range over something that is not a slice")
		}
		k, v := "_", "_"
		if x.Key != nil {
			k = t.lhs(x.Key)
		}
		if x.Value != nil {
			v = t.lhs(x.Value)
		}
		if k != "_" && k == v {
			t.fail(s, "range with one variable for index and element")
		}
		return "(SRange " + glStr(k) + " " + glStr(v) + " " + t.expr(x.X) + "\n " + t.block(x.Body) + ")"
	case *ast.BranchStmt:
		if x.Label != nil {
			t.fail(s, "labelled branch")
		}
		switch x.Tok {
		case token.BREAK:
			return "SBreak"
		case token.CONTINUE:
			return "SContinue"
		}
		t.fail(s, "branch %s", x.Tok)
	case *ast.ReturnStmt:
		var es []string
		for _, r := range x.Results {
			es = append(es, t.expr(r))
		}
		return "(SReturn [" + strings.Join(es, "; ") + "])"
	}
	t.fail(s, "unsupported statement %T", s)
	return ""
}

func goliteMain(repo, out, funcs string) error {
	var specs []glFunc
	pkgSet := map[string]bool{}
	for _, f := range strings.Split(funcs, ",") {
		f = strings.TrimSpace(f)
		if f == "" {
			continue
		}
		parts := strings.SplitN(f, "=", 2) // CoqName=pkg/path.[Recv.]Func
		if len(parts) != 2 {
			return fmt.Errorf("bad -funcs entry %q", f)
		}
		specs = append(specs, glFunc{spec: parts[1], coq: parts[0]})
		pkgSet["./"+parts[1][:strings.Index(parts[1], ".")]] = true
	}
	var pats []string
	for p := range pkgSet {
		pats = append(pats, p)
	}
	sort.Strings(pats)
	cfg := &packages.Config{Dir: repo, Mode: packages.NeedName | packages.NeedFiles | packages.NeedSyntax | packages.NeedTypes |
		packages.NeedTypesInfo | packages.NeedImports | packages.NeedDeps, Env: append(os.Environ(), "GOFLAGS=-mod=mod")}
	pkgs, err := packages.Load(cfg, pats...)
	if err != nil {
		return err
	}
	if packages.PrintErrors(pkgs) > 0 {
		return fmt.Errorf("packages contain errors")
	}
	var b strings.Builder
	b.WriteString("(* GENERATED by translator/golite.go from the Go source of /repo -- do not edit.\n   One term of GoLite.func per translated function. *)\n")
	b.WriteString("From Coq Require Import List String ZArith.\nFrom Casbin Require Import GoLite.\nImport ListNotations.\nOpen Scope string_scope.\n\n")
	for _, sp := range specs {
		dot := strings.Index(sp.spec, ".")
		pkgDir, rest := sp.spec[:dot], sp.spec[dot+1:]
		recvName, fnName := "", rest
		if i := strings.Index(rest, "."); i >= 0 {
			recvName, fnName = rest[:i], rest[i+1:]
		}
		var found *ast.FuncDecl
		var fpkg *packages.Package
		for _, p := range pkgs {
			if !strings.HasSuffix(p.PkgPath, "/"+pkgDir) {
				continue
			}
			for _, file := range p.Syntax {
				for _, d := range file.Decls {
					fd, ok := d.(*ast.FuncDecl)
					if !ok || fd.Name.Name != fnName || fd.Body == nil {
						continue
					}
					rn := ""
					if fd.Recv != nil && len(fd.Recv.List) == 1 {
						tp := fd.Recv.List[0].Type
						if st, ok := tp.(*ast.StarExpr); ok {
							tp = st.X
						}
						if id, ok := tp.(*ast.Ident); ok {
							rn = id.Name
						}
					}
					if rn == recvName {
						found, fpkg = fd, p
					}
				}
			}
		}
		if found == nil {
			return fmt.Errorf("function %s not found", sp.spec)
		}
		t := &glTr{info: fpkg.TypesInfo, fset: fpkg.Fset, names: map[types.Object]string{}, used: map[string]bool{"_": true}}
		var term string
		var params []string
		err := func() (err error) {
			defer func() {
				if r := recover(); r != nil {
					if ge, ok := r.(glErr); ok {
						err = fmt.Errorf("%s is outside the GoLite fragment: %s", sp.spec, ge.msg)
						return
					}
					panic(r)
				}
			}()
			if found.Recv != nil && len(found.Recv.List) == 1 && len(found.Recv.List[0].Names) == 1 {
				t.recv = t.info.Defs[found.Recv.List[0].Names[0]]
			}
			if found.Type.Results != nil {
				for _, r := range found.Type.Results.List {
					if len(r.Names) != 0 {
						t.fail(r, "named results")
					}
				}
			}
			for _, p := range found.Type.Params.List {
				if len(p.Names) == 0 {
					t.fail(p, "unnamed parameter")
				}
				for _, id := range p.Names {
					params = append(params, glStr(t.name(t.info.Defs[id])))
				}
			}
			term = t.block(found.Body)
			return nil
		}()
		if err != nil {
			return err
		}
		pos := fpkg.Fset.Position(found.Pos())
		end := fpkg.Fset.Position(found.End())
		src, _ := os.ReadFile(pos.Filename)
		sum := sha256.Sum256(src[pos.Offset:end.Offset])
		rel := strings.TrimPrefix(pos.Filename, repo+"/")
		fmt.Fprintf(&b, "(* %s  (%s:%d-%d, sha256 of the declaration %x) *)\n", sp.spec, rel, pos.Line, end.Line, sum[:8])
		var locals []string
		for _, n := range t.order[len(params):] {
			locals = append(locals, glStr(n))
		}
		fmt.Fprintf(&b, "Definition %s : func :=\n {| f_params := [%s];\n    f_locals := [%s];\n    f_body :=\n %s |}.\n\n", sp.coq, strings.Join(params, "; "), strings.Join(locals, "; "), term)
	}
	tmp := out + ".tmp"
	if err := os.WriteFile(tmp, []byte(b.String()), 0o644); err != nil {
		return err
	}
	// keep the file's mtime when nothing changed (so that make does not rebuild the proofs)
	if old, err := os.ReadFile(out); err == nil && string(old) == b.String() {
		return os.Remove(tmp)
	}
	return os.Rename(tmp, out)
}
