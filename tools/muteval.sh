#!/bin/bash
# muteval.sh <ID> <k> [src-dir]     (development aid)
# Confirms a seeded change delivered by a sub-agent in /tmp/mut/<ID>.out/<k>/ (or src-dir):
#   1. the patch applies to a fresh scratch worktree of /repo's HEAD and compiles,
#   2. the existing suite passes with it,
#   3. the demonstration fails with it and passes without it,
# then runs ./check <ID> quick against the patched tree (tools/mutrun.sh: private copy of /verif,
# /repo untouched) and, when 1-3 hold, stores the change under /verif/seeded/<ID>-<k>/ with the
# verdict of the check.  Extra property ids to run can be given in $ALSO (space separated).
set -u
ID=$1; K=$2; SRC=${3:-/tmp/mut/$ID.out/$K}
export GOFLAGS=-mod=mod GOPROXY=off GOSUMDB=off GOTOOLCHAIN=local
W=/tmp/mut/eval-${NAME:-$ID-$K}
git -C /repo worktree remove --force "$W" >/dev/null 2>&1
git -C /repo worktree add --detach "$W" HEAD >/dev/null 2>&1 || { echo "cannot create worktree"; exit 2; }
cleanup() { git -C /repo worktree remove --force "$W" >/dev/null 2>&1; rm -rf "$W"; }
trap cleanup EXIT
R=/tmp/mut/results; mkdir -p $R
LOG=$R/${NAME:-$ID-$K}.log; : > $LOG
DEMO_DIR=$(cat "$SRC/DEMO_DIR" 2>/dev/null | tr -d '\n' || echo .)
[ -z "$DEMO_DIR" ] && DEMO_DIR=.
DEMO=$(ls "$SRC"/*_test.go 2>/dev/null | head -1)
RUNRE=$(grep -oE '^func (Test[A-Za-z0-9_]*)' "$DEMO" | awk '{print $2}' | paste -sd'|')
RUNRE="^($RUNRE)\$"
status() { echo "$1" | tee -a $LOG; }
cd "$W"
# demo on the clean tree
cp "$DEMO" "$W/$DEMO_DIR/seeded_demo_test.go"
if (cd "$W/$DEMO_DIR" && timeout 900 ${DEMO_GO:-go} test ${DEMO_FLAGS:-} -vet=off -count=1 -run "$RUNRE" . >>$LOG 2>&1); then CLEAN_DEMO=pass; else CLEAN_DEMO=fail; fi
rm -f "$W/$DEMO_DIR/seeded_demo_test.go"
if ! git apply "$SRC/patch.diff" >>$LOG 2>&1; then status "RESULT ${NAME:-$ID-$K} patch-does-not-apply"; exit 1; fi
if ! go build ./... >>$LOG 2>&1; then status "RESULT ${NAME:-$ID-$K} does-not-compile"; exit 1; fi
if timeout 1500 go test -vet=off -count=1 ./... >>$LOG 2>&1; then SUITE=pass; else SUITE=fail; fi
cp "$DEMO" "$W/$DEMO_DIR/seeded_demo_test.go"
if (cd "$W/$DEMO_DIR" && timeout 900 ${DEMO_GO:-go} test ${DEMO_FLAGS:-} -vet=off -count=1 -run "$RUNRE" . >>$LOG 2>&1); then MUT_DEMO=pass; else MUT_DEMO=fail; fi
rm -f "$W/$DEMO_DIR/seeded_demo_test.go"
CONFIRMED=no
if [ $SUITE = pass ] && [ $CLEAN_DEMO = pass ] && [ $MUT_DEMO = fail ]; then CONFIRMED=yes; fi
VERDICTS=""
for P in $ID ${ALSO:-}; do
  OUT=$(MUT_KEEP=$R/${NAME:-$ID-$K}.keep.$P /verif/tools/mutrun.sh "$W" $P quick 2>&1); RC=$?
  echo "--- check $P rc=$RC" >>$LOG; echo "$OUT" >>$LOG
  if echo "$OUT" | grep -q "^VIOLATION"; then V=caught; elif [ $RC -eq 0 ]; then V=missed; else V=error; fi
  VERDICTS="$VERDICTS $P=$V"
done
status "RESULT ${NAME:-$ID-$K} confirmed=$CONFIRMED suite=$SUITE demo_clean=$CLEAN_DEMO demo_mut=$MUT_DEMO checks:$VERDICTS"
if [ $CONFIRMED = yes ]; then
  D=/verif/seeded/${NAME:-$ID-$K}; mkdir -p $D
  cp "$SRC/patch.diff" $D/patch.diff; cp "$DEMO" $D/seeded_demo_test.go; echo "$DEMO_DIR" > $D/DEMO_DIR
  python3 - "$SRC/meta.json" "$D/meta.json" "$ID" "$VERDICTS" <<'EOF'
import json,sys
src,dst,pid,verd=sys.argv[1:5]
try: m=json.load(open(src))
except Exception: m={}
m["property"]=pid
m["confirmed_by"]="tools/muteval.sh: patch applied to a scratch worktree of /repo HEAD; go build ./... ok; go test -vet=off -count=1 ./... ok with the change; demonstration fails with the change and passes without it"
m["checks_run"]={kv.split("=")[0]:kv.split("=")[1] for kv in verd.split()}
m["checks_cmd"]="tools/mutrun.sh <patched tree> <ID> quick   (= ./check <ID> quick with /repo replaced by the patched tree)"
json.dump(m,open(dst,"w"),indent=1)
EOF
fi
