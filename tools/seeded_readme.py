#!/usr/bin/env python3
"""Regenerates seeded/README.md from seeded/*/meta.json."""
import json, os, glob
ROOT = os.path.dirname(os.path.dirname(os.path.abspath(__file__)))
rows = []
for d in sorted(glob.glob(os.path.join(ROOT, "seeded", "*", "meta.json"))):
    m = json.load(open(d))
    name = os.path.basename(os.path.dirname(d))
    cr = m.get("checks_run", {})
    rows.append((name, m.get("property", "?"), m.get("summary", "").replace("|", "/").replace("\n", " "),
                 str(m.get("what_it_needs_to_manifest", "")).replace("|", "/").replace("\n", " "),
                 ", ".join("%s: %s" % kv for kv in sorted(cr.items())), m.get("caught_by", ""), m.get("history", "")))
out = ["# Seeded changes", "",
       "Each directory holds one change to casbin/casbin written by an independent sub-agent that saw only the",
       "property text and a scratch worktree (nothing from /verif): `patch.diff` (applies to /repo's HEAD with",
       "`git -C /repo apply`), `seeded_demo_test.go` (+ `DEMO_DIR`: the package directory it belongs in; fails with the",
       "change, passes without), `meta.json` (property, what it needs to manifest, what was run). Every change was",
       "confirmed with `tools/muteval.sh`: compiles, the whole existing suite passes with it, the demonstration fails",
       "with it and passes without it. None of them is ever committed to /repo.", "",
       "`checks` = verdict of `./check <ID> quick` against the patched tree (caught = a VIOLATION line, exit 1).",
       "`history` records changes that were first missed and which strengthening of the machinery now catches them.", "",
       "| change | property | what it does | needs, to manifest | checks | caught by | history |", "|---|---|---|---|---|---|---|"]
for r in rows:
    out.append("| " + " | ".join(r) + " |")
n = len(rows)
own = cross = neut = unc = 0
for d in sorted(glob.glob(os.path.join(ROOT, "seeded", "*", "meta.json"))):
    m = json.load(open(d))
    if "neutralised_by_fix" in m:
        neut += 1
    elif m.get("checks_run", {}).get(m.get("property")) == "caught":
        own += 1
    elif m.get("history", "").startswith("not caught by any check"):
        unc += 1
    else:
        cross += 1
out += ["", "%d changes kept: %d caught by the quick check of their own property, %d by the check of a sibling property (see `caught by`), %d caught and later neutralised by a fix in /repo (see meta.json), %d not caught by any check (see `history`)." % (n, own, cross, neut, unc),
        "Behaviour-preserving refactorings used as a false-alarm test are under `neutral/`.", ""]
open(os.path.join(ROOT, "seeded", "README.md"), "w").write("\n".join(out))
print("seeded/README.md:", n, "changes,", own, "own,", cross, "sibling,", neut, "neutralised,", unc, "uncaught")
