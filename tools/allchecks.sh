#!/bin/bash
# allchecks.sh <casbin-tree> [jobs]: run every property's quick check against another tree (mutrun.sh) and summarise.
W=$1; J=${2:-4}
run() { OUT=$(/verif/tools/mutrun.sh "$1" $2 quick 2>&1); if echo "$OUT" | grep -q "^VIOLATION"; then echo "$2 VIOLATION $(echo "$OUT" | grep '^# ' | head -1 | cut -c1-260)"; elif echo "$OUT" | grep -q "^OK"; then echo "$2 ok"; else echo "$2 ERROR $(echo "$OUT" | tail -2 | tr '\n' ' ' | cut -c1-200)"; fi; }
export -f run
for i in 01 02 03 04 05 06 07 08 09 10 11 12 13 14 15 16 17 18 19; do echo C$i; done | xargs -P $J -I{} bash -c "run $W {}" | sort
