#!/bin/bash
# muttry.sh <seeded-name> <ID>...  : run ./check <ID> quick against /repo HEAD + seeded/<name>/patch.diff (scratch worktree)
N=$1; shift
W=/tmp/mut/try-$N-$$
git -C /repo worktree add --detach $W HEAD >/dev/null 2>&1
(cd $W && git apply /verif/seeded/$N/patch.diff) || { echo "patch failed"; git -C /repo worktree remove --force $W; exit 2; }
for P in "$@"; do
  OUT=$(/verif/tools/mutrun.sh $W $P ${TIER:-quick} 2>&1)
  if echo "$OUT" | grep -q "^VIOLATION"; then echo "$N vs $P: CAUGHT  $(echo "$OUT" | grep '^# ' | head -1 | cut -c1-220)"; else echo "$N vs $P: missed  $(echo "$OUT" | grep -E '^(OK|CHECK-ERROR)' | head -1 | cut -c1-120)"; fi
done
git -C /repo worktree remove --force $W >/dev/null 2>&1; rm -rf $W
