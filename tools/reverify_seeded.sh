#!/bin/bash
# reverify_seeded.sh [name-glob]  : re-run ./check <property> quick against every kept seeded change
# (scratch worktree + private copy of /verif) and record the verdict in seeded/<name>/meta.json
# ("checks_run", and "history" when a change that was missed before is caught now).
cd /verif
PAT=${1:-*}
run_one() {
  N=$1
  P=$(python3 -c "import json;print(json.load(open('/verif/seeded/$N/meta.json'))['property'])")
  if grep -q neutralised_by_fix /verif/seeded/$N/meta.json; then echo "$N $P neutralised-by-a-later-fix (skipped)"; return; fi
  OUT=$(/verif/tools/muttry.sh $N $P 2>&1 | tail -1)
  if echo "$OUT" | grep -q "patch failed"; then echo "$N $P PATCH-DOES-NOT-APPLY (rebase it)"; return; fi
  V=missed; echo "$OUT" | grep -q CAUGHT && V=caught
  BY=$(echo "$OUT" | sed -n 's/.*CAUGHT  # \([a-z-]*\):.*/\1/p')
  python3 - "$N" "$P" "$V" "$BY" <<'PY'
import json,sys
n,p,v,by=sys.argv[1:5]
f='/verif/seeded/%s/meta.json'%n
m=json.load(open(f))
old=m.get('checks_run',{}).get(p)
m.setdefault('checks_run',{})[p]=v
if v=='caught':
    m['caught_by']=by
if old=='missed' and v=='caught' and 'first missed' not in m.get('history',''):
    m['history']='first missed by ./check %s quick; caught after the check was strengthened (see DESIGN.md section 9)'%p
json.dump(m,open(f,'w'),indent=1)
PY
  echo "$N $P $V $BY"
}
export -f run_one
ls -d seeded/$PAT/ | xargs -n1 basename | xargs -P ${JOBS:-4} -I{} bash -c 'run_one {}'
