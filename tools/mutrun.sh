#!/bin/sh
# mutrun.sh <casbin-tree> <ID> [tier]   (development aid, not part of any registered check)
# Runs ./check <ID> against another casbin tree (a scratch worktree carrying a seeded change)
# without touching /repo: a private copy of /verif is made under /tmp with every "/repo"
# rewritten to <casbin-tree>, the check runs there, the copy is removed.  Prints the check's
# output; exit status is the check's.
set -e
W=$(cd "$1" && pwd); ID=$2; TIER=${3:-quick}
V=$(mktemp -d /tmp/vrun.XXXXXX)
trap 'rm -rf "$V"' EXIT
cp -a /verif/. "$V"/ 2>/dev/null
rm -rf "$V/.git" "$V/replays"
for f in "$V"/check "$V"/setup.sh "$V"/props/*.json "$V"/harness/*.go "$V"/harness/go.mod "$V"/translator/*.go "$V"/translator/go.mod; do
  [ -f "$f" ] && sed -i "s#/repo#$W#g; s#\"/verif\"#\"$V\"#g" "$f"
done
cd "$V"
export GOFLAGS=-mod=mod GOPROXY=off GOSUMDB=off GOTOOLCHAIN=local
set +e
timeout ${MUT_TIMEOUT:-1500} ./check "$ID" "$TIER" > "$V/out.txt" 2>&1
rc=$?
grep -E "^(OK|VIOLATION|KNOWN-FINDING|# |CHECK-ERROR)" "$V/out.txt" | cut -c1-600
if [ -n "$MUT_KEEP" ]; then mkdir -p "$MUT_KEEP"; cp -r "$V/replays" "$MUT_KEEP"/ 2>/dev/null; cp "$V/out.txt" "$MUT_KEEP"/; fi
exit $rc
