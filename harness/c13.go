package main

// C13: concurrent SyncedEnforcer histories are linearizable (RUNTIME EXPLORATION, not proof).
//
// Files:
//   c13.go         models, in-memory auto-saving adapter, op vocabulary, random history
//                  generator + runner, post-quiescence checks, statistics, registration
//   c13_lin.go     WGL-style linearizability search against a plain (single-threaded)
//                  casbin.Enforcer used as the sequential specification (backtracking by replay)
//   c13_forced.go  schedules forced deterministically through the library's own callbacks
//                  (adapter, matcher function, logger), all inside the guards
//   c13_cb.go      readers / writers parked inside USER callbacks (domain / role matching function,
//                  link condition function, custom matcher function) at every depth; every read
//                  compared with a quiescent twin enforcer; F20-exposed configurations probe-only
//   c13_probe.go   dedicated probes for the known findings F19 (two-phase LoadPolicy) and
//                  F20 (pattern role manager temp roles + g() memo)
//
// Guards of the main stream (so that it never trips over a known finding):
//   * a history contains LoadPolicy only together with readers {Enforce, GetPolicy, HasPolicy}
//     (F19: LoadPolicy is two critical sections);
//   * no matching function / pattern model in the random stream; in c13_cb.go a role matching
//     function only where c13CbExposed proves that no read call creates a temporary role in a
//     shared role manager (F20);
//   * UpdatePolicy targets come from a reserved pool never used by Add and each at most once
//     per history (F08 of C06: update to an already listed rule duplicates it).
//
// F38 (repaired in /repo, so part of the main stream): SyncedEnforcer.GetPolicy & co. used to
// return the enforcer's internal rule slice, which a later RemovePolicy/UpdatePolicy rewrote in
// place.  Every recorded GetPolicy call keeps the slice it was given and the slice is rendered a
// second time after quiescence: it must still read what it read when the call returned; a
// deterministic witness is one of the forced schedules (c13.f.getters-own-their-result).

import (
	"fmt"
	"hash/fnv"
	"runtime"
	"sort"
	"strings"
	"sync"
	"sync/atomic"
	"time"

	casbin "github.com/casbin/casbin/v2"
	"github.com/casbin/casbin/v2/model"
	"github.com/casbin/casbin/v2/persist"
	"github.com/casbin/govaluate"
)

// ---------- logical clock ----------

var c13Clock int64

func c13Tick() int64 { return atomic.AddInt64(&c13Clock, 1) }

// ---------- models ----------

type c13Spec struct {
	name  string
	text  string
	dom   bool
	hook  bool // matcher calls hook(r.sub): a function registered with AddFunction
	subs  []string
	roles []string
	doms  []string
	objs  []string
	acts  []string
	own   string // action of the reserved rules (UpdatePolicy targets only)
}

func c13MakeSpec(dom bool, hook bool) *c13Spec {
	s := &c13Spec{dom: dom, hook: hook, own: "own",
		subs: []string{"alice", "bob", "carol"}, roles: []string{"admin", "editor"}}
	h := ""
	if hook {
		h = "hook(r.sub) && "
	}
	if dom {
		s.name = "domain"
		s.doms = []string{"d1", "d2"}
		s.objs = []string{"data1"}
		s.acts = []string{"read", "write"}
		s.text = "[request_definition]\nr = sub, dom, obj, act\n[policy_definition]\np = sub, dom, obj, act\n[role_definition]\ng = _, _, _\n[policy_effect]\ne = some(where (p.eft == allow))\n[matchers]\nm = " + h + "g(r.sub, p.sub, r.dom) && r.dom == p.dom && r.obj == p.obj && r.act == p.act\n"
	} else {
		s.name = "plain"
		s.doms = []string{""}
		s.objs = []string{"data1", "data2"}
		s.acts = []string{"read", "write"}
		s.text = "[request_definition]\nr = sub, obj, act\n[policy_definition]\np = sub, obj, act\n[role_definition]\ng = _, _\n[policy_effect]\ne = some(where (p.eft == allow))\n[matchers]\nm = " + h + "g(r.sub, p.sub) && r.obj == p.obj && r.act == p.act\n"
	}
	if hook {
		s.name += "+hook"
	}
	return s
}

// P builds a p rule (or a request: same shape) for this model; the domain model takes dom.
func (s *c13Spec) P(sub, dom, obj, act string) []string {
	if s.dom {
		return []string{sub, dom, obj, act}
	}
	return []string{sub, obj, act}
}

// G builds a grouping rule.
func (s *c13Spec) G(user, role, dom string) []string {
	if s.dom {
		return []string{user, role, dom}
	}
	return []string{user, role}
}

func (s *c13Spec) names() []string { return append(append([]string(nil), s.subs...), s.roles...) }

// pRules: every ordinary (non reserved) p rule of the universe.
func (s *c13Spec) pRules() [][]string {
	var out [][]string
	for _, n := range s.names() {
		for _, d := range s.doms {
			for _, o := range s.objs {
				for _, a := range s.acts {
					out = append(out, s.P(n, d, o, a))
				}
			}
		}
	}
	return out
}

// reserved: rules with the action "own"; only ever introduced by UpdatePolicy.
func (s *c13Spec) reserved() [][]string {
	var out [][]string
	for _, n := range s.names() {
		for _, d := range s.doms {
			for _, o := range s.objs {
				out = append(out, s.P(n, d, o, s.own))
			}
		}
	}
	return out
}

func (s *c13Spec) gRules() [][]string {
	var out [][]string
	for _, u := range s.names() {
		for _, r := range s.roles {
			if u == r {
				continue
			}
			for _, d := range s.doms {
				out = append(out, s.G(u, r, d))
			}
		}
	}
	return out
}

// requests: every request of the small universe (post-quiescence decision check).
func (s *c13Spec) requests() [][]string {
	var out [][]string
	acts := append(append([]string(nil), s.acts...), s.own)
	for _, n := range s.names() {
		for _, d := range s.doms {
			for _, o := range s.objs {
				for _, a := range acts {
					out = append(out, s.P(n, d, o, a))
				}
			}
		}
	}
	return out
}

func (s *c13Spec) newModel() model.Model {
	m, err := model.NewModelFromString(s.text)
	if err != nil {
		panic(err)
	}
	return m
}

func c13PassHook(args ...interface{}) (interface{}, error) { return true, nil }

// c13NewSynced builds the object under test: SyncedEnforcer + fresh adapter (auto-save is on by default).
func c13NewSynced(s *c13Spec, content [][]string, hook govaluate.ExpressionFunction) (*casbin.SyncedEnforcer, *c13Adapter) {
	a := c13NewAdapter(content)
	e, err := casbin.NewSyncedEnforcer(s.newModel(), a)
	if err != nil {
		panic(err)
	}
	if s.hook {
		if hook == nil {
			hook = c13PassHook
		}
		e.AddFunction("hook", hook) // a locking wrapper; registered before any concurrency
	}
	return e, a
}

// c13NewPlain builds the sequential reference: a plain Enforcer + fresh adapter.
func c13NewPlain(s *c13Spec, content [][]string) (*casbin.Enforcer, *c13Adapter) {
	a := c13NewAdapter(content)
	e, err := casbin.NewEnforcer(s.newModel(), a)
	if err != nil {
		panic(err)
	}
	if s.hook {
		e.AddFunction("hook", c13PassHook)
	}
	return e, a
}

// ---------- adapter ----------

// c13Adapter is an in-memory adapter (persist.Adapter + BatchAdapter + UpdatableAdapter) storing
// an ordered list of [ptype, fields...].  Every callback that the enforcer issues from a write
// section counts itself in wIn, LoadPolicy in rIn: two write callbacks (or a write callback and a
// load) inside at the same time mean the enforcer's write lock was not exclusive (clash).
type c13Adapter struct {
	mu    sync.Mutex
	rules [][]string
	yield int // runtime.Gosched() calls inside each callback (stretches the critical section)
	// hook runs inside the callback, without a.mu held: before the change for add/remove/update/
	// save, after the content was copied into the model for load.  It may block.
	hook  func(ev string, rule []string)
	wIn   int32
	rIn   int32
	clash int32
}

func c13CopyRules(rs [][]string) [][]string {
	out := make([][]string, len(rs))
	for i, r := range rs {
		out[i] = append([]string(nil), r...)
	}
	return out
}

func c13NewAdapter(content [][]string) *c13Adapter {
	return &c13Adapter{rules: c13CopyRules(content)}
}

func (a *c13Adapter) snapshot() [][]string {
	a.mu.Lock()
	defer a.mu.Unlock()
	return c13CopyRules(a.rules)
}

func (a *c13Adapter) setContent(content [][]string) {
	a.mu.Lock()
	a.rules = c13CopyRules(content)
	a.mu.Unlock()
}

func (a *c13Adapter) has(ptype string, rule []string) bool {
	a.mu.Lock()
	defer a.mu.Unlock()
	for _, r := range a.rules {
		if c13SameRule(r, ptype, rule) {
			return true
		}
	}
	return false
}

func c13SameRule(stored []string, ptype string, rule []string) bool {
	if len(stored) != len(rule)+1 || stored[0] != ptype {
		return false
	}
	for i, f := range rule {
		if stored[i+1] != f {
			return false
		}
	}
	return true
}

func (a *c13Adapter) enterW(ev string, rule []string) {
	if atomic.AddInt32(&a.wIn, 1) > 1 || atomic.LoadInt32(&a.rIn) > 0 {
		atomic.StoreInt32(&a.clash, 1)
	}
	for i := 0; i < a.yield; i++ {
		runtime.Gosched()
	}
	if a.hook != nil {
		a.hook(ev, rule)
	}
}

func (a *c13Adapter) leaveW() { atomic.AddInt32(&a.wIn, -1) }

func (a *c13Adapter) LoadPolicy(m model.Model) error {
	atomic.AddInt32(&a.rIn, 1)
	defer atomic.AddInt32(&a.rIn, -1)
	if atomic.LoadInt32(&a.wIn) > 0 {
		atomic.StoreInt32(&a.clash, 1)
	}
	for _, r := range a.snapshot() {
		if err := persist.LoadPolicyArray(r, m); err != nil {
			return err
		}
	}
	for i := 0; i < a.yield; i++ {
		runtime.Gosched()
	}
	if a.hook != nil {
		a.hook("load", nil)
	}
	return nil
}

func (a *c13Adapter) SavePolicy(m model.Model) error {
	a.enterW("save", nil)
	defer a.leaveW()
	var out [][]string
	for _, sec := range []string{"p", "g"} {
		var pts []string
		for pt := range m[sec] {
			pts = append(pts, pt)
		}
		sort.Strings(pts)
		for _, pt := range pts {
			for _, r := range m[sec][pt].Policy {
				out = append(out, append([]string{pt}, r...))
			}
		}
	}
	a.mu.Lock()
	a.rules = out
	a.mu.Unlock()
	return nil
}

func (a *c13Adapter) addLocked(ptype string, rule []string) {
	a.rules = append(a.rules, append([]string{ptype}, rule...))
}

func (a *c13Adapter) removeLocked(ptype string, rule []string) {
	out := a.rules[:0:0]
	for _, r := range a.rules {
		if !c13SameRule(r, ptype, rule) {
			out = append(out, r)
		}
	}
	a.rules = out
}

func (a *c13Adapter) AddPolicy(sec string, ptype string, rule []string) error {
	a.enterW("add", rule)
	defer a.leaveW()
	a.mu.Lock()
	a.addLocked(ptype, rule)
	a.mu.Unlock()
	return nil
}

func (a *c13Adapter) RemovePolicy(sec string, ptype string, rule []string) error {
	a.enterW("remove", rule)
	defer a.leaveW()
	a.mu.Lock()
	a.removeLocked(ptype, rule)
	a.mu.Unlock()
	return nil
}

func c13FilterMatch(stored []string, ptype string, fieldIndex int, fieldValues []string) bool {
	if stored[0] != ptype {
		return false
	}
	for i, v := range fieldValues {
		if v == "" {
			continue
		}
		if fieldIndex+i+1 >= len(stored) || stored[fieldIndex+i+1] != v {
			return false
		}
	}
	return true
}

func (a *c13Adapter) RemoveFilteredPolicy(sec string, ptype string, fieldIndex int, fieldValues ...string) error {
	a.enterW("removefiltered", nil)
	defer a.leaveW()
	a.mu.Lock()
	out := a.rules[:0:0]
	for _, r := range a.rules {
		if !c13FilterMatch(r, ptype, fieldIndex, fieldValues) {
			out = append(out, r)
		}
	}
	a.rules = out
	a.mu.Unlock()
	return nil
}

func (a *c13Adapter) AddPolicies(sec string, ptype string, rules [][]string) error {
	a.enterW("addmany", nil)
	defer a.leaveW()
	a.mu.Lock()
	for _, r := range rules {
		a.addLocked(ptype, r)
	}
	a.mu.Unlock()
	return nil
}

func (a *c13Adapter) RemovePolicies(sec string, ptype string, rules [][]string) error {
	a.enterW("removemany", nil)
	defer a.leaveW()
	a.mu.Lock()
	for _, r := range rules {
		a.removeLocked(ptype, r)
	}
	a.mu.Unlock()
	return nil
}

func (a *c13Adapter) updateLocked(ptype string, oldRule, newRule []string) {
	for i, r := range a.rules {
		if c13SameRule(r, ptype, oldRule) {
			a.rules[i] = append([]string{ptype}, newRule...)
			return
		}
	}
}

func (a *c13Adapter) UpdatePolicy(sec string, ptype string, oldRule, newRule []string) error {
	a.enterW("update", oldRule)
	defer a.leaveW()
	a.mu.Lock()
	a.updateLocked(ptype, oldRule, newRule)
	a.mu.Unlock()
	return nil
}

func (a *c13Adapter) UpdatePolicies(sec string, ptype string, oldRules, newRules [][]string) error {
	a.enterW("updatemany", nil)
	defer a.leaveW()
	a.mu.Lock()
	for i := range oldRules {
		if i < len(newRules) {
			a.updateLocked(ptype, oldRules[i], newRules[i])
		}
	}
	a.mu.Unlock()
	return nil
}

func (a *c13Adapter) UpdateFilteredPolicies(sec string, ptype string, newRules [][]string, fieldIndex int, fieldValues ...string) ([][]string, error) {
	a.enterW("updatefiltered", nil)
	defer a.leaveW()
	a.mu.Lock()
	defer a.mu.Unlock()
	var old [][]string
	out := a.rules[:0:0]
	for _, r := range a.rules {
		if c13FilterMatch(r, ptype, fieldIndex, fieldValues) {
			old = append(old, append([]string(nil), r[1:]...))
		} else {
			out = append(out, r)
		}
	}
	a.rules = out
	for _, r := range newRules {
		a.addLocked(ptype, r)
	}
	return old, nil
}

var _ persist.Adapter = (*c13Adapter)(nil)
var _ persist.BatchAdapter = (*c13Adapter)(nil)
var _ persist.UpdatableAdapter = (*c13Adapter)(nil)

// ---------- operations ----------

const (
	c13Enforce = iota
	c13AddP
	c13RemP
	c13AddG
	c13RemG
	c13UpdP
	c13Load
	c13Save
	c13GetP
	c13HasP
)

var c13KindName = []string{"Enforce", "AddPolicy", "RemovePolicy", "AddGroupingPolicy", "RemoveGroupingPolicy", "UpdatePolicy", "LoadPolicy", "SavePolicy", "GetPolicy", "HasPolicy"}

// c13Pure: calls that never change the abstract state (policy, grouping, adapter content).
func c13Pure(kind int) bool { return kind == c13Enforce || kind == c13GetP || kind == c13HasP }

type c13Op struct {
	kind int
	a    []string // rule / request / old rule
	b    []string // new rule (UpdatePolicy)
}

func (o c13Op) String() string {
	s := c13KindName[o.kind] + "(" + strings.Join(o.a, ",")
	if o.kind == c13UpdP {
		s += "->" + strings.Join(o.b, ",")
	}
	return s + ")"
}

// c13API is the part of the enforcer API under test; *casbin.Enforcer (sequential reference) and
// *casbin.SyncedEnforcer (object under test) both implement it.
type c13API interface {
	Enforce(rvals ...interface{}) (bool, error)
	AddPolicy(params ...interface{}) (bool, error)
	RemovePolicy(params ...interface{}) (bool, error)
	AddGroupingPolicy(params ...interface{}) (bool, error)
	RemoveGroupingPolicy(params ...interface{}) (bool, error)
	UpdatePolicy(oldPolicy []string, newPolicy []string) (bool, error)
	LoadPolicy() error
	SavePolicy() error
	GetPolicy() ([][]string, error)
	GetGroupingPolicy() ([][]string, error)
	HasPolicy(params ...interface{}) (bool, error)
}

func c13BE(ok bool, err error) string {
	s := "f"
	if ok {
		s = "t"
	}
	if err != nil {
		s += "/err"
	}
	return s
}

func c13Cp(r []string) []string { return append([]string(nil), r...) }

// c13Apply performs one call and renders its result canonically.  Rules are copied per call:
// the enforcer keeps the slices it is given.
func c13Apply(e c13API, op c13Op) string { return c13ApplyHold(e, op, nil) }

// c13ApplyHold is c13Apply that also hands out the raw slice returned by GetPolicy.
func c13ApplyHold(e c13API, op c13Op, hold *[][]string) string {
	switch op.kind {
	case c13Enforce:
		args := make([]interface{}, len(op.a))
		for i, f := range op.a {
			args[i] = f
		}
		ok, err := e.Enforce(args...)
		return c13BE(ok, err)
	case c13AddP:
		ok, err := e.AddPolicy(c13Cp(op.a))
		return c13BE(ok, err)
	case c13RemP:
		ok, err := e.RemovePolicy(c13Cp(op.a))
		return c13BE(ok, err)
	case c13AddG:
		ok, err := e.AddGroupingPolicy(c13Cp(op.a))
		return c13BE(ok, err)
	case c13RemG:
		ok, err := e.RemoveGroupingPolicy(c13Cp(op.a))
		return c13BE(ok, err)
	case c13UpdP:
		ok, err := e.UpdatePolicy(c13Cp(op.a), c13Cp(op.b))
		return c13BE(ok, err)
	case c13Load:
		return errStr(e.LoadPolicy())
	case c13Save:
		return errStr(e.SavePolicy())
	case c13GetP:
		p, err := e.GetPolicy()
		if hold != nil {
			*hold = p
		}
		s := rulesKey(p)
		if err != nil {
			s += "/err"
		}
		return s
	case c13HasP:
		ok, err := e.HasPolicy(c13Cp(op.a))
		return c13BE(ok, err)
	}
	panic("c13: unknown op kind")
}

type c13Call struct {
	g    int // goroutine
	k    int // index within the goroutine
	op   c13Op
	inv  int64
	ret  int64
	res  string
	held [][]string // GetPolicy: the very slice the call returned (not a copy), re-read after quiescence
	done int32
}

func c13Overlap(a, b *c13Call) bool { return a.inv < b.ret && b.inv < a.ret }

// ---------- histories ----------

type c13History struct {
	id      string
	kind    string // "random" | "random-load" | "forced"
	spec    *c13Spec
	init    [][]string // adapter content the enforcer is constructed from
	drift   [][]string // if non-nil: adapter content put in place (out of band) after construction
	threads [][]c13Op
	spins   [][]int // busy iterations before each op
	gosched bool    // yield between ops
	sched   string  // "tight" | "yield-between-calls" | "random-delays"
	yield   int     // adapter callback yields
}

// c13Outcome is what a run leaves behind for the checks.
type c13Outcome struct {
	calls []*c13Call
	e     *casbin.SyncedEnforcer
	ad    *c13Adapter
	finP  [][]string
	finG  [][]string
	finAd [][]string
	// problems found while finishing the run (returned results that changed afterwards)
	problems []string
}

var c13Sink int64

func c13RunRandom(h *c13History) *c13Outcome {
	e, ad := c13NewSynced(h.spec, h.init, nil)
	if h.drift != nil {
		ad.setContent(h.drift)
	}
	ad.yield = h.yield
	out := &c13Outcome{e: e, ad: ad}
	per := make([][]*c13Call, len(h.threads))
	for g, ops := range h.threads {
		per[g] = make([]*c13Call, len(ops))
		for k, op := range ops {
			per[g][k] = &c13Call{g: g, k: k, op: op}
			out.calls = append(out.calls, per[g][k])
		}
	}
	var ready, wg sync.WaitGroup
	var start int32
	for g := range h.threads {
		ready.Add(1)
		wg.Add(1)
		go func(g int) {
			defer wg.Done()
			ready.Done()
			for atomic.LoadInt32(&start) == 0 {
				runtime.Gosched()
			}
			for k, call := range per[g] {
				if n := h.spins[g][k]; n > 0 {
					x := int64(0)
					for i := 0; i < n; i++ {
						x += int64(i ^ k)
					}
					atomic.AddInt64(&c13Sink, x)
				}
				if h.gosched {
					runtime.Gosched()
				}
				call.inv = c13Tick()
				call.res = c13ApplyHold(e, call.op, &call.held)
				call.ret = c13Tick()
			}
		}(g)
	}
	ready.Wait()
	atomic.StoreInt32(&start, 1)
	wg.Wait()
	c13Finish(out)
	return out
}

func c13Finish(out *c13Outcome) {
	p, _ := out.e.GetPolicy()
	g, _ := out.e.GetGroupingPolicy()
	out.finP = c13CopyRules(p)
	out.finG = c13CopyRules(g)
	out.finAd = out.ad.snapshot()
	// F38: what a completed GetPolicy call returned belongs to the caller
	for _, c := range out.calls {
		if c.op.kind == c13GetP && c.held != nil && rulesKey(c.held) != strings.TrimSuffix(c.res, "/err") {
			out.problems = append(out.problems, fmt.Sprintf("the rule list returned by the completed call [%d,%d]GetPolicy() read %s when it returned and reads %s after quiescence: the result aliases the enforcer's internal storage", c.inv, c.ret, c.res, rulesKey(c.held)))
		}
	}
}

// c13Replay renders a history on one line for direct.out.
func c13Replay(spec *c13Spec, init, drift [][]string, calls []*c13Call) string {
	var b strings.Builder
	fmt.Fprintf(&b, "model=%s init=%s", spec.name, rulesKey(init))
	if drift != nil {
		fmt.Fprintf(&b, " adapter-after-construction=%s", rulesKey(drift))
	}
	cs := append([]*c13Call(nil), calls...)
	sort.SliceStable(cs, func(i, j int) bool {
		if cs[i].g != cs[j].g {
			return cs[i].g < cs[j].g
		}
		return cs[i].inv < cs[j].inv
	})
	last := -1
	for _, c := range cs {
		if c.g != last {
			fmt.Fprintf(&b, " || g%d:", c.g)
			last = c.g
		}
		fmt.Fprintf(&b, " [%d,%d]%s=%s;", c.inv, c.ret, c.op.String(), c.res)
	}
	return b.String()
}

// c13Quiescence evaluates the property's last sentence on the real object after all calls have
// finished: nothing persisted is lost (memory == adapter as sets, when inSync says the two are
// supposed to agree) and no wrong decision is retained (every request of the universe decides
// as a fresh enforcer built from the same model and the stored content).
func c13Quiescence(spec *c13Spec, out *c13Outcome, inSync bool) []string {
	var bad []string
	var mem [][]string
	for _, r := range out.finP {
		mem = append(mem, append([]string{"p"}, r...))
	}
	for _, r := range out.finG {
		mem = append(mem, append([]string{"g"}, r...))
	}
	src := mem
	if inSync {
		if sortedRulesKey(mem) != sortedRulesKey(out.finAd) {
			bad = append(bad, "after quiescence memory and adapter differ: memory="+sortedRulesKey(mem)+" adapter="+sortedRulesKey(out.finAd))
		}
		src = out.finAd
	}
	fresh, _ := c13NewPlain(spec, src)
	for _, rq := range spec.requests() {
		op := c13Op{kind: c13Enforce, a: rq}
		got := c13Apply(out.e, op)
		want := c13Apply(fresh, op)
		if got != want {
			bad = append(bad, fmt.Sprintf("after quiescence Enforce(%s)=%s but a fresh enforcer on the stored policy says %s", strings.Join(rq, ","), got, want))
		}
	}
	if atomic.LoadInt32(&out.ad.clash) != 0 {
		bad = append(bad, "two adapter callbacks of write sections (or a write section and LoadPolicy) were inside the adapter at the same time")
	}
	return bad
}

// ---------- statistics shared by the random and the forced stream ----------

type c13Stats struct {
	total, overlap, nontrivial int
	maxNodes, sumNodes         int
	getPolicy                  int
}

func c13NodeBucket(n int) string {
	switch {
	case n <= 1:
		return "search-nodes=1"
	case n <= 4:
		return "search-nodes=2-4"
	case n <= 16:
		return "search-nodes=5-16"
	case n <= 64:
		return "search-nodes=17-64"
	case n <= 256:
		return "search-nodes=65-256"
	}
	return "search-nodes>256"
}

// c13Judge runs the linearizability search and the quiescence checks on a finished run, writes
// the case, its observable and the distribution counters.  extra are problems found by the
// forced schedule itself (stamp assertions).
func c13Judge(c *Ctx, st *c13Stats, id, kind string, spec *c13Spec, init, drift [][]string, out *c13Outcome, inSync bool, extra []string) {
	nG := 0
	for _, cl := range out.calls {
		if cl.g+1 > nG {
			nG = cl.g + 1
		}
	}
	c.Case(id, L(Q(kind), Q(spec.name), I(nG), I(len(out.calls))))
	c.Count("kind=" + kind)
	c.Count("model=" + spec.name)
	c.Count(fmt.Sprintf("goroutines=%d", nG))
	c.Count(fmt.Sprintf("calls=%d", len(out.calls)))
	for _, cl := range out.calls {
		c.Count("op=" + c13KindName[cl.op.kind])
		if cl.op.kind == c13GetP {
			st.getPolicy++
		}
	}
	// overlap / non-triviality
	overl, nontriv := false, false
	var pairs []string
	for i, a := range out.calls {
		for _, b := range out.calls[i+1:] {
			if a.g != b.g && c13Overlap(a, b) {
				overl = true
				if !c13Pure(a.op.kind) || !c13Pure(b.op.kind) {
					nontriv = true
				}
				x, y := c13KindName[a.op.kind], c13KindName[b.op.kind]
				if x > y {
					x, y = y, x
				}
				pairs = append(pairs, x+"~"+y)
			}
		}
	}
	st.total++
	if overl {
		st.overlap++
		c.Count("overlapping-calls")
	} else {
		c.Count("no-overlap")
	}

	res := c13Linearize(&c13LinInput{spec: spec, init: init, drift: drift, calls: out.calls, finP: out.finP, finG: out.finG, finAd: out.finAd})
	st.sumNodes += res.nodes
	if res.nodes > st.maxNodes {
		st.maxNodes = res.nodes
	}
	c.Count(c13NodeBucket(res.nodes))
	if res.orders > 1 {
		// the outcome depended on the order: more than one candidate order was tried
		nontriv = nontriv || overl
	}
	if nontriv {
		st.nontrivial++
		c.Count("non-trivial")
		var th []string
		per := map[int][]string{}
		for _, cl := range out.calls {
			per[cl.g] = append(per[cl.g], c13KindName[cl.op.kind])
		}
		for _, ks := range per {
			sort.Strings(ks)
			th = append(th, strings.Join(ks, ","))
		}
		sort.Strings(th)
		sort.Strings(pairs)
		h := fnv.New64a()
		h.Write([]byte(strings.Join(pairs, ";")))
		c.NonTrivial(fmt.Sprintf("%s|%s|%s|%x", kind, spec.name, strings.Join(th, "/"), h.Sum64()))
	}

	var bad []string
	if res.exhausted {
		bad = append(bad, fmt.Sprintf("linearization search gave up after %d nodes (inconclusive)", res.nodes))
	} else if !res.ok {
		bad = append(bad, "history not linearizable")
	}
	bad = append(bad, c13Quiescence(spec, out, inSync)...)
	bad = append(bad, out.problems...)
	bad = append(bad, extra...)
	if len(bad) == 0 {
		c.Obs(id, "result", "ok")
		return
	}
	c.Obs(id, "result", "violation")
	rp := c13Replay(spec, init, drift, out.calls)
	for _, w := range bad {
		c.Direct(id, w, rp)
	}
}

// ---------- random generator ----------

func c13Pick(c *Ctx, rs [][]string) []string { return rs[c.Rng.Intn(len(rs))] }

func c13Sample(c *Ctx, rs [][]string, n int) [][]string {
	idx := c.Rng.Perm(len(rs))
	if n > len(rs) {
		n = len(rs)
	}
	out := make([][]string, n)
	for i := 0; i < n; i++ {
		out[i] = rs[idx[i]]
	}
	return out
}

func c13Gen(c *Ctx, idx int, specs []*c13Spec) *c13History {
	rng := c.Rng
	spec := specs[rng.Intn(len(specs))]
	h := &c13History{id: fmt.Sprintf("c13.r%d", idx), kind: "random", spec: spec}
	load := rng.Intn(5) == 0
	driftW := !load && rng.Intn(8) == 0 // writers over a store that drifted; a SavePolicy resyncs it
	if load {
		h.kind = "random-load"
	} else if driftW {
		h.kind = "random-drift"
	}
	allP, allG, allR := spec.pRules(), spec.gRules(), spec.reserved()
	nHotP, nHotG := 4, 3
	if rng.Intn(4) == 0 { // focused history: nearly every call is about the same one or two rules
		nHotP, nHotG = 1+rng.Intn(2), 1
	}
	hotP := c13Sample(c, allP, nHotP)
	hotG := c13Sample(c, allG, nHotG)
	// make the hot grouping rules relevant: let a hot p rule belong to a role
	if rng.Intn(2) == 0 {
		g := hotG[0]
		r := c13Cp(hotP[0])
		r[0] = g[1]
		if spec.dom {
			r[1] = g[2]
		}
		hotP[0] = r
	}
	var init [][]string
	for _, r := range hotP {
		if rng.Intn(2) == 0 {
			init = append(init, append([]string{"p"}, r...))
		}
	}
	for _, r := range hotG {
		if rng.Intn(5) < 3 {
			init = append(init, append([]string{"g"}, r...))
		}
	}
	for i := rng.Intn(3); i > 0; i-- {
		if rng.Intn(2) == 0 {
			init = append(init, append([]string{"p"}, c13Pick(c, allP)...))
		} else {
			init = append(init, append([]string{"g"}, c13Pick(c, allG)...))
		}
	}
	// drop duplicates, then shuffle so that p and g lines interleave (SavePolicy reorders them)
	seen := map[string]bool{}
	var uniq [][]string
	for _, r := range init {
		k := strings.Join(r, "\x00")
		if !seen[k] {
			seen[k] = true
			uniq = append(uniq, r)
		}
	}
	rng.Shuffle(len(uniq), func(i, j int) { uniq[i], uniq[j] = uniq[j], uniq[i] })
	h.init = uniq

	if load || driftW {
		// the store drifted behind the enforcer's back: LoadPolicy really changes the state
		d := [][]string{}
		for _, r := range h.init {
			if rng.Intn(3) != 0 {
				d = append(d, r)
			}
		}
		for _, r := range hotP {
			k := strings.Join(append([]string{"p"}, r...), "\x00")
			if !seen[k] && rng.Intn(2) == 0 {
				seen[k] = true // the store holds every rule once
				d = append(d, append([]string{"p"}, r...))
			}
		}
		for _, r := range hotG {
			k := strings.Join(append([]string{"g"}, r...), "\x00")
			if !seen[k] && rng.Intn(2) == 0 {
				seen[k] = true
				d = append(d, append([]string{"g"}, r...))
			}
		}
		h.drift = d
	}

	nG := 2 + rng.Intn(3)
	maxOps := 6
	if c.Thorough() && rng.Intn(2) == 0 {
		nG = 4
	}
	var usedRes [][]string
	freeRes := c13Sample(c, allR, len(allR))
	pickP := func() []string {
		x := rng.Intn(100)
		switch {
		case x < 75:
			return c13Pick(c, hotP)
		case x < 88 && len(usedRes) > 0:
			return c13Pick(c, usedRes)
		}
		return c13Pick(c, allP)
	}
	pickG := func() []string {
		if rng.Intn(100) < 80 {
			return c13Pick(c, hotG)
		}
		return c13Pick(c, allG)
	}
	pickReq := func() []string {
		r := c13Cp(pickP())
		if rng.Intn(100) < 70 {
			r[0] = spec.subs[rng.Intn(len(spec.subs))]
		}
		return r
	}
	sawLoad := false
	for g := 0; g < nG; g++ {
		n := 1 + rng.Intn(maxOps)
		if c.Thorough() && rng.Intn(2) == 0 {
			n = maxOps
		}
		var ops []c13Op
		var spins []int
		for k := 0; k < n; k++ {
			var op c13Op
			x := rng.Intn(100)
			if load {
				switch {
				case x < 30:
					op = c13Op{kind: c13Load}
					sawLoad = true
				case x < 65:
					op = c13Op{kind: c13Enforce, a: pickReq()}
				case x < 80:
					op = c13Op{kind: c13GetP}
				default:
					op = c13Op{kind: c13HasP, a: pickP()}
				}
			} else {
				switch {
				case x < 28:
					op = c13Op{kind: c13Enforce, a: pickReq()}
				case x < 41:
					op = c13Op{kind: c13AddP, a: c13Pick(c, hotP)}
					if rng.Intn(5) == 0 {
						op.a = c13Pick(c, allP)
					}
				case x < 54:
					op = c13Op{kind: c13RemP, a: pickP()}
				case x < 64:
					op = c13Op{kind: c13AddG, a: pickG()}
				case x < 74:
					op = c13Op{kind: c13RemG, a: pickG()}
				case x < 82:
					if len(freeRes) > 0 {
						nw := freeRes[0]
						freeRes = freeRes[1:]
						usedRes = append(usedRes, nw)
						op = c13Op{kind: c13UpdP, a: pickP(), b: nw}
					} else {
						op = c13Op{kind: c13HasP, a: pickP()}
					}
				case x < 86:
					op = c13Op{kind: c13Save}
				case x < 93:
					op = c13Op{kind: c13GetP}
				default:
					op = c13Op{kind: c13HasP, a: pickP()}
				}
			}
			ops = append(ops, op)
			spins = append(spins, 0)
		}
		h.threads = append(h.threads, ops)
		h.spins = append(h.spins, spins)
	}
	if load && !sawLoad {
		h.threads[0][0] = c13Op{kind: c13Load}
	}
	h.sched = "tight"
	switch rng.Intn(10) {
	case 0, 1, 2, 3:
	case 4, 5, 6:
		h.gosched = true
		h.sched = "yield-between-calls"
	default:
		h.sched = "random-delays"
		for g := range h.spins {
			for k := range h.spins[g] {
				h.spins[g][k] = rng.Intn(3000)
			}
		}
	}
	if rng.Intn(2) == 0 {
		h.yield = 1 + rng.Intn(3)
	}
	return h
}

// ---------- registration ----------

func init() {
	register("C13", func(c *Ctx) {
		t0 := time.Now()
		nRandom := 2500
		if c.Thorough() {
			nRandom = 120000
		}
		c.Rule = "RUNTIME EXPLORATION (not proof) of SyncedEnforcer linearizability on the real code. " +
			"Random stream: fresh SyncedEnforcer + fresh in-memory auto-saving adapter with a random initial policy; 2-4 goroutines x 1-6 calls over " +
			"{Enforce, AddPolicy, RemovePolicy, AddGroupingPolicy, RemoveGroupingPolicy, UpdatePolicy, SavePolicy, GetPolicy, HasPolicy} on the plain RBAC and the domain RBAC model " +
			"(universe: 3 subjects, 2 roles, 2 objects or 2 domains, 2 actions + the reserved action), released by a spin barrier; tight, yielding and randomly delayed schedules, " +
			"adapter callbacks optionally yielding inside the write section; every call stamped from one atomic counter immediately before and after. " +
			"A history is accepted iff a WGL-style search finds an order of the calls, consistent with the stamps, in which a plain single-threaded casbin.Enforcer " +
			"(same model text, same initial store) returns the recorded results and ends in the same policy, grouping policy and store content (order-sensitive); " +
			"after quiescence memory == store (as sets) and every request of the universe decides as a fresh enforcer on the stored content. " +
			"Forced stream: schedules pinned through the library's callbacks (adapter, AddFunction matcher function, log.Logger) with stamp assertions (who must wait for whom) plus the same checks. " +
			"Callback-forced reader stream (c13_cb.go): on 7 configurations (plain / domain RBAC, with a domain matching function and a pattern domain `g, alice, admin, *`, with a role matching function, conditional role managers with link condition functions; " +
			"every matcher calls a custom function before and after g()) a first call A (Enforce, GetRolesForUser, GetUsersForRole, GetImplicitRolesForUser, GetNamedImplicitPermissionsForUser, GetImplicitUsersForPermission) is parked inside its ka-th user-callback call " +
			"(arm once, park the first caller reaching point ka = 1, 2, ... until A makes no more callback calls; cold and after a warm-up call), i.e. at every depth of Enforce / HasLink / getRoleManager / getRole; then either every second reader runs to completion and one writer must block until A is released (nested), " +
			"or a second reader B is parked at its kb-th callback, A finishes (with whatever clean-up its read path has) and then B (crossed), or A is a writer parked in a callback of its write section and all readers must block (wfirst). " +
			"Oracle: every read-only call must return what the same call returns on a quiescent twin (plain casbin.Enforcer, same model / policy / functions, used sequentially); writers' results and all questions re-asked after quiescence must agree with the twin after the same write; every wait has a 5 s watchdog (a hang is a violation). " +
			"Guards: LoadPolicy only in histories whose other calls are readers (F19), the store then drifted out of band so that LoadPolicy changes the state; " +
			"no matching function / pattern model in the random stream; in the callback-forced stream a role matching function only in configurations that the static guard c13CbExposed proves free of temporary roles in a shared role manager " +
			"(every subject asked about and every p.sub is a permanent role of the manager consulted, or the request domain has no stored manager) -- the exposed ones run from the F20 probe only; UpdatePolicy targets from a reserved pool, each at most once per history (F08 of C06); " +
			"The slice returned by every GetPolicy call is kept and re-read after quiescence: it must not have changed (F38, repaired). " +
			"Non-trivial = at least two calls of different goroutines overlapped in real time (by stamps) and one of them was a state-changing call (or the search had to try more than one order); " +
			"distinct by (stream, model, multiset of call kinds per goroutine, hash of the multiset of overlapping kind pairs)."

		st := &c13Stats{}

		// forced schedules first; their lines are flushed so that they survive a later crash of
		// the process (a broken lock usually ends in Go's fatal "concurrent map" error)
		nForced := c13RunForced(c, st)
		fTotal, fOverlap, fNontriv := st.total, st.overlap, st.nontrivial
		c.cases.Flush()
		c.impl.Flush()
		c.direct.Flush()

		// readers (and writers) parked inside user callbacks: domain / role matching function, link
		// condition function, custom matcher function (c13_cb.go); answers compared with a quiescent twin
		c13RunCallbacks(c)

		specs := []*c13Spec{c13MakeSpec(false, false), c13MakeSpec(true, false)}
		for i := 0; i < nRandom; i++ {
			h := c13Gen(c, i, specs)
			out := c13RunRandom(h)
			c.Count("schedule=" + h.sched)
			if h.yield > 0 {
				c.Count("adapter-callbacks-yield")
			}
			// memory and store must agree at the end unless the store had drifted and nothing resynchronised it
			inSync := h.drift == nil
			for _, cl := range out.calls {
				if cl.op.kind == c13Save || cl.op.kind == c13Load {
					inSync = true
				}
			}
			c13Judge(c, st, h.id, h.kind, h.spec, h.init, h.drift, out, inSync, nil)
		}
		randTotal, randOverlap, randNontriv := st.total-fTotal, st.overlap-fOverlap, st.nontrivial-fNontriv

		c13ProbeF19(c)
		c13ProbeF20(c)
		c13CbProbeF20(c)

		c13TableNotes(c)
		c.Notes = append(c.Notes,
			"exploration, not proof: the lock-protocol theorem is in Coq (Properties/C13.v); this harness samples schedules on the real code",
			fmt.Sprintf("random histories: %d, with real overlap (two calls of different goroutines overlapping by stamps): %d, non-trivial: %d", randTotal, randOverlap, randNontriv),
			fmt.Sprintf("forced schedules: %d (adapter / matcher function / logger callbacks)", nForced),
			fmt.Sprintf("linearization search: max nodes %d, mean nodes %.2f; GetPolicy calls whose returned slice was re-read after quiescence: %d", st.maxNodes, float64(st.sumNodes)/float64(st.total+1), st.getPolicy),
			fmt.Sprintf("GOMAXPROCS=%d wall=%.1fs", runtime.GOMAXPROCS(0), time.Since(t0).Seconds()),
			"guards: no LoadPolicy together with writers (F19); no pattern model / matching function in the random stream, role matching function in the callback-forced stream only where no read call can create a temporary role in a shared role manager (static guard c13CbExposed; exposed configurations run from the F20 probe) (F20); UpdatePolicy targets from a reserved pool, each at most once (F08)",
		)
	})
}
