// Command harness runs generated cases against the casbin implementation in /repo
// (through the replace directive in go.mod) and records, per property:
//   <out>/cases.sx   one S-expression per line: the inputs, for the extracted Coq model
//   <out>/impl.out   id <TAB> step <TAB> observable: what the implementation did
//   <out>/direct.out property predicates evaluated on the implementation alone (violations)
//   <out>/stats.json input distribution and samples for the evidence file
package main

import (
	"bufio"
	"encoding/json"
	"flag"
	"fmt"
	"math/rand"
	"os"
	"path/filepath"
	"sort"
	"strings"
	"time"
)

type Ctx struct {
	Prop     string
	Tier     string
	Seed     int64
	Rng      *rand.Rand
	Out      string
	cases    *bufio.Writer
	impl     *bufio.Writer
	direct   *bufio.Writer
	NCases   int
	NObs     int
	NDirect  int
	Dist     map[string]int
	Samples  []string
	Distinct map[string]bool // ids of cases that are non-trivial by the property's rule
	Notes    []string
	Known    []string // KNOWN-FINDING probe lines (finding id + status)
	Exhaust  bool
	Rule     string
}

func (c *Ctx) Thorough() bool { return c.Tier == "thorough" }

// Case records one case for the model runner.
func (c *Ctx) Case(id string, body string) {
	fmt.Fprintf(c.cases, "(%s %s)\n", id, body)
	c.NCases++
	if len(c.Samples) < 5 || (c.NCases%9973 == 0 && len(c.Samples) < 12) {
		s := body
		if len(s) > 600 {
			s = s[:600] + "..."
		}
		c.Samples = append(c.Samples, id+" "+s)
	}
}

// Obs records one observation of the implementation for case id.
func (c *Ctx) Obs(id string, step string, val string) {
	fmt.Fprintf(c.impl, "%s\t%s\t%s\n", id, step, val)
	c.NObs++
}

// Direct records a violation of the property's own predicate seen on the implementation.
func (c *Ctx) Direct(id string, what string, replay string) {
	fmt.Fprintf(c.direct, "%s\t%s\t%s\n", id, what, replay)
	c.NDirect++
}

func (c *Ctx) Count(k string) { c.Dist[k]++ }
func (c *Ctx) NonTrivial(key string) { c.Distinct[key] = true }

type propFn func(c *Ctx)

var registry = map[string]propFn{}

func register(id string, f propFn) { registry[id] = f }

func main() {
	tier := flag.String("tier", "quick", "quick|thorough")
	seed := flag.Int64("seed", 1, "PRNG seed")
	out := flag.String("out", "", "output directory")
	flag.Parse()
	if flag.NArg() < 1 || *out == "" {
		fmt.Fprintln(os.Stderr, "usage: harness -tier T -seed N -out DIR PROP")
		os.Exit(2)
	}
	prop := flag.Arg(0)
	f, ok := registry[prop]
	if !ok {
		var ks []string
		for k := range registry {
			ks = append(ks, k)
		}
		sort.Strings(ks)
		fmt.Fprintf(os.Stderr, "unknown property %s (have %s)\n", prop, strings.Join(ks, " "))
		os.Exit(2)
	}
	if err := os.MkdirAll(*out, 0o755); err != nil {
		panic(err)
	}
	mk := func(n string) (*os.File, *bufio.Writer) {
		fh, err := os.Create(filepath.Join(*out, n))
		if err != nil {
			panic(err)
		}
		return fh, bufio.NewWriterSize(fh, 1<<20)
	}
	f1, w1 := mk("cases.sx")
	f2, w2 := mk("impl.out")
	f3, w3 := mk("direct.out")
	c := &Ctx{Prop: prop, Tier: *tier, Seed: *seed, Rng: rand.New(rand.NewSource(*seed)), Out: *out,
		cases: w1, impl: w2, direct: w3, Dist: map[string]int{}, Distinct: map[string]bool{}}
	t0 := time.Now()
	f(c)
	w1.Flush()
	w2.Flush()
	w3.Flush()
	f1.Close()
	f2.Close()
	f3.Close()
	st := map[string]interface{}{
		"property": prop, "tier": *tier, "seed": *seed,
		"cases": c.NCases, "observations": c.NObs, "direct_violations": c.NDirect,
		"distinct_nontrivial": len(c.Distinct), "distribution": c.Dist, "samples": c.Samples,
		"notes": c.Notes, "known": c.Known, "exhaustive": c.Exhaust, "rule": c.Rule,
		"wall_s": time.Since(t0).Seconds(),
	}
	b, _ := json.MarshalIndent(st, "", " ")
	if err := os.WriteFile(filepath.Join(*out, "stats.json"), b, 0o644); err != nil {
		panic(err)
	}
}
