package main

import (
	"fmt"
	"math/rand"
	"strings"

	casbin "github.com/casbin/casbin/v2"
	"github.com/casbin/casbin/v2/model"
	"github.com/casbin/casbin/v2/persist"
)

// ---------------------------------------------------------------------------------------
// C01: construction modes.  The property quantifies over models, policies and role links, not
// over the way the enforcer came to hold them; the model (Enforce.v) is a function of the
// listed p rules (in stored order) and of the SET of links of every role definition.  The same
// case is therefore installed on the real enforcer in one of five ways:
//
//	seq    AddNamedPolicy for every p rule, then AddNamedGroupingPolicy for every link (the
//	       historical way; the only one used by the C03 cases)
//	load   everything comes from an adapter through NewEnforcer / LoadPolicy (persist.LoadPolicyArray)
//	inter  AddNamedPolicy / AddNamedGroupingPolicy one by one in a random interleaving of all
//	       policy types and role definitions (each p type keeps its relative order), with
//	       Enforce calls on requests of the case in between (compiled matchers and g() memos of
//	       the intermediate states exist when the next rule arrives)
//	batch  AddNamedPolicies / AddNamedGroupingPolicies per type, in random type order and random
//	       chunks, Enforce calls in between
//	mixed  a prefix of every p list and a random subset of every link list is loaded from the
//	       adapter, the rest arrives as in `inter`; additionally links that are NOT part of the
//	       case are added to a random role definition and removed again (names taken from the
//	       case's own links, so a rule routed into the wrong role graph meets real names)
//
// After the construction the listing is checked (p: exact order; g: same set) and the ordinary
// observation of c01Run follows.
// ---------------------------------------------------------------------------------------

//	reload an enforcer first loads a DIFFERENT policy (some links dropped, foreign links added, a
//	       prefix of the p rules), answers the case's requests (compiled matchers and g() memos
//	       exist), then the store's content is replaced by the case's policy and LoadPolicy runs
//	       - with auto-build-role-links on, or off and followed by BuildRoleLinks()
var c01Modes = []string{"seq", "load", "inter", "batch", "mixed", "reload"}

func (cs *c01Case) modeName() string {
	if cs.mode == "" {
		return "seq"
	}
	return cs.mode
}

// c01PickMode draws a construction mode (weights: seq 2, load 2, inter 3, batch 1, mixed 3).
func c01PickMode(r *rand.Rand) string {
	switch x := r.Intn(13); {
	case x >= 11:
		return "reload"
	case x < 2:
		return "seq"
	case x < 4:
		return "load"
	case x < 7:
		return "inter"
	case x < 8:
		return "batch"
	default:
		return "mixed"
	}
}

type c01Adapter struct{ lines [][]string }

func (a *c01Adapter) LoadPolicy(m model.Model) error {
	for _, l := range a.lines {
		if err := persist.LoadPolicyArray(append([]string(nil), l...), m); err != nil {
			return err
		}
	}
	return nil
}
func (a *c01Adapter) SavePolicy(m model.Model) error                             { return nil }
func (a *c01Adapter) AddPolicy(sec string, ptype string, rule []string) error    { return nil }
func (a *c01Adapter) RemovePolicy(sec string, ptype string, rule []string) error { return nil }
func (a *c01Adapter) RemoveFilteredPolicy(sec string, ptype string, fieldIndex int, fieldValues ...string) error {
	return nil
}

// loading is the same function of the rules as adding only when LoadPolicy neither rejects nor
// re-sorts them: every p rule has the size of its definition, every grouping rule at least the
// size of its definition, and the effect is not subjectPriority (LoadPolicy sorts by the role
// hierarchy then; AddPolicy does not)
func (cs *c01Case) loadable() bool {
	for _, d := range cs.e {
		if d.tag == "sp" {
			return false
		}
	}
	for _, d := range cs.p {
		n := len(strings.Split(d.val, ","))
		for _, r := range d.rules {
			if len(r) != n {
				return false
			}
		}
	}
	for _, d := range cs.g {
		for _, r := range d.rules {
			if len(r) < d.count {
				return false
			}
		}
	}
	return true
}

type c01Inst struct {
	key  string
	isG  bool
	rule []string
	del  bool
}

func c01Must(cs *c01Case, what string, rule interface{}, ok bool, err error) {
	if !ok || err != nil {
		panic(fmt.Sprint(what, " ", cs.id, " mode=", cs.modeName(), " ", rule, " ", ok, " ", err))
	}
}

// a few Enforce calls whose results are not observed (the final observation is what counts)
func c01Poke(r *rand.Rand, e *casbin.Enforcer, cs *c01Case) {
	if len(cs.reqs) == 0 {
		return
	}
	for k := 1 + r.Intn(3); k > 0; k-- {
		rq := cs.reqs[r.Intn(len(cs.reqs))]
		_, _ = e.Enforce(rq.goArgs()...)
	}
}

func c01Construct(c *Ctx, cs *c01Case, m model.Model) *casbin.Enforcer {
	cs.fixMode()
	mode := cs.modeName()
	r := c.Rng
	newE := func(lines [][]string) *casbin.Enforcer {
		var e *casbin.Enforcer
		var err error
		if lines == nil {
			e, err = casbin.NewEnforcer(m)
		} else {
			e, err = casbin.NewEnforcer(m, &c01Adapter{lines: lines})
		}
		if err != nil {
			panic(fmt.Sprint("NewEnforcer ", cs.id, " mode=", mode, " ", err))
		}
		return e
	}
	line := func(key string, rule []string) []string { return append([]string{key}, rule...) }
	switch mode {
	case "seq":
		e := newE(nil)
		for _, d := range cs.p {
			for _, rule := range d.rules {
				ok, err := e.AddNamedPolicy(d.key, rule)
				c01Must(cs, "AddNamedPolicy", rule, ok, err)
			}
		}
		for _, d := range cs.g {
			for _, rule := range d.rules {
				ok, err := e.AddNamedGroupingPolicy(d.key, rule)
				c01Must(cs, "AddNamedGroupingPolicy", rule, ok, err)
			}
		}
		return e
	case "load":
		lines := [][]string{}
		for _, d := range cs.p {
			for _, rule := range d.rules {
				lines = append(lines, line(d.key, rule))
			}
		}
		var gl [][]string
		for _, d := range cs.g {
			for _, rule := range d.rules {
				gl = append(gl, line(d.key, rule))
			}
		}
		// grouping lines anywhere between the policy lines
		for _, l := range gl {
			at := r.Intn(len(lines) + 1)
			lines = append(lines[:at:at], append([][]string{l}, lines[at:]...)...)
		}
		return newE(lines)
	case "reload":
		var final, first [][]string
		var us, rs []string
		for _, d := range cs.g {
			for _, rule := range d.rules {
				if len(rule) >= 2 {
					us = append(us, rule[0])
					rs = append(rs, rule[1])
				}
			}
		}
		for _, d := range cs.p {
			k := r.Intn(len(d.rules) + 1)
			for i, rule := range d.rules {
				final = append(final, line(d.key, rule))
				if i < k {
					first = append(first, line(d.key, rule))
				}
			}
		}
		for _, d := range cs.g {
			for _, rule := range d.rules {
				final = append(final, line(d.key, rule))
				if r.Intn(2) == 0 {
					first = append(first, line(d.key, rule))
				}
			}
			// foreign links of the first policy (not part of the case)
			for k := r.Intn(3); k > 0 && len(us) > 0; k-- {
				det := []string{rs[r.Intn(len(rs))], us[r.Intn(len(us))]}
				if d.count > 2 {
					if len(d.rules) == 0 {
						break
					}
					det = append(det, d.rules[r.Intn(len(d.rules))][2:d.count]...)
				}
				if len(det) >= d.count {
					first = append(first, line(d.key, det))
				}
			}
		}
		if first == nil {
			first = [][]string{}
		}
		ad := &c01Adapter{lines: first}
		e, err := casbin.NewEnforcer(m, ad)
		if err != nil {
			panic(fmt.Sprint("NewEnforcer ", cs.id, " mode=", mode, " ", err))
		}
		for _, rq := range cs.reqs {
			_, _ = e.Enforce(rq.goArgs()...)
		}
		if final == nil {
			final = [][]string{}
		}
		ad.lines = final
		if r.Intn(2) == 0 {
			e.EnableAutoBuildRoleLinks(false)
			if err := e.LoadPolicy(); err != nil {
				panic(fmt.Sprint("LoadPolicy ", cs.id, " mode=", mode, " ", err))
			}
			if err := e.BuildRoleLinks(); err != nil {
				panic(fmt.Sprint("BuildRoleLinks ", cs.id, " mode=", mode, " ", err))
			}
			e.EnableAutoBuildRoleLinks(true)
		} else if err := e.LoadPolicy(); err != nil {
			panic(fmt.Sprint("LoadPolicy ", cs.id, " mode=", mode, " ", err))
		}
		return e
	case "batch":
		e := newE(nil)
		type chunk struct {
			key   string
			isG   bool
			rules [][]string
		}
		var streams [][]chunk
		split := func(key string, isG bool, rules [][]string) {
			var st []chunk
			for i := 0; i < len(rules); {
				n := 1 + r.Intn(len(rules)-i)
				st = append(st, chunk{key, isG, rules[i : i+n]})
				i += n
			}
			streams = append(streams, st)
		}
		for _, d := range cs.p {
			split(d.key, false, d.rules)
		}
		for _, d := range cs.g {
			split(d.key, true, d.rules)
		}
		idx := make([]int, len(streams))
		for {
			var live []int
			for i := range streams {
				if idx[i] < len(streams[i]) {
					live = append(live, i)
				}
			}
			if len(live) == 0 {
				break
			}
			i := live[r.Intn(len(live))]
			ch := streams[i][idx[i]]
			idx[i]++
			if ch.isG {
				ok, err := e.AddNamedGroupingPolicies(ch.key, ch.rules)
				c01Must(cs, "AddNamedGroupingPolicies", ch.rules, ok, err)
			} else {
				ok, err := e.AddNamedPolicies(ch.key, ch.rules)
				c01Must(cs, "AddNamedPolicies", ch.rules, ok, err)
			}
			if r.Intn(2) == 0 {
				c01Poke(r, e, cs)
			}
		}
		return e
	}
	// inter / mixed
	var lines [][]string
	var streams [][]c01Inst
	for _, d := range cs.p {
		k := 0
		if mode == "mixed" {
			k = r.Intn(len(d.rules) + 1)
		}
		for _, rule := range d.rules[:k] {
			lines = append(lines, line(d.key, rule))
		}
		var st []c01Inst
		for _, rule := range d.rules[k:] {
			st = append(st, c01Inst{key: d.key, rule: rule})
		}
		streams = append(streams, st)
	}
	// names for the detour links
	var us, rs []string
	have := map[string]bool{}
	for _, d := range cs.g {
		for _, rule := range d.rules {
			if len(rule) >= 2 {
				us = append(us, rule[0])
				rs = append(rs, rule[1])
			}
			have[d.key+"\x00"+strings.Join(rule, "\x00")] = true
		}
	}
	for _, d := range cs.g {
		perm := r.Perm(len(d.rules))
		var st []c01Inst
		for _, i := range perm {
			rule := d.rules[i]
			if mode == "mixed" && r.Intn(2) == 0 {
				lines = append(lines, line(d.key, rule))
				continue
			}
			st = append(st, c01Inst{key: d.key, isG: true, rule: rule})
		}
		if mode == "mixed" && len(us) > 0 {
			for k := r.Intn(3); k > 0; k-- {
				det := []string{us[r.Intn(len(us))], rs[r.Intn(len(rs))]}
				if d.count > 2 {
					src := d.rules
					if len(src) == 0 {
						break
					}
					det = append(det, src[r.Intn(len(src))][2:d.count]...)
				}
				kk := d.key + "\x00" + strings.Join(det, "\x00")
				if have[kk] || len(det) < d.count {
					continue
				}
				have[kk] = true
				i := r.Intn(len(st) + 1)
				j := i + r.Intn(len(st)-i+1)
				st = append(st[:j:j], append([]c01Inst{{key: d.key, isG: true, rule: det, del: true}}, st[j:]...)...)
				st = append(st[:i:i], append([]c01Inst{{key: d.key, isG: true, rule: det}}, st[i:]...)...)
			}
		}
		streams = append(streams, st)
	}
	var e *casbin.Enforcer
	if mode == "mixed" {
		if lines == nil {
			lines = [][]string{}
		}
		e = newE(lines)
	} else {
		e = newE(nil)
	}
	idx := make([]int, len(streams))
	for {
		var live []int
		for i := range streams {
			if idx[i] < len(streams[i]) {
				live = append(live, i)
			}
		}
		if len(live) == 0 {
			break
		}
		if r.Intn(2) == 0 {
			c01Poke(r, e, cs)
		}
		i := live[r.Intn(len(live))]
		in := streams[i][idx[i]]
		idx[i]++
		switch {
		case in.isG && in.del:
			ok, err := e.RemoveNamedGroupingPolicy(in.key, in.rule)
			c01Must(cs, "RemoveNamedGroupingPolicy", in.rule, ok, err)
		case in.isG:
			ok, err := e.AddNamedGroupingPolicy(in.key, in.rule)
			c01Must(cs, "AddNamedGroupingPolicy", in.rule, ok, err)
		default:
			ok, err := e.AddNamedPolicy(in.key, in.rule)
			c01Must(cs, "AddNamedPolicy", in.rule, ok, err)
		}
	}
	return e
}

// ---------- a family with two role definitions over ONE name universe ----------
// g relates subjects, g2 relates objects, but objects and subjects share names ("admin", "user",
// "data1" occur on both sides), so a link that lands in the other definition's role graph, or a
// g2() bound to g's role manager, changes decisions.
func c01OverlapFamily() *c01Family {
	names := []string{"alice", "bob", "admin", "user", "data1"}
	objs := []string{"data1", "data2", "admin", "user"}
	strs := []string{"alice", "bob", "admin", "user", "data1", "data2", "read", "write", ""}
	return &c01Family{name: "rbac-two-graphs", rval: "sub, obj, act", pval: "sub, obj, act", gs: []c01GDef{{"g", 2}, {"g2", 2}},
		base: func() *c01E {
			return c01And(c01Call("g", c01V_("r_sub"), c01V_("p_sub")), c01Call("g2", c01V_("r_obj"), c01V_("p_obj")), c01Eq(c01V_("r_act"), c01V_("p_act")))
		},
		cols: func(*rand.Rand) [][]string { return [][]string{names, objs, c01Acts} },
		pos: func(*rand.Rand) [][]c01V {
			return [][]c01V{c01StrVals("alice", "bob", "admin", "data1"), c01StrVals("data1", "data2", "admin"), c01StrVals(c01Acts...)}
		},
		gcols: map[string][][]string{"g": {names, names}, "g2": {append([]string{"alice"}, objs...), names}},
		vocab: c01Vocab{strVars: []string{"r_sub", "r_obj", "r_act", "p_sub", "p_obj", "p_act"}, strs: strs, fns: []string{"keyMatch", "keyMatch2"}}}
}

// two role definitions AND two policy types (EnforceContext), every construction mode but seq
func c01TwoTypes(c *Ctx, next func(string) string) {
	r := c.Rng
	f := c01OverlapFamily()
	n := 90
	if c.Thorough() {
		n = 2500
	}
	for i := 0; i < n; i++ {
		eff := "ao"
		if i%3 == 2 {
			eff = c01Pick(r, []string{"ao", "do", "ad", "pr"})
		}
		cs := c01Build(r, next("two-types"), f, nil, eff, r.Intn(5), 1+r.Intn(5))
		cs.r = append(cs.r, c01RDef{"r2", "sub, obj"})
		cs.p = append(cs.p, c01PDef{"p2", "sub, obj, eft", c01RandRules(r, r.Intn(4), [][]string{{"alice", "admin", "user", "data1"}, {"data1", "data2", "admin"}, {"allow", "deny", "x"}})})
		cs.e = append(cs.e, c01EDef{"e2", c01Pick(r, []string{"ao", "do", "ad", "pr"})})
		// the second context asks g2 about the SUBJECT and g about the object
		m2 := c01And(c01Call("g2", c01V_("r2_sub"), c01V_("p2_sub")), c01Call("g", c01V_("r2_obj"), c01V_("p2_obj")))
		cs.m = append(cs.m, c01MDef{key: "m2", ast: m2, st: c01RandStyle(r)})
		ctx2 := []string{"r2", "p2", "e2", "m2"}
		cs.reqs = append(cs.reqs, c01AllReqs(r, ctx2, [][]c01V{c01StrVals("alice", "bob", "admin", "data1"), c01StrVals("data1", "data2", "admin")}, false)...)
		cs.mode = c01Modes[1+i%4]
		c01Run(c, cs)
	}
}

// c01RunMode draws the construction mode of a C01 case and runs it.
func c01RunMode(c *Ctx, cs *c01Case) {
	cs.mode = c01PickMode(c.Rng)
	c01Run(c, cs)
}

// the case id names the construction mode (the interleaving itself is a function of the seed)
func (cs *c01Case) fixMode() {
	if (cs.mode == "load" || cs.mode == "mixed" || cs.mode == "reload") && !cs.loadable() {
		cs.mode = "inter"
	}
	if cs.mode != "" && !strings.HasSuffix(cs.id, ".via-"+cs.mode) {
		cs.id += ".via-" + cs.mode
	}
}
