package main

import (
	"errors"
	"fmt"
	"math/rand"
	"os"
	"regexp"
	"sort"
	"strings"

	casbin "github.com/casbin/casbin/v2"
	"github.com/casbin/casbin/v2/constant"
	"github.com/casbin/casbin/v2/model"
	"github.com/casbin/casbin/v2/persist"
	"github.com/casbin/casbin/v2/util"
)

// ---------------------------------------------------------------------------------------
// C17, part 1: the models under test (shipped examples + generated ones), an in-memory
// adapter that loads rules in a chosen order, and the request universe.
// ---------------------------------------------------------------------------------------

// c17Spec is one model together with its base policy.
type c17Spec struct {
	name      string
	modelText string
	setup     func(e *casbin.Enforcer) // matching functions / custom functions of the example
	p         [][]string               // rules of ptype "p" in loaded order
	g         map[string][][]string    // grouping rules per role definition, loaded order
	gTypes    []string                 // sorted keys of g
	other     [][]string               // lines of the other policy types (p2, ...): kept fixed
	extra     map[string][]string      // extra request values per request field (short name)
	pattern   bool                     // role manager with a (domain) matching function
	generated bool
	preAsk    [][]interface{} // requests asked before a late registration of the matching functions
	buildNo   int

	// derived from the model
	ef      string // ao do ad pr sp un
	usesP   bool
	hasEval bool
	negFree bool
	rTok    []string // request field names without "r_"
	pTok    []string // policy field names without "p_"
	eftIdx  int      // column of p_eft or -1
	prioIdx int      // column of p_priority or -1
	matcher string
	gArity  map[string]int
	genKind *c17Kind
}

func c17RepoDir() string {
	if d := os.Getenv("VERIF_REPO"); d != "" {
		return d
	}
	return "/repo"
}

// c17Adapter loads its lines (ptype, fields...) in order through persist.LoadPolicyArray, the
// same entry point the file and string adapters use after CSV parsing.
type c17Adapter struct{ lines [][]string }

func (a *c17Adapter) LoadPolicy(m model.Model) error {
	for _, l := range a.lines {
		if err := persist.LoadPolicyArray(append([]string(nil), l...), m); err != nil {
			return err
		}
	}
	return nil
}
func (a *c17Adapter) SavePolicy(m model.Model) error { return nil }
func (a *c17Adapter) AddPolicy(sec string, ptype string, rule []string) error {
	return errors.New("not implemented")
}
func (a *c17Adapter) RemovePolicy(sec string, ptype string, rule []string) error {
	return errors.New("not implemented")
}
func (a *c17Adapter) RemoveFilteredPolicy(sec string, ptype string, fieldIndex int, fieldValues ...string) error {
	return errors.New("not implemented")
}

func c17Copy(rules [][]string) [][]string {
	out := make([][]string, len(rules))
	for i, r := range rules {
		out[i] = append([]string(nil), r...)
	}
	return out
}

func c17CopyG(g map[string][][]string) map[string][][]string {
	out := map[string][][]string{}
	for k, v := range g {
		out[k] = c17Copy(v)
	}
	return out
}

func (s *c17Spec) lines(p [][]string, g map[string][][]string) [][]string {
	var ls [][]string
	for _, r := range p {
		ls = append(ls, append([]string{"p"}, r...))
	}
	for _, gt := range s.gTypes {
		for _, r := range g[gt] {
			ls = append(ls, append([]string{gt}, r...))
		}
	}
	ls = append(ls, s.other...)
	return ls
}

// build makes a fresh enforcer for the spec's model with the given rules; effect != "" replaces
// the policy effect expression (used by the per-rule probes only).
func (s *c17Spec) build(p [][]string, g map[string][][]string, effect string) (*casbin.Enforcer, error) {
	m, err := model.NewModelFromString(s.modelText)
	if err != nil {
		return nil, err
	}
	if effect != "" {
		m["e"]["e"].Value = effect
	}
	e, err := casbin.NewEnforcer(m, &c17Adapter{lines: s.lines(p, g)})
	if err != nil {
		return nil, err
	}
	e.EnableAutoSave(false)
	if s.setup != nil {
		// every second build registers the matching functions only AFTER every request has been
		// asked once (compiled matcher and g() memo warm): the registration itself must make the
		// decisions those of the pattern role manager
		s.buildNo++
		if s.buildNo%2 == 0 {
			for _, rq := range s.preAsk {
				_, _ = e.Enforce(rq...)
			}
		}
		s.setup(e)
	}
	return e, nil
}

var c17EffectTags = map[string]string{
	constant.AllowOverrideEffect:   "ao",
	constant.DenyOverrideEffect:    "do",
	constant.AllowAndDenyEffect:    "ad",
	constant.PriorityEffect:        "pr",
	constant.SubjectPriorityEffect: "sp",
}

// derive reads the facts the checks need off the parsed model.
func (s *c17Spec) derive() error {
	m, err := model.NewModelFromString(s.modelText)
	if err != nil {
		return err
	}
	if m["r"] == nil || m["r"]["r"] == nil || m["p"] == nil || m["p"]["p"] == nil || m["e"]["e"] == nil || m["m"]["m"] == nil {
		return errors.New("no default r/p/e/m definitions")
	}
	s.matcher = m["m"]["m"].Value
	s.ef = c17EffectTags[m["e"]["e"].Value]
	if s.ef == "" {
		s.ef = "un"
	}
	s.usesP = strings.Contains(s.matcher, "p_")
	s.hasEval = util.HasEval(s.matcher)
	// negation-free, textually and conservatively: no '!' (this also rejects !=), no ternary,
	// no literal false, no arithmetic minus
	s.negFree = !strings.ContainsAny(s.matcher, "!?-") && !strings.Contains(s.matcher, "false") && !strings.Contains(s.matcher, " not ")
	s.rTok, s.pTok = nil, nil
	for _, t := range m["r"]["r"].Tokens {
		s.rTok = append(s.rTok, strings.TrimPrefix(t, "r_"))
	}
	s.eftIdx, s.prioIdx = -1, -1
	for i, t := range m["p"]["p"].Tokens {
		n := strings.TrimPrefix(t, "p_")
		s.pTok = append(s.pTok, n)
		if n == "eft" {
			s.eftIdx = i
		}
		if n == constant.PriorityIndex {
			s.prioIdx = i
		}
	}
	s.gArity = map[string]int{}
	s.gTypes = nil
	for gt, ast := range m["g"] {
		if len(ast.ParamsTokens) != 0 {
			return errors.New("conditional role definition")
		}
		s.gArity[gt] = strings.Count(ast.Value, "_")
		s.gTypes = append(s.gTypes, gt)
	}
	sort.Strings(s.gTypes)
	if s.g == nil {
		s.g = map[string][][]string{}
	}
	return nil
}

// ---------------------------------------------------------------------------------------
// shipped examples, paired as enforcer_test.go / model_test.go / rbac_api_test.go pair them
// ---------------------------------------------------------------------------------------

type c17Example struct {
	model, policy string
	setup         func(e *casbin.Enforcer)
	pattern       bool
	extra         map[string][]string
}

// the custom function of TestKeyMatchCustomModel (model_test.go)
func c17CustomFunction(args ...interface{}) (interface{}, error) {
	key1 := args[0].(string)
	key2 := args[1].(string)
	if key1 == "/alice_data2/myid/using/res_id" && key2 == "/alice_data/:resource" {
		return true, nil
	} else if key1 == "/alice_data2/myid/using/res_id" && key2 == "/alice_data2/:id/using/:resId" {
		return true, nil
	}
	return false, nil
}

var c17Examples = []c17Example{
	{model: "basic_model.conf", policy: "basic_policy.csv"},
	{model: "basic_model.conf", policy: "basic_inverse_policy.csv"},
	{model: "basic_model_without_spaces.conf", policy: "basic_policy.csv"},
	{model: "basic_with_root_model.conf", policy: "basic_policy.csv", extra: map[string][]string{"sub": {"root"}}},
	{model: "basic_without_resources_model.conf", policy: "basic_without_resources_policy.csv"},
	{model: "basic_without_users_model.conf", policy: "basic_without_users_policy.csv"},
	{model: "comment_model.conf", policy: "basic_policy.csv"},
	{model: "eval_operator_model.conf", policy: "eval_operator_policy.csv",
		extra: map[string][]string{"sub": {"admin", "alice"}, "obj": {"users", "data"}, "act": {"write", "read"}}},
	{model: "glob_model.conf", policy: "glob_policy.csv",
		extra: map[string][]string{"obj": {"/foo/bar", "/foo", "/foobar", "/prefix/foo/bar", "/prefix/subprefix/foobar"}}},
	{model: "ipmatch_model.conf", policy: "ipmatch_policy.csv",
		extra: map[string][]string{"sub": {"192.168.2.123", "192.168.0.123", "10.0.0.5", "192.168.0.1"}}},
	{model: "keyget_model.conf", policy: "keymatch_policy.csv",
		extra: map[string][]string{"obj": {"/alice_data/age", "/alice_data/name", "/alice_data/resource1", "/bob_data/age"}, "act": {"GET", "POST"}}},
	{model: "keyget2_model.conf", policy: "keymatch2_policy.csv",
		extra: map[string][]string{"obj": {"/alice_data/age", "/alice_data/name", "/alice_data2/1/using/2"}}},
	{model: "keymatch_model.conf", policy: "keymatch_policy.csv",
		extra: map[string][]string{"obj": {"/alice_data/resource1", "/alice_data/resource2", "/bob_data/resource1", "/cathy_data"}, "act": {"GET", "POST", "DELETE"}}},
	{model: "keymatch2_model.conf", policy: "keymatch2_policy.csv",
		extra: map[string][]string{"obj": {"/alice_data/resource1", "/alice_data2/myid/using/res_id", "/alice_data2/myid"}}},
	{model: "keymatch_custom_model.conf", policy: "keymatch2_policy.csv",
		setup: func(e *casbin.Enforcer) { e.AddFunction("keyMatchCustom", c17CustomFunction) },
		extra: map[string][]string{"obj": {"/alice_data2/myid", "/alice_data2/myid/using/res_id"}}},
	{model: "keymatch_with_rbac_in_domain.conf", policy: "keymatch_with_rbac_in_domain.csv", pattern: true,
		extra: map[string][]string{"sub": {"Username==test2"}, "dom": {"engines/engine1", "engines/engine2"}, "obj": {"x"}, "act": {"pause", "attach", "resume"}}},
	{model: "multiple_policy_definitions_model.conf", policy: "multiple_policy_definitions_policy.csv"},
	{model: "priority_model.conf", policy: "priority_policy.csv"},
	{model: "priority_model.conf", policy: "priority_indeterminate_policy.csv"},
	{model: "priority_model_enforce_context.conf", policy: "priority_policy_enforce_context.csv"},
	{model: "priority_model_explicit.conf", policy: "priority_policy_explicit.csv"},
	{model: "priority_model_explicit_customized.conf", policy: "priority_policy_explicit_customized.csv"},
	{model: "rbac_model.conf", policy: "rbac_policy.csv"},
	{model: "rbac_model.conf", policy: "rbac_with_hierarchy_policy.csv"},
	{model: "rbac_model_in_multi_line.conf", policy: "rbac_policy.csv"},
	{model: "rbac_model_matcher_using_in_op.conf", policy: "rbac_policy.csv", extra: map[string][]string{"obj": {"data3"}}},
	{model: "rbac_model_matcher_using_in_op_bracket.conf", policy: "rbac_policy.csv", extra: map[string][]string{"obj": {"data3"}}},
	{model: "rbac_with_all_pattern_model.conf", policy: "rbac_with_all_pattern_policy.csv", pattern: true,
		setup: func(e *casbin.Enforcer) {
			e.AddNamedMatchingFunc("g", "keyMatch2", util.KeyMatch2)
			e.AddNamedDomainMatchingFunc("g", "keyMatch2", util.KeyMatch2)
		},
		extra: map[string][]string{"obj": {"/book/1", "/book/2", "/pen/1"}}},
	{model: "rbac_with_deny_model.conf", policy: "rbac_with_deny_policy.csv"},
	{model: "rbac_with_not_deny_model.conf", policy: "rbac_with_deny_policy.csv"},
	{model: "rbac_with_domain_pattern_model.conf", policy: "rbac_with_domain_pattern_policy.csv", pattern: true,
		setup: func(e *casbin.Enforcer) { e.AddNamedDomainMatchingFunc("g", "keyMatch2", util.KeyMatch2) },
		extra: map[string][]string{"dom": {"domain3"}}},
	{model: "rbac_with_domains_model.conf", policy: "rbac_with_domains_policy.csv"},
	{model: "rbac_with_domains_model.conf", policy: "rbac_with_domains_policy2.csv"},
	{model: "rbac_with_domains_model.conf", policy: "rbac_with_hierarchy_with_domains_policy.csv"},
	{model: "rbac_with_multiple_policy_model.conf", policy: "rbac_with_multiple_policy_policy.csv"},
	{model: "rbac_with_pattern_model.conf", policy: "rbac_with_pattern_policy.csv", pattern: true,
		setup: func(e *casbin.Enforcer) {
			e.AddNamedMatchingFunc("g2", "KeyMatch2", util.KeyMatch2)
			e.AddNamedMatchingFunc("g", "KeyMatch2", util.KeyMatch2)
		},
		extra: map[string][]string{"sub": {"any_user", "/book/user/1"}, "obj": {"/book/1", "/pen/1", "/pen/2", "/pen3/1", "/pen4/1"}, "act": {"GET", "POST"}}},
	{model: "rbac_with_resource_roles_model.conf", policy: "rbac_with_resource_roles_policy.csv"},
	{model: "subject_priority_model.conf", policy: "subject_priority_policy.csv"},
	{model: "subject_priority_model_with_domain.conf", policy: "subject_priority_policy_with_domain.csv"},
}

// examples that are not driven, with the reason (reported in the notes)
var c17Skipped = []string{
	"abac_model.conf: request objects are Go structs (r.obj.Owner), no policy file",
	"abac_not_using_policy_model.conf + abac_rule_effect_policy.csv: struct request (r.obj.Owner)",
	"abac_rule_model.conf + abac_rule_policy.csv: eval over struct attributes (r.sub.Age)",
	"object_conditions_model.conf + object_conditions_policy.csv: eval over struct/map attributes (r.obj.price)",
	"multiple_policy_definitions_model.conf: only the default context r/p/m is driven, p2/m2 (eval over r2.sub.Age) is kept fixed",
	"rbac_with_multiple_policy_model.conf: only the default context is driven, p2/g2 kept fixed",
	"priority_model_enforce_context.conf: only the default context is driven",
	"rbac_with_temporal_roles_model.conf, rbac_with_domain_temporal_roles_model.conf, rbac_with_different_types_of_roles_model.conf: conditional role managers (wall-clock TimeMatch link conditions; F04: single AddGroupingPolicy adds no conditional link)",
}

func c17LoadExample(ex c17Example) (*c17Spec, error) {
	dir := c17RepoDir() + "/examples/"
	text, err := os.ReadFile(dir + ex.model)
	if err != nil {
		return nil, err
	}
	// the pair must load through the ordinary constructor (as the tests build it)
	if _, err := casbin.NewEnforcer(dir+ex.model, dir+ex.policy); err != nil {
		return nil, err
	}
	s := &c17Spec{name: strings.TrimSuffix(ex.model, ".conf") + "+" + strings.TrimSuffix(ex.policy, ".csv"),
		modelText: string(text), setup: ex.setup, pattern: ex.pattern, extra: ex.extra, g: map[string][][]string{}}
	if err := s.derive(); err != nil {
		return nil, err
	}
	// the rules as the file lists them (the enforcer may sort p by priority / subject
	// hierarchy; loading through the adapter sorts again, so file order is the base)
	fe, err := casbin.NewEnforcer(dir + ex.model)
	if err != nil {
		return nil, err
	}
	fm := fe.GetModel()
	if err := c17LoadFile(dir+ex.policy, fm); err != nil {
		return nil, err
	}
	s.p = c17Copy(fm["p"]["p"].Policy)
	for gt, ast := range fm["g"] {
		s.g[gt] = c17Copy(ast.Policy)
	}
	for pt, ast := range fm["p"] {
		if pt == "p" {
			continue
		}
		for _, r := range ast.Policy {
			s.other = append(s.other, append([]string{pt}, r...))
		}
	}
	sort.Slice(s.other, func(i, j int) bool { return strings.Join(s.other[i], "\x00") < strings.Join(s.other[j], "\x00") })
	return s, nil
}

// c17LoadFile reads a policy CSV into the model without sorting (file order).
func c17LoadFile(path string, m model.Model) error {
	data, err := os.ReadFile(path)
	if err != nil {
		return err
	}
	for _, line := range strings.Split(string(data), "\n") {
		line = strings.TrimSpace(line)
		if line == "" || strings.HasPrefix(line, "#") {
			continue
		}
		if err := persist.LoadPolicyLine(line, m); err != nil {
			return err
		}
	}
	return nil
}

// ---------------------------------------------------------------------------------------
// generated models
// ---------------------------------------------------------------------------------------

type c17Kind struct {
	name    string
	r, p    string
	g       string // role definition lines ("" = none)
	matcher string
	cols    map[string][]string // values per policy column (and request field of the same name)
	reqOnly map[string][]string // additional request-only values
	names   []string            // names used in generated links
	doms    []string
	pattern func(e *casbin.Enforcer)
}

var c17Subs = []string{"alice", "bob", "carol", "admin", "user"}
var c17Objs = []string{"data1", "data2", "data3"}
var c17Acts = []string{"read", "write"}

var c17Kinds = []c17Kind{
	{name: "acl", r: "sub, obj, act", p: "sub, obj, act",
		matcher: "r.sub == p.sub && r.obj == p.obj && r.act == p.act",
		cols:    map[string][]string{"sub": c17Subs, "obj": c17Objs, "act": c17Acts}},
	{name: "aclroot", r: "sub, obj, act", p: "sub, obj, act",
		matcher: "r.sub == p.sub && r.obj == p.obj && r.act == p.act || r.sub == \"admin\"",
		cols:    map[string][]string{"sub": c17Subs, "obj": c17Objs, "act": c17Acts}},
	{name: "rbac", r: "sub, obj, act", p: "sub, obj, act", g: "g = _, _",
		matcher: "g(r.sub, p.sub) && r.obj == p.obj && r.act == p.act",
		cols:    map[string][]string{"sub": c17Subs, "obj": c17Objs, "act": c17Acts}, names: c17Subs},
	// names whose concatenations coincide (bo+badmin = bob+admin; across the domain: a+b,cd = a+bc,d):
	// memoised g() answers must be kept apart
	{name: "rbaccollide", r: "sub, obj, act", p: "sub, obj, act", g: "g = _, _",
		matcher: "g(r.sub, p.sub) && r.obj == p.obj && r.act == p.act",
		cols:    map[string][]string{"sub": {"bo", "bob", "badmin", "admin", "b", "obadmin"}, "obj": c17Objs[:2], "act": c17Acts[:1]}, names: []string{"bo", "bob", "badmin", "admin", "b", "obadmin"}},
	{name: "rbacdomcollide", r: "sub, dom, obj, act", p: "sub, dom, obj, act", g: "g = _, _, _",
		matcher: "g(r.sub, p.sub, r.dom) && r.dom == p.dom && r.obj == p.obj && r.act == p.act",
		cols:    map[string][]string{"sub": {"a", "ab", "b", "bc", "c"}, "dom": {"d", "cd", "bcd"}, "obj": c17Objs[:1], "act": c17Acts[:1]}, names: []string{"a", "ab", "b", "bc", "c"}, doms: []string{"d", "cd", "bcd"}},
	{name: "rbacres", r: "sub, obj, act", p: "sub, obj, act", g: "g = _, _\ng2 = _, _",
		matcher: "g(r.sub, p.sub) && g2(r.obj, p.obj) && r.act == p.act",
		cols:    map[string][]string{"sub": c17Subs, "obj": append([]string{"grp1", "grp2"}, c17Objs...), "act": c17Acts}, names: c17Subs},
	{name: "rbacor", r: "sub, obj, act", p: "sub, obj, act", g: "g = _, _",
		matcher: "(g(r.sub, p.sub) || p.sub == \"*\") && (r.obj == p.obj || g(r.sub, \"admin\")) && r.act == p.act",
		cols:    map[string][]string{"sub": append([]string{"*"}, c17Subs...), "obj": c17Objs, "act": c17Acts}, names: c17Subs},
	{name: "rbacdom", r: "sub, dom, obj, act", p: "sub, dom, obj, act", g: "g = _, _, _",
		matcher: "g(r.sub, p.sub, r.dom) && r.dom == p.dom && r.obj == p.obj && r.act == p.act",
		cols:    map[string][]string{"sub": c17Subs, "dom": {"d1", "d2"}, "obj": c17Objs[:2], "act": c17Acts}, names: c17Subs, doms: []string{"d1", "d2"}},
	{name: "keymatch", r: "sub, obj, act", p: "sub, obj, act",
		matcher: "(r.sub == p.sub || p.sub == \"*\") && keyMatch(r.obj, p.obj) && regexMatch(r.act, p.act)",
		cols:    map[string][]string{"sub": {"alice", "bob", "*"}, "obj": {"/data/*", "/data/1", "/res/*", "/*"}, "act": {"GET", "(GET)|(POST)", "P.*", "DELETE"}},
		reqOnly: map[string][]string{"obj": {"/data/1", "/data/2", "/res/a", "/other"}, "act": {"GET", "POST", "PUT"}}},
	{name: "keymatch2", r: "sub, obj, act", p: "sub, obj, act", g: "g = _, _",
		matcher: "g(r.sub, p.sub) && keyMatch2(r.obj, p.obj) && r.act == p.act",
		cols:    map[string][]string{"sub": c17Subs, "obj": {"/data/:id", "/data/:id/sub/:k", "/res/*", "/x"}, "act": c17Acts}, names: c17Subs,
		reqOnly: map[string][]string{"obj": {"/data/1", "/data/1/sub/2", "/res/a/b", "/x", "/y"}}},
	{name: "regex", r: "sub, obj", p: "sub, obj",
		matcher: "regexMatch(r.sub, p.sub) && regexMatch(r.obj, p.obj)",
		cols:    map[string][]string{"sub": {"^al.*$", "^bob$", ".*"}, "obj": {"^data[12]$", "^/res/.*$", "data"}},
		reqOnly: map[string][]string{"sub": {"alice", "bob", "alfred"}, "obj": {"data1", "data3", "/res/x", "metadata"}}},
	{name: "ip", r: "sub, obj", p: "sub, obj",
		matcher: "ipMatch(r.sub, p.sub) && r.obj == p.obj",
		cols:    map[string][]string{"sub": {"10.0.0.0/8", "192.168.1.0/24", "192.168.1.7", "::1", "not-an-ip"}, "obj": c17Objs[:2]},
		reqOnly: map[string][]string{"sub": {"10.1.2.3", "192.168.1.7", "192.168.2.7", "172.16.0.1", "::1"}}},
	{name: "glob", r: "sub, obj", p: "sub, obj",
		matcher: "r.sub == p.sub && globMatch(r.obj, p.obj)",
		cols:    map[string][]string{"sub": {"alice", "bob"}, "obj": {"/foo/*", "/foo*", "/*/bar", "*", "[bad"}},
		reqOnly: map[string][]string{"obj": {"/foo/a", "/foobar", "/x/bar", "/foo", "zzz"}}},
	{name: "neg", r: "sub, obj, act", p: "sub, obj, act",
		matcher: "r.sub != p.sub && !keyMatch(r.obj, p.obj) && r.act == p.act",
		cols:    map[string][]string{"sub": c17Subs[:3], "obj": {"/data/*", "/res/*", "/data/1"}, "act": c17Acts},
		reqOnly: map[string][]string{"obj": {"/data/1", "/res/a", "/other"}}},
	{name: "negg", r: "sub, obj, act", p: "sub, obj, act", g: "g = _, _",
		matcher: "!g(r.sub, p.sub) && r.obj == p.obj && r.act == p.act",
		cols:    map[string][]string{"sub": c17Subs, "obj": c17Objs[:2], "act": c17Acts}, names: c17Subs},
	// eval() sub-rules that mention POLICY fields and are shared by several rows: each row has to
	// be judged against its own fields (and permuting the rows must not matter)
	{name: "evalp", r: "sub, obj, act", p: "sub_rule, obj, act",
		matcher: "eval(p.sub_rule) && r.act == p.act",
		cols: map[string][]string{"sub_rule": {"r.obj == p.obj", "r.obj == p.obj && r.sub != 'bob'", "r.sub == 'alice' || r.obj == p.obj", "r.sub == 'carol'"},
			"obj": c17Objs, "act": c17Acts},
		reqOnly: map[string][]string{"sub": c17Subs[:3], "obj": c17Objs}},
	{name: "nop", r: "sub, obj", p: "sub, obj",
		matcher: "r.sub == \"alice\" || r.obj == \"data1\"",
		cols:    map[string][]string{"sub": c17Subs[:3], "obj": c17Objs[:2]}},
	{name: "rbacpat", r: "sub, obj, act", p: "sub, obj, act", g: "g = _, _\ng2 = _, _",
		matcher: "g(r.sub, p.sub) && g2(r.obj, p.obj) && r.act == p.act",
		cols:    map[string][]string{"sub": {"alice", "bob", "admin", "/user/:id"}, "obj": {"grp1", "grp2", "/data/:id", "/res/*"}, "act": c17Acts},
		names:   []string{"alice", "bob", "admin", "/user/:id", "/user/1"},
		reqOnly: map[string][]string{"sub": {"/user/1", "/user/2"}, "obj": {"/data/1", "/res/a", "grp1"}},
		pattern: func(e *casbin.Enforcer) {
			e.AddNamedMatchingFunc("g", "KeyMatch2", util.KeyMatch2)
			e.AddNamedMatchingFunc("g2", "KeyMatch2", util.KeyMatch2)
		}},
}

var c17GenEffects = []struct{ tag, expr string }{
	{"ao", "some(where (p.eft == allow))"},
	{"do", "!some(where (p.eft == deny))"},
	{"ad", "some(where (p.eft == allow)) && !some(where (p.eft == deny))"},
	{"pr", "priority(p.eft) || deny"},
}

func c17Keys(m map[string][]string) []string {
	var ks []string
	for k := range m {
		ks = append(ks, k)
	}
	sort.Strings(ks)
	return ks
}

func c17Pick(rng *rand.Rand, xs []string) string { return xs[rng.Intn(len(xs))] }

// c17Generate draws a model kind, an effect, an optional eft column, a policy and links.
func c17Generate(rng *rand.Rand, n int) *c17Spec {
	k := c17Kinds[rng.Intn(len(c17Kinds))]
	ef := c17GenEffects[0]
	switch x := rng.Intn(10); {
	case x < 4:
		ef = c17GenEffects[0]
	case x < 6:
		ef = c17GenEffects[1]
	case x < 9:
		ef = c17GenEffects[2]
	default:
		ef = c17GenEffects[3]
	}
	withEft := ef.tag != "ao" || rng.Intn(2) == 0
	pdef := k.p
	if withEft {
		pdef += ", eft"
	}
	text := "[request_definition]\nr = " + k.r + "\n[policy_definition]\np = " + pdef + "\n"
	if k.g != "" {
		text += "[role_definition]\n" + k.g + "\n"
	}
	text += "[policy_effect]\ne = " + ef.expr + "\n[matchers]\nm = " + k.matcher + "\n"
	s := &c17Spec{name: fmt.Sprintf("gen%d-%s-%s", n, k.name, ef.tag), modelText: text, generated: true,
		setup: k.pattern, pattern: k.pattern != nil, g: map[string][][]string{}, extra: map[string][]string{}}
	if err := s.derive(); err != nil {
		panic(fmt.Sprint("generated model does not parse: ", err, "\n", text))
	}
	// (sorted keys: the run must be a function of the seed)
	for _, f := range c17Keys(k.reqOnly) {
		s.extra[f] = append(s.extra[f], k.reqOnly[f]...)
	}
	for _, f := range c17Keys(k.cols) { // the column pools double as request pools
		s.extra[f] = append(s.extra[f], k.cols[f]...)
	}
	// policy
	nr := rng.Intn(7)
	seen := map[string]bool{}
	for i := 0; i < nr; i++ {
		r := s.randomRule(rng, k.cols)
		if key := strings.Join(r, ","); !seen[key] {
			seen[key] = true
			s.p = append(s.p, r)
		}
	}
	// links
	for _, gt := range s.gTypes {
		nl := rng.Intn(6)
		seenL := map[string]bool{}
		for i := 0; i < nl; i++ {
			l := s.randomLink(rng, gt, k)
			if key := strings.Join(l, ","); !seenL[key] {
				seenL[key] = true
				s.g[gt] = append(s.g[gt], l)
			}
		}
	}
	s.genKind = &k
	return s
}

func (s *c17Spec) randomRule(rng *rand.Rand, cols map[string][]string) []string {
	r := make([]string, len(s.pTok))
	for i, t := range s.pTok {
		switch {
		case i == s.eftIdx:
			switch x := rng.Intn(10); {
			case x < 5:
				r[i] = "allow"
			case x < 9:
				r[i] = "deny"
			default:
				r[i] = "maybe"
			}
		case i == s.prioIdx:
			r[i] = fmt.Sprint(1 + rng.Intn(4))
		default:
			pool := cols[t]
			if len(pool) == 0 {
				pool = []string{"v1", "v2"}
			}
			r[i] = c17Pick(rng, pool)
		}
	}
	return r
}

func (s *c17Spec) randomLink(rng *rand.Rand, gt string, k c17Kind) []string {
	names := k.names
	if gt == "g2" {
		names = k.cols["obj"]
		if k.reqOnly["obj"] != nil {
			names = append(append([]string(nil), names...), k.reqOnly["obj"]...)
		}
	}
	l := []string{c17Pick(rng, names), c17Pick(rng, names)}
	if s.gArity[gt] >= 3 {
		l = append(l, c17Pick(rng, k.doms))
	}
	return l
}

// ---------------------------------------------------------------------------------------
// request universe: per request field the values occurring in the policy (same-named column,
// names of the role links when the field is an argument of g()), the example's own values,
// and one value that occurs nowhere
// ---------------------------------------------------------------------------------------

var c17GCall = regexp.MustCompile(`\b(g[0-9]*)\(([^()]*)\)`)

func (s *c17Spec) requests(rng *rand.Rand, p [][]string, g map[string][][]string, max int) [][]interface{} {
	pools := make([][]string, len(s.rTok))
	add := func(j int, v string) {
		for _, x := range pools[j] {
			if x == v {
				return
			}
		}
		pools[j] = append(pools[j], v)
	}
	for j, f := range s.rTok {
		col := -1
		for i, t := range s.pTok {
			if t == f {
				col = i
			}
		}
		if col < 0 && j < len(s.pTok) && j != s.eftIdx && j != s.prioIdx {
			col = j
		}
		if col >= 0 {
			for _, r := range p {
				if col < len(r) {
					add(j, r[col])
				}
			}
		}
		for _, v := range s.extra[f] {
			add(j, v)
		}
	}
	for _, mm := range c17GCall.FindAllStringSubmatch(s.matcher, -1) {
		gt := mm[1]
		for ai, a := range strings.Split(mm[2], ",") {
			a = strings.TrimSpace(a)
			for j, f := range s.rTok {
				if a != "r_"+f {
					continue
				}
				for _, l := range g[gt] {
					if ai <= 1 {
						for c := 0; c < 2 && c < len(l); c++ {
							add(j, l[c])
						}
					} else if ai < len(l) {
						add(j, l[ai])
					}
				}
			}
		}
	}
	total := 1
	for j := range pools {
		add(j, "zz_none")
		total *= len(pools[j])
		if total > 1<<20 {
			total = 1 << 20
		}
	}
	var reqs [][]interface{}
	if total <= max {
		idx := make([]int, len(pools))
		for {
			r := make([]interface{}, len(pools))
			for j := range pools {
				r[j] = pools[j][idx[j]]
			}
			reqs = append(reqs, r)
			j := 0
			for j < len(idx) {
				idx[j]++
				if idx[j] < len(pools[j]) {
					break
				}
				idx[j] = 0
				j++
			}
			if j == len(idx) {
				break
			}
		}
		return reqs
	}
	seen := map[string]bool{}
	for tries := 0; len(reqs) < max && tries < 20*max; tries++ {
		r := make([]interface{}, len(pools))
		key := ""
		for j := range pools {
			v := pools[j][rng.Intn(len(pools[j]))]
			r[j] = v
			key += v + "\x00"
		}
		if !seen[key] {
			seen[key] = true
			reqs = append(reqs, r)
		}
	}
	return reqs
}

func c17ReqStr(r []interface{}) string {
	ss := make([]string, len(r))
	for i, v := range r {
		ss[i] = v.(string)
	}
	return QL(ss)
}
