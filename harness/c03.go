package main

// C03: enforcement and loading are total and fail closed.
// The structured stream (model predicts ok|err and the decision, see c03_struct.go once the
// Enforce model is available) and the hostile stream (c03_hostile.go).

func init() {
	register("C03", func(c *Ctx) {
		c.Rule = "hostile stream: every shipped example model x seeded requests of 0..8 values drawn from hostile strings (empty, separators, NUL, regex/glob/IP garbage, 5000-byte strings, invalid UTF-8) and non-string Go values (ints, floats, nil, slices, maps, structs, EnforceContext with unknown names), with hostile stored rules and wrong-size rules, through Enforce / EnforceEx / BatchEnforce / EnforceWithMatcher(hostile matcher) under recover and a 20 s watchdog; arbitrary policy text through LoadPolicyLine, the string adapter, the file adapter and the filtered adapter; cyclic role graphs under all five effects; the self-referential eval rule. Non-trivial = the call returned an error or the text failed to load."
		c03Struct(c)
		c03Hostile(c)
	})
}
