package main

import (
	"fmt"
	"time"

	casbin "github.com/casbin/casbin/v2"
	"github.com/casbin/casbin/v2/model"
)

// C12, deadlock freedom with a SYNCHRONOUS watcher: writers of SyncedEnforcer announce the change
// (watcher.Update and friends) while they hold the write lock.  A watcher that delivers the
// announcement at once to the callback registered on it (an in-process bus, a test double) makes
// that callback run inside the writer's critical section; whatever SetWatcher registered as the
// default callback must therefore not try to take the enforcer's lock again.  Every write call is
// run under a watchdog; on the unchanged tree they all return.

type c12EchoWatcher struct {
	cb    func(string)
	calls int
}

func (w *c12EchoWatcher) SetUpdateCallback(f func(string)) error { w.cb = f; return nil }
func (w *c12EchoWatcher) Update() error {
	w.calls++
	if w.cb != nil {
		w.cb("echo")
	}
	return nil
}
func (w *c12EchoWatcher) Close() {}

func c12WatcherEcho(c *Ctx) {
	mm, err := model.NewModelFromString(machRBAC.Text)
	if err != nil {
		panic(err)
	}
	a := newRecAdapter()
	e, err := casbin.NewSyncedEnforcer(mm, a)
	if err != nil {
		panic(err)
	}
	w := &c12EchoWatcher{}
	if err := e.SetWatcher(w); err != nil {
		c.Direct("c12.echo", "SetWatcher failed", err.Error())
		return
	}
	calls := []struct {
		name string
		f    func()
	}{
		{"AddPolicy", func() { _, _ = e.AddPolicy("alice", "data1", "read") }},
		{"AddGroupingPolicy", func() { _, _ = e.AddGroupingPolicy("alice", "admin") }},
		{"AddPolicies", func() { _, _ = e.AddPolicies([][]string{{"bob", "data2", "write"}, {"admin", "data1", "write"}}) }},
		{"UpdatePolicy", func() { _, _ = e.UpdatePolicy([]string{"bob", "data2", "write"}, []string{"bob", "data2", "read"}) }},
		{"RemoveFilteredPolicy", func() { _, _ = e.RemoveFilteredPolicy(0, "admin") }},
		{"SavePolicy", func() { _ = e.SavePolicy() }},
		{"RemovePolicy", func() { _, _ = e.RemovePolicy("alice", "data1", "read") }},
		{"Enforce", func() { _, _ = e.Enforce("alice", "data1", "read") }},
		{"LoadPolicy", func() { _ = e.LoadPolicy() }},
	}
	for _, cl := range calls {
		done := make(chan struct{})
		go func() { cl.f(); close(done) }()
		select {
		case <-done:
		case <-time.After(20 * time.Second):
			c.Direct("c12.echo."+cl.name, fmt.Sprintf("SyncedEnforcer.%s did not return within 20 s with a watcher that delivers announcements synchronously to the callback SetWatcher registered (self-deadlock on the enforcer's lock); the watcher had been called %d time(s)", cl.name, w.calls), cl.name)
			return
		}
		c.Count("synchronous-watcher-call")
	}
}
