package main

import (
	"errors"
	"fmt"
	"sort"
	"strings"

	casbin "github.com/casbin/casbin/v2"
	"github.com/casbin/casbin/v2/model"
	stringadapter "github.com/casbin/casbin/v2/persist/string-adapter"
	"github.com/casbin/casbin/v2/rbac"
	defaultrolemanager "github.com/casbin/casbin/v2/rbac/default-role-manager"
	"github.com/casbin/casbin/v2/util"
)

// C05C: the CONDITIONAL role managers.  Drives the REAL defaultrolemanager.NewConditionalRoleManager /
// NewConditionalDomainManager directly, and through an Enforcer over a conditional role definition
// (g = _, _, (_, _) and g = _, _, _, (_, _)), with generated histories; after every call the result
// and the full observable state are printed.  The driver ocaml/rolecond computes the same lines from
// the Coq model coq/RoleCond.v.  Link condition functions come from the fixed family c05cFns; the
// model receives them as an oracle table (function id x parameter list -> 1 | 0 | E) recorded here
// from the real Go closures over the parameter lists of the case.
//
// Guard of the stream (order dependence, see RoleCond.v): a function that can return an error is
// registered only on links whose source is one of the names c05cErrSrc, each of which has ONE fixed
// target in every history, and only in cases without a role matching function: the sync.Map that
// getNextRoles walks when the error stops its Range then has a single entry, so Go's unspecified map
// order cannot show.

// the function family; index = function id of the model
var c05cFns = []rbac.LinkConditionFunc{
	func(p ...string) (bool, error) { return len(p) > 0 && p[0] == "on", nil },
	func(p ...string) (bool, error) { return len(p) > 1, nil },
	func(p ...string) (bool, error) { return true, errors.New("condition failed") }, // the bool must be ignored
	func(p ...string) (bool, error) { return false, nil },
	func(p ...string) (bool, error) {
		if len(p) == 0 {
			return true, errors.New("no parameters")
		}
		return p[0] == "on", nil
	},
}

const (
	c05cFnOn = iota
	c05cFnLen
	c05cFnErr
	c05cFnFalse
	c05cFnErrEmpty
)

func c05cCanErr(f int) bool { return f == c05cFnErr || f == c05cFnErrEmpty }

// sources that may carry an erroring function, with their only target
var c05cErrSrc = map[string]string{"e1": "a", "e2": "e1"}

var c05cProbes = [][]string{nil, {"on"}, {"off", "x"}}

func c05cCall(f rbac.LinkConditionFunc, ps []string) string {
	ok, err := f(ps...)
	if err != nil {
		return "E"
	}
	return B(ok)
}

func c05cFingerprint(f rbac.LinkConditionFunc) string {
	s := "fn:"
	for _, p := range c05cProbes {
		s += c05cCall(f, p)
	}
	return s
}

type c05cOp struct {
	k     string
	a     []string // names, domain, function id
	ps    []string // parameter list (setpar / setdpar)
	hasPs bool
	rules [][]string // addmany / rmfix
}

func (o c05cOp) sx() string {
	items := []string{o.k}
	for _, x := range o.a {
		items = append(items, Q(x))
	}
	if o.hasPs {
		items = append(items, QL(o.ps))
	}
	for _, r := range o.rules {
		items = append(items, QL(r))
	}
	return L(items...)
}

func c05cO(k string, a ...string) c05cOp              { return c05cOp{k: k, a: a} }
func c05cP(k string, ps []string, a ...string) c05cOp { return c05cOp{k: k, a: a, ps: ps, hasPs: true} }
func c05cR(k string, rules ...[]string) c05cOp        { return c05cOp{k: k, rules: rules} }

type c05cCase struct {
	kind    string // crm | cdm | ecrm | ecdm
	level   int
	from    int
	names   []string
	domains []string
	mf      func(a, b string) bool
	dmf     func(a, b string) bool
	store   [][]string
	ops     []c05cOp
}

func (cs *c05cCase) ntok() int {
	if cs.kind == "ecdm" {
		return 3
	}
	return 2
}

func c05cTable(f func(a, b string) bool, univ []string) string {
	var items []string
	if f != nil {
		for _, a := range univ {
			for _, b := range univ {
				if f(a, b) {
					items = append(items, L(Q(a), Q(b)))
				}
			}
		}
	}
	return strings.Join(items, " ")
}

// every name / domain mentioned has to be in the oracle universes of the matching functions
func c05cUniverse(cs *c05cCase) (names, domains []string) {
	ns, ds := map[string]bool{}, map[string]bool{"": true}
	for _, n := range cs.names {
		ns[n] = true
	}
	for _, d := range cs.domains {
		ds[d] = true
	}
	rule := func(r []string) {
		if len(r) >= 2 {
			ns[r[0]], ns[r[1]] = true, true
		}
		if cs.ntok() == 3 && len(r) >= 3 {
			ds[r[2]] = true
		}
	}
	for _, r := range cs.store {
		rule(r)
	}
	for _, o := range cs.ops {
		switch o.k {
		case "add", "del", "has", "enf", "getpar":
			ns[o.a[0]], ns[o.a[1]] = true, true
			if len(o.a) > 2 {
				ds[o.a[2]] = true
			}
		case "addfn", "setpar", "getfn":
			ns[o.a[0]], ns[o.a[1]] = true, true
		case "adddfn", "setdpar", "getdfn":
			ns[o.a[0]], ns[o.a[1]] = true, true
			ds[o.a[2]] = true
		case "roles", "users":
			ns[o.a[0]] = true
			if len(o.a) > 1 {
				ds[o.a[1]] = true
			}
		case "domains":
			ns[o.a[0]] = true
		case "addmany", "rmfix":
			for _, r := range o.rules {
				rule(r)
			}
		}
	}
	for n := range ns {
		names = append(names, n)
	}
	for d := range ds {
		domains = append(domains, d)
	}
	sort.Strings(names)
	sort.Strings(domains)
	return
}

// the oracle table of the condition functions over every parameter list of the case
func c05cCfTable(cs *c05cCase) string {
	seen := map[string]bool{}
	var lists [][]string
	add := func(ps []string) {
		k := QL(ps)
		if !seen[k] {
			seen[k] = true
			lists = append(lists, ps)
		}
	}
	for _, p := range c05cProbes {
		add(p)
	}
	rule := func(r []string) {
		if len(r) >= cs.ntok() {
			add(r[cs.ntok():])
		}
	}
	for _, r := range cs.store {
		rule(r)
	}
	for _, o := range cs.ops {
		if o.hasPs {
			add(o.ps)
		}
		for _, r := range o.rules {
			rule(r)
		}
	}
	var items []string
	for f, fn := range c05cFns {
		for _, ps := range lists {
			items = append(items, L(I(f), QL(ps), c05cCall(fn, ps)))
		}
	}
	return strings.Join(items, " ")
}

func c05cQs(ss []string) []string {
	out := make([]string, len(ss))
	for i, s := range ss {
		out[i] = Q(s)
	}
	return out
}

func c05cSortedQL(ss []string) string { return QL(sortedStrings(ss)) }

// the calls of a state dump: "-" = without a domain argument, then every domain of the case
func c05cDcalls(cs *c05cCase) [][]string {
	out := [][]string{nil}
	for _, d := range cs.domains {
		out = append(out, []string{d})
	}
	return out
}

func c05cDname(d []string) string {
	if d == nil {
		return "-"
	}
	return Q(d[0])
}

func c05cMatrix(names []string, has func(u, r string) (bool, error)) string {
	var b strings.Builder
	for _, u := range names {
		for _, r := range names {
			ok, err := has(u, r)
			if err != nil {
				b.WriteString("E")
			} else {
				b.WriteString(B(ok))
			}
		}
	}
	return b.String()
}

func c05cLinks(m *defaultrolemanager.ConditionalRoleManager) [][]string {
	var ls [][]string
	m.Range(func(a, b string, _ ...string) bool {
		ls = append(ls, []string{a, b})
		return true
	})
	return ls
}

func c05cGuard(f func() string) (res string) {
	defer func() {
		if r := recover(); r != nil {
			res = "panic"
		}
	}()
	return f()
}

func c05cMgrState(cs *c05cCase, m rbac.ConditionalRoleManager) string {
	var parts []string
	switch mm := m.(type) {
	case *defaultrolemanager.ConditionalRoleManager:
		for _, d := range c05cDcalls(cs) {
			parts = append(parts, c05cDname(d)+":"+c05cMatrix(cs.names, func(u, r string) (bool, error) { return mm.HasLink(u, r, d...) }))
		}
		lst := func(f func(string, ...string) ([]string, error)) string {
			var items []string
			for _, u := range cs.names {
				l, _ := f(u)
				items = append(items, c05cSortedQL(l))
			}
			return strings.Join(items, ",")
		}
		parts = append(parts, "r="+lst(mm.GetRoles), "u="+lst(mm.GetUsers), "l="+sortedRulesKey(c05cLinks(mm)))
	case *defaultrolemanager.ConditionalDomainManager:
		for _, d := range c05cDcalls(cs) {
			d := d
			gl := c05cGuard(func() string {
				l, _ := mm.GetRoles(cs.names[0], d...)
				return c05cSortedQL(l) + " ok"
			})
			parts = append(parts, c05cDname(d)+":"+c05cMatrix(cs.names, func(u, r string) (bool, error) { return mm.HasLink(u, r, d...) })+"/"+gl)
		}
		all, _ := mm.GetAllDomains()
		parts = append(parts, "all="+c05cSortedQL(all), "gd="+c05cGuard(func() string {
			l, _ := mm.GetDomains(cs.names[0])
			return c05cSortedQL(l) + " ok"
		}))
	}
	return strings.Join(parts, " ")
}

func c05cFnOf(a string) (int, rbac.LinkConditionFunc) {
	f := int(a[0] - '0')
	return f, c05cFns[f]
}

func c05cMgrApply(cs *c05cCase, m rbac.ConditionalRoleManager, o c05cOp) string {
	es := func(err error) string {
		if err != nil {
			return "err"
		}
		return "ok"
	}
	crm, _ := m.(*defaultrolemanager.ConditionalRoleManager)
	return c05cGuard(func() string {
		switch o.k {
		case "add":
			return es(m.AddLink(o.a[0], o.a[1], o.a[2:]...))
		case "del":
			return es(m.DeleteLink(o.a[0], o.a[1], o.a[2:]...))
		case "has":
			ok, err := m.HasLink(o.a[0], o.a[1], o.a[2:]...)
			return B(ok) + " " + es(err)
		case "roles":
			l, err := m.GetRoles(o.a[0], o.a[1:]...)
			return c05cSortedQL(l) + " " + es(err)
		case "users":
			l, err := m.GetUsers(o.a[0], o.a[1:]...)
			return c05cSortedQL(l) + " " + es(err)
		case "clear":
			return es(m.Clear())
		case "addmf":
			m.AddMatchingFunc("fn", cs.mf)
			return "ok"
		case "adddmf":
			m.AddDomainMatchingFunc("fn", cs.dmf)
			return "ok"
		case "addfn":
			_, fn := c05cFnOf(o.a[2])
			m.AddLinkConditionFunc(o.a[0], o.a[1], fn)
			return "ok"
		case "adddfn":
			_, fn := c05cFnOf(o.a[3])
			m.AddDomainLinkConditionFunc(o.a[0], o.a[1], o.a[2], fn)
			return "ok"
		case "setpar":
			m.SetLinkConditionFuncParams(o.a[0], o.a[1], o.ps...)
			return "ok"
		case "setdpar":
			m.SetDomainLinkConditionFuncParams(o.a[0], o.a[1], o.a[2], o.ps...)
			return "ok"
		case "getfn":
			fn, ok := crm.GetLinkConditionFunc(o.a[0], o.a[1])
			if !ok || fn == nil {
				return "none"
			}
			return c05cFingerprint(fn)
		case "getdfn":
			fn, ok := crm.GetDomainLinkConditionFunc(o.a[0], o.a[1], o.a[2])
			if !ok || fn == nil {
				return "none"
			}
			return c05cFingerprint(fn)
		case "getpar":
			ps, ok := crm.GetLinkConditionFuncParams(o.a[0], o.a[1], o.a[2:]...)
			if !ok {
				return "none"
			}
			return QL(ps)
		case "domains":
			l, err := m.GetDomains(o.a[0])
			return c05cSortedQL(l) + " " + es(err)
		case "alldomains":
			l, err := m.GetAllDomains()
			return c05cSortedQL(l) + " " + es(err)
		}
		panic("c05c: bad op " + o.k)
	})
}

const c05cModelCrm = `
[request_definition]
r = sub, obj, act
[policy_definition]
p = sub, obj, act
[role_definition]
g = _, _, (_, _)
[policy_effect]
e = some(where (p.eft == allow))
[matchers]
m = g(r.sub, p.sub) && r.obj == p.obj && r.act == p.act
`

const c05cModelCdm = `
[request_definition]
r = sub, dom, obj, act
[policy_definition]
p = sub, dom, obj, act
[role_definition]
g = _, _, _, (_, _)
[policy_effect]
e = some(where (p.eft == allow))
[matchers]
m = g(r.sub, p.sub, r.dom) && r.dom == p.dom && r.obj == p.obj && r.act == p.act
`

// one permission per name (and domain): Enforce(u, [d,] "o_"+r, read) == g(u, r[, d])
func c05cPolicyText(cs *c05cCase, grules [][]string) string {
	var b strings.Builder
	for _, n := range cs.names {
		if cs.kind == "ecrm" {
			fmt.Fprintf(&b, "p, %s, o_%s, read\n", n, n)
		} else {
			for _, d := range cs.domains {
				fmt.Fprintf(&b, "p, %s, %s, o_%s, read\n", n, d, n)
			}
		}
	}
	for _, r := range grules {
		b.WriteString("g, " + strings.Join(r, ", ") + "\n")
	}
	return b.String()
}

func c05cNewEnforcer(cs *c05cCase, grules [][]string) *casbin.Enforcer {
	text := c05cModelCrm
	if cs.kind == "ecdm" {
		text = c05cModelCdm
	}
	m, err := model.NewModelFromString(text)
	if err != nil {
		panic(err)
	}
	e, err := casbin.NewEnforcer(m, stringadapter.NewAdapter(c05cPolicyText(cs, grules)))
	if err != nil {
		panic(err)
	}
	e.EnableAutoSave(false)
	return e
}

func c05cEnforce(cs *c05cCase, e *casbin.Enforcer, u, r string, d []string) (bool, error) {
	if cs.kind == "ecrm" {
		return e.Enforce(u, "o_"+r, "read")
	}
	dom := ""
	if len(d) > 0 {
		dom = d[0]
	}
	return e.Enforce(u, dom, "o_"+r, "read")
}

func c05cEnfState(cs *c05cCase, e *casbin.Enforcer) string {
	gp, _ := e.GetGroupingPolicy()
	parts := []string{"g=" + rulesKey(gp)}
	dcalls := [][]string{nil}
	if cs.kind == "ecdm" {
		dcalls = nil
		for _, d := range cs.domains {
			dcalls = append(dcalls, []string{d})
		}
	}
	for _, d := range dcalls {
		d := d
		parts = append(parts, c05cDname(d)+":"+c05cMatrix(cs.names, func(u, r string) (bool, error) { return c05cEnforce(cs, e, u, r, d) }))
	}
	return strings.Join(parts, " ")
}

func c05cEnfApply(cs *c05cCase, e *casbin.Enforcer, o c05cOp) string {
	return c05cGuard(func() string {
		switch o.k {
		case "addmany":
			ok, _ := e.AddGroupingPolicies(o.rules)
			return B(ok)
		case "rmfix":
			ok, _ := e.RemoveGroupingPolicies(o.rules)
			if ok {
				_ = e.BuildIncrementalConditionalRoleLinks(model.PolicyRemove, "g", o.rules)
			}
			return B(ok)
		case "load":
			return B(e.LoadPolicy() == nil)
		case "clearpolicy":
			e.ClearPolicy()
			// ClearPolicy drops the permissions too: put the fixed ones back (they make Enforce read g())
			for _, line := range strings.Split(c05cPolicyText(cs, nil), "\n") {
				if line != "" {
					f := strings.Split(line, ", ")
					_, _ = e.AddPolicy(f[1:])
				}
			}
			return "ok"
		case "addfn":
			_, fn := c05cFnOf(o.a[2])
			return B(e.AddNamedLinkConditionFunc("g", o.a[0], o.a[1], fn))
		case "adddfn":
			_, fn := c05cFnOf(o.a[3])
			return B(e.AddNamedDomainLinkConditionFunc("g", o.a[0], o.a[1], o.a[2], fn))
		case "setpar":
			return B(e.SetNamedLinkConditionFuncParams("g", o.a[0], o.a[1], o.ps...))
		case "setdpar":
			return B(e.SetNamedDomainLinkConditionFuncParams("g", o.a[0], o.a[1], o.a[2], o.ps...))
		case "enf":
			ok, err := c05cEnforce(cs, e, o.a[0], o.a[1], o.a[2:])
			return B(ok) + " " + errStr(err)
		}
		panic("c05c: bad enforcer op " + o.k)
	})
}

// hidden state for the enumeration key: which function / parameter list was stored for which link,
// tagged with the domains that had a manager at that moment (a ConditionalDomainManager forwards
// the call to the stored managers only)
type c05cBook struct {
	fn, par map[string]string
}

func (b *c05cBook) reset() { b.fn, b.par = map[string]string{}, map[string]string{} }
func (b *c05cBook) key() string {
	var ks []string
	for k, v := range b.fn {
		ks = append(ks, "f:"+k+"="+v)
	}
	for k, v := range b.par {
		ks = append(ks, "p:"+k+"="+v)
	}
	sort.Strings(ks)
	return strings.Join(ks, ";")
}
func (b *c05cBook) note(m rbac.ConditionalRoleManager, o c05cOp) {
	doms := []string{"."}
	if cdm, ok := m.(*defaultrolemanager.ConditionalDomainManager); ok {
		doms, _ = cdm.GetAllDomains()
	}
	set := func(mp map[string]string, d, v string) {
		for _, at := range doms {
			mp[o.a[0]+">"+o.a[1]+"/"+d+"@"+at] = v
		}
	}
	switch o.k {
	case "addfn":
		set(b.fn, "", o.a[2])
	case "adddfn":
		set(b.fn, o.a[2], o.a[3])
	case "setpar":
		set(b.par, "", QL(o.ps))
	case "setdpar":
		set(b.par, o.a[2], QL(o.ps))
	}
}

func c05cHeader(cs *c05cCase) string {
	un, ud := c05cUniverse(cs)
	var ops []string
	for _, o := range cs.ops {
		ops = append(ops, o.sx())
	}
	return fmt.Sprintf("%s %d %d (names %s) (domains %s) (mf %s) (dmf %s) (cf %s) (store %s) (ops %s)", cs.kind, cs.level, cs.from,
		strings.Join(c05cQs(cs.names), " "), strings.Join(c05cQs(cs.domains), " "),
		c05cTable(cs.mf, un), c05cTable(cs.dmf, ud), c05cCfTable(cs),
		strings.Join(func() []string {
			var l []string
			for _, r := range cs.store {
				l = append(l, QL(r))
			}
			return l
		}(), " "), strings.Join(ops, " "))
}

// the guard of the stream, asserted (a generator bug must not look like a finding)
func c05cCheckGuard(cs *c05cCase) {
	targets := map[string]string{}
	link := func(u, r string) {
		if t, ok := c05cErrSrc[u]; ok && t != r {
			panic("c05c: generator broke the guard: " + u + " -> " + r)
		}
		targets[u] = r
	}
	usesMF := false
	errFn := false
	for _, r := range cs.store {
		link(r[0], r[1])
	}
	for _, o := range cs.ops {
		switch o.k {
		case "add":
			link(o.a[0], o.a[1])
		case "addmany":
			for _, r := range o.rules {
				link(r[0], r[1])
			}
		case "addmf":
			usesMF = true
		case "addfn", "adddfn":
			f, _ := c05cFnOf(o.a[len(o.a)-1])
			if c05cCanErr(f) {
				errFn = true
				if c05cErrSrc[o.a[0]] != o.a[1] {
					panic("c05c: erroring function on an unguarded link " + o.a[0] + " -> " + o.a[1])
				}
			}
		}
	}
	if usesMF && errFn {
		panic("c05c: erroring function together with a role matching function")
	}
}

// runs one case on fresh real objects; returns the final observable state + the hidden-state key
func c05cRun(c *Ctx, id string, cs *c05cCase) (final string) {
	c05cCheckGuard(cs)
	c.Case(id, c05cHeader(cs))
	for _, o := range cs.ops {
		c.Count(cs.kind + "." + o.k)
	}
	book := &c05cBook{}
	book.reset()
	switch cs.kind {
	case "crm", "cdm":
		var m rbac.ConditionalRoleManager
		var plain rbac.RoleManager // theorem (a) on the implementation alone: no function => answers like the plain manager
		if cs.kind == "crm" {
			m = defaultrolemanager.NewConditionalRoleManager(cs.level)
			plain = defaultrolemanager.NewRoleManagerImpl(cs.level)
		} else {
			m = defaultrolemanager.NewConditionalDomainManager(cs.level)
			plain = defaultrolemanager.NewDomainManager(cs.level)
		}
		mirror := true
		for k, o := range cs.ops {
			res := c05cMgrApply(cs, m, o)
			c.Obs(id, fmt.Sprintf("%d.res", k), res)
			book.note(m, o)
			if o.k == "clear" || (o.k == "addmf" && cs.kind == "crm") {
				book.reset()
			}
			switch o.k {
			case "add":
				_ = plain.AddLink(o.a[0], o.a[1], o.a[2:]...)
			case "del":
				_ = plain.DeleteLink(o.a[0], o.a[1], o.a[2:]...)
			case "clear":
				_ = plain.Clear()
			case "addmf":
				if cs.kind == "crm" {
					plain.AddMatchingFunc("fn", cs.mf)
				} else {
					mirror = false
				}
			case "addfn", "adddfn", "adddmf":
				mirror = false
			case "setpar", "setdpar", "getfn", "getdfn", "getpar":
				if cs.mf != nil { // these register names, which a matching function can see
					mirror = false
				}
			}
			if k >= cs.from {
				final = c05cMgrState(cs, m)
				c.Obs(id, fmt.Sprintf("%d.st", k), final)
			}
		}
		if mirror {
			for _, d := range c05cDcalls(cs) {
				d := d
				a := c05cMatrix(cs.names, func(u, r string) (bool, error) { return m.HasLink(u, r, d...) })
				b := c05cMatrix(cs.names, func(u, r string) (bool, error) { return plain.HasLink(u, r, d...) })
				if a != b {
					c.Direct(id, "no link condition function was registered, yet the conditional manager answers HasLink differently from the plain manager driven by the same AddLink/DeleteLink/Clear calls",
						fmt.Sprintf("case=%s domain=%s conditional=%s plain=%s", c05cHeader(cs), c05cDname(d), a, b))
				}
			}
			c.Count("direct.mirror." + cs.kind)
		}
	case "ecrm", "ecdm":
		e := c05cNewEnforcer(cs, cs.store)
		var regs []c05cOp // functions registered since the links were last rebuilt from scratch
		direct := cs.kind == "ecrm"
		aliased := func() bool { // two listed rules naming one link (they alias it: F03 shape)
			gp, _ := e.GetGroupingPolicy()
			seen := map[string]bool{}
			for _, r := range gp {
				k := strings.Join(r[:cs.ntok()], "\x00")
				if seen[k] {
					return true
				}
				seen[k] = true
			}
			return false
		}
		if aliased() {
			direct = false
		}
		for k, o := range cs.ops {
			if o.k == "rmfix" {
				for _, r := range o.rules { // the explicit link removal of a rule that is not listed may hit a listed link
					if ok, _ := e.HasGroupingPolicy(r); !ok {
						direct = false
					}
				}
			}
			res := c05cEnfApply(cs, e, o)
			c.Obs(id, fmt.Sprintf("%d.res", k), res)
			switch o.k {
			case "addfn", "adddfn":
				regs = append(regs, o)
			case "load", "clearpolicy":
				regs = nil
			case "setpar", "setdpar":
				direct = false
			}
			if direct && aliased() {
				direct = false
			}
			if k >= cs.from {
				final = c05cEnfState(cs, e)
				c.Obs(id, fmt.Sprintf("%d.st", k), final)
			}
		}
		// the property's own predicate (inside the F04 guard: batch additions, removals followed by the
		// explicit link removal): role inheritance mirrors the listed grouping rules, i.e. a fresh
		// enforcer given the listing in one batch and the same functions decides alike.  Guards: no two
		// listed rules name the same link (they alias one link: F03 shape), parameters only from rules.
		if direct {
			gp, _ := e.GetGroupingPolicy()
			{
				f := c05cNewEnforcer(cs, nil)
				if len(gp) > 0 {
					_, _ = f.AddGroupingPolicies(gp)
				}
				for _, o := range regs {
					c05cEnfApply(cs, f, o)
				}
				if a, b := c05cEnfState(cs, e), c05cEnfState(cs, f); a != b {
					c.Direct(id, "conditional role definition: the enforcer after the history decides differently from a fresh enforcer given its GetGroupingPolicy listing and the same link condition functions",
						fmt.Sprintf("case=%s incremental=%s rebuilt=%s", c05cHeader(cs), a, b))
				}
				c.Count("direct.rebuilt.ecrm")
			}
		}
	}
	return final + "#" + book.key()
}

// breadth-first enumeration of the state space: every reachable state x every call of the alphabet
// is one case (the path to the state followed by the call); a state (observable dump + hidden
// function / parameter tables) is expanded once.
func c05cEnum(c *Ctx, tag string, base c05cCase, root []c05cOp, alphabet []c05cOp, maxStates int) {
	seen := map[string]bool{}
	queue := [][]c05cOp{root}
	nstates := 0
	complete := true
	for len(queue) > 0 {
		path := queue[0]
		queue = queue[1:]
		nstates++
		for ai, a := range alphabet {
			cs := base
			cs.ops = append(append([]c05cOp(nil), path...), a)
			cs.from = len(cs.ops) - 2
			if cs.from < 0 {
				cs.from = 0
			}
			id := fmt.Sprintf("c05c.%s.s%d.o%d", tag, nstates, ai)
			key := c05cRun(c, id, &cs)
			c.NonTrivial(tag + "|" + key + "|" + a.sx())
			if !seen[key] {
				seen[key] = true
				if len(seen) <= maxStates {
					queue = append(queue, cs.ops)
				} else {
					complete = false
				}
			}
		}
	}
	c.Count(fmt.Sprintf("states.%s=%d", tag, nstates))
	if !complete {
		c.Count("enumeration-capped." + tag)
		c.Exhaust = false
	}
}

var c05cParamLists = [][]string{nil, {"on"}, {"off"}, {"on", "x"}, {"off", "x"}}

// one seeded random history of a manager
func c05cRandomMgr(c *Ctx, id, kind string, names, domains []string, mf, dmf func(a, b string) bool, level, length int, withFns bool) {
	cs := &c05cCase{kind: kind, level: level, names: names, domains: domains, mf: mf, dmf: dmf}
	pick := func(l []string) string { return l[c.Rng.Intn(len(l))] }
	pair := func() (string, string) {
		u := pick(names)
		if t, ok := c05cErrSrc[u]; ok {
			return u, t
		}
		return u, pick(names)
	}
	dom := func() []string {
		if kind == "cdm" || c.Rng.Intn(3) == 0 {
			if kind == "cdm" && c.Rng.Intn(8) == 0 {
				return nil // the call without a domain = the default domain ""
			}
			return []string{pick(domains)}
		}
		return nil
	}
	var added [][]string
	fnFor := func(u, r string) string {
		for {
			f := c.Rng.Intn(len(c05cFns))
			if c05cCanErr(f) && (mf != nil || c05cErrSrc[u] != r) {
				continue
			}
			return I(f)
		}
	}
	linkPair := func() (string, string) { // mostly a link that exists
		if len(added) > 0 && c.Rng.Intn(4) != 0 {
			a := added[c.Rng.Intn(len(added))]
			return a[0], a[1]
		}
		return pair()
	}
	mfAt, dmfAt := -1, -1
	if mf != nil {
		mfAt = c.Rng.Intn(length / 2)
		if kind == "cdm" || c.Rng.Intn(2) == 0 {
			mfAt = 0 // on a ConditionalDomainManager AddMatchingFunc panics once a domain exists
		}
	}
	if dmf != nil && kind == "cdm" {
		dmfAt = 0
		if c.Rng.Intn(6) == 0 {
			dmfAt = c.Rng.Intn(length)
		}
	}
	for k := 0; k < length; k++ {
		if k == mfAt {
			cs.ops = append(cs.ops, c05cO("addmf"))
		}
		if k == dmfAt {
			cs.ops = append(cs.ops, c05cO("adddmf"))
		}
		x := c.Rng.Intn(100)
		switch {
		case x < 30:
			u, r := pair()
			var o c05cOp
			if kind == "cdm" {
				o = c05cO("add", append([]string{u, r}, dom()...)...)
			} else {
				o = c05cO("add", u, r)
			}
			added = append(added, o.a)
			cs.ops = append(cs.ops, o)
		case x < 42:
			if len(added) > 0 && c.Rng.Intn(5) != 0 {
				a := added[c.Rng.Intn(len(added))]
				cs.ops = append(cs.ops, c05cO("del", a...))
			} else {
				u, r := pair()
				if kind == "cdm" {
					cs.ops = append(cs.ops, c05cO("del", append([]string{u, r}, dom()...)...))
				} else {
					cs.ops = append(cs.ops, c05cO("del", u, r))
				}
			}
		case x < 58 && withFns:
			u, r := linkPair()
			if c.Rng.Intn(2) == 0 {
				cs.ops = append(cs.ops, c05cO("addfn", u, r, fnFor(u, r)))
			} else {
				cs.ops = append(cs.ops, c05cO("adddfn", u, r, pick(domains), fnFor(u, r)))
			}
		case x < 74:
			u, r := linkPair()
			ps := c05cParamLists[c.Rng.Intn(len(c05cParamLists))]
			if c.Rng.Intn(2) == 0 {
				cs.ops = append(cs.ops, c05cP("setpar", ps, u, r))
			} else {
				cs.ops = append(cs.ops, c05cP("setdpar", ps, u, r, pick(domains)))
			}
		case x < 82:
			cs.ops = append(cs.ops, c05cO("has", append([]string{pick(names), pick(names)}, dom()...)...))
		case x < 85:
			if kind == "cdm" {
				cs.ops = append(cs.ops, c05cO("roles", append([]string{pick(names)}, dom()...)...))
			} else {
				cs.ops = append(cs.ops, c05cO("roles", pick(names)))
			}
		case x < 88:
			if kind == "cdm" {
				cs.ops = append(cs.ops, c05cO("users", append([]string{pick(names)}, dom()...)...))
			} else {
				cs.ops = append(cs.ops, c05cO("users", pick(names)))
			}
		case x < 90:
			cs.ops = append(cs.ops, c05cO("clear"))
			added = nil
		case x < 95 && kind == "crm":
			u, r := linkPair()
			switch c.Rng.Intn(3) {
			case 0:
				cs.ops = append(cs.ops, c05cO("getfn", u, r))
			case 1:
				cs.ops = append(cs.ops, c05cO("getdfn", u, r, pick(domains)))
			default:
				cs.ops = append(cs.ops, c05cO("getpar", append([]string{u, r}, dom()...)...))
			}
		case x < 95 && kind == "cdm":
			if c.Rng.Intn(2) == 0 {
				cs.ops = append(cs.ops, c05cO("domains", pick(names)))
			} else {
				cs.ops = append(cs.ops, c05cO("alldomains"))
			}
		case x < 97 && mf != nil && kind == "crm":
			cs.ops = append(cs.ops, c05cO("addmf")) // again: another rebuild, every function is dropped
		default:
			u, r := pair()
			if kind == "cdm" {
				o := c05cO("add", append([]string{u, r}, dom()...)...)
				added = append(added, o.a)
				cs.ops = append(cs.ops, o)
			} else {
				added = append(added, []string{u, r})
				cs.ops = append(cs.ops, c05cO("add", u, r))
			}
		}
	}
	c05cRun(c, id, cs)
	c.NonTrivial(id)
}

// one seeded random history through the enforcer (inside the F04 guard: batch additions only,
// removals are followed by the explicit removal of the links)
func c05cRandomEnf(c *Ctx, id, kind string, names, domains []string, length int, unique bool) {
	cs := &c05cCase{kind: kind, level: 10, names: names, domains: domains}
	pick := func(l []string) string { return l[c.Rng.Intn(len(l))] }
	vals := []string{"on", "off", "x"}
	listed := map[string][]string{} // link -> a rule naming it (unique: at most one rule per link)
	mk := func() []string {
		u := pick(names)
		r := pick(names)
		if t, ok := c05cErrSrc[u]; ok {
			r = t
		}
		rule := []string{u, r}
		if kind == "ecdm" {
			rule = append(rule, pick(domains))
		}
		return append(rule, pick(vals), pick(vals))
	}
	lk := func(r []string) string { return strings.Join(r[:cs.ntok()], "\x00") }
	batch := func() [][]string {
		var rs [][]string
		for i := 0; i < 1+c.Rng.Intn(3); i++ {
			r := mk()
			if unique {
				if _, ok := listed[lk(r)]; ok {
					continue
				}
			}
			listed[lk(r)] = r
			rs = append(rs, r)
		}
		return rs
	}
	for i := 0; i < c.Rng.Intn(4); i++ {
		r := mk()
		if _, ok := listed[lk(r)]; !ok {
			listed[lk(r)] = r
			cs.store = append(cs.store, r)
		}
	}
	storeListed := map[string][]string{}
	for k, v := range listed {
		storeListed[k] = v
	}
	anyListed := func() []string {
		var ks []string
		for k := range listed {
			ks = append(ks, k)
		}
		if len(ks) == 0 {
			return nil
		}
		sort.Strings(ks)
		return listed[ks[c.Rng.Intn(len(ks))]]
	}
	linkPair := func() (string, string, string) {
		if r := anyListed(); r != nil && c.Rng.Intn(4) != 0 {
			d := ""
			if kind == "ecdm" {
				d = r[2]
			}
			return r[0], r[1], d
		}
		r := mk()
		d := ""
		if kind == "ecdm" {
			d = r[2]
		}
		return r[0], r[1], d
	}
	for k := 0; k < length; k++ {
		x := c.Rng.Intn(100)
		switch {
		case x < 30:
			if rs := batch(); len(rs) > 0 {
				cs.ops = append(cs.ops, c05cR("addmany", rs...))
			}
		case x < 42:
			if r := anyListed(); r != nil {
				rs := [][]string{r}
				delete(listed, lk(r))
				if r2 := anyListed(); r2 != nil && c.Rng.Intn(3) == 0 {
					rs = append(rs, r2)
					delete(listed, lk(r2))
				}
				cs.ops = append(cs.ops, c05cR("rmfix", rs...))
			}
		case x < 62:
			u, r, d := linkPair()
			f := c.Rng.Intn(len(c05cFns))
			if c05cCanErr(f) && c05cErrSrc[u] != r {
				f = c05cFnOn
			}
			if kind == "ecdm" && c.Rng.Intn(4) != 0 {
				cs.ops = append(cs.ops, c05cO("adddfn", u, r, d, I(f)))
			} else {
				cs.ops = append(cs.ops, c05cO("addfn", u, r, I(f)))
			}
		case x < 72 && !unique:
			u, r, d := linkPair()
			ps := c05cParamLists[c.Rng.Intn(len(c05cParamLists))]
			if kind == "ecdm" && c.Rng.Intn(4) != 0 {
				cs.ops = append(cs.ops, c05cP("setdpar", ps, u, r, d))
			} else {
				cs.ops = append(cs.ops, c05cP("setpar", ps, u, r))
			}
		case x < 80:
			o := c05cO("enf", pick(names), pick(names))
			if kind == "ecdm" {
				o.a = append(o.a, pick(domains))
			}
			cs.ops = append(cs.ops, o)
		case x < 86:
			cs.ops = append(cs.ops, c05cO("load"))
			listed = map[string][]string{}
			for k, v := range storeListed {
				listed[k] = v
			}
		case x < 90:
			cs.ops = append(cs.ops, c05cO("clearpolicy"))
			listed = map[string][]string{}
		default:
			if rs := batch(); len(rs) > 0 {
				cs.ops = append(cs.ops, c05cR("addmany", rs...))
			}
		}
	}
	if len(cs.ops) == 0 {
		cs.ops = append(cs.ops, c05cO("load"))
	}
	c05cRun(c, id, cs)
	c.NonTrivial(id)
}

func init() {
	register("C05C", func(c *Ctx) {
		c.Rule = "conditional stream: the real ConditionalRoleManager / ConditionalDomainManager driven directly and through an Enforcer over g = _, _, (_, _) / g = _, _, _, (_, _). (1) breadth-first enumeration of the state space (observable dump + stored functions and parameters) of tiny universes: links, link condition functions from a fixed family (first parameter is `on`; more than one parameter; always an error; always false; error without parameters), parameters set before / after the function, default and named domains, Clear, rebuild; every state x every call. (2) seeded random histories over larger universes (chains, role patterns with KeyMatch, domain patterns, levels 0-3 and 10), managers and enforcer (batch AddGroupingPolicies, RemoveGroupingPolicies + explicit link removal, LoadPolicy, ClearPolicy, AddNamed[Domain]LinkConditionFunc, SetNamed[Domain]LinkConditionFuncParams, Enforce). (3) the witnesses of the refuted lemmas of coq/RoleCondProofs.v. After every call the result and the full observable state are compared with the extracted model. Direct predicates: without a registered function the conditional manager answers like the plain one; the enforcer decides like a fresh one rebuilt from its listing. Distinct = (universe, state, call) for the enumeration, one per random history."
		c.Exhaust = true
		th := c.Thorough()
		cap := func(q, t int) int {
			if th {
				return t
			}
			return q
		}
		km := util.KeyMatch
		on, off, none := []string{"on"}, []string{"off"}, []string(nil)

		// ---- (1a) ConditionalRoleManager: chain a -> b -> c, functions on both links, default domain and d1
		{
			al := []c05cOp{
				c05cO("add", "a", "b"), c05cO("del", "a", "b"), c05cO("add", "b", "c"), c05cO("del", "b", "c"), c05cO("add", "a", "c"),
				c05cO("addfn", "a", "b", I(c05cFnOn)), c05cO("addfn", "b", "c", I(c05cFnOn)), c05cO("addfn", "a", "b", I(c05cFnFalse)),
				c05cO("adddfn", "a", "b", "d1", I(c05cFnFalse)), c05cO("adddfn", "b", "c", "d1", I(c05cFnFalse)),
				c05cP("setpar", on, "a", "b"), c05cP("setpar", none, "a", "b"), c05cP("setpar", on, "b", "c"),
				c05cP("setdpar", on, "a", "b", "d1"),
				c05cO("has", "a", "c"), c05cO("has", "a", "c", "d1"), c05cO("has", "z", "c"), c05cO("roles", "a"), c05cO("users", "c"),
				c05cO("getfn", "a", "b"), c05cO("getdfn", "a", "b", "d1"), c05cO("getpar", "a", "b"), c05cO("getfn", "z", "y"),
				c05cO("clear"),
			}
			base := c05cCase{kind: "crm", level: 10, names: []string{"a", "b", "c", "z"}, domains: []string{"d1"}}
			c05cEnum(c, "crm", base, nil, al, cap(220, 4000))
		}
		// ---- (1b) the erroring functions on the guarded links e2 -> e1 -> a, next to a plain link b -> e2
		{
			al := []c05cOp{
				c05cO("add", "e1", "a"), c05cO("add", "e2", "e1"), c05cO("add", "b", "e2"), c05cO("del", "e1", "a"),
				c05cO("addfn", "e1", "a", I(c05cFnErr)), c05cO("addfn", "e1", "a", I(c05cFnErrEmpty)), c05cO("addfn", "e2", "e1", I(c05cFnErrEmpty)),
				c05cO("adddfn", "e2", "e1", "d1", I(c05cFnErr)), c05cO("addfn", "e1", "a", I(c05cFnLen)),
				c05cP("setpar", on, "e1", "a"), c05cP("setpar", off, "e1", "a"), c05cP("setpar", []string{"on", "x"}, "e1", "a"), c05cP("setpar", on, "e2", "e1"),
				c05cO("has", "b", "a"), c05cO("has", "b", "a", "d1"), c05cO("clear"),
			}
			base := c05cCase{kind: "crm", level: 10, names: []string{"a", "b", "e1", "e2"}, domains: []string{"d1"}}
			c05cEnum(c, "crm-err", base, nil, al, cap(120, 3000))
		}
		// ---- (1c) ConditionalRoleManager with a role matching function: the rebuild drops the functions,
		//      names registered by Set...Params / Get... linger and are seen by the patterns
		{
			al := []c05cOp{
				c05cO("add", "u", "/a/*"), c05cO("add", "/a/*", "r"), c05cO("add", "/*", "r"), c05cO("del", "u", "/a/*"),
				c05cO("addfn", "u", "/a/*", I(c05cFnOn)), c05cO("addfn", "/a/*", "r", I(c05cFnFalse)), c05cO("addfn", "/a/1", "r", I(c05cFnFalse)),
				c05cP("setpar", on, "u", "/a/*"), c05cP("setpar", on, "/a/1", "r"),
				c05cO("getfn", "/a/1", "/a/2"), c05cO("getpar", "/a/1", "r"), c05cO("has", "/a/1", "r"), c05cO("has", "u", "r"),
				c05cO("addmf"), c05cO("clear"),
			}
			base := c05cCase{kind: "crm", level: 10, names: []string{"u", "/a/*", "/a/1", "/a/2", "/*", "r"}, mf: km}
			c05cEnum(c, "crm-pat", base, []c05cOp{c05cO("addmf")}, al, cap(100, 3000))
		}
		// ---- (1d) ConditionalDomainManager: two domains, functions forwarded to the stored managers only
		{
			al := []c05cOp{
				c05cO("add", "a", "b", "d1"), c05cO("add", "b", "c", "d1"), c05cO("add", "a", "b", "d2"), c05cO("add", "a", "b"), c05cO("del", "a", "b", "d1"),
				c05cO("addfn", "a", "b", I(c05cFnOn)), c05cO("adddfn", "a", "b", "d1", I(c05cFnOn)), c05cO("adddfn", "b", "c", "d1", I(c05cFnFalse)),
				c05cO("adddfn", "a", "b", "d2", I(c05cFnFalse)),
				c05cP("setpar", on, "a", "b"), c05cP("setdpar", on, "a", "b", "d1"), c05cP("setdpar", none, "a", "b", "d1"),
				c05cO("has", "a", "c", "d1"), c05cO("has", "a", "b", "d3"), c05cO("roles", "a", "d1"), c05cO("users", "b", "d3"),
				c05cO("domains", "a"), c05cO("alldomains"), c05cO("clear"),
			}
			base := c05cCase{kind: "cdm", level: 10, names: []string{"a", "b", "c"}, domains: []string{"", "d1", "d2", "d3"}}
			c05cEnum(c, "cdm", base, nil, al, cap(160, 4000))
		}
		// ---- (1e) ConditionalDomainManager with matching functions: copyFrom drops the functions, the inherited
		//      DomainManager methods panic on the conditional managers
		{
			al := []c05cOp{
				c05cO("add", "a", "b", "*"), c05cO("add", "a", "b", "d1"), c05cO("add", "b", "c", "d1"), c05cO("del", "a", "b", "*"),
				c05cO("adddfn", "a", "b", "*", I(c05cFnFalse)), c05cO("adddfn", "a", "b", "d1", I(c05cFnOn)), c05cP("setdpar", on, "a", "b", "d1"),
				c05cO("has", "a", "b", "d2"), c05cO("has", "a", "c", "d1"), c05cO("roles", "a", "d2"),
				c05cO("adddmf"), c05cO("addmf"), c05cO("clear"),
			}
			base := c05cCase{kind: "cdm", level: 10, names: []string{"a", "b", "c"}, domains: []string{"*", "d1", "d2"}, mf: km, dmf: km}
			c05cEnum(c, "cdm-pat", base, []c05cOp{c05cO("adddmf")}, al, cap(90, 3000))
			c05cEnum(c, "cdm-pat-late", base, nil, al, cap(40, 1500))
		}
		// ---- (1f) through the enforcer
		{
			r1, r2, r3 := []string{"a", "b", "on", "x"}, []string{"b", "c", "off", "x"}, []string{"a", "b", "off", "y"}
			al := []c05cOp{
				c05cR("addmany", r1), c05cR("addmany", r2), c05cR("addmany", r1, r2), c05cR("addmany", r3), c05cR("rmfix", r1), c05cR("rmfix", r2, r3),
				c05cO("addfn", "a", "b", I(c05cFnOn)), c05cO("addfn", "b", "c", I(c05cFnOn)), c05cO("addfn", "b", "c", I(c05cFnLen)),
				c05cP("setpar", on, "b", "c"), c05cO("enf", "a", "c"), c05cO("load"), c05cO("clearpolicy"),
			}
			base := c05cCase{kind: "ecrm", level: 10, names: []string{"a", "b", "c"}, store: [][]string{{"b", "c", "on", "x"}}}
			c05cEnum(c, "ecrm", base, nil, al, cap(60, 1500))
			d1, d2, d3 := []string{"a", "b", "d1", "on", "x"}, []string{"b", "c", "d1", "off", "x"}, []string{"a", "b", "d2", "on", "x"}
			al2 := []c05cOp{
				c05cR("addmany", d1), c05cR("addmany", d2, d3), c05cR("rmfix", d1),
				c05cO("adddfn", "a", "b", "d1", I(c05cFnOn)), c05cO("adddfn", "b", "c", "d1", I(c05cFnOn)), c05cO("addfn", "a", "b", I(c05cFnFalse)),
				c05cP("setdpar", off, "a", "b", "d1"), c05cO("enf", "a", "c", "d1"), c05cO("load"), c05cO("clearpolicy"),
			}
			base2 := c05cCase{kind: "ecdm", level: 10, names: []string{"a", "b", "c"}, domains: []string{"d1", "d2"}, store: [][]string{{"a", "b", "d2", "off", "x"}}}
			c05cEnum(c, "ecdm", base2, nil, al2, cap(40, 1200))
		}

		// ---- (3) the witnesses of coq/RoleCondProofs.v / Properties/C05Cond.v on the real code
		{
			// the domain is dropped after the first hop
			c05cRun(c, "c05c.wit.hop", &c05cCase{kind: "crm", level: 10, names: []string{"u", "a", "b"}, domains: []string{"d"},
				ops: []c05cOp{c05cO("add", "u", "a"), c05cO("add", "a", "b"), c05cO("adddfn", "a", "b", "d", I(c05cFnFalse)),
					c05cO("has", "u", "b", "d"), c05cO("has", "a", "b", "d")}})
			// AddMatchingFunc (rebuild) and Clear drop the functions
			c05cRun(c, "c05c.wit.rebuild", &c05cCase{kind: "crm", level: 10, names: []string{"u", "r"}, mf: km,
				ops: []c05cOp{c05cO("add", "u", "r"), c05cO("addfn", "u", "r", I(c05cFnFalse)), c05cO("has", "u", "r"), c05cO("addmf"), c05cO("has", "u", "r")}})
			// copyFrom drops the functions
			c05cRun(c, "c05c.wit.copy", &c05cCase{kind: "cdm", level: 10, names: []string{"u", "r"}, domains: []string{"*", "d1"}, dmf: km,
				ops: []c05cOp{c05cO("adddmf"), c05cO("add", "u", "r", "*"), c05cO("adddfn", "u", "r", "*", I(c05cFnFalse)),
					c05cO("has", "u", "r", "*"), c05cO("has", "u", "r", "d1")}})
			// a function registered before the domain has a manager is lost
			c05cRun(c, "c05c.wit.early", &c05cCase{kind: "cdm", level: 10, names: []string{"u", "r"}, domains: []string{"d1"},
				ops: []c05cOp{c05cO("adddfn", "u", "r", "d1", I(c05cFnFalse)), c05cO("add", "u", "r", "d1"), c05cO("has", "u", "r", "d1"),
					c05cO("adddfn", "u", "r", "d1", I(c05cFnFalse)), c05cO("has", "u", "r", "d1")}})
			// the inherited methods panic
			c05cRun(c, "c05c.wit.panic", &c05cCase{kind: "cdm", level: 10, names: []string{"u", "r"}, domains: []string{"*", "d1"}, mf: km, dmf: km,
				ops: []c05cOp{c05cO("roles", "u", "d1"), c05cO("add", "u", "r", "d1"), c05cO("roles", "u", "d1"), c05cO("users", "r", "d1"), c05cO("domains", "u"),
					c05cO("addmf"), c05cO("adddmf"), c05cO("add", "u", "r", "*"), c05cO("has", "u", "r", "d1")}})
			// LoadPolicy drops the functions; parameters before / after the function
			c05cRun(c, "c05c.wit.load", &c05cCase{kind: "ecrm", level: 10, names: []string{"u", "r"}, store: [][]string{{"u", "r", "off", "x"}},
				ops: []c05cOp{c05cO("enf", "u", "r"), c05cO("addfn", "u", "r", I(c05cFnOn)), c05cO("enf", "u", "r"), c05cP("setpar", on, "u", "r"), c05cO("enf", "u", "r"),
					c05cO("load"), c05cO("enf", "u", "r"), c05cO("addfn", "u", "r", I(c05cFnOn)), c05cO("enf", "u", "r")}})
			for _, w := range []string{"hop", "rebuild", "copy", "early", "panic", "load"} {
				c.NonTrivial("wit." + w)
			}
		}

		// ---- (2) seeded random histories
		levels := []int{10, 10, 10, 10, 0, 1, 2, 3}
		nr := cap(70, 2500)
		for i := 0; i < nr; i++ {
			names := []string{"a", "b", "c", "d", "e1", "e2"}
			c05cRandomMgr(c, fmt.Sprintf("c05c.rnd.crm.%d", i), "crm", names, []string{"d1", ""}, nil, nil, levels[c.Rng.Intn(len(levels))], cap(26, 50), c.Rng.Intn(5) != 0)
		}
		for i := 0; i < nr/2; i++ {
			names := []string{"u", "v", "/a/*", "/a/1", "/*", "r"}
			c05cRandomMgr(c, fmt.Sprintf("c05c.rnd.crmpat.%d", i), "crm", names, []string{"d1"}, km, nil, levels[c.Rng.Intn(len(levels))], cap(24, 50), c.Rng.Intn(5) != 0)
		}
		for i := 0; i < nr; i++ {
			names := []string{"a", "b", "c", "e1"}
			doms := []string{"d1", "d2", ""}
			var mf, dmf func(a, b string) bool
			switch c.Rng.Intn(4) {
			case 0:
				dmf = km
				doms = []string{"*", "d1", "d2"}
			case 1:
				mf = km
				names = []string{"u", "/a/*", "/a/1", "r"}
			}
			c05cRandomMgr(c, fmt.Sprintf("c05c.rnd.cdm.%d", i), "cdm", names, doms, mf, dmf, levels[c.Rng.Intn(len(levels))], cap(24, 50), c.Rng.Intn(5) != 0)
		}
		// chains around the level bound with a condition in the middle
		{
			chain := make([]string, 13)
			for i := range chain {
				chain[i] = fmt.Sprintf("n%d", i)
			}
			for _, at := range []int{0, 5, 9, 10, 11} {
				cs := &c05cCase{kind: "crm", level: 10, names: chain, domains: []string{"d1"}}
				for i := 0; i+1 < len(chain); i++ {
					cs.ops = append(cs.ops, c05cO("add", chain[i], chain[i+1]))
				}
				cs.from = len(cs.ops)
				cs.ops = append(cs.ops, c05cO("addfn", chain[at], chain[at+1], I(c05cFnOn)), c05cO("adddfn", chain[at], chain[at+1], "d1", I(c05cFnFalse)),
					c05cP("setpar", on, chain[at], chain[at+1]), c05cO("has", "n0", "n10"), c05cO("has", "n0", "n11"), c05cO("has", "n1", "n11", "d1"))
				c05cRun(c, fmt.Sprintf("c05c.chain.%d", at), cs)
				c.NonTrivial(fmt.Sprintf("chain.%d", at))
			}
		}
		// observation, not a comparison: with an erroring condition on u -> a the answer HasLink(u, b) depends on
		// the order in which sync.Map.Range visits u's roles (the model: false when u -> a was stored first)
		{
			t, f := 0, 0
			for i := 0; i < 64; i++ {
				m := defaultrolemanager.NewConditionalRoleManager(10)
				_ = m.AddLink("u", "a")
				_ = m.AddLink("u", "b")
				m.AddLinkConditionFunc("u", "a", c05cFns[c05cFnErr])
				if ok, _ := m.HasLink("u", "b"); ok {
					t++
				} else {
					f++
				}
			}
			c.Notes = append(c.Notes, fmt.Sprintf("observation C05C: links u->a (condition returns an error), u->b (no condition): HasLink(u,b) over 64 fresh managers was true %d times and false %d times (order of sync.Map.Range; see C05C_error_hides_sibling_link_refuted)", t, f))
		}
		for i := 0; i < nr; i++ {
			kind := "ecrm"
			if i%3 == 2 {
				kind = "ecdm"
			}
			c05cRandomEnf(c, fmt.Sprintf("c05c.rnd.%s.%d", kind, i), kind, []string{"a", "b", "c", "e1"}, []string{"d1", "d2"}, cap(14, 30), i%2 == 0)
		}
	})
}
