package main

// C08: model text is read faithfully regardless of layout.
//
// Streams (all through the real config.NewConfigFromText and model.NewModelFromString):
//   ex/gen  exact layouts   documents (every /repo/examples/**/*.conf, read at run time, and generated
//                           ones) rendered under random layouts of the family the Coq theorem
//                           layout_invariant quantifies over; the layout itself is handed to the
//                           driver, which re-checks wf_ldoc, Coq's render and the theorem statement.
//   lo      loose layouts   the same after blank runs were stretched / blanks inserted at token
//                           boundaries inside r, p, g, m values (definitions equal up to blanks).
//   org     the example file as it is.
//   hx      hostile texts   random bytes, mutated examples, random line soups: model or error, no panic.
// The text of every case goes to the extracted Coq model, which must print the same observables.

import (
	"fmt"
	"os"
	"path/filepath"
	"sort"
	"strings"

	casbin "github.com/casbin/casbin/v2"
	"github.com/casbin/casbin/v2/config"
	"github.com/casbin/casbin/v2/model"
	fileadapter "github.com/casbin/casbin/v2/persist/file-adapter"
)

// ---------------------------------------------------------------------------- documents and layouts

type c08Def struct{ Key, Value string }
type c08Sec struct {
	Name string
	Defs []c08Def
}
type c08Doc []c08Sec

// the records of coq/Config.v
type c08Skip struct {
	Comment bool
	Pad     string // blank line
	Ind     string // comment line
	Semi    bool
	Text    string
}
type c08Cont struct{ Pad, Trail, Ind, Text string }
type c08LDef struct {
	Gap                       []c08Skip
	Ind, Key, Ws1, Ws2, First string
	More                      []c08Cont
	Trail                     string
	HasCmt, CmtSemi           bool // an in-line remark behind the definition
	CmtText                   string
}

func c08CmtRaw(d *c08LDef) string {
	if !d.HasCmt {
		return ""
	}
	if d.CmtSemi {
		return ";" + d.CmtText
	}
	return "#" + d.CmtText
}
type c08LSec struct {
	Gap              []c08Skip
	Ind, Name, Trail string
	Defs             []c08LDef
}
type c08LDoc struct {
	Secs    []c08LSec
	Tail    []c08Skip
	FinalNL bool
}

func c08SkipRaw(k *c08Skip) string {
	if !k.Comment {
		return k.Pad
	}
	if k.Semi {
		return k.Ind + ";" + k.Text
	}
	return k.Ind + "#" + k.Text
}

// c08Slot is a place of the layout that holds blanks only, on physical line `line`.
type c08Slot struct {
	p    *string
	line int
}

// c08Lines renders the physical lines and enumerates the blank slots.
func c08Lines(ld *c08LDoc) ([]string, []c08Slot) {
	var lines []string
	var slots []c08Slot
	skips := func(ks []c08Skip) {
		for i := range ks {
			k := &ks[i]
			if k.Comment {
				slots = append(slots, c08Slot{&k.Ind, len(lines)})
			} else {
				slots = append(slots, c08Slot{&k.Pad, len(lines)})
			}
			lines = append(lines, c08SkipRaw(k))
		}
	}
	for si := range ld.Secs {
		s := &ld.Secs[si]
		skips(s.Gap)
		slots = append(slots, c08Slot{&s.Ind, len(lines)}, c08Slot{&s.Trail, len(lines)})
		lines = append(lines, s.Ind+"["+s.Name+"]"+s.Trail)
		for di := range s.Defs {
			d := &s.Defs[di]
			skips(d.Gap)
			slots = append(slots, c08Slot{&d.Ind, len(lines)}, c08Slot{&d.Ws1, len(lines)}, c08Slot{&d.Ws2, len(lines)})
			cur := d.Ind + d.Key + d.Ws1 + "=" + d.Ws2 + d.First
			for ci := range d.More {
				ct := &d.More[ci]
				slots = append(slots, c08Slot{&ct.Pad, len(lines)}, c08Slot{&ct.Trail, len(lines)})
				lines = append(lines, cur+ct.Pad+"\\"+ct.Trail)
				slots = append(slots, c08Slot{&ct.Ind, len(lines)})
				cur = ct.Ind + ct.Text
			}
			slots = append(slots, c08Slot{&d.Trail, len(lines)})
			lines = append(lines, cur+d.Trail+c08CmtRaw(d))
		}
	}
	skips(ld.Tail)
	return lines, slots
}

func c08Render(ld *c08LDoc) string {
	lines, _ := c08Lines(ld)
	if len(lines) == 0 {
		return ""
	}
	t := strings.Join(lines, "\n")
	if ld.FinalNL {
		t += "\n"
	}
	return t
}

func c08SkipsSx(ks []c08Skip) string {
	out := make([]string, len(ks))
	for i, k := range ks {
		if k.Comment {
			out[i] = L("c", Q(k.Ind), B(k.Semi), Q(k.Text))
		} else {
			out[i] = L("b", Q(k.Pad))
		}
	}
	return L(out...)
}

func c08LDocSx(ld *c08LDoc) string {
	secs := make([]string, len(ld.Secs))
	for i, s := range ld.Secs {
		defs := make([]string, len(s.Defs))
		for j, d := range s.Defs {
			more := make([]string, len(d.More))
			for k, ct := range d.More {
				more[k] = QL([]string{ct.Pad, ct.Trail, ct.Ind, ct.Text})
			}
			cmt := L()
			if d.HasCmt {
				cmt = L(B(d.CmtSemi), Q(d.CmtText))
			}
			defs[j] = L(c08SkipsSx(d.Gap), Q(d.Ind), Q(d.Key), Q(d.Ws1), Q(d.Ws2), Q(d.First), L(more...), Q(d.Trail), cmt)
		}
		secs[i] = L(c08SkipsSx(s.Gap), Q(s.Ind), Q(s.Name), Q(s.Trail), L(defs...))
	}
	return L(L(secs...), c08SkipsSx(ld.Tail), B(ld.FinalNL))
}

// ---------------------------------------------------------------------------- ASCII helpers

func c08IsSpace(b byte) bool {
	return b == ' ' || b == '\t' || b == '\n' || b == '\v' || b == '\f' || b == '\r'
}

func c08Trim(s string) string {
	i, j := 0, len(s)
	for i < j && c08IsSpace(s[i]) {
		i++
	}
	for j > i && c08IsSpace(s[j-1]) {
		j--
	}
	return s[i:j]
}

// The model trims ASCII white space only; Go's TrimSpace also trims these UTF-8 encoded runes.
var c08UniSpaces = func() []string {
	out := []string{"\u0085", "\u00a0", "\u1680", "\u2028", "\u2029", "\u202f", "\u205f", "\u3000"}
	for r := rune(0x2000); r <= 0x200a; r++ {
		out = append(out, string(r))
	}
	return out
}()

func c08HasUniSpace(s string) bool {
	for _, u := range c08UniSpaces {
		if strings.Contains(s, u) {
			return true
		}
	}
	return false
}

func c08HeaderShaped(s string) bool {
	return len(s) > 0 && s[0] == '[' && s[len(s)-1] == ']'
}

// wf_key / wf_value / wf_doc of Config.v
func c08WfKey(k string) bool {
	return k != "" && c08Trim(k) == k && !strings.ContainsAny(k, "\n#;=") && k[0] != '['
}
func c08WfValue(v string) bool {
	return c08Trim(v) == v && !strings.ContainsAny(v, "\n#;") && !strings.HasSuffix(v, "\\")
}
func c08WfDoc(d c08Doc) bool {
	for _, s := range d {
		if strings.Contains(s.Name, "\n") {
			return false
		}
		for _, kv := range s.Defs {
			if !c08WfKey(kv.Key) || !c08WfValue(kv.Value) {
				return false
			}
		}
	}
	return true
}

func c08Norm(name string) string {
	if name == "" {
		return "default"
	}
	return name
}

func c08Distinct(d c08Doc) bool {
	seen := map[string]bool{}
	for _, s := range d {
		if seen[c08Norm(s.Name)] {
			return false
		}
		seen[c08Norm(s.Name)] = true
	}
	return true
}

// c08Extract reads an example file into a document with a small reference reader that is
// independent of casbin (it accepts only the shapes it understands; anything else -> false).
// It is cross-checked on every run: the original text and the canonical rendering of the
// extracted document must give the same definitions (direct predicate "org").
func c08Extract(text string) (c08Doc, bool) {
	var doc c08Doc
	lines := strings.Split(text, "\n")
	cur := -1
	for i := 0; i < len(lines); i++ {
		l := c08Trim(lines[i])
		if l == "" || l[0] == '#' || l[0] == ';' {
			continue
		}
		if c08HeaderShaped(l) {
			doc = append(doc, c08Sec{Name: l[1 : len(l)-1]})
			cur = len(doc) - 1
			continue
		}
		if cur < 0 {
			return nil, false // definitions in front of the first header
		}
		logical := ""
		for {
			cut := strings.IndexAny(l, "#;")
			if strings.HasSuffix(l, "\\") {
				p := c08Trim(l[:len(l)-1]) + " "
				if c := strings.IndexAny(p, "#;"); c >= 0 {
					p = p[:c]
				}
				logical += p
				i++
				if i >= len(lines) {
					return nil, false
				}
				l = c08Trim(lines[i])
				if l == "" || l[0] == '#' || l[0] == ';' || c08HeaderShaped(l) {
					return nil, false
				}
				continue
			}
			if cut >= 0 {
				l = l[:cut]
			}
			logical += l
			break
		}
		eq := strings.IndexByte(logical, '=')
		if eq < 0 {
			return nil, false
		}
		doc[cur].Defs = append(doc[cur].Defs, c08Def{c08Trim(logical[:eq]), c08Trim(logical[eq+1:])})
	}
	if !c08WfDoc(doc) {
		return nil, false
	}
	return doc, true
}

// ---------------------------------------------------------------------------- layout generation

type c08LayoutOpt struct {
	splitP    float64 // probability of a continuation at each single blank of a value
	crlf      bool
	gaps      float64 // probability of blank/comment lines in front of an item
	pads      int     // maximal length of ordinary pads
	shuffle   bool
	long      int  // 0, or the byte length some physical line must reach
	longLast  bool // put the long line last and leave out the final newline
	finalNL   bool
	plainOnly bool // canonical: no pads at all
	inlineCmt bool // in-line ';' / '#' remarks behind definitions
}

var c08BlankAlphabet = []string{" ", " ", " ", " ", "\t", "\t", "\v", "\f", "\r"}

func (g *c08Gen) blanks(max int) string {
	if max <= 0 {
		return ""
	}
	n := g.c.Rng.Intn(max + 1)
	var b strings.Builder
	for i := 0; i < n; i++ {
		b.WriteString(c08BlankAlphabet[g.c.Rng.Intn(len(c08BlankAlphabet))])
	}
	return b.String()
}

var c08CommentAlphabet = []string{"a", "b", "r", "p", "m", " ", " ", "\t", "=", "[", "]", "\\", "#", ";", ".", ",", "(", ")", "\u00e9", "x"}

func (g *c08Gen) commentText() string {
	n := g.c.Rng.Intn(12)
	var b strings.Builder
	for i := 0; i < n; i++ {
		b.WriteString(c08CommentAlphabet[g.c.Rng.Intn(len(c08CommentAlphabet))])
	}
	switch g.c.Rng.Intn(6) {
	case 0:
		b.WriteString("\\") // a comment line that ends in a backslash is still only a comment
	case 1:
		b.WriteString(" m = wrong")
	case 2:
		b.WriteString("[matchers]")
	}
	return b.String()
}

func (g *c08Gen) gap(o *c08LayoutOpt) []c08Skip {
	var out []c08Skip
	for g.c.Rng.Float64() < o.gaps && len(out) < 3 {
		if g.c.Rng.Intn(2) == 0 {
			out = append(out, c08Skip{Pad: g.blanks(o.pads)})
		} else {
			out = append(out, c08Skip{Comment: true, Ind: g.blanks(o.pads), Semi: g.c.Rng.Intn(2) == 0, Text: g.commentText()})
		}
	}
	return out
}

type c08Gen struct {
	c         *Ctx
	longEvery int // one in longEvery random layouts pads a line past the reader buffer
	atomNext  int // the first atom of each generated matcher cycles through c08Atoms, so every atom occurs
}

// split v at a random subset of its single blanks (a ' ' whose neighbours are not white space)
func (g *c08Gen) pieces(v string, p float64) []string {
	var out []string
	start := 0
	for i := 1; i+1 < len(v); i++ {
		if v[i] == ' ' && !c08IsSpace(v[i-1]) && !c08IsSpace(v[i+1]) && g.c.Rng.Float64() < p {
			out = append(out, v[start:i])
			start = i + 1
		}
	}
	out = append(out, v[start:])
	// guard of the theorem (finding F34): the last continuation line must not look like "[...]"
	for len(out) > 1 && c08HeaderShaped(out[len(out)-1]) {
		out[len(out)-2] = out[len(out)-2] + " " + out[len(out)-1]
		out = out[:len(out)-1]
	}
	return out
}

func (g *c08Gen) layout(doc c08Doc, o c08LayoutOpt) *c08LDoc {
	ld := &c08LDoc{FinalNL: o.finalNL}
	order := make([]int, len(doc))
	for i := range order {
		order[i] = i
	}
	if o.shuffle && c08Distinct(doc) {
		g.c.Rng.Shuffle(len(order), func(i, j int) { order[i], order[j] = order[j], order[i] })
	}
	pad := func() string {
		if o.plainOnly {
			return ""
		}
		return g.blanks(o.pads)
	}
	for _, si := range order {
		s := doc[si]
		ls := c08LSec{Gap: g.gap(&o), Ind: pad(), Name: s.Name, Trail: pad()}
		for _, kv := range s.Defs {
			d := c08LDef{Gap: g.gap(&o), Ind: pad(), Key: kv.Key, Ws1: pad(), Ws2: pad(), Trail: pad()}
			if o.plainOnly {
				d.Ws1, d.Ws2 = " ", " "
			}
			ps := g.pieces(kv.Value, o.splitP)
			d.First = ps[0]
			for _, p := range ps[1:] {
				d.More = append(d.More, c08Cont{Pad: g.blanks(o.pads + 1), Trail: pad(), Ind: pad(), Text: p})
			}
			ls.Defs = append(ls.Defs, d)
		}
		ld.Secs = append(ld.Secs, ls)
	}
	if !o.longLast {
		ld.Tail = g.gap(&o)
	}
	if o.inlineCmt {
		// "key = value   ; remark": the reader cuts a definition line at the first '#' or ';'
		for si := range ld.Secs {
			for di := range ld.Secs[si].Defs {
				if g.c.Rng.Intn(2) == 0 {
					d := &ld.Secs[si].Defs[di]
					d.HasCmt, d.CmtSemi, d.CmtText = true, g.c.Rng.Intn(2) == 0, g.commentText()
					// guard of the theorem: the trimmed line ends neither in '\\' (continuation) nor in ']' (header shape)
					if t := c08Trim(d.CmtText); strings.HasSuffix(t, "\\") || strings.HasSuffix(t, "]") {
						d.CmtText += "."
					}
				}
			}
		}
	}
	if o.crlf {
		// every physical line ends "\r\n": the "\r" is the end of the line's last blank slot
		for si := range ld.Secs {
			s := &ld.Secs[si]
			c08CrSkips(s.Gap)
			s.Trail += "\r"
			for di := range s.Defs {
				d := &s.Defs[di]
				c08CrSkips(d.Gap)
				for ci := range d.More {
					d.More[ci].Trail += "\r"
				}
				if d.HasCmt {
					d.CmtText += "\r"
				} else {
					d.Trail += "\r"
				}
			}
		}
		c08CrSkips(ld.Tail)
	}
	if o.long > 0 {
		lines, slots := c08Lines(ld)
		var cand []c08Slot
		for _, sl := range slots {
			if !o.longLast || sl.line == len(lines)-1 {
				cand = append(cand, sl)
			}
		}
		if len(cand) > 0 {
			sl := cand[g.c.Rng.Intn(len(cand))]
			if need := o.long - len(lines[sl.line]); need > 0 {
				fill := " "
				if g.c.Rng.Intn(8) == 0 {
					fill = "\t"
				}
				*sl.p = strings.Repeat(fill, need) + *sl.p
			}
		}
	}
	return ld
}

func c08CrSkips(ks []c08Skip) {
	for i := range ks {
		if ks[i].Comment {
			ks[i].Text += "\r"
		} else {
			ks[i].Pad += "\r"
		}
	}
}

func c08MaxLine(text string) int {
	m := 0
	for _, l := range strings.Split(text, "\n") {
		if len(l) > m {
			m = len(l)
		}
	}
	return m
}

var c08LongTargets = []int{4096, 4095, 4097, 5000, 8192, 8193, 9000, 12289, 4096 * 4}

func (g *c08Gen) randomOpt(i int) c08LayoutOpt {
	r := g.c.Rng
	o := c08LayoutOpt{finalNL: true, pads: 4, gaps: 0.3}
	switch i {
	case 0: // canonical
		o.plainOnly, o.gaps = true, 0
	case 1: // a physical line of exactly 4096 bytes: one reader buffer
		o.long = 4096
	case 2: // longer than one reader buffer
		o.long = 4097 + r.Intn(3000)
		o.splitP = 0.3
	case 3: // longer than two reader buffers
		o.long = 8193 + r.Intn(4000)
	case 4: // the long line is the last one and has no terminator
		o.long, o.longLast, o.finalNL = c08LongTargets[r.Intn(len(c08LongTargets))], true, false
	case 5: // a continuation at every single blank
		o.splitP = 1
	case 6: // CRLF
		o.crlf = true
		o.splitP = 0.3
	case 7: // exactly 4096 bytes, last line, no terminator
		o.long, o.longLast, o.finalNL = 4096, true, false
	default:
		o.splitP = []float64{0, 0.15, 0.5, 1}[r.Intn(4)]
		o.crlf = r.Intn(4) == 0
		o.gaps = []float64{0, 0.3, 0.6}[r.Intn(3)]
		o.pads = []int{0, 2, 6, 40}[r.Intn(4)]
		o.shuffle = r.Intn(2) == 0
		o.finalNL = r.Intn(3) != 0
		o.inlineCmt = r.Intn(4) == 0
		if r.Intn(g.longEvery) == 0 {
			o.long = c08LongTargets[r.Intn(len(c08LongTargets))]
			o.longLast = r.Intn(4) == 0
			if o.longLast {
				o.finalNL = r.Intn(2) == 0
			}
		}
	}
	return o
}

// ---------------------------------------------------------------------------- loosening (blank runs)

// c08Loosen returns a document whose r/p/g/m values differ from d's only by blanks outside quotes:
// existing blanks stretched, blanks inserted next to commas and in front of && / ||.
func (g *c08Gen) loosen(d c08Doc, long bool) c08Doc {
	r := g.c.Rng
	out := make(c08Doc, len(d))
	type pos struct{ s, k int }
	var ms []pos
	for si, s := range d {
		out[si] = c08Sec{Name: s.Name, Defs: append([]c08Def(nil), s.Defs...)}
		for ki, kv := range s.Defs {
			kind := c08KindOf(s.Name, kv.Key)
			if kind == "" || kind == "e" {
				continue
			}
			var b strings.Builder
			v := kv.Value
			prot := c08Protected(v)
			for i := 0; i < len(v); i++ {
				ch := v[i]
				if prot[i] {
					b.WriteByte(ch)
					continue
				}
				switch {
				case ch == ' ' && i > 0 && i+1 < len(v):
					b.WriteByte(' ')
					if r.Intn(3) == 0 {
						b.WriteString(strings.Repeat(" ", r.Intn(4)))
					}
				case ch == ',':
					if r.Intn(3) == 0 && i > 0 && !c08IsSpace(v[i-1]) && kind != "g" {
						b.WriteByte(' ')
					}
					b.WriteByte(',')
					if r.Intn(2) == 0 && i+1 < len(v) {
						b.WriteByte(' ')
					}
				case kind == "m" && (ch == '&' || ch == '|') && i+1 < len(v) && v[i+1] == ch && i > 0 && !c08IsSpace(v[i-1]):
					if r.Intn(2) == 0 {
						b.WriteByte(' ')
					}
					b.WriteByte(ch)
					b.WriteByte(ch)
					i++
					if r.Intn(2) == 0 && i+1 < len(v) && !c08IsSpace(v[i+1]) {
						b.WriteByte(' ')
					}
				default:
					b.WriteByte(ch)
				}
			}
			out[si].Defs[ki].Value = b.String()
			if kind == "m" || kind == "r" || kind == "p" {
				ms = append(ms, pos{si, ki})
			}
		}
	}
	if long && len(ms) > 0 {
		// the original F14 witness: a blank inside the value stretched past the reader buffer
		p := ms[r.Intn(len(ms))]
		v := out[p.s].Defs[p.k].Value
		var at []int
		prot := c08Protected(v)
		for i := 1; i+1 < len(v); i++ {
			if !prot[i] && v[i] == ' ' {
				at = append(at, i)
			}
		}
		if len(at) > 0 {
			i := at[r.Intn(len(at))]
			n := []int{4096, 5000, 8200, 12000}[r.Intn(4)]
			out[p.s].Defs[p.k].Value = v[:i] + strings.Repeat(" ", n) + v[i:]
		}
	}
	return out
}

// c08Marker: enforcer.go initRmMap switches domain pattern matching on iff the matcher contains exactly
// this text (after escaping), so its inner blank is significant to casbin (observation W1).
const c08Marker = "keyMatch(r.dom, p.dom)"

// c08Protected marks the bytes of v whose blanks mean something: quoted strings and the marker.
func c08Protected(v string) []bool {
	prot := make([]bool, len(v))
	quote := byte(0)
	for i := 0; i < len(v); i++ {
		if quote != 0 {
			prot[i] = true
			if v[i] == quote {
				quote = 0
			}
		} else if v[i] == '\'' || v[i] == '"' {
			quote = v[i]
			prot[i] = true
		}
	}
	for from := 0; ; {
		k := strings.Index(v[from:], c08Marker)
		if k < 0 {
			break
		}
		for j := from + k; j < from+k+len(c08Marker); j++ {
			prot[j] = true
		}
		from += k + len(c08Marker)
	}
	return prot
}

func c08KindOf(section, key string) string {
	for _, k := range []struct{ sec, pre string }{{"request_definition", "r"}, {"policy_definition", "p"}, {"role_definition", "g"}, {"policy_effect", "e"}, {"matchers", "m"}} {
		if section == k.sec && strings.HasPrefix(key, k.pre) {
			return k.pre
		}
	}
	return ""
}

// ---------------------------------------------------------------------------- running the real code

type c08Result struct {
	modelErr bool
	defs     []string // canonical lines "sec.key V=.. T=.. P=.."
	loose    []string // the same up to blanks
	m        model.Model
}

func c08KeyLess(a, b string) bool {
	if len(a) != len(b) {
		return len(a) < len(b)
	}
	return a < b
}

func c08Squeeze(s string) string {
	var b strings.Builder
	for i := 0; i < len(s); i++ {
		if !c08IsSpace(s[i]) {
			b.WriteByte(s[i])
		}
	}
	return b.String()
}

// c08Observe runs one text through the real code and records the observables (if rec).
var c08FileNo int

// the same text read from a FILE (model.NewModelFromFile: config.NewConfig, the reader behind
// NewEnforcer(path) and LoadModel) defines what the text defines: an error iff the string reader
// reports one, and the same definitions.  Sampled (one text in three).
func c08FromFile(c *Ctx, id, text string, res c08Result, force bool) {
	c08FileNo++
	if !force && (c08FileNo%3 != 0 || len(text) > 200000) {
		return
	}
	f, err := os.CreateTemp("", "verif-c08-*.conf")
	if err != nil {
		return
	}
	name := f.Name()
	defer os.Remove(name)
	_, _ = f.WriteString(text)
	_ = f.Close()
	var m model.Model
	var ferr error
	func() {
		defer func() {
			if r := recover(); r != nil {
				ferr = fmt.Errorf("panic: %v", r)
				c.Direct(id, "model.NewModelFromFile panicked", Q(text))
			}
		}()
		m, ferr = model.NewModelFromFile(name)
	}()
	if (ferr != nil) != res.modelErr {
		c.Direct(id, fmt.Sprintf("the text read from a file gives error=%v, read from a string error=%v", ferr, res.modelErr), Q(text))
		return
	}
	if ferr != nil {
		return
	}
	var defs []string
	for _, sec := range []string{"r", "p", "g", "e", "m"} {
		var keys []string
		for k := range m[sec] {
			keys = append(keys, k)
		}
		sort.Slice(keys, func(i, j int) bool { return c08KeyLess(keys[i], keys[j]) })
		for _, k := range keys {
			a := m[sec][k]
			defs = append(defs, fmt.Sprintf("%s.%s V=%s T=%s P=%s", sec, a.Key, Q(a.Value), rulesKey([][]string{a.Tokens}), rulesKey([][]string{a.ParamsTokens})))
		}
	}
	if strings.Join(defs, "\n") != strings.Join(res.defs, "\n") {
		c.Direct(id, "the text read from a file defines something else than the same text read from a string", fmt.Sprintf("file=%q string=%q text=%s", defs, res.defs, Q(text)))
	}
	c.Count("file-vs-string")
}

func c08Observe(c *Ctx, id, text string, probes [][2]string, rec bool) (res c08Result, panicked bool) {
	defer func() {
		if !panicked {
			c08FromFile(c, id, text, res, false)
		}
	}()
	obs := func(step, val string) {
		if rec {
			c.Obs(id, step, val)
		}
	}
	func() {
		defer func() {
			if r := recover(); r != nil {
				panicked = true
				obs("cfg", "panic")
				c.Direct(id, "config.NewConfigFromText panicked", Q(text))
			}
		}()
		cfg, err := config.NewConfigFromText(text)
		if err != nil {
			obs("cfg", "err")
			return
		}
		obs("cfg", "ok")
		for _, p := range probes {
			obs("get", p[0]+"::"+p[1]+"="+Q(cfg.String(p[0]+"::"+p[1])))
		}
	}()
	func() {
		defer func() {
			if r := recover(); r != nil {
				panicked = true
				obs("model", "panic")
				c.Direct(id, "model.NewModelFromString panicked", Q(text))
			}
		}()
		m, err := model.NewModelFromString(text)
		if err != nil {
			res.modelErr = true
			obs("model", "err")
			return
		}
		obs("model", "ok")
		res.m = m
		for _, sec := range []string{"r", "p", "g", "e", "m"} {
			var keys []string
			for k := range m[sec] {
				keys = append(keys, k)
			}
			sort.Slice(keys, func(i, j int) bool { return c08KeyLess(keys[i], keys[j]) })
			for _, k := range keys {
				a := m[sec][k]
				line := fmt.Sprintf("%s.%s V=%s T=%s P=%s", sec, a.Key, Q(a.Value), rulesKey([][]string{a.Tokens}), rulesKey([][]string{a.ParamsTokens}))
				obs("def", line)
				res.defs = append(res.defs, line)
				toks := make([]string, len(a.Tokens))
				for i, t := range a.Tokens {
					toks[i] = c08Trim(t)
				}
				res.loose = append(res.loose, fmt.Sprintf("%s.%s V=%s T=%s P=%d", sec, a.Key, Q(c08Squeeze(a.Value)), rulesKey([][]string{toks}), len(a.ParamsTokens)))
			}
		}
	}()
	return
}

func c08Sig(r c08Result, loose bool) string {
	if r.modelErr {
		return "err"
	}
	if loose {
		return strings.Join(r.loose, "\n")
	}
	return strings.Join(r.defs, "\n")
}

// decisions of an enforcer built from the model and the example policy on a fixed request set
func c08Decisions(m model.Model, policy string, reqs [][]interface{}) (sig string) {
	defer func() {
		if r := recover(); r != nil {
			sig = "panic"
		}
	}()
	e, err := casbin.NewEnforcer(m, fileadapter.NewAdapter(policy))
	if err != nil {
		return "newerr"
	}
	var b strings.Builder
	for _, rq := range reqs {
		ok, err := e.Enforce(rq...)
		b.WriteString(B(ok))
		if err != nil {
			b.WriteString("e")
		}
	}
	return b.String()
}

func c08Requests(m model.Model, policy string) [][]interface{} {
	if m == nil || m["r"] == nil || m["r"]["r"] == nil {
		return nil
	}
	n := len(m["r"]["r"].Tokens)
	data, err := os.ReadFile(policy)
	if err != nil {
		return nil
	}
	var rules, users [][]string
	for _, l := range strings.Split(string(data), "\n") {
		l = strings.TrimSpace(l)
		if l == "" || l[0] == '#' {
			continue
		}
		f := strings.Split(l, ",")
		for i := range f {
			f[i] = strings.TrimSpace(f[i])
		}
		if strings.HasPrefix(f[0], "p") {
			rules = append(rules, f[1:])
		} else if strings.HasPrefix(f[0], "g") {
			users = append(users, f[1:])
		}
	}
	var reqs [][]interface{}
	mk := func(f []string) {
		rq := make([]interface{}, n)
		for i := 0; i < n; i++ {
			if i < len(f) {
				rq[i] = f[i]
			} else {
				rq[i] = "x"
			}
		}
		reqs = append(reqs, rq)
	}
	for i, r := range rules {
		if i >= 12 {
			break
		}
		mk(r)
		for j, u := range users {
			if j >= 4 || len(u) == 0 || len(r) == 0 {
				break
			}
			mk(append([]string{u[0]}, r[1:]...))
		}
	}
	mk([]string{"nobody", "nothing", "none", "no", "n"})
	if len(reqs) > 48 {
		reqs = reqs[:48]
	}
	return reqs
}

// ---------------------------------------------------------------------------- generated documents

var c08Names = []string{"sub", "obj", "act", "dom", "eft", "priority", "sub_rule", "x", "Name", "in", "r", "p1"}
var c08Effects = []string{
	"some(where (p.eft == allow))", "!some(where (p.eft == deny))",
	"some(where (p.eft == allow)) && !some(where (p.eft == deny))", "priority(p.eft) || deny", "subjectPriority(p.eft) || deny",
	"some(where (p2.eft == allow))",
}
var c08Atoms = []string{
	"r.sub == p.sub", "r.obj == p.obj", "r.act == p.act", "g(r.sub, p.sub)", "g2(r.obj, p.obj)", "g(r.sub, p.sub, r.dom)",
	"keyMatch(r.obj, p.obj)", "keyMatch2(r.obj,p.obj)", "regexMatch(r.act, p.act)", "r.sub == 'root'", "r.sub == \"a b\"",
	"r.obj in ['data2', 'data3']", "r.obj in ('data2', 'data3')", "r.sub.Name == r.obj.Owner", "r.sub in (r.obj.Admins)",
	"eval(p.sub_rule)", "r2.obj == p2.obj", "r12.x == p345.y", "xr.y == pr.z", "r_x == p_y", "r.dom == p.dom",
	"domain == r.x[1]", "a.r.b == c.p.d", "(r.sub == p.sub || p.sub == '*')", "!(r.act == 'write')", "r.a.b.c == p.\\d",
	"r.age >= 18 && r.age < 60", "p.x == 'k=v'", "keyGet(r.obj, p.obj) == 'x'", "r.", "p9.", ".r.x", "3r.x", "r..x",
}

// over-long lines that carry no definition (comment lines, blank lines of > 4096 / > 8192 bytes)
// in front of, between and behind over-long definitions: the definitions are those of the text
// without these lines.
func c08LongSkips(c *Ctx) {
	pad := func(n int) string { return strings.Repeat(" ", n) }
	base := []string{"[request_definition]", "r = sub, obj, act", "[policy_definition]", "p = sub, obj, act", "[role_definition]", "g = _, _", "[policy_effect]", "e = some(where (p.eft == allow))", "[matchers]", "m = g(r.sub, p.sub) && r.obj == p.obj &&" + pad(5000) + "r.act == p.act", "m2 = r.sub == p.sub ||" + pad(9000) + "r.obj == p.obj"}
	ref, rerr := model.NewModelFromString(strings.Join(base, "\n") + "\n")
	if rerr != nil {
		c.Direct("c08.longskip.ref", "reference text rejected", rerr.Error())
		return
	}
	sig := func(m model.Model) string {
		var out []string
		for _, sec := range []string{"r", "p", "g", "e", "m"} {
			var keys []string
			for k := range m[sec] {
				keys = append(keys, k)
			}
			sort.Strings(keys)
			for _, k := range keys {
				out = append(out, sec+"."+k+"="+c08Squeeze(m[sec][k].Value))
			}
		}
		return strings.Join(out, ";")
	}
	skips := []string{"# " + strings.Repeat("x", 4200), "; " + strings.Repeat("y", 8300), pad(4100), "#" + pad(4090) + "z", "# short"}
	n := 0
	for _, sk1 := range skips {
		for _, sk2 := range append([]string{""}, skips...) {
			for at := 0; at <= len(base); at++ {
				var lines []string
				lines = append(lines, base[:at]...)
				lines = append(lines, sk1)
				if sk2 != "" {
					lines = append(lines, "", sk2)
				}
				lines = append(lines, base[at:]...)
				text := strings.Join(lines, "\n") + "\n"
				m, err := model.NewModelFromString(text)
				id := fmt.Sprintf("c08.longskip.%d", n)
				n++
				if err != nil {
					c.Direct(id, "over-long comment / blank lines made the model text unreadable: "+err.Error(), fmt.Sprintf("skip lines of %d and %d bytes before line %d", len(sk1), len(sk2), at))
					continue
				}
				if sig(m) != sig(ref) {
					c.Direct(id, "over-long comment / blank lines changed the definitions", fmt.Sprintf("skip lines of %d and %d bytes before line %d: %s instead of %s", len(sk1), len(sk2), at, sig(m), sig(ref)))
				}
			}
		}
	}
	c.Count(fmt.Sprintf("long-skip-lines=%d", n))
}

// a malformed line BEHIND the required sections (so that what precedes it is a complete model):
// read from a string or from a file, the text is an error, never a silently truncated model.
func c08BadTail(c *Ctx) {
	head := "[request_definition]\nr = sub, obj, act\n[policy_definition]\np = sub, obj, act\n[policy_effect]\ne = some(where (p.eft == allow))\n[matchers]\nm = r.sub == p.sub && r.obj == p.obj\n"
	tails := []string{"this line has no equals sign\n[role_definition]\ng = _, _\n", "&& r.act == p.act\nm2 = r.sub == p.sub\n", "[role_definition\ng = _, _\n", "[]\n", "m2 r.sub == p.sub\n[role_definition]\ng2 = _, _\n", "  stray  \n"}
	for i, t := range tails {
		id := fmt.Sprintf("c08.badtail.%d", i)
		res, panicked := c08Observe(c, id, head+t, nil, false)
		if panicked {
			continue
		}
		c08FromFile(c, id, head+t, res, true)
		c.Count("bad-tail")
	}
}

// sections with many definitions (x, x2, ..., x14 in every section): none is dropped
func c08ManyDefs(c *Ctx) {
	for _, n := range []int{9, 10, 11, 14} {
		var b strings.Builder
		secs := []struct{ head, key, val string }{
			{"request_definition", "r", "sub, obj, act"}, {"policy_definition", "p", "sub, obj, act"}, {"role_definition", "g", "_, _"},
			{"policy_effect", "e", "some(where (p.eft == allow))"}, {"matchers", "m", "r.sub == p.sub"}}
		for _, sc := range secs {
			b.WriteString("[" + sc.head + "]\n")
			for i := 1; i <= n; i++ {
				k := sc.key
				if i > 1 {
					k = fmt.Sprintf("%s%d", sc.key, i)
				}
				v := sc.val
				if sc.key == "m" && i > 1 {
					v = fmt.Sprintf("r%d.sub == p%d.sub", i, i)
				}
				if sc.key == "e" && i > 1 {
					v = fmt.Sprintf("some(where (p%d.eft == allow))", i)
				}
				b.WriteString(k + " = " + v + "\n")
			}
		}
		m, err := model.NewModelFromString(b.String())
		id := fmt.Sprintf("c08.manydefs.%d", n)
		if err != nil {
			c.Direct(id, "a model with "+fmt.Sprint(n)+" definitions per section is rejected: "+err.Error(), "")
			continue
		}
		for _, sc := range secs {
			if got := len(m[sc.key]); got != n {
				var keys []string
				for k := range m[sc.key] {
					keys = append(keys, k)
				}
				sort.Strings(keys)
				c.Direct(id, fmt.Sprintf("section %s has %d definitions in the text but %d in the model", sc.head, n, got), strings.Join(keys, " "))
			}
		}
		c.Count("many-definitions")
	}
}

func (g *c08Gen) pick(ss []string) string { return ss[g.c.Rng.Intn(len(ss))] }

func (g *c08Gen) tokenList() string {
	r := g.c.Rng
	n := 1 + r.Intn(5)
	var b strings.Builder
	for i := 0; i < n; i++ {
		if i > 0 {
			b.WriteString([]string{",", ", ", " ,", " , ", ",  "}[r.Intn(5)])
		}
		b.WriteString(g.pick(c08Names))
	}
	return b.String()
}

func (g *c08Gen) matcher() string {
	r := g.c.Rng
	n := 1 + r.Intn(5)
	var b strings.Builder
	for i := 0; i < n; i++ {
		if i > 0 {
			b.WriteString([]string{" && ", " || ", "&&", " &&  ", " ||\t"}[r.Intn(5)])
			b.WriteString(g.pick(c08Atoms))
		} else {
			b.WriteString(c08Atoms[g.atomNext%len(c08Atoms)])
			g.atomNext++
		}
	}
	return b.String()
}

func (g *c08Gen) roleDef() string {
	return g.pick([]string{"_, _", "_,_", "_, _, _", "_, _, (_, _)", "_,_,_,(_,_)", "_, _, ()", "_, (_), _", "_ , _ , (x", "(_, _), _", "_",
		"_, _, (_, _), (_)", "(_), _, (_, _)", "_, ((_, _), _)", "_, _) , (_, _"})
}

func (g *c08Gen) suffix(i int) string {
	if i == 1 {
		return ""
	}
	return fmt.Sprint(i)
}

func (g *c08Gen) document() c08Doc {
	r := g.c.Rng
	var doc c08Doc
	type sk struct{ name, key string }
	std := []sk{{"request_definition", "r"}, {"policy_definition", "p"}, {"role_definition", "g"}, {"policy_effect", "e"}, {"matchers", "m"}}
	for _, s := range std {
		if r.Intn(12) == 0 && s.key != "g" || (s.key == "g" && r.Intn(2) == 0) {
			continue // a missing section (-> error for r, p, e, m)
		}
		sec := c08Sec{Name: s.name}
		n := 1 + r.Intn(3)
		if r.Intn(3) != 0 {
			n = 1
		}
		for i := 1; i <= n; i++ {
			key := s.key + g.suffix(i)
			if r.Intn(15) == 0 {
				key = s.key + g.suffix(i+1) // a gap in the numbering: later keys are not loaded
			}
			var v string
			switch s.key {
			case "r", "p":
				v = g.tokenList()
			case "g":
				v = g.roleDef()
			case "e":
				v = g.pick(c08Effects)
			default:
				v = g.matcher()
			}
			if r.Intn(25) == 0 {
				v = "" // an empty value counts as absent
			}
			sec.Defs = append(sec.Defs, c08Def{key, v})
			if r.Intn(10) == 0 { // a duplicate key: the later one wins
				sec.Defs = append(sec.Defs, c08Def{key, g.tokenList()})
			}
		}
		if r.Intn(8) == 0 {
			sec.Defs = append(sec.Defs, c08Def{g.pick([]string{"other", "Key", "a b", "x.y", "r", "m", "k\\"}), g.pick([]string{"1", "a = b", "[x]", "v\\w", "\u00e9"})})
		}
		doc = append(doc, sec)
	}
	if r.Intn(4) == 0 {
		doc = append(doc, c08Sec{Name: g.pick([]string{"custom", "", "default", "Matchers", " matchers", "a]b", "x y"}),
			Defs: []c08Def{{g.pick([]string{"m", "k", "r"}), g.matcher()}}})
	}
	if r.Intn(10) == 0 && len(doc) > 0 { // the same section twice (no reordering then)
		s := doc[r.Intn(len(doc))]
		doc = append(doc, c08Sec{Name: s.Name, Defs: []c08Def{{g.pick([]string{"m", "r", "p", "e", "z"}), g.tokenList()}}})
	}
	r.Shuffle(len(doc), func(i, j int) { doc[i], doc[j] = doc[j], doc[i] })
	if !c08WfDoc(doc) {
		panic("c08: generated document is not well formed")
	}
	return doc
}

// probes for Config.String: the five standard keys, the default section, and the document's own keys
func c08Probes(doc c08Doc) [][2]string {
	out := [][2]string{{"request_definition", "r"}, {"policy_definition", "p"}, {"role_definition", "g"}, {"policy_effect", "e"},
		{"matchers", "m"}, {"matchers", "m2"}, {"request_definition", "r2"}, {"default", "r"}, {"default", "m"}, {"custom", "k"}}
	seen := map[[2]string]bool{}
	for _, p := range out {
		seen[p] = true
	}
	for _, s := range doc {
		for _, kv := range s.Defs {
			p := [2]string{c08Norm(s.Name), kv.Key}
			if len(out) < 40 && !seen[p] && strings.ToLower(p[0]+"::"+p[1]) == p[0]+"::"+p[1] && !strings.Contains(p[0], "::") && !strings.Contains(p[1], "::") {
				seen[p] = true
				out = append(out, p)
			}
		}
	}
	return out
}

func c08ProbesSx(ps [][2]string) string {
	out := make([]string, len(ps))
	for i, p := range ps {
		out[i] = L(Q(p[0]), Q(p[1]))
	}
	return L(out...)
}

// ---------------------------------------------------------------------------- hostile texts

var c08HostileAlphabet = []string{"[", "]", "=", "#", ";", "\\", "\n", "\n", "\r", "\r\n", " ", "\t", ",", "(", ")", ".", "r", "p", "m", "e", "g",
	"2", "_", "in", "\x00", "\xff", "\xc2", "\u00e9", "\v", "\f", "a", "request_definition", "matchers", "\\\n", "=", "\n", " "}

// bytes that make Unicode white space (kept rare: such texts are run but not compared with the model)
var c08UniAlphabet = []string{"\x85", "\xa0", "\u00a0", "\u2003", "\u0085", "\u3000"}

var c08HostileLines = []string{
	"[request_definition]", "[policy_definition]", "[role_definition]", "[policy_effect]", "[matchers]", "[]", "[", "]", "[x] # c", "[a]]", "[[b]",
	"r = sub, obj, act", "r2 = a", "r3 = b", "p = sub, obj, act", "p2= x,y", "g = _, _", "g2 = _, _, (_, _)", "e = some(where (p.eft == allow))",
	"m = r.sub == p.sub", "m = g(r.sub, p.sub) && \\", "  r.obj == p.obj \\", " && r.act in [a, b]", "[p.obj]", "m2 = eval(p.x)", "= v", "k =", "k", "\\", " \\ ",
	"# c", "; c", "# c \\", "; c \\", "  ; x\\", "", "   ", "\t", "m = a # b \\", "m = a ; b", "m == b", "r = ", "e = x\\", "g = (", "g = )(", "g = _,(_,_,_,_)", "g = (,,,)", "g = _, (_), (_, _)", "g = ((_,_),_)",
	"r = a,,b,", "p = ,", "m = in", "m = r.[x] in y", "m = domain[1]", "\r", "a=b\r", "\r[matchers]\r", "m = x\xc2", "\xa0", "[request_definition]\r", "r = sub, obj\r",
}

func (g *c08Gen) hostile(examples []string, kind int) string {
	t := g.hostile0(examples, kind)
	if g.c.Rng.Intn(12) == 0 { // now and then a Unicode space somewhere
		p := g.c.Rng.Intn(len(t) + 1)
		t = t[:p] + g.pick(c08UniAlphabet) + t[p:]
	}
	return t
}

func (g *c08Gen) hostile0(examples []string, kind int) string {
	r := g.c.Rng
	switch kind {
	case 0: // random bytes from a structural alphabet
		n := r.Intn(60)
		var b strings.Builder
		for i := 0; i < n; i++ {
			if r.Intn(8) == 0 {
				b.WriteByte(byte(r.Intn(256)))
			} else {
				b.WriteString(g.pick(c08HostileAlphabet))
			}
		}
		return b.String()
	case 1: // a soup of plausible and implausible lines
		n := r.Intn(14)
		var b strings.Builder
		for i := 0; i < n; i++ {
			b.WriteString(g.pick(c08HostileLines))
			b.WriteString([]string{"\n", "\n", "\n", "\r\n", ""}[r.Intn(5)])
		}
		return b.String()
	default: // a mutated example
		t := []byte(examples[r.Intn(len(examples))])
		k := 1 + r.Intn(4)
		for i := 0; i < k; i++ {
			switch r.Intn(6) {
			case 0:
				if len(t) > 0 {
					p := r.Intn(len(t))
					t = append(t[:p:p], t[p+1:]...)
				}
			case 1:
				p := r.Intn(len(t) + 1)
				t = append(t[:p:p], append([]byte(g.pick(c08HostileAlphabet)), t[p:]...)...)
			case 2:
				if len(t) > 0 {
					t[r.Intn(len(t))] = g.pick(c08HostileAlphabet)[0]
				}
			case 3:
				t = t[:r.Intn(len(t)+1)]
			case 4: // duplicate or drop a line
				ls := strings.Split(string(t), "\n")
				p := r.Intn(len(ls))
				if r.Intn(2) == 0 {
					ls = append(ls[:p:p], ls[p+1:]...)
				} else {
					ls = append(ls[:p+1:p+1], ls[p:]...)
				}
				t = []byte(strings.Join(ls, "\n"))
			case 5: // swap two lines
				ls := strings.Split(string(t), "\n")
				a, b := r.Intn(len(ls)), r.Intn(len(ls))
				ls[a], ls[b] = ls[b], ls[a]
				t = []byte(strings.Join(ls, "\n"))
			}
		}
		return string(t)
	}
}

// ---------------------------------------------------------------------------- the property runner

const c08Examples = "/repo/examples"

func init() {
	register("C08", func(c *Ctx) {
		c08LongSkips(c)
		c08BadTail(c)
		c08ManyDefs(c)
		g := &c08Gen{c: c, longEvery: 3}
		nExact, nLoose, nGen, nHostile := 32, 6, 50, 5000
		if c.Thorough() {
			nExact, nLoose, nGen, nHostile = 300, 40, 120, 40000
			g.longEvery = 8
		}
		c.Rule = fmt.Sprintf("documents = every %s/**/*.conf (read at run time, turned into sections/keys/values by a small reference reader) + %d generated documents "+
			"(standard and foreign sections, r/p/g/e/m values from a token grammar incl. '=' '[' ']' '\\' quotes, numbering gaps, duplicate keys, empty values, duplicate sections); "+
			"each rendered under %d layouts of the theorem's family (indentation, blanks round '=', trailing blanks incl. \\t \\v \\f \\r, blank/';'/'#' lines between definitions, "+
			"backslash continuation at random subsets of the single blanks up to every one, CRLF, section order, with/without final newline; one random layout in four also puts in-line ';'/'#' remarks behind definitions; layouts 1-4 and 7 and one in "+fmt.Sprint(g.longEvery)+" of the others pad one "+
			"physical line to exactly 4096 / just over 4096 / over 8192 bytes, also as last line without terminator) and %d loose layouts (blank runs inside r/p/g/m values stretched, also past 4096 bytes, "+
			"blanks inserted at commas and && ||); plus %d hostile texts (random bytes, line soups, mutated examples). Every text goes through the real NewConfigFromText / NewModelFromString and through the extracted Coq model; "+
			"non-trivial = a layout case that differs from the plain rendering (id counted once)", c08Examples, nGen, nExact, nLoose, nHostile)

		type source struct {
			name, text, policy string
			doc                c08Doc
		}
		var srcs []source
		var exampleTexts []string
		var files []string
		_ = filepath.Walk(c08Examples, func(p string, info os.FileInfo, err error) error {
			if err == nil && !info.IsDir() && strings.HasSuffix(p, ".conf") {
				files = append(files, p)
			}
			return nil
		})
		sort.Strings(files)
		if len(files) == 0 {
			c.Direct("c08.examples", "no example models found under "+c08Examples, "-")
		}
		for _, f := range files {
			data, err := os.ReadFile(f)
			if err != nil {
				continue
			}
			text := string(data)
			exampleTexts = append(exampleTexts, text)
			rel, _ := filepath.Rel(c08Examples, f)
			name := strings.TrimSuffix(strings.ReplaceAll(rel, "/", "-"), ".conf")
			policy := ""
			if filepath.Dir(rel) == "." {
				for _, cand := range []string{strings.TrimSuffix(f, "_model.conf") + "_policy.csv", strings.TrimSuffix(f, ".conf") + ".csv"} {
					if cand != f && strings.HasSuffix(cand, ".csv") {
						if _, err := os.Stat(cand); err == nil {
							policy = cand
							break
						}
					}
				}
			}
			doc, ok := c08Extract(text)
			if !ok {
				c.Count("example-not-a-document")
				c.Notes = append(c.Notes, "example "+rel+" is outside the reference reader's document shape; it is only run as it is")
				doc = nil
			}
			srcs = append(srcs, source{name: "ex." + name, text: text, policy: policy, doc: doc})
		}
		for i := 0; i < nGen; i++ {
			srcs = append(srcs, source{name: fmt.Sprintf("gen.%d", i), doc: g.document()})
		}

		for _, s := range srcs {
			probes := c08Probes(s.doc)
			psx := c08ProbesSx(probes)
			var orgRes *c08Result
			if s.text != "" && !c08HasUniSpace(s.text) {
				id := "c08." + s.name + ".org"
				c.Case(id, "T "+Q(s.text)+" "+psx)
				c.Count("original-example")
				r, _ := c08Observe(c, id, s.text, probes, true)
				orgRes = &r
			}
			if s.doc == nil {
				continue
			}
			var base c08Result
			var reqs [][]interface{}
			baseDec := ""
			run := func(id string, ld *c08LDoc, loose bool, o c08LayoutOpt) {
				text := c08Render(ld)
				c.Case(id, "L "+Q(text)+" "+psx+" "+c08LDocSx(ld))
				c.Obs(id, "wf", "1")
				c.Obs(id, "render", "same")
				c.Obs(id, "theorem", "1")
				if o.inlineCmt {
					c.Count("with-inline-remarks")
				}
				res, _ := c08Observe(c, id, text, probes, true)
				ml := c08MaxLine(text)
				switch {
				case ml > 8192:
					c.Count("line>8192")
				case ml > 4096:
					c.Count("line>4096")
				case ml == 4096:
					c.Count("line=4096")
				default:
					c.Count("line<4096")
				}
				if strings.Contains(text, "\\\n") || strings.Contains(text, "\\\r\n") {
					c.Count("with-continuation")
				}
				if !o.plainOnly {
					c.NonTrivial(id)
				}
				if base.defs == nil && !base.modelErr && !loose && o.plainOnly {
					base = res
					if s.policy != "" && res.m != nil {
						reqs = c08Requests(res.m, s.policy)
						baseDec = c08Decisions(res.m, s.policy, reqs)
					}
					if orgRes != nil && c08Sig(*orgRes, false) != c08Sig(res, false) {
						c.Direct(id, "the example file and the plain rendering of its definitions give different definitions", Q(s.text))
					}
					return
				}
				if c08Sig(res, loose) != c08Sig(base, loose) {
					what := "two layouts of the same document give different definitions"
					if loose {
						what = "stretching blanks inside values changes the definitions by more than blanks"
					}
					c.Direct(id, what, Q(text))
				}
				if s.policy != "" && res.m != nil && len(reqs) > 0 {
					c.Count("decisions-compared")
					if d := c08Decisions(res.m, s.policy, reqs); d != baseDec {
						c.Direct(id, "two layouts of the same model give different Enforce decisions on "+filepath.Base(s.policy), Q(text))
					}
				}
			}
			for i := 0; i < nExact; i++ {
				o := g.randomOpt(i)
				ld := g.layout(s.doc, o)
				c.Count("exact-layout")
				run(fmt.Sprintf("c08.%s.L%d", s.name, i), ld, false, o)
			}
			// definitions in front of the first header go to the section "default", which the model loader never
			// reads: outside the theorem's family (text-only cases), same definitions expected
			for i := 0; i < 2 && base.defs != nil; i++ {
				o := g.randomOpt(8 + i)
				o.long, o.inlineCmt = 0, false
				ld := g.layout(s.doc, o)
				pre := g.pick([]string{"m = wrong\n", "x = 1\n  r = a, b \\\n , c\n", "; remark\nm = wrong ; m\n\n", "e = deny\r\np = q\r\n"})
				text := pre + c08Render(ld)
				id := fmt.Sprintf("c08.%s.P%d", s.name, i)
				c.Case(id, "T "+Q(text)+" "+psx)
				c.Count("with-preamble-definitions")
				res, _ := c08Observe(c, id, text, probes, true)
				if c08Sig(res, false) != c08Sig(base, false) {
					c.Direct(id, "definitions in front of the first section header change the model", Q(text))
				}
			}
			for i := 0; i < nLoose; i++ {
				o := g.randomOpt(8 + i)
				ld := g.layout(g.loosen(s.doc, i == 0 || c.Rng.Intn(5) == 0), o)
				c.Count("loose-layout")
				run(fmt.Sprintf("c08.%s.W%d", s.name, i), ld, true, o)
			}
		}

		// hostile texts
		noProbes := c08Probes(nil)
		npsx := c08ProbesSx(noProbes)
		static := []string{"", "\n", "\r\n", "[", "]", "[]", "[]\nr = x", "\\", "=", "=\n", "a=b\\", "a", "a\\\nb=c", "[a\nb=c\n]", "r = x\n[request_definition]\nr = y",
			"[request_definition]\nr = sub\nr3 = x\n[policy_definition]\np = sub\n[policy_effect]\ne = e\n[matchers]\nm = m",
			strings.Repeat("a", 4096), strings.Repeat("a", 4096) + "=" + strings.Repeat("b", 4096), strings.Repeat(" ", 4095) + "\r\nk=v", strings.Repeat("x", 4095) + "\rk=v\n",
			"k = v" + strings.Repeat(" ", 4091) + "\\\n w", "k = " + strings.Repeat("v", 4096) + "\n" + strings.Repeat("w", 4096)}
		for i := 0; i < nHostile+len(static); i++ {
			var text string
			if i < len(static) {
				text = static[i]
			} else {
				text = g.hostile(exampleTexts, i%3)
			}
			id := fmt.Sprintf("c08.hx.%d", i)
			if c08HasUniSpace(text) {
				// the model trims ASCII white space only: such a text is run for panics, not compared
				c.Count("hostile-unicode-space-uncompared")
				c08Observe(c, id, text, noProbes, false)
				continue
			}
			c.Case(id, "T "+Q(text)+" "+npsx)
			c.Count("hostile-compared")
			res, _ := c08Observe(c, id, text, noProbes, true)
			if res.modelErr {
				c.Count("hostile-model-error")
			} else {
				c.Count("hostile-model-ok")
			}
		}

		c08Probe(c)
	})
}

// c08Probe replays the witnesses of the guards of the layout theorem on the real code.
func c08Probe(c *Ctx) {
	base := "[request_definition]\nr = sub, obj, act\n[policy_definition]\np = sub, obj, act\n[role_definition]\ng = _, _\n[policy_effect]\ne = some(where (p.eft == allow))\n[matchers]\n"
	full := "g(r_sub, p_sub) && r_obj == p_obj && r_act == p_act || r_obj in ('data2', 'data3')"
	value := func(text string) (string, bool) {
		m, err := model.NewModelFromString(text)
		if err != nil || m["m"] == nil || m["m"]["m"] == nil {
			return "", false
		}
		return m["m"]["m"].Value, true
	}
	// F34: examples/rbac_model_matcher_using_in_op_bracket.conf with its matcher continued in front of the list
	v, ok := value(base + "m = g(r.sub, p.sub) && r.obj == p.obj && r.act == p.act || r.obj in \\\n  ['data2', 'data3']\n")
	switch {
	case ok && v != full:
		c.Known = append(c.Known, "F34\treproduced\tcontinuation line ['data2', 'data3'] taken for a section header: m.Value = "+Q(v))
	case ok:
		c.Known = append(c.Known, "F34\tgone\tm.Value = "+Q(v))
	default:
		c.Known = append(c.Known, "F34\tinconclusive\tthe witness model does not load at all")
	}
	// W1 (observation outside the property's layouts): blanks inside the marker change decisions
	if data, err := os.ReadFile(c08Examples + "/keymatch_with_rbac_in_domain.conf"); err == nil && strings.Contains(string(data), c08Marker) {
		pol := c08Examples + "/keymatch_with_rbac_in_domain.csv"
		m1, e1 := model.NewModelFromString(string(data))
		m2, e2 := model.NewModelFromString(strings.Replace(string(data), c08Marker, "keyMatch(r.dom,p.dom)", 1))
		if e1 == nil && e2 == nil {
			reqs := c08Requests(m1, pol)
			d1, d2 := c08Decisions(m1, pol, reqs), c08Decisions(m2, pol, reqs)
			c.Notes = append(c.Notes, fmt.Sprintf("W1 observation: matcher spelled keyMatch(r.dom,p.dom) instead of %s: decisions differ=%v (enforcer.go initRmMap looks for the exact text); the loose stream keeps this text intact", c08Marker, d1 != d2))
		}
	}
	// W2 (observation, content not layout): definitions the loader never asks for are ignored without error
	if m, err := model.NewModelFromString(base + "m = r.sub == p.sub\nm3 = r.obj == p.obj\nmm = x\n[policy_definition]\np3 = a, b\n"); err == nil {
		_, hasM3 := m["m"]["m3"]
		_, hasP3 := m["p"]["p3"]
		c.Notes = append(c.Notes, fmt.Sprintf("W2 observation: m3 without m2 / p3 without p2 / unknown key mm load without error and are ignored: m3 loaded=%v p3 loaded=%v (loadSection stops at the first missing number)", hasM3, hasP3))
	}
	// F35 (interpretation guard, not a finding): a blank or comment line inside a continued definition ends it
	full2 := "g(r_sub, p_sub) && r_obj == p_obj && r_act == p_act"
	for _, mid := range []string{"\n", "# note\n"} {
		v, ok := value(base + "m = g(r.sub, p.sub) && r.obj == p.obj && \\\n" + mid + "  r.act == p.act\n")
		st := "as guarded"
		if ok && v == full2 {
			st = "no longer needed"
		}
		c.Notes = append(c.Notes, fmt.Sprintf("F35 guard (%s): a %q line inside a continued definition: ok=%v m.Value=%s", st, mid, ok, Q(v)))
	}
}
