package main

import (
	"fmt"
	"regexp"
	"strings"

	"github.com/casbin/casbin/v2/util"
)

// ---------------------------------------------------------------------------------------
// C01: the independent reference evaluator.  It uses neither govaluate, nor the effector,
// nor the role manager: plain recursive evaluation of the AST, a naive bounded breadth-first
// search over the listed grouping rules, and the declarative combination of effects.
// It also records every call of a built-in function that the model treats as an oracle
// (keyMatch2.., regexMatch, ipMatch, globMatch, keyGet..) together with what the real
// function returned, which becomes the oracle table of the case.
// ---------------------------------------------------------------------------------------

const (
	c01OK = iota
	c01ERR
	c01PANIC
)

type c01RefG struct {
	count int
	edges map[string]map[string][]string // domain -> user -> roles
}

type c01Ref struct {
	rtoks, ptoks []string
	gs           map[string]*c01RefG
	parse        map[string]*c01E // compiled text -> AST
	hasEval      bool
	oracle       map[string]string // printed (fn args) -> printed result
	oracleOrder  []string
}

var c01EscRe = regexp.MustCompile(`\b((r|p)[0-9]*)\.`)

func c01EscapeRef(s string) string {
	return c01EscRe.ReplaceAllStringFunc(s, func(m string) string { return m[:len(m)-1] + "_" })
}

func c01VEq(a, b c01V) bool {
	if a.k != b.k {
		return false
	}
	switch a.k {
	case 'z':
		return true
	case 's':
		return a.s == b.s
	case 'n':
		return a.n == b.n
	case 'b':
		return a.b == b.b
	case 'l':
		if len(a.l) != len(b.l) {
			return false
		}
		for i := range a.l {
			if !c01VEq(a.l[i], b.l[i]) {
				return false
			}
		}
		return true
	default:
		if len(a.f) != len(b.f) {
			return false
		}
		for i := range a.f {
			if a.f[i].k != b.f[i].k || !c01VEq(a.f[i].v, b.f[i].v) {
				return false
			}
		}
		return true
	}
}

func c01GoTop(v c01V) interface{} {
	if v.k == 'n' {
		return float64(v.n)
	}
	if v.k == 'l' {
		out := make([]interface{}, len(v.l))
		for i, x := range v.l {
			out[i] = c01GoTop(x)
		}
		return out
	}
	return v.toGo()
}

func (rf *c01Ref) hasLink(g *c01RefG, a, b, dom string) bool {
	if a == b {
		return true
	}
	frontier := map[string]bool{a: true}
	for level := 0; level < 10; level++ {
		next := map[string]bool{}
		for u := range frontier {
			for _, r := range g.edges[dom][u] {
				if r == b {
					return true
				}
				next[r] = true
			}
		}
		if len(next) == 0 {
			return false
		}
		frontier = next
	}
	return false
}

func c01TokIndex(tok string, toks []string) int {
	idx := -1
	for i, t := range toks {
		if t == tok {
			idx = i
		}
	}
	return idx
}

func (rf *c01Ref) get(name string, rv []c01V, pv []string) (c01V, int) {
	if name == "" {
		return c01V{k: 'z'}, c01OK
	}
	switch name[0] {
	case 'p':
		i := c01TokIndex(name, rf.ptoks)
		if i < 0 {
			return c01V{}, c01ERR
		}
		if i >= len(pv) {
			return c01V{}, c01PANIC
		}
		return c01S(pv[i]), c01OK
	case 'r':
		i := c01TokIndex(name, rf.rtoks)
		if i < 0 {
			return c01V{}, c01ERR
		}
		if i >= len(rv) {
			return c01V{}, c01PANIC
		}
		return rv[i], c01OK
	}
	return c01V{}, c01ERR
}

func (rf *c01Ref) callOracle(f string, ss []string) (c01V, int) {
	key := Q(f) + " " + QL(ss)
	var v c01V
	st := c01OK
	func() {
		defer func() {
			if r := recover(); r != nil {
				st = c01PANIC
			}
		}()
		args := make([]interface{}, len(ss))
		for i, s := range ss {
			args[i] = s
		}
		var res interface{}
		var err error
		switch f {
		case "keyMatch2":
			res, err = util.KeyMatch2Func(args...)
		case "keyMatch3":
			res, err = util.KeyMatch3Func(args...)
		case "keyMatch4":
			res, err = util.KeyMatch4Func(args...)
		case "keyMatch5":
			res, err = util.KeyMatch5Func(args...)
		case "regexMatch":
			res, err = util.RegexMatchFunc(args...)
		case "ipMatch":
			res, err = util.IPMatchFunc(args...)
		case "globMatch":
			res, err = util.GlobMatchFunc(args...)
		case "keyGet":
			res, err = util.KeyGetFunc(args...)
		case "keyGet2":
			res, err = util.KeyGet2Func(args...)
		case "keyGet3":
			res, err = util.KeyGet3Func(args...)
		default:
			err = fmt.Errorf("unknown")
		}
		if err != nil {
			st = c01ERR
			return
		}
		switch x := res.(type) {
		case bool:
			v = c01B(x)
		case string:
			v = c01S(x)
		default:
			st = c01ERR
		}
	}()
	if _, seen := rf.oracle[key]; !seen {
		val := "err"
		switch {
		case st == c01PANIC:
			val = "panic"
		case st == c01OK:
			val = v.sexp()
		}
		rf.oracle[key] = val
		rf.oracleOrder = append(rf.oracleOrder, key)
	}
	return v, st
}

var c01Arity = map[string]int{"keyMatch": 2, "keyMatch2": 2, "keyMatch3": 2, "keyMatch4": 2, "keyMatch5": 2,
	"regexMatch": 2, "ipMatch": 2, "globMatch": 2, "keyGet": 2, "keyGet2": 3, "keyGet3": 3}

func (rf *c01Ref) known(f string) bool {
	if f == "eval" {
		return rf.hasEval
	}
	if _, ok := rf.gs[f]; ok {
		return true
	}
	_, ok := c01Arity[f]
	return ok
}

func (rf *c01Ref) compiles(e *c01E) bool {
	if e == nil {
		return true
	}
	if e.k == 'c' && !rf.known(e.name) {
		return false
	}
	if e.k == 'i' && len(e.l) == 0 {
		return false
	}
	for _, c := range append([]*c01E{e.x, e.y}, e.l...) {
		if !rf.compiles(c) {
			return false
		}
	}
	return true
}

func (rf *c01Ref) evalList(l []*c01E, rv []c01V, pv []string, fuel int) ([]c01V, int) {
	out := make([]c01V, 0, len(l))
	for _, x := range l {
		v, st := rf.eval(x, rv, pv, fuel)
		if st != c01OK {
			return nil, st
		}
		out = append(out, v)
	}
	return out, c01OK
}

func c01Tuple(vs []c01V) c01V {
	if len(vs) >= 2 && vs[0].k == 'l' {
		return c01V{k: 'l', l: append(append([]c01V{}, vs[0].l...), vs[1:]...)}
	}
	return c01V{k: 'l', l: vs}
}

func (rf *c01Ref) eval(e *c01E, rv []c01V, pv []string, fuel int) (c01V, int) {
	switch e.k {
	case 'v':
		return rf.get(e.name, rv, pv)
	case 'a':
		v, st := rf.get(e.name, rv, pv)
		if st != c01OK {
			return v, st
		}
		for _, k := range e.path {
			if v.k != 'm' && v.k != 'u' && v.k != 'w' {
				return c01V{}, c01ERR
			}
			if v.k != 'm' && k != "" && k[0] >= 'a' && k[0] <= 'z' {
				return c01V{}, c01ERR
			}
			found := false
			for _, f := range v.f {
				if f.k == k {
					v, found = f.v, true
					break
				}
			}
			if !found {
				return c01V{}, c01ERR
			}
		}
		return v, c01OK
	case 's':
		return c01S(e.s), c01OK
	case 'n':
		return c01N(e.n), c01OK
	case 'b':
		return c01B(e.b), c01OK
	case '!':
		v, st := rf.eval(e.x, rv, pv, fuel)
		if st != c01OK {
			return v, st
		}
		if v.k != 'b' {
			return v, c01ERR
		}
		return c01B(!v.b), c01OK
	case 'o':
		l, st := rf.eval(e.x, rv, pv, fuel)
		if st != c01OK {
			return l, st
		}
		if e.name == "&&" && l.k == 'b' && !l.b {
			return c01B(false), c01OK
		}
		if e.name == "||" && l.k == 'b' && l.b {
			return c01B(true), c01OK
		}
		r, st := rf.eval(e.y, rv, pv, fuel)
		if st != c01OK {
			return r, st
		}
		switch e.name {
		case "&&", "||":
			if l.k != 'b' || r.k != 'b' {
				return c01V{}, c01ERR
			}
			return r, c01OK
		case "==":
			return c01B(c01VEq(l, r)), c01OK
		case "!=":
			return c01B(!c01VEq(l, r)), c01OK
		case "<", "<=", ">", ">=":
			var c int
			switch {
			case l.k == 'n' && r.k == 'n':
				c = l.n - r.n
			case l.k == 's' && r.k == 's':
				c = strings.Compare(l.s, r.s)
			default:
				return c01V{}, c01ERR
			}
			switch e.name {
			case "<":
				return c01B(c < 0), c01OK
			case "<=":
				return c01B(c <= 0), c01OK
			case ">":
				return c01B(c > 0), c01OK
			}
			return c01B(c >= 0), c01OK
		case "+":
			if l.k == 'n' && r.k == 'n' {
				return c01N(l.n + r.n), c01OK
			}
			if l.k == 's' || r.k == 's' {
				return c01S(fmt.Sprintf("%v%v", c01GoTop(l), c01GoTop(r))), c01OK
			}
			return c01V{}, c01ERR
		case "-":
			if l.k == 'n' && r.k == 'n' {
				return c01N(l.n - r.n), c01OK
			}
			return c01V{}, c01ERR
		}
		panic("op " + e.name)
	case 'i':
		lv, st := rf.eval(e.x, rv, pv, fuel)
		if st != c01OK {
			return lv, st
		}
		var right c01V
		if len(e.l) == 1 {
			x := e.l[0]
			v, st := rf.eval(x, rv, pv, fuel)
			if st != c01OK {
				return v, st
			}
			if x.k == 's' || x.k == 'n' || x.k == 'b' {
				right = c01V{k: 'l', l: []c01V{v}}
			} else {
				right = v
			}
		} else {
			vs, st := rf.evalList(e.l, rv, pv, fuel)
			if st != c01OK {
				return c01V{}, st
			}
			right = c01Tuple(vs)
		}
		if right.k != 'l' {
			return c01V{}, c01ERR
		}
		for _, x := range right.l {
			if (lv.k == 'm' && x.k == 'm') || (lv.k == 'l' && x.k == 'l') {
				return c01V{}, c01PANIC
			}
			if c01VEq(lv, x) {
				return c01B(true), c01OK
			}
		}
		return c01B(false), c01OK
	case 'c':
		vs, st := rf.evalList(e.l, rv, pv, fuel)
		if st != c01OK {
			return c01V{}, st
		}
		var args []c01V
		switch {
		case len(vs) == 0:
		case len(vs) == 1 && vs[0].k == 'z':
		case len(vs) == 1 && vs[0].k == 'l':
			args = vs[0].l
		case len(vs) == 1:
			args = vs
		default:
			args = c01Tuple(vs).l
		}
		if e.name == "eval" && rf.hasEval {
			if len(args) != 1 || fuel == 0 || args[0].k != 's' {
				return c01V{}, c01ERR
			}
			sub, ok := rf.parse[c01EscapeRef(args[0].s)]
			if !ok || !rf.compiles(sub) {
				return c01V{}, c01ERR
			}
			return rf.eval(sub, rv, pv, fuel-1)
		}
		allStr := true
		ss := make([]string, len(args))
		for i, a := range args {
			if a.k != 's' {
				allStr = false
			}
			ss[i] = a.s
		}
		if g, ok := rf.gs[e.name]; ok {
			if !allStr || len(ss) < 2 {
				return c01V{}, c01PANIC
			}
			dom := ""
			if len(ss) > 2 && g.count > 2 {
				dom = ss[2]
			}
			return c01B(rf.hasLink(g, ss[0], ss[1], dom)), c01OK
		}
		n, ok := c01Arity[e.name]
		if !ok || len(args) != n || !allStr {
			return c01V{}, c01ERR
		}
		if e.name == "keyMatch" {
			k1, k2 := ss[0], ss[1]
			i := strings.Index(k2, "*")
			if i < 0 {
				return c01B(k1 == k2), c01OK
			}
			if len(k1) > i {
				return c01B(k1[:i] == k2[:i]), c01OK
			}
			return c01B(k1 == k2[:i]), c01OK
		}
		return rf.callOracle(e.name, ss)
	}
	panic("eval kind")
}

// declarative combination of the matched rules' effects (0 allow, 1 indeterminate, 2 deny)
func c01Combine(effect string, matched []bool, efts []int) bool {
	someAllow, someDeny := false, false
	for i := range matched {
		if matched[i] && efts[i] == 0 {
			someAllow = true
		}
		if matched[i] && efts[i] == 2 {
			someDeny = true
		}
	}
	switch effect {
	case "ao":
		return someAllow
	case "do":
		return !someDeny
	case "ad":
		return someAllow && !someDeny
	case "pr", "sp":
		for i := range matched {
			if matched[i] && efts[i] != 1 {
				return efts[i] == 0
			}
		}
		return false
	}
	return false
}

// refDecide: the PERM decision when the case is error-free (every rule evaluates to a bool or
// a number); ok=false when some evaluation fails (then the property says nothing here).
func (rf *c01Ref) decide(m *c01E, usesP bool, effect string, eftIdx int, policy [][]string, rv []c01V) (dec bool, ok bool) {
	truth := func(pv []string) (bool, bool, bool) { // matched, evaluated, isBool
		v, st := rf.eval(m, rv, pv, 100)
		if st != c01OK {
			return false, false, false
		}
		switch v.k {
		case 'b':
			return v.b, true, true
		case 'n':
			return v.n != 0, true, false
		}
		return false, false, false
	}
	if len(rv) != len(rf.rtoks) || !rf.compiles(m) {
		return false, false
	}
	if len(policy) != 0 && usesP {
		matched := make([]bool, len(policy))
		efts := make([]int, len(policy))
		for i, pv := range policy {
			if len(pv) != len(rf.ptoks) {
				return false, false
			}
			mt, evd, _ := truth(pv)
			if !evd {
				// evaluated anyway to record the oracle calls of the remaining rules
				for _, pv2 := range policy[i+1:] {
					if len(pv2) == len(rf.ptoks) {
						truth(pv2)
					}
				}
				return false, false
			}
			matched[i] = mt
			if eftIdx >= 0 {
				switch pv[eftIdx] {
				case "allow":
					efts[i] = 0
				case "deny":
					efts[i] = 2
				default:
					efts[i] = 1
				}
			}
		}
		return c01Combine(effect, matched, efts), effect != "un"
	}
	if rf.hasEval && len(policy) == 0 {
		return false, false
	}
	seen := map[string]bool{}
	n := 0
	for _, t := range rf.ptoks {
		if !seen[t] {
			seen[t] = true
			n++
		}
	}
	mt, evd, isBool := truth(make([]string, n))
	if !evd || !isBool {
		return false, false
	}
	e := 1
	if mt {
		e = 0
	}
	return c01Combine(effect, []bool{true}, []int{e}), effect != "un"
}
