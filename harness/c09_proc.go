package main

import (
	"bufio"
	"bytes"
	"encoding/json"
	"fmt"
	"os"
	"os/exec"
	"path/filepath"
	"strings"
	"sync"
	"time"
)

// C09, phases that can take the whole process down and therefore run in a CHILD process (the
// harness binary re-executed with VERIF_C09_PHASE=<phase>); the parent merges the child's cases,
// observations and direct violations into its own streams, and reports a child that dies (Go
// runtime "fatal error: concurrent map writes" cannot be recovered) or does not finish as a
// direct violation of its own, so the remaining phases still produce their output.
//
//   cold    16 goroutines start together on a COLD process-wide regexp cache: every round each
//           goroutine meets fresh patterns nobody has compiled yet (its own and ones shared by
//           all goroutines at the same moment) through KeyGet2 / KeyGet3 / KeyMatch4, mixed with
//           patterns cached in the round before (readers next to writers).  Every result is
//           compared with the segment-level reference and, as a `raw` case, with the model.
//   poison  "an error must not poison later calls": a call whose expanded pattern does not
//           compile (it panics; recovered here as Enforce's recover would) is followed by calls
//           on cached patterns, on fresh patterns and by the other functions, each under a
//           watchdog: all must return, with the model's values (C09_cache_transparent: the
//           history through the shared cache equals the pure results call by call).

const c09PhaseEnv = "VERIF_C09_PHASE"

func c09OneLine(s string, max int) string {
	s = strings.TrimSpace(s)
	s = strings.Replace(s, "\r", "", -1)
	s = strings.Replace(s, "\n", " | ", -1)
	s = strings.Replace(s, "\t", " ", -1)
	if len(s) > max {
		s = s[:max] + "..."
	}
	return s
}

// the interesting line of a dying Go process, and the first casbin frames below it
func c09FatalLine(out string) string {
	lines := strings.Split(out, "\n")
	for i, l := range lines {
		if strings.HasPrefix(l, "fatal error:") || strings.HasPrefix(l, "panic:") || strings.HasPrefix(l, "WARNING: DATA RACE") {
			r := strings.TrimSpace(l)
			n := 0
			for _, m := range lines[i+1:] {
				m = strings.TrimSpace(m)
				if strings.HasPrefix(m, "github.com/casbin/casbin/v2") && n < 2 {
					r += " in " + m
					n++
				}
			}
			return c09OneLine(r, 400)
		}
	}
	return c09OneLine(out, 200)
}

// c09RunChild re-executes this binary for one phase and merges what it wrote.
func c09RunChild(c *Ctx, phase string, limit time.Duration, what string) {
	exe, err := os.Executable()
	if err != nil {
		panic(err)
	}
	c09RunChildExe(c, exe, phase, phase, true, limit, what)
}

// c09RaceBinary builds this harness (shared files + c09*.go, as ./check does) with the race
// detector.  The default toolchain has no race runtime; go1.26.8 has one.  "" when that
// toolchain is not installed or the build fails (recorded as a note: the plain phases still run).
func c09RaceBinary(c *Ctx, dir string) string {
	gobin, err := exec.LookPath("go1.26.8")
	if err != nil {
		c.Notes = append(c.Notes, "race-detector phases skipped: no go1.26.8 toolchain on PATH")
		return ""
	}
	src := filepath.Join("/verif", "harness")
	ents, err := os.ReadDir(src)
	if err != nil {
		c.Notes = append(c.Notes, "race-detector phases skipped: "+err.Error())
		return ""
	}
	var files []string
	for _, e := range ents {
		n := e.Name()
		if !strings.HasSuffix(n, ".go") || strings.HasSuffix(n, "_test.go") {
			continue
		}
		isProp := len(n) > 3 && n[0] == 'c' && n[1] >= '0' && n[1] <= '9' && n[2] >= '0' && n[2] <= '9'
		if !isProp || strings.HasPrefix(n, "c09") {
			files = append(files, n)
		}
	}
	out := filepath.Join(dir, "harness-c09-race")
	cmd := exec.Command(gobin, append([]string{"build", "-race", "-o", out}, files...)...)
	cmd.Dir = src
	cmd.Env = append(os.Environ(), "GOFLAGS=-mod=mod", "GOPROXY=off", "GOSUMDB=off", "GOTOOLCHAIN=local")
	t0 := time.Now()
	b, err := cmd.CombinedOutput()
	if err != nil {
		c.Notes = append(c.Notes, "race-detector phases skipped: go1.26.8 build -race failed: "+c09OneLine(string(b), 400))
		return ""
	}
	c.Notes = append(c.Notes, fmt.Sprintf("race-detector binary built with go1.26.8 in %.1f s", time.Since(t0).Seconds()))
	return out
}

func c09RunChildExe(c *Ctx, exe, phase, label string, merge bool, limit time.Duration, what string) {
	dir, err := os.MkdirTemp("", "verif-c09-"+phase+"-")
	if err != nil {
		panic(err)
	}
	defer os.RemoveAll(dir)
	cmd := exec.Command(exe, "-tier", c.Tier, "-seed", fmt.Sprint(c.Seed), "-out", dir, "C09")
	cmd.Env = append(os.Environ(), c09PhaseEnv+"="+phase, "GORACE=halt_on_error=1")
	var out bytes.Buffer
	cmd.Stdout = &out
	cmd.Stderr = &out
	t0 := time.Now()
	if err := cmd.Start(); err != nil {
		panic(err)
	}
	done := make(chan error, 1)
	go func() { done <- cmd.Wait() }()
	var werr error
	timedOut := false
	select {
	case werr = <-done:
	case <-time.After(limit):
		timedOut = true
		_ = cmd.Process.Kill()
		werr = <-done
	}
	id := "c09." + label
	phase0 := phase
	phase = label
	replay := fmt.Sprintf("VERIF_C09_PHASE=%s harness -tier %s -seed %d -out DIR C09   (%s)", phase0, c.Tier, c.Seed, what)
	switch {
	case timedOut:
		c.Direct(id, fmt.Sprintf("the %s phase did not finish within %s (calls that never return)", phase, limit), replay+" output: "+c09OneLine(out.String(), 1200))
		c.Count("child:" + phase + ":timeout")
		return
	case werr != nil:
		c.Direct(id, fmt.Sprintf("the process running the %s phase died: %s", phase, c09FatalLine(out.String())), replay+" output: "+c09OneLine(out.String(), 1200))
		c.Count("child:" + phase + ":died")
		return
	}
	c.Count("child:" + phase + ":completed")
	if !merge {
		c.Notes = append(c.Notes, fmt.Sprintf("phase %s ran in a child process (%.1f s): no report", phase, time.Since(t0).Seconds()))
		return
	}
	// merge
	scan := func(name string, f func(line string)) {
		fh, err := os.Open(filepath.Join(dir, name))
		if err != nil {
			panic(err)
		}
		defer fh.Close()
		sc := bufio.NewScanner(fh)
		sc.Buffer(make([]byte, 1<<20), 1<<26)
		for sc.Scan() {
			if sc.Text() != "" {
				f(sc.Text())
			}
		}
	}
	scan("cases.sx", func(l string) {
		i := strings.IndexByte(l, ' ')
		if !strings.HasPrefix(l, "(") || !strings.HasSuffix(l, ")") || i < 0 {
			panic("c09: bad case line from the child: " + l)
		}
		c.Case(l[1:i], l[i+1:len(l)-1])
	})
	scan("impl.out", func(l string) {
		p := strings.SplitN(l, "\t", 3)
		if len(p) != 3 {
			panic("c09: bad observation line from the child: " + l)
		}
		c.Obs(p[0], p[1], p[2])
		if p[2] == "1" || (strings.HasPrefix(p[2], "v:") && p[2] != `v:""`) || p[2] == "panic" {
			c.NonTrivial(p[0])
		}
	})
	scan("direct.out", func(l string) {
		p := strings.SplitN(l, "\t", 3)
		for len(p) < 3 {
			p = append(p, "")
		}
		c.Direct(p[0], p[1], p[2])
	})
	var st struct {
		Distribution map[string]int `json:"distribution"`
		Notes        []string       `json:"notes"`
	}
	if b, err := os.ReadFile(filepath.Join(dir, "stats.json")); err == nil && json.Unmarshal(b, &st) == nil {
		for k, v := range st.Distribution {
			c.Dist[k] += v
		}
		c.Notes = append(c.Notes, st.Notes...)
	}
	c.Notes = append(c.Notes, fmt.Sprintf("phase %s ran in a child process (%.1f s)", phase, time.Since(t0).Seconds()))
}

// emit one call and its result as a `raw` case (the driver recomputes it with the model)
func (g *c09Gen) emitRaw(kind, fn, a, b, name, r string) string {
	g.n++
	id := fmt.Sprintf("c09.%s%d", kind, g.n)
	args := []string{Q(a), Q(b)}
	if fn == "kg2" || fn == "kg3" {
		args = append(args, Q(name))
	}
	g.c.Case(id, "raw "+fn+" "+strings.Join(args, " "))
	switch {
	case r == "P" || r == "!P":
		r = "panic"
	case fn == "kg" || fn == "kg2" || fn == "kg3":
		r = "v:" + r
	}
	g.c.Obs(id, fn, r)
	return id
}

// ---------- cold ----------

type c09Job struct {
	fn, a, b, name string
	want           string // by the segment-level reference
	got            string
	shared         bool
}

// a fresh well-formed pattern (tag makes its text, hence its cache keys, unique), one path and
// the calls on it
func (g *c09Gen) coldJobs(tag string, shared bool) []c09Job {
	rng := g.c.Rng
	sy := c09Colon + rng.Intn(2)
	names := []string{"x", "y", "id", "x"}
	var p c09Pat
	at := rng.Intn(4)
	ns := 1 + rng.Intn(4)
	for i := 0; i < ns; i++ {
		if i == at%ns {
			p.segs = append(p.segs, c09Seg{false, tag})
			continue
		}
		if rng.Intn(2) == 0 {
			p.segs = append(p.segs, c09Seg{true, names[rng.Intn(len(names))]})
		} else {
			p.segs = append(p.segs, c09Seg{false, g.randFrom("ab09_-~%", 0, 2)})
		}
	}
	p.star = rng.Intn(4) == 0
	if !c09Wf(sy, p) {
		panic("c09: cold generator left the guard: " + c09Print(sy, p))
	}
	text := c09Print(sy, p)
	var jobs []c09Job
	for k := 1 + rng.Intn(2); k > 0; k-- {
		vals := map[string]string{}
		path := ""
		for _, s := range p.segs {
			seg := s.s
			if s.par {
				seg = g.randFrom("abz09.:{}$ ", 1, 2)
				if old, ok := vals[s.s]; ok && rng.Intn(3) > 0 {
					seg = old
				}
				vals[s.s] = seg
			} else if rng.Intn(12) == 0 {
				seg = "zz"
			}
			path += "/" + seg
		}
		if p.star && rng.Intn(5) > 0 {
			path += "/" + g.randFrom("ab/", 0, 3)
		}
		vs, ok := c09RefFill(p, path)
		bit := func(b bool) string {
			if b {
				return "1"
			}
			return "0"
		}
		if sy == c09Colon {
			for _, n := range append(c09Names(p), "z") {
				want := ""
				if ok {
					want = c09RefFirst(p, vs, n)
				}
				jobs = append(jobs, c09Job{fn: "kg2", a: path, b: text, name: n, want: Q(want), shared: shared})
			}
			continue
		}
		jobs = append(jobs, c09Job{fn: "km4", a: path, b: text, want: bit(ok && c09RefConsistent(p, vs)), shared: shared})
		for _, n := range append(c09Names(p), "z") {
			want := ""
			if ok {
				want = c09RefFirst(p, vs, n)
			}
			jobs = append(jobs, c09Job{fn: "kg3", a: path, b: text, name: n, want: Q(want), shared: shared})
		}
	}
	return jobs
}

func c09Cold(c *Ctx) {
	g := &c09Gen{c: c}
	const workers = 16
	rounds, nShared, nPrivate := 32, 12, 20
	if c.Thorough() {
		rounds, nShared, nPrivate = 200, 16, 40
	}
	plan := make([][][]c09Job, rounds)
	for r := 0; r < rounds; r++ {
		plan[r] = make([][]c09Job, workers)
		var shared []c09Job
		for k := 0; k < nShared; k++ {
			shared = append(shared, g.coldJobs(fmt.Sprintf("s%dk%d", r, k), true)...)
		}
		for w := 0; w < workers; w++ {
			// the shared fresh patterns first, in the same order for everybody: all goroutines
			// miss the cache for the same key at the same moment
			jobs := append([]c09Job{}, shared...)
			for k := 0; k < nPrivate; k++ {
				jobs = append(jobs, g.coldJobs(fmt.Sprintf("r%dw%dk%d", r, w, k), false)...)
				// a pattern another goroutine cached in the round before: a reader of the map next
				// to the writers
				if r > 0 && k%2 == 0 {
					prev := plan[r-1][(w+1+k)%workers]
					jobs = append(jobs, prev[len(prev)-1-c.Rng.Intn(len(prev)/2)])
				}
			}
			plan[r][w] = jobs
		}
	}
	ncalls := 0
	for r := 0; r < rounds; r++ {
		start := make(chan struct{})
		var wg sync.WaitGroup
		for w := 0; w < workers; w++ {
			wg.Add(1)
			go func(jobs []c09Job) {
				defer wg.Done()
				<-start
				for i := range jobs {
					jobs[i].got = c09Call1(jobs[i].fn, jobs[i].a, jobs[i].b, jobs[i].name)
				}
			}(plan[r][w])
		}
		close(start)
		wg.Wait()
	}
	for r := 0; r < rounds; r++ {
		for w := 0; w < workers; w++ {
			for i, j := range plan[r][w] {
				ncalls++
				if j.got != j.want {
					c.Direct("c09.cold", fmt.Sprintf("%s on a cold cache under concurrent first use differs from the segment-level reference: got %s want %s", j.fn, j.got, j.want),
						fmt.Sprintf("%s(%q, %q, %q) round %d goroutine %d of %d", j.fn, j.a, j.b, j.name, r, w, workers))
				}
				// the model sees, for the first 8 rounds and every 8th one after them, every private
				// call and the shared calls of one goroutine
				if (r < 8 || r%8 == 0) && (!j.shared || w == r%workers) {
					g.emitRaw("cold", j.fn, j.a, j.b, j.name, j.got)
				}
				// and afterwards, sequentially, the same answer again (whatever was cached is the
				// right expression)
				if i%7 == 0 {
					if again := c09Call1(j.fn, j.a, j.b, j.name); again != j.got {
						c.Direct("c09.cold", fmt.Sprintf("%s answers %s after the concurrent phase and answered %s in it", j.fn, again, j.got),
							fmt.Sprintf("%s(%q, %q, %q)", j.fn, j.a, j.b, j.name))
					}
				}
			}
		}
	}
	c.Count(fmt.Sprintf("cold:calls=%d x %d goroutines x %d rounds", ncalls/(workers*rounds), workers, rounds))
	c.Notes = append(c.Notes, fmt.Sprintf("cold-cache concurrency: %d calls of KeyGet2/KeyGet3/KeyMatch4 from %d goroutines released together in %d rounds, every round on patterns nobody compiled before (%d shared by all goroutines + %d private per goroutine) and on patterns cached one round earlier; results compared with the reference and the model", ncalls, workers, rounds, nShared, nPrivate))
}

// ---------- poison ----------

// watched runs one call under a watchdog; ok=false: it did not return
func c09Watched(limit time.Duration, f func() string) (string, bool) {
	ch := make(chan string, 1)
	go func() { ch <- f() }()
	select {
	case r := <-ch:
		return r, true
	case <-time.After(limit):
		return "", false
	}
}

func c09Poison(c *Ctx) {
	g := &c09Gen{c: c}
	limit := 20 * time.Second
	type call struct{ fn, a, b, name string }
	// calls whose expanded pattern is not a regular expression (or whose argument is malformed):
	// the Go function panics, the model answers None
	bad := []call{
		{"km4", "/x/1/unbalanced(", "/x/{id}/unbalanced(", ""},
		{"km4", "/a/b", "/a/[", ""},
		{"km4", "/a/b", "/a/)", ""},
		{"km4", "/a/b/c", "/a/*+", ""},
		{"km4", "/a/b", "/(a)/{x}", ""}, // compiles; one group more than tokens: the function's own panic
		{"kg2", "/x/1/u", "/x/:id/unbalanced(", "id"},
		{"kg2", "/a/b", "/a/[", "x"},
		{"kg2", "/a/b", "/:x/)", "x"},
		{"kg2", "/a/b", "/:x/*+", "x"},
		{"kg3", "/x/1/u", "/x/{id}/unbalanced(", "id"},
		{"kg3", "/a/b", "/a/[", "x"},
		{"kg3", "/a/b", "/{x}/)", "x"},
		{"kg3", "/a/b", "/{x}/*+", "x"},
		{"km2", "/a/b", "/:x/(", ""},
		{"km3", "/a/b", "/{x}/(", ""},
		{"km5", "/a/b?q", "/{x}/[", ""},
		{"ip", "not-an-ip", "10.0.0.0/8", ""},
		{"ip", "10.0.0.1", "10.0.0.0/33", ""},
	}
	seq := 0
	// valid calls: the cached ones (same text every time) and fresh ones (tag in the text)
	probes := func(tag string) []call {
		return []call{
			{"km4", "/p/1/c/1", "/p/{id}/c/{id}", ""}, {"km4", "/p/1/c/2", "/p/{id}/c/{id}", ""},
			{"kg2", "/p/v1/c", "/p/:v/c", "v"}, {"kg3", "/p/v1/c", "/p/{v}/c", "v"},
			{"km4", "/" + tag + "/7/7", "/" + tag + "/{a}/{a}", ""},
			{"kg2", "/" + tag + "/7", "/" + tag + "/:a", "a"},
			{"kg3", "/" + tag + "/7/x/y", "/" + tag + "/{a}/*", "a"},
			{"km2", "/" + tag + "/7", "/" + tag + "/:a", ""}, {"km3", "/" + tag + "/7", "/" + tag + "/{a}", ""},
			{"km5", "/" + tag + "/7?q=1", "/" + tag + "/{a}", ""}, {"km", "/" + tag + "/7", "/" + tag + "/*", ""},
			{"kg", "/" + tag + "/7", "/" + tag + "/*", ""}, {"ip", "10.1.2.3", "10.0.0.0/8", ""},
		}
	}
	run := func(kind string, cl call, after string) bool {
		r, ok := c09Watched(limit, func() string { return c09Call1(cl.fn, cl.a, cl.b, cl.name) })
		if !ok {
			c.Direct("c09.poison", fmt.Sprintf("%s did not return within %s %s", cl.fn, limit, after),
				fmt.Sprintf("%s(%q, %q, %q) %s", cl.fn, cl.a, cl.b, cl.name, after))
			return false
		}
		id := g.emitRaw(kind, cl.fn, cl.a, cl.b, cl.name, r)
		_ = id
		return true
	}
	for _, cl := range probes("warm") {
		if !run("pw", cl, "on a fresh process") {
			return
		}
	}
	rounds := 1
	if c.Thorough() {
		rounds = 20
	}
	for round := 0; round < rounds; round++ {
		for _, b := range bad {
			seq++
			if !run("pb", b, "(the hostile call itself)") {
				return
			}
			after := fmt.Sprintf("after the panicking call %s(%q, %q, %q)", b.fn, b.a, b.b, b.name)
			for _, cl := range probes(fmt.Sprintf("t%d", seq)) {
				if !run("pa", cl, after) {
					return
				}
			}
			// the hostile call once more: nothing of it was cached
			if round == 0 && !run("pb", b, after) {
				return
			}
			c.Count("poison:sequences")
		}
	}
	// from several goroutines at once: panicking calls next to valid ones
	var wg sync.WaitGroup
	stuck := make(chan string, 64)
	for w := 0; w < 8; w++ {
		wg.Add(1)
		go func(w int) {
			defer wg.Done()
			for k := 0; k < 40; k++ {
				b := bad[(w+k)%len(bad)]
				cls := append([]call{b}, probes(fmt.Sprintf("c%dk%d", w, k))...)
				for _, cl := range cls {
					cl := cl
					if _, ok := c09Watched(limit, func() string { return c09Call1(cl.fn, cl.a, cl.b, cl.name) }); !ok {
						stuck <- fmt.Sprintf("%s(%q, %q, %q)", cl.fn, cl.a, cl.b, cl.name)
						return
					}
				}
			}
		}(w)
	}
	wg.Wait()
	close(stuck)
	for s := range stuck {
		c.Direct("c09.poison", "a call did not return while other goroutines made panicking calls", s)
	}
	c.Notes = append(c.Notes, fmt.Sprintf("poisoning: %d hostile calls (pattern that does not compile / token-count panic / malformed address), each followed by 13 valid calls on cached and fresh patterns under a %s watchdog; then 8 goroutines mixing both", seq, limit))
}

func c09ChildMain(c *Ctx, phase string) {
	c.Rule = "child phase " + phase
	switch phase {
	case "cold":
		c09Cold(c)
	case "poison":
		c09Poison(c)
	default:
		panic("c09: unknown phase " + phase)
	}
}
