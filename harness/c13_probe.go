package main

// Known-finding probes of C13 (reported through c.Known, never through the case stream).

import (
	"fmt"
	"runtime"
	"strings"
	"sync"
	"sync/atomic"
	"time"

	casbin "github.com/casbin/casbin/v2"
)

// ---------- F19: LoadPolicy is two critical sections ----------
//
// SyncedEnforcer.LoadPolicy = RLock{ newModel := loadPolicyFromAdapter } ; Lock{ apply(newModel) }.
// No library callback runs between the two sections, but the schedule can still be pinned without
// any timing: the adapter's LoadPolicy callback (phase 1, read lock held, content already copied
// into the new model) starts `go e.AddPolicy(X)` and returns only once e.GetLock().TryRLock()
// FAILS, i.e. once a writer has announced itself on the RWMutex.  A writer that has announced
// itself holds the RWMutex's internal writer mutex, so when phase 1 releases the read lock that
// writer (AddPolicy) runs first and LoadPolicy's own Lock() queues behind it: AddPolicy(X)
// completes (store has X, memory has X), then phase 2 installs the snapshot taken before X.
// Fallback if that observation is not available: up to 200 unforced attempts in which the callback
// starts the writer and yields a few times.

func c13F19Attempt(forced bool) (lost bool, detail string) {
	spec := c13MakeSpec(false, false)
	init := [][]string{{"p", "alice", "data1", "read"}, {"g", "bob", "admin"}, {"p", "admin", "data1", "write"}}
	e, ad := c13NewSynced(spec, init, nil)
	x := []string{"bob", "data2", "write"}
	addDone := make(chan struct{})
	var armed int32 = 1
	observed := false
	ad.hook = func(ev string, rule []string) {
		if ev != "load" || !atomic.CompareAndSwapInt32(&armed, 1, 0) {
			return
		}
		started := make(chan struct{})
		go func() {
			close(started)
			_, _ = e.AddPolicy(c13Cp(x))
			close(addDone)
		}()
		<-started
		if forced {
			mu := e.GetLock()
			deadline := time.Now().Add(10 * time.Second)
			for time.Now().Before(deadline) {
				if mu.TryRLock() {
					mu.RUnlock()
					runtime.Gosched()
					continue
				}
				observed = true // a writer is waiting for this read section to end
				break
			}
		} else {
			for i := 0; i < 20; i++ {
				runtime.Gosched()
			}
		}
	}
	err := e.LoadPolicy()
	<-addDone
	ad.hook = nil
	has, _ := e.HasPolicy(c13Cp(x))
	dec, _ := e.Enforce("bob", "data2", "write")
	stored := ad.has("p", x)
	p, _ := e.GetPolicy()
	inMem := false
	for _, r := range p {
		if strings.Join(r, ",") == strings.Join(x, ",") {
			inMem = true
		}
	}
	detail = fmt.Sprintf("LoadPolicy err=%s writer-observed-waiting=%s store-has-X=%s HasPolicy(X)=%s GetPolicy-lists-X=%s Enforce(X)=%s",
		errStr(err), B(observed), B(stored), B(has), B(inMem), B(dec))
	return stored && !has, detail
}

func c13ProbeF19(c *Ctx) {
	lost, detail := c13F19Attempt(true)
	how := "forced (writer started from the adapter callback of phase 1, callback returns once the RWMutex shows a waiting writer)"
	tries := 1
	if !lost {
		for tries = 2; tries <= 201; tries++ {
			var d string
			lost, d = c13F19Attempt(false)
			if lost {
				detail = d
				how = fmt.Sprintf("unforced retry loop, attempt %d", tries-1)
				break
			}
		}
	}
	if lost {
		c.Known = append(c.Known, "F19\treproduced\tLoadPolicy||AddPolicy forced through the adapter callback: rule persisted by the adapter but absent from memory afterwards; "+how+"; "+detail)
	} else {
		c.Known = append(c.Known, "F19\tgone\tLoadPolicy||AddPolicy forced through the adapter callback (and 200 unforced attempts): the rule added between the two phases survived; "+detail)
	}
}

// ---------- F20: pattern role manager, temporary roles + g() memo ----------
//
// Model plain RBAC with a matching function on g; rules p(admin,data1,read), g(tmp*,admin).
// Two identical Enforce(tmpU,data1,read) calls (both under the READ lock) are interleaved through
// the matching function, which sees every Match(tmpU, admin) evaluation of HasLink:
//   call 1 of a goroutine: HasLink's own Match(name1, name2)
//   call 2 of the goroutine that CREATED the temporary role tmpU: rangeMatchingRoles in getRole
//   next call: hasLinkHelper's Match(role.name, target), right before role.rangeRoles
// A (alone) is stopped at its ka-th call (it has stored its temporary role by then); B is started
// and stopped at its kb-th call (it has picked up A's temporary role and has not ranged over it
// yet); A is released, finishes (true) and removes the temporary role together with its matches;
// B continues over the gutted role: false, and the false is memoised by g().
// Candidates (ka,kb) are tried in turn, each with a 2 s deadline after which every gate is opened;
// then an unforced retry loop is the fallback.

const c13F20Model = "[request_definition]\nr = sub, obj, act\n[policy_definition]\np = sub, obj, act\n[role_definition]\ng = _, _\n[policy_effect]\ne = some(where (p.eft == allow))\n[matchers]\nm = g(r.sub, p.sub) && r.obj == p.obj && r.act == p.act\n"

func c13Prefix(str, pat string) bool {
	return strings.HasSuffix(pat, "*") && strings.HasPrefix(str, strings.TrimSuffix(pat, "*"))
}

func c13F20New(mf func(string, string) bool) *casbin.SyncedEnforcer {
	spec := &c13Spec{text: c13F20Model}
	e, err := casbin.NewSyncedEnforcer(spec.newModel())
	if err != nil {
		panic(err)
	}
	e.AddNamedMatchingFunc("g", "mf", mf) // unwrapped method: registered before any concurrency
	_, _ = e.AddPolicy("admin", "data1", "read")
	_, _ = e.AddGroupingPolicy("tmp*", "admin")
	return e
}

func c13F20Fresh(user string) bool {
	e := c13F20New(c13Prefix)
	ok, _ := e.Enforce(user, "data1", "read")
	return ok
}

// c13F20Forced runs one forced attempt; timedOut tells that the schedule did not materialise.
func c13F20Forced(ka, kb int32) (ra, rb, later, timedOut bool) {
	var phase int32 // 0 unarmed, 1 A alone, 2 B running
	var nA, nB int32
	aBlocked := make(chan struct{})
	gateA := make(chan struct{})
	aDone := make(chan struct{})
	abort := make(chan struct{})
	var onceGate sync.Once
	openGate := func() { onceGate.Do(func() { close(gateA) }) }
	mf := func(str, pat string) bool {
		if str == "tmpU" && pat == "admin" {
			switch atomic.LoadInt32(&phase) {
			case 1:
				if atomic.AddInt32(&nA, 1) == ka {
					close(aBlocked)
					select {
					case <-gateA:
					case <-abort:
					}
				}
			case 2:
				if atomic.AddInt32(&nB, 1) == kb {
					openGate() // B holds A's temporary role: let A finish and clean up first
					select {
					case <-aDone:
					case <-abort:
					}
				}
			}
		}
		return c13Prefix(str, pat)
	}
	e := c13F20New(mf)
	_, _ = e.Enforce("tmpX", "data1", "read") // compiles and caches the matcher (and its g() memo)
	var wg sync.WaitGroup
	atomic.StoreInt32(&phase, 1)
	wg.Add(1)
	go func() {
		defer wg.Done()
		ra, _ = e.Enforce("tmpU", "data1", "read")
		close(aDone)
	}()
	select {
	case <-aBlocked:
	case <-aDone:
	case <-time.After(10 * time.Second):
	}
	atomic.StoreInt32(&phase, 2)
	wg.Add(1)
	go func() {
		defer wg.Done()
		rb, _ = e.Enforce("tmpU", "data1", "read")
	}()
	fin := make(chan struct{})
	go func() { wg.Wait(); close(fin) }()
	select {
	case <-fin:
	case <-time.After(10 * time.Second):
		timedOut = true
		close(abort)
		<-fin
	}
	atomic.StoreInt32(&phase, 0)
	later, _ = e.Enforce("tmpU", "data1", "read")
	return
}

func c13ProbeF20(c *Ctx) {
	fresh := c13F20Fresh("tmpU")
	type cand struct{ ka, kb int32 }
	var tried []string
	for _, cd := range []cand{{2, 2}, {3, 2}, {2, 3}, {3, 3}, {4, 2}, {4, 3}} {
		ra, rb, later, to := c13F20Forced(cd.ka, cd.kb)
		tried = append(tried, fmt.Sprintf("(A stops at its call %d, B at its call %d: A=%s B=%s later=%s timeout=%s)", cd.ka, cd.kb, B(ra), B(rb), B(later), B(to)))
		if fresh && (!ra || !rb || !later) {
			c.Known = append(c.Known, fmt.Sprintf("F20\treproduced\ttwo identical Enforce(tmpU,data1,read) under the read lock, forced through the matching-function callback (A stopped at its Match(tmpU,admin) call #%d, B at its call #%d): A=%s B=%s later=%s fresh=%s",
				cd.ka, cd.kb, B(ra), B(rb), B(later), B(fresh)))
			return
		}
	}
	// fallback: unforced concurrent pairs, a new absent user name each time (no memo hit)
	e := c13F20New(c13Prefix)
	for i := 0; i < 3000; i++ {
		u := fmt.Sprintf("tmpK%d", i)
		var ra, rb bool
		var start int32
		var wg sync.WaitGroup
		wg.Add(2)
		run := func(dst *bool) {
			defer wg.Done()
			for atomic.LoadInt32(&start) == 0 {
				runtime.Gosched()
			}
			*dst, _ = e.Enforce(u, "data1", "read")
		}
		go run(&ra)
		go run(&rb)
		atomic.StoreInt32(&start, 1)
		wg.Wait()
		later, _ := e.Enforce(u, "data1", "read")
		if fresh && (!ra || !rb || !later) {
			c.Known = append(c.Known, fmt.Sprintf("F20\treproduced\tunforced pair #%d of identical Enforce(%s,data1,read) (forced candidates did not reproduce: %s): A=%s B=%s later=%s fresh=%s",
				i, u, strings.Join(tried, " "), B(ra), B(rb), B(later), B(fresh)))
			return
		}
	}
	c.Known = append(c.Known, "F20\tgone\tforced schedules "+strings.Join(tried, " ")+" and 3000 unforced pairs all answered like a fresh enforcer (fresh="+B(fresh)+")")
}
