package main

import (
	"errors"
	"fmt"
	"os"
	"path/filepath"
	"sort"
	"strconv"
	"strings"

	casbin "github.com/casbin/casbin/v2"
	"github.com/casbin/casbin/v2/model"
	"github.com/casbin/casbin/v2/persist"
	fileadapter "github.com/casbin/casbin/v2/persist/file-adapter"
	stringadapter "github.com/casbin/casbin/v2/persist/string-adapter"
	"github.com/casbin/casbin/v2/util"
)

// C18: filtered loading on the real fileadapter.FilteredAdapter, files in a temp dir under the
// system temp dir (removed at the end).  Model texts are embedded.

const c18FlatModel = `[request_definition]
r = sub, obj, act
[policy_definition]
p = sub, obj, act
[role_definition]
g = _, _
[policy_effect]
e = some(where (p.eft == allow))
[matchers]
m = g(r.sub, p.sub) && r.obj == p.obj && r.act == p.act
`

const c18Flat2Model = `[request_definition]
r = sub, obj, act
[policy_definition]
p = sub, obj, act
[role_definition]
g = _, _
g2 = _, _
[policy_effect]
e = some(where (p.eft == allow))
[matchers]
m = g(r.sub, p.sub) && r.obj == p.obj && r.act == p.act
`

// examples/rbac_with_domains_model.conf
const c18DomModel = `[request_definition]
r = sub, dom, obj, act
[policy_definition]
p = sub, dom, obj, act
[role_definition]
g = _, _, _
[policy_effect]
e = some(where (p.eft == allow))
[matchers]
m = g(r.sub, p.sub, r.dom) && r.dom == p.dom && r.obj == p.obj && r.act == p.act
`

func c18ModelText(name string) string {
	switch name {
	case "flat":
		return c18FlatModel
	case "flat2":
		return c18Flat2Model
	case "dom":
		return c18DomModel
	}
	panic("c18: unknown model " + name)
}

func c18Requests(name string) [][]string {
	var out [][]string
	if name == "dom" {
		for _, s := range []string{"alice", "bob", "admin"} {
			for _, d := range []string{"d1", "d2"} {
				for _, o := range []string{"data1", "data2"} {
					out = append(out, []string{s, d, o, "read"})
				}
			}
		}
		return out
	}
	for _, s := range []string{"alice", "bob", "admin"} {
		for _, o := range []string{"data1", "data2"} {
			for _, a := range []string{"read", "write"} {
				out = append(out, []string{s, o, a})
			}
		}
	}
	return out
}

type c18Op struct {
	kind     string // load | lf | save | add
	incr, io bool
	arg      string // nil | bad | tnil | f
	P, G, G2 []string
	key      string
	rule     []string
}

func c18OpSx(o c18Op) string {
	switch o.kind {
	case "load":
		return L("load", B(o.io))
	case "lf":
		a := o.arg
		if a == "f" {
			a = L("f", QL(o.P), QL(o.G), QL(o.G2))
		}
		return L("lf", B(o.incr), B(o.io), a)
	case "save":
		return L("save")
	case "add":
		return L("add", Q(o.key), QL(o.rule))
	}
	panic("c18: bad op")
}

func c18OpTag(o c18Op) string {
	switch o.kind {
	case "load":
		if o.io {
			return "load-moved"
		}
		return "load"
	case "lf":
		t := "filtered"
		if o.incr {
			t = "incremental"
		}
		t += "-" + o.arg
		if o.io {
			t += "-moved"
		}
		return t
	}
	return o.kind
}

// c18Try runs one call of the implementation; a panic escaping it is an observation, not a crash
// of the harness.
func c18Try(f func() bool) (ok bool, panicked bool) {
	defer func() {
		if r := recover(); r != nil {
			ok, panicked = false, true
		}
	}()
	return f(), false
}

type c18Env struct {
	c    *Ctx
	dir  string
	path string
}

func c18Decisions(e *casbin.Enforcer, name string) string {
	var b strings.Builder
	for _, r := range c18Requests(name) {
		args := make([]interface{}, len(r))
		for i := range r {
			args[i] = r[i]
		}
		ok, err := e.Enforce(args...)
		switch {
		case err != nil:
			b.WriteByte('E')
		case ok:
			b.WriteByte('1')
		default:
			b.WriteByte('0')
		}
	}
	return b.String()
}

func c18SortedLines(t string) string {
	ls := strings.Split(t, "\n")
	sort.Strings(ls)
	return strings.Join(ls, "\n")
}

func (v *c18Env) obs(id string, k int, ok bool, e *casbin.Enforcer, name string) {
	p, _ := e.GetPolicy()
	g, _ := e.GetGroupingPolicy()
	fb, err := os.ReadFile(v.path)
	file := string(fb)
	if err != nil {
		file = "<unreadable>"
	}
	g2 := ""
	if name == "flat2" {
		file = c18SortedLines(file)
		r2, _ := e.GetNamedGroupingPolicy("g2")
		g2 = " g2=" + rulesKey(r2)
	}
	v.c.Obs(id, I(k), fmt.Sprintf("ok=%s filt=%s p=%s g=%s%s file=%s dec=%s", B(ok), B(e.IsFiltered()),
		rulesKey(p), rulesKey(g), g2, Q(file), c18Decisions(e, name)))
}

func c18FilterArg(o c18Op) interface{} {
	switch o.arg {
	case "nil":
		return nil
	case "bad":
		return fileadapter.Filter{P: o.P, G: o.G, G2: o.G2} // by value: not a *Filter
	case "tnil":
		return (*fileadapter.Filter)(nil)
	}
	return &fileadapter.Filter{P: o.P, G: o.G, G2: o.G2}
}

// the specification's reading of a filter: empty value = wildcard, otherwise equal to the field
func c18SpecMatch(f []string, r []string) bool {
	for i, v := range f {
		if i >= len(r) {
			return false
		}
		if v != "" && v != r[i] {
			return false
		}
	}
	return true
}

func c18Restrict(rules [][]string, f []string) [][]string {
	out := [][]string{}
	for _, r := range rules {
		if c18SpecMatch(f, r) {
			out = append(out, r)
		}
	}
	return out
}

func c18HasRule(rules [][]string, r []string) bool {
	k := strings.Join(r, "\x00")
	for _, x := range rules {
		if strings.Join(x, "\x00") == k {
			return true
		}
	}
	return false
}

// fullLoad loads text with the plain file adapter into a fresh enforcer (nil when it fails).
func (v *c18Env) fullLoad(name, text string) *casbin.Enforcer {
	p2 := filepath.Join(v.dir, "full.csv")
	if err := os.WriteFile(p2, []byte(text), 0o644); err != nil {
		panic(err)
	}
	m, err := model.NewModelFromString(c18ModelText(name))
	if err != nil {
		panic(err)
	}
	e, err := casbin.NewEnforcer(m, fileadapter.NewAdapter(p2))
	if err != nil {
		return nil
	}
	return e
}

// run drives one history on the real code.  clean: the file is inside the theorem guards (safe
// lines, filters within the arity and without outer blanks), so the property's own predicates are
// evaluated on the implementation as well.
func (v *c18Env) run(id, name, text string, ops []c18Op, clean bool) {
	c := v.c
	sx := make([]string, len(ops))
	for i, o := range ops {
		sx[i] = c18OpSx(o)
		c.Count("op=" + c18OpTag(o))
	}
	c.Case(id, "hist "+name+" "+Q(text)+" "+L(sx...))
	c.Count(fmt.Sprintf("model=%s lines=%d ops=%d", name, c18CountLines(text), len(ops)))
	if err := os.WriteFile(v.path, []byte(text), 0o644); err != nil {
		panic(err)
	}
	m, err := model.NewModelFromString(c18ModelText(name))
	if err != nil {
		panic(err)
	}
	a := fileadapter.NewFilteredAdapter(v.path)
	e, err := casbin.NewEnforcer(m, a)
	if err != nil {
		panic(fmt.Sprint("c18: NewEnforcer ", err))
	}
	v.obs(id, 0, true, e, name)
	nontrivial := false
	for k, o := range ops {
		before, _ := os.ReadFile(v.path)
		if o.io {
			if err := os.Rename(v.path, v.path+".away"); err != nil {
				panic(err)
			}
		}
		ok, panicked := c18Try(func() bool {
			switch o.kind {
			case "load":
				return e.LoadPolicy() == nil
			case "lf":
				if o.incr {
					return e.LoadIncrementalFilteredPolicy(c18FilterArg(o)) == nil
				}
				return e.LoadFilteredPolicy(c18FilterArg(o)) == nil
			case "save":
				return e.SavePolicy() == nil
			case "add":
				var added bool
				var err error
				if o.key == "g" {
					added, err = e.AddGroupingPolicy(o.rule)
				} else {
					added, err = e.AddPolicy(o.rule)
				}
				return added && err == nil
			}
			panic("c18: bad op kind")
		})
		if panicked {
			c.Direct(id, "the call panicked: "+c18OpTag(o), c18Replay(name, text, ops))
		}
		if o.io {
			if err := os.Rename(v.path+".away", v.path); err != nil {
				panic(err)
			}
		}
		v.obs(id, k+1, ok, e, name)
		p, _ := e.GetPolicy()
		g, _ := e.GetGroupingPolicy()
		if len(p)+len(g) > 0 {
			nontrivial = true
		}
		// --- the property's own predicates on the implementation alone
		if o.kind == "save" {
			after, _ := os.ReadFile(v.path)
			if !ok && string(after) != string(before) {
				c.Direct(id, "a refused SavePolicy changed the file", c18Replay(name, text, ops))
			}
			if ok && e.IsFiltered() {
				c.Direct(id, "SavePolicy succeeded while IsFiltered() is true", c18Replay(name, text, ops))
			}
			if ok {
				// nothing stored before the save may be missing from the view that was written
				if full := v.fullLoad(name, string(before)); full != nil {
					fp, _ := full.GetPolicy()
					fg, _ := full.GetGroupingPolicy()
					for _, r := range fp {
						if !c18HasRule(p, r) {
							c.Direct(id, "SavePolicy overwrote the store with a partial view: lost p rule "+strings.Join(r, ","), c18Replay(name, text, ops))
							break
						}
					}
					for _, r := range fg {
						if !c18HasRule(g, r) {
							c.Direct(id, "SavePolicy overwrote the store with a partial view: lost g rule "+strings.Join(r, ","), c18Replay(name, text, ops))
							break
						}
					}
				}
			}
		}
		if clean && ok && o.kind == "lf" && !o.incr && o.arg == "f" {
			// loaded = the full load restricted by the filter, and decisions agree with an
			// enforcer that holds exactly that restriction
			if !e.IsFiltered() {
				c.Direct(id, "IsFiltered() is false after a successful filtered load", c18Replay(name, text, ops))
			}
			if full := v.fullLoad(name, string(before)); full != nil {
				fp, _ := full.GetPolicy()
				fg, _ := full.GetGroupingPolicy()
				wp, wg := c18Restrict(fp, o.P), c18Restrict(fg, o.G)
				if rulesKey(wp) != rulesKey(p) || rulesKey(wg) != rulesKey(g) {
					c.Direct(id, "filtered load differs from the full load restricted by the filter: got p="+rulesKey(p)+" g="+rulesKey(g)+" want p="+rulesKey(wp)+" g="+rulesKey(wg), c18Replay(name, text, ops))
				}
				m3, _ := model.NewModelFromString(c18ModelText(name))
				e3, err := casbin.NewEnforcer(m3)
				if err != nil {
					panic(err)
				}
				for _, r := range wp {
					_, _ = e3.AddPolicy(r)
				}
				for _, r := range wg {
					_, _ = e3.AddGroupingPolicy(r)
				}
				if d1, d3 := c18Decisions(e, name), c18Decisions(e3, name); d1 != d3 {
					c.Direct(id, "decisions after the filtered load "+d1+" differ from those of the restricted full load "+d3, c18Replay(name, text, ops))
				}
			}
		}
	}
	if nontrivial {
		c.NonTrivial(id)
	}
}

func c18Replay(name, text string, ops []c18Op) string {
	sx := make([]string, len(ops))
	for i, o := range ops {
		sx[i] = c18OpSx(o)
	}
	return "hist " + name + " " + Q(text) + " " + L(sx...)
}

func c18CountLines(t string) int {
	if t == "" {
		return 0
	}
	return strings.Count(t, "\n") + 1
}

// ---------- universes ----------

type c18Universe struct {
	name    string
	lines   []string   // clean rule lines
	pCols   [][]string // values per p column (without the wildcard)
	gCols   [][]string
	special []string // lines outside the guards or without a rule
	addP    [][]string
	addG    [][]string
}

func c18Flat() *c18Universe {
	u := &c18Universe{name: "flat",
		pCols: [][]string{{"alice", "admin"}, {"data1", "data2"}, {"read", "write"}},
		gCols: [][]string{{"alice", "bob"}, {"admin", "alice"}},
		addP:  [][]string{{"bob", "data2", "write"}, {"alice", "data1", "read"}},
		addG:  [][]string{{"bob", "admin"}, {"carol", "admin"}}}
	for _, s := range u.pCols[0] {
		for _, o := range u.pCols[1] {
			for _, a := range u.pCols[2] {
				u.lines = append(u.lines, "p, "+s+", "+o+", "+a)
			}
		}
	}
	for _, x := range [][2]string{{"alice", "admin"}, {"bob", "admin"}, {"bob", "alice"}, {"admin", "alice"}} {
		u.lines = append(u.lines, "g, "+x[0]+", "+x[1])
	}
	u.special = []string{
		"", "# comment", "#p, alice, data1, read", "   ", "p,alice,data1,read", "  p, alice, data1, read  ",
		"\tp,\talice,\tdata1,\tread", "p, alice, data1, read\r", "p ,alice, data1, read", "p, alice , data1, read",
		"p, alice, data1, read ", `p, "alice", data1, read`, `p, "al,ice", data1, read`, `p, "a""b", data1, read`,
		`p, al"ice, data1, read`, `p, "alice" , data1, read`, `p, "alice, data1, read`, `"p", alice, data1, read`,
		",a", ",", "p", "p, alice", "p, alice, data1", "p, alice, data1, read, extra", "x, a, b", "r, x", "m, x, y",
		"e, z", "g, alice", "g, alice, admin, extra", "g2, bob, admin", "p, , data1, read", "p, alice, data1,",
		"p, alice, data1, read", "p, alice , data1, read", "p, \u3000admin, data2, write", "p, #alice, data1, read",
		"p, alice, data1, read # trailing", "P, alice, data1, read", "p, alice, data 1, read",
	}
	return u
}

func c18Flat2() *c18Universe {
	u := c18Flat()
	u.name = "flat2"
	u.lines = append(u.lines, "g2, bob, admin", "g2, alice, admin", "g2, alice, staff")
	return u
}

func c18Dom() *c18Universe {
	u := &c18Universe{name: "dom",
		pCols: [][]string{{"alice", "admin"}, {"d1", "d2"}, {"data1", "data2"}, {"read"}},
		gCols: [][]string{{"alice", "bob"}, {"admin", "alice"}, {"d1", "d2"}},
		addP:  [][]string{{"bob", "d1", "data2", "read"}, {"alice", "d1", "data1", "read"}},
		addG:  [][]string{{"bob", "admin", "d2"}, {"carol", "admin", "d1"}}}
	for _, s := range u.pCols[0] {
		for _, d := range u.pCols[1] {
			for _, o := range u.pCols[2] {
				u.lines = append(u.lines, "p, "+s+", "+d+", "+o+", read")
			}
		}
	}
	for _, a := range u.gCols[0] {
		for _, b := range u.gCols[1] {
			for _, d := range u.gCols[2] {
				u.lines = append(u.lines, "g, "+a+", "+b+", "+d)
			}
		}
	}
	u.special = []string{
		"", "# comment", "   ", "p,alice,d1,data1,read", "  p, alice, d1, data1, read  ", "p, alice , d1, data1, read",
		`p, "alice", d1, data1, read`, `p, al"ice, d1, data1, read`, ",a", "p, alice, d1", "p, alice, d1, data1, read, extra",
		"x, a, b", "r, x", "g, alice, admin", "g, alice, admin, d1, extra", "p, alice, , data1, read", "p, alice, d1, data1,",
		"g ,alice, admin, d1", "g, bob, admin, d1 ", "g,\tbob,\tadmin,\td2", "p, alice, d1, data1, read\r",
	}
	return u
}

// every filter slice of length <= len(cols) over {"" , values of the column}
func c18AllFilters(cols [][]string) [][]string {
	out := [][]string{nil}
	level := [][]string{nil}
	for _, col := range cols {
		var next [][]string
		for _, pre := range level {
			for _, v := range append([]string{""}, col...) {
				f := append(append([]string{}, pre...), v)
				next = append(next, f)
			}
		}
		out = append(out, next...)
		level = next
	}
	return out
}

func (u *c18Universe) randFilter(c *Ctx, cols [][]string, messy bool) []string {
	k := c.Rng.Intn(len(cols) + 1)
	if k == 0 {
		if c.Rng.Intn(2) == 0 {
			return nil
		}
		return []string{}
	}
	f := make([]string, k)
	for i := range f {
		switch x := c.Rng.Intn(10); {
		case x < 4:
			f[i] = ""
		case x < 9 || !messy:
			f[i] = cols[i][c.Rng.Intn(len(cols[i]))]
		default:
			f[i] = []string{" " + cols[i][0], cols[i][0] + " ", "  ", "zzz", " " + cols[i][0], cols[i][0] + "\t"}[c.Rng.Intn(6)]
		}
	}
	return f
}

func (u *c18Universe) randOp(c *Ctx, messy bool) c18Op {
	f := func(o c18Op) c18Op {
		o.P = u.randFilter(c, u.pCols, messy)
		o.G = u.randFilter(c, u.gCols, messy)
		if u.name == "flat2" {
			o.G2 = u.randFilter(c, u.gCols, messy)
		}
		return o
	}
	switch x := c.Rng.Intn(100); {
	case x < 14:
		return c18Op{kind: "load"}
	case x < 20:
		return c18Op{kind: "load", io: true}
	case x < 40:
		return f(c18Op{kind: "lf", arg: "f"})
	case x < 44:
		return f(c18Op{kind: "lf", arg: "f", io: true})
	case x < 48:
		return c18Op{kind: "lf", arg: "nil"}
	case x < 51:
		return c18Op{kind: "lf", arg: "nil", io: true}
	case x < 55:
		return f(c18Op{kind: "lf", arg: "bad"})
	case x < 57:
		return c18Op{kind: "lf", arg: "tnil"}
	case x < 70:
		return f(c18Op{kind: "lf", arg: "f", incr: true})
	case x < 72:
		return f(c18Op{kind: "lf", arg: "f", incr: true, io: true})
	case x < 75:
		return c18Op{kind: "lf", arg: "nil", incr: true}
	case x < 77:
		return f(c18Op{kind: "lf", arg: "bad", incr: true})
	case x < 92:
		return c18Op{kind: "save"}
	case x < 96:
		return c18Op{kind: "add", key: "p", rule: u.addP[c.Rng.Intn(len(u.addP))]}
	default:
		return c18Op{kind: "add", key: "g", rule: u.addG[c.Rng.Intn(len(u.addG))]}
	}
}

func (u *c18Universe) randFile(c *Ctx, maxLines int, messy bool) string {
	// mostly full-length files: 0 lines 3%, then weights growing with the length
	n := maxLines
	switch x := c.Rng.Intn(100); {
	case x < 3:
		n = 0
	case x < 15:
		n = 1
	case x < 40:
		n = 2
	case x < 70 && maxLines > 3:
		n = 3
	}
	if n > maxLines {
		n = maxLines
	}
	ls := make([]string, n)
	for i := range ls {
		if messy && c.Rng.Intn(4) == 0 {
			ls[i] = u.special[c.Rng.Intn(len(u.special))]
		} else {
			ls[i] = u.lines[c.Rng.Intn(len(u.lines))]
		}
	}
	return strings.Join(ls, "\n")
}

// A filtered adapter that is NOT the bundled file adapter (a database-style store implementing
// persist.FilteredAdapter without a save guard of its own): the ENFORCER's guard has to refuse
// SavePolicy while a partial view is loaded, whatever the adapter's concrete type.
type c18DBStore struct {
	rules    [][]string // ptype + fields
	filtered bool
	saves    int
}

func (a *c18DBStore) LoadPolicy(m model.Model) error {
	a.filtered = false
	for _, r := range a.rules {
		if err := persist.LoadPolicyArray(append([]string(nil), r...), m); err != nil {
			return err
		}
	}
	return nil
}
func (a *c18DBStore) LoadFilteredPolicy(m model.Model, filter interface{}) error {
	sub, _ := filter.(string)
	a.filtered = true
	for _, r := range a.rules {
		if len(r) > 1 && r[1] == sub {
			if err := persist.LoadPolicyArray(append([]string(nil), r...), m); err != nil {
				return err
			}
		}
	}
	return nil
}
func (a *c18DBStore) IsFiltered() bool { return a.filtered }
func (a *c18DBStore) SavePolicy(m model.Model) error {
	a.saves++
	a.rules = nil
	for _, sec := range []string{"p", "g"} {
		for pt, ast := range m[sec] {
			for _, r := range ast.Policy {
				a.rules = append(a.rules, append([]string{pt}, r...))
			}
		}
	}
	return nil
}
func (a *c18DBStore) AddPolicy(sec, pt string, rule []string) error    { return errors.New("not implemented") }
func (a *c18DBStore) RemovePolicy(sec, pt string, rule []string) error { return errors.New("not implemented") }
func (a *c18DBStore) RemoveFilteredPolicy(sec, pt string, fi int, fv ...string) error {
	return errors.New("not implemented")
}

func c18ThirdPartyStore(c *Ctx) {
	for i, sub := range []string{"alice", "admin", "nobody"} {
		st := &c18DBStore{rules: [][]string{{"p", "alice", "data1", "read"}, {"p", "admin", "data2", "write"}, {"g", "alice", "admin"}, {"p", "bob", "data2", "read"}}}
		mm, _ := model.NewModelFromString(c18ModelText("flat"))
		e, err := casbin.NewEnforcer(mm)
		if err != nil {
			panic(err)
		}
		e.SetAdapter(st)
		id := fmt.Sprintf("c18.dbstore.%d", i)
		if err := e.LoadFilteredPolicy(sub); err != nil {
			c.Direct(id, "LoadFilteredPolicy failed on a third-party filtered adapter", sub)
			continue
		}
		if !e.IsFiltered() {
			c.Direct(id, "a filtered view is loaded through a persist.FilteredAdapter but Enforcer.IsFiltered() is false", sub)
		}
		before := len(st.rules)
		if err := e.SavePolicy(); err == nil || st.saves != 0 || len(st.rules) != before {
			c.Direct(id, "SavePolicy was not refused while a partial view is loaded (third-party filtered adapter): the store would be overwritten with the subset",
				fmt.Sprintf("filter=%s err=%v adapter.SavePolicy calls=%d store %d -> %d rules", sub, err, st.saves, before, len(st.rules)))
		}
		// after a full load the view is complete again and saving is allowed
		if err := e.LoadPolicy(); err != nil || e.IsFiltered() {
			c.Direct(id, "a full LoadPolicy did not end the filtered state", sub)
		} else if err := e.SavePolicy(); err != nil || st.saves != 1 || len(st.rules) != before {
			c.Direct(id, "SavePolicy after a full load failed or changed the store", fmt.Sprintf("err=%v saves=%d rules=%d", err, st.saves, len(st.rules)))
		}
		c.Count("third-party-filtered-adapter")
	}
}

// every filter field of fileadapter.Filter (P, G, G1 .. G5): a model that declares the six rule
// types p, g, g2 .. g5; a filter that constrains exactly ONE of them must restrict that type to the matching
// rules and load every rule of the other types.  Implementation-only (Filter.v models p/g/g2).
// (a) a store that cannot be read to its end (a line beyond the scanner's 64 KiB limit in the
// middle): a full load refuses it, so a filtered / incremental load must not report success with
// only the matching rules in FRONT of that line -- exactly the matching rules, or an error;
// (b) the SyncedEnforcer wrappers of the filtered loads do what the plain enforcer's do.
func c18Unreadable(c *Ctx, dir string) {
	mtext := machRBAC.Text
	long := "p, big, " + strings.Repeat("x", 70000) + ", read"
	for pos := 0; pos <= 3; pos++ {
		lines := []string{"p, alice, data1, read", "p, bob, data2, write", "p, alice, data2, read"}
		var all []string
		all = append(all, lines[:pos]...)
		all = append(all, long)
		all = append(all, lines[pos:]...)
		path := filepath.Join(dir, fmt.Sprintf("unreadable%d.csv", pos))
		_ = os.WriteFile(path, []byte(strings.Join(all, "\n")+"\n"), 0o644)
		for _, inc := range []bool{false, true} {
			mm, _ := model.NewModelFromString(mtext)
			e, _ := casbin.NewEnforcer(mm)
			e.SetAdapter(fileadapter.NewFilteredAdapter(path))
			var err error
			f := &fileadapter.Filter{P: []string{"alice"}}
			if inc {
				err = e.LoadIncrementalFilteredPolicy(f)
			} else {
				err = e.LoadFilteredPolicy(f)
			}
			got, _ := e.GetPolicy()
			want := [][]string{{"alice", "data1", "read"}, {"alice", "data2", "read"}}
			if err == nil && rulesKey(got) != rulesKey(want) {
				c.Direct(fmt.Sprintf("c18.unreadable.%d.%v", pos, inc), "a filtered load of a store with an unreadable (over-long) line reported success but did not load exactly the matching rules", fmt.Sprintf("loaded=%v expected=%v or an error", got, want))
			}
			c.Count("unreadable-store")
		}
	}
	// (b)
	path := filepath.Join(dir, "synced.csv")
	_ = os.WriteFile(path, []byte("p, alice, data1, read\np, bob, data2, write\np, alice, data2, read\ng, alice, admin\ng, bob, admin\n"), 0o644)
	type loader interface {
		LoadFilteredPolicy(filter interface{}) error
		LoadIncrementalFilteredPolicy(filter interface{}) error
		GetPolicy() ([][]string, error)
		GetGroupingPolicy() ([][]string, error)
	}
	seqs := [][]*fileadapter.Filter{
		{{P: []string{"alice"}}, {P: []string{"bob"}}},
		{{P: []string{"bob"}, G: []string{"alice"}}, {P: []string{"alice"}, G: []string{"bob"}}},
		{{G: []string{"", "admin"}}, {P: []string{"", "data2"}}},
	}
	for si, seq := range seqs {
		var keys [2]string
		for vi := 0; vi < 2; vi++ {
			mm, _ := model.NewModelFromString(mtext)
			var l loader
			if vi == 0 {
				e, _ := casbin.NewEnforcer(mm)
				e.SetAdapter(fileadapter.NewFilteredAdapter(path))
				l = e
			} else {
				e, _ := casbin.NewSyncedEnforcer(mm)
				e.SetAdapter(fileadapter.NewFilteredAdapter(path))
				l = e
			}
			_ = l.LoadFilteredPolicy(seq[0])
			for _, f := range seq[1:] {
				_ = l.LoadIncrementalFilteredPolicy(f)
			}
			p, _ := l.GetPolicy()
			g, _ := l.GetGroupingPolicy()
			keys[vi] = rulesKey(p) + "#" + rulesKey(g)
		}
		if keys[0] != keys[1] {
			c.Direct(fmt.Sprintf("c18.synced.%d", si), "LoadFilteredPolicy + LoadIncrementalFilteredPolicy through SyncedEnforcer load other rules than through Enforcer", fmt.Sprintf("enforcer=%s synced=%s", keys[0], keys[1]))
		}
		c.Count("synced-filtered-loads")
	}
}

// (a) a second enforcer built on a FilteredAdapter through which a complete load has gone starts
// with the whole policy (and may save it); (b) matching functions registered on the role managers
// survive filtered and incremental loads as they survive a full load: with the same rules loaded,
// the decisions are the same.
func c18AdapterReuseAndFunctions(c *Ctx, dir string) {
	path := filepath.Join(dir, "reuse.csv")
	_ = os.WriteFile(path, []byte("p, alice, data1, read\np, bob, data2, write\ng, alice, admin\n"), 0o644)
	a := fileadapter.NewFilteredAdapter(path)
	m1, _ := model.NewModelFromString(machRBAC.Text)
	e1, err := casbin.NewEnforcer(m1, a)
	if err == nil {
		_ = e1.LoadPolicy()
		m2, _ := model.NewModelFromString(machRBAC.Text)
		e2, err2 := casbin.NewEnforcer(m2, a)
		if err2 == nil {
			p1, _ := e1.GetPolicy()
			p2, _ := e2.GetPolicy()
			g1, _ := e1.GetGroupingPolicy()
			g2, _ := e2.GetGroupingPolicy()
			if !e2.IsFiltered() && (rulesKey(p1) != rulesKey(p2) || rulesKey(g1) != rulesKey(g2)) {
				c.Direct("c18.reuse", "a second enforcer on a FilteredAdapter that reports a complete view starts without the policy (IsFiltered=false, so SavePolicy would overwrite the store with it)", fmt.Sprintf("first=%v %v second=%v %v", p1, g1, p2, g2))
			}
		}
	}
	c.Count("adapter-reuse")
	// (b)
	dpath := filepath.Join(dir, "funcs.csv")
	_ = os.WriteFile(dpath, []byte("p, admin, d1, data1, read\np, admin, d2, data2, read\ng, alice, admin, *\ng, bob, admin, d2\n"), 0o644)
	reqs := [][]string{{"alice", "d1", "data1", "read"}, {"alice", "d2", "data2", "read"}, {"bob", "d1", "data1", "read"}, {"bob", "d2", "data2", "read"}}
	build := func(how string) string {
		mm, _ := model.NewModelFromString(machDomain.Text)
		e, _ := casbin.NewEnforcer(mm)
		e.SetAdapter(fileadapter.NewFilteredAdapter(dpath))
		e.AddNamedDomainMatchingFunc("g", "keyMatch", util.KeyMatch)
		switch how {
		case "full":
			_ = e.LoadPolicy()
		case "filtered-all":
			_ = e.LoadFilteredPolicy(&fileadapter.Filter{})
		case "filtered-then-incremental":
			_ = e.LoadFilteredPolicy(&fileadapter.Filter{P: []string{"admin"}, G: []string{"alice"}})
			_ = e.LoadIncrementalFilteredPolicy(&fileadapter.Filter{P: []string{"nobody"}, G: []string{"bob"}})
		}
		var out []string
		for _, r := range reqs {
			ok, _ := e.Enforce(toIface(r)...)
			out = append(out, B(ok))
		}
		p, _ := e.GetPolicy()
		g, _ := e.GetGroupingPolicy()
		return strings.Join(out, "") + " " + sortedRulesKey(p) + "#" + sortedRulesKey(g)
	}
	full := build("full")
	for _, how := range []string{"filtered-all", "filtered-then-incremental"} {
		if got := build(how); got != full {
			c.Direct("c18.functions."+how, "with a domain matching function registered, the same rules loaded through filtered loads give other decisions than a full load", fmt.Sprintf("full=%s %s=%s", full, how, got))
		}
		c.Count("functions-survive-filtered-loads")
	}
}

func c18AllTypes(c *Ctx, dir string) {
	// (a role definition cannot be NAMED g1 in a model text: the loader numbers them g, g2, g3, ...;
	// Filter.G1 therefore never applies to anything)
	types := []string{"p", "g", "g2", "g3", "g4", "g5"}
	mtext := "[request_definition]\nr = sub, obj\n[policy_definition]\np = sub, obj\n[role_definition]\ng = _, _\ng2 = _, _\ng3 = _, _\ng4 = _, _\ng5 = _, _\n[policy_effect]\ne = some(where (p.eft == allow))\n[matchers]\nm = g(r.sub, p.sub) && r.obj == p.obj\n"
	var lines []string
	for _, t := range types {
		lines = append(lines, t+", alice, x_"+t, t+", bob, x_"+t, t+", alice, y_"+t)
	}
	path := filepath.Join(dir, "alltypes.csv")
	_ = os.WriteFile(path, []byte(strings.Join(lines, "\n")+"\n"), 0o644)
	for ti, t := range types {
		for _, fv := range [][]string{{"alice"}, {"", "x_" + t}, {"bob", "x_" + t}, {"nobody"}} {
			f := &fileadapter.Filter{}
			switch t {
			case "p":
				f.P = fv
			case "g":
				f.G = fv
			case "g1":
				f.G1 = fv
			case "g2":
				f.G2 = fv
			case "g3":
				f.G3 = fv
			case "g4":
				f.G4 = fv
			case "g5":
				f.G5 = fv
			}
			mm, err := model.NewModelFromString(mtext)
			if err != nil {
				panic(err)
			}
			e, err := casbin.NewEnforcer(mm)
			if err != nil {
				panic(err)
			}
			e.SetAdapter(fileadapter.NewFilteredAdapter(path))
			id := fmt.Sprintf("c18.alltypes.%d", ti)
			if err := e.LoadFilteredPolicy(f); err != nil {
				c.Direct(id, "LoadFilteredPolicy failed on a model with the rule types p, g, g1..g5", fmt.Sprint(t, fv))
				continue
			}
			for _, u := range types {
				var got [][]string
				if u == "p" {
					got, _ = e.GetNamedPolicy(u)
				} else {
					got, _ = e.GetNamedGroupingPolicy(u)
				}
				var want [][]string
				for _, r := range [][]string{{"alice", "x_" + u}, {"bob", "x_" + u}, {"alice", "y_" + u}} {
					if u != t || c18SpecMatch(fv, r) {
						want = append(want, r)
					}
				}
				if rulesKey(got) != rulesKey(want) {
					c.Direct(id, fmt.Sprintf("filter field of type %s = %v: the rules of type %s loaded are %s, expected %s", t, fv, u, rulesKey(got), rulesKey(want)), strings.Join(lines, " / "))
				}
			}
			c.Count("filter-field-per-type")
		}
	}
}

// ordering models (subjectPriority, priority): whatever sequence of filtered / incremental loads
// produced the view, the rule ORDER and the decisions must be those of a plain load of exactly
// the lines in view (same file order).  Implementation-only predicate (Filter.v has no sort).
const c18SubjModel = `[request_definition]
r = sub, obj, act
[policy_definition]
p = sub, obj, act, eft
[role_definition]
g = _, _
[policy_effect]
e = subjectPriority(p_eft) || deny
[matchers]
m = g(r.sub, p.sub) && r.obj == p.obj && r.act == p.act
`

func c18Ordering(c *Ctx, dir string) {
	n := 30
	if c.Thorough() {
		n = 600
	}
	names := []string{"root", "admin", "editor", "jane", "joe"}
	for i := 0; i < n; i++ {
		text, mtext := "", c18SubjModel
		var lines []string
		if i%3 == 2 {
			mtext = machPriority.Text
			for j := 0; j < 5; j++ {
				lines = append(lines, fmt.Sprintf("p, %d, %s, data1, read, %s", c.Rng.Intn(4), names[c.Rng.Intn(len(names))], []string{"allow", "deny"}[c.Rng.Intn(2)]))
			}
			lines = append(lines, "g, jane, admin", "g, joe, editor")
		} else {
			perm := c.Rng.Perm(len(names))
			for _, k := range perm {
				lines = append(lines, fmt.Sprintf("p, %s, data1, read, %s", names[k], []string{"allow", "deny"}[c.Rng.Intn(2)]))
			}
			// a chain in random file order: root <- admin <- editor <- jane ; joe under admin
			gl := []string{"g, admin, root", "g, editor, admin", "g, jane, editor", "g, joe, admin"}
			c.Rng.Shuffle(len(gl), func(a, b int) { gl[a], gl[b] = gl[b], gl[a] })
			lines = append(lines, gl...)
		}
		// de-duplicate lines (a store line is a rule)
		seen := map[string]bool{}
		var uniq []string
		for _, l := range lines {
			if !seen[l] {
				seen[l] = true
				uniq = append(uniq, l)
			}
		}
		lines = uniq
		text = strings.Join(lines, "\n") + "\n"
		path := filepath.Join(dir, fmt.Sprintf("ord%d.csv", i))
		_ = os.WriteFile(path, []byte(text), 0o644)
		mm, err := model.NewModelFromString(mtext)
		if err != nil {
			panic(err)
		}
		e, err := casbin.NewEnforcer(mm)
		if err != nil {
			panic(err)
		}
		e.SetAdapter(fileadapter.NewFilteredAdapter(path))
		id := fmt.Sprintf("c18.order.%d", i)
		var trace []string
		steps := 1 + c.Rng.Intn(3)
		for st := 0; st < steps; st++ {
			f := &fileadapter.Filter{}
			switch c.Rng.Intn(4) {
			case 0:
				f.G = []string{"nobody"} // every p rule, no g rule
			case 1:
				f.P = []string{"nobody"} // no p rule, every g rule
			case 2:
				if i%3 == 2 {
					f.P = []string{"", names[c.Rng.Intn(len(names))]}
				} else {
					f.P = []string{names[c.Rng.Intn(len(names))]}
				}
			default:
				f.G = []string{names[c.Rng.Intn(len(names))]}
			}
			var lerr error
			if st == 0 {
				lerr = e.LoadFilteredPolicy(f)
			} else {
				lerr = e.LoadIncrementalFilteredPolicy(f)
			}
			trace = append(trace, fmt.Sprintf("load%d P=%v G=%v err=%v", st, f.P, f.G, lerr != nil))
			if lerr != nil {
				break
			}
			// the view, as lines of the file in file order
			gotP, _ := e.GetPolicy()
			gotG, _ := e.GetGroupingPolicy()
			var view []string
			for _, l := range lines {
				fs := strings.Split(l, ", ")
				if (fs[0] == "p" && c18HasRule(gotP, fs[1:])) || (fs[0] == "g" && c18HasRule(gotG, fs[1:])) {
					view = append(view, l)
				}
			}
			m2, _ := model.NewModelFromString(mtext)
			ref, err := casbin.NewEnforcer(m2, stringadapter.NewAdapter(strings.Join(view, "\n")))
			if err != nil {
				continue // e.g. a cycle: not this predicate's business
			}
			wantP, _ := ref.GetPolicy()
			// same rules; ranks (priority value / depth of the subject in the view's role tree)
			// in sorted order.  Rules of EQUAL rank keep their order of arrival, which an
			// incremental load legitimately changes, so ties are not compared.
			if sortedRulesKey(gotP) != sortedRulesKey(wantP) {
				c.Direct(id, "after filtered / incremental loads the view holds other rules than a plain load of the same lines", fmt.Sprintf("file=%q trace=%v got=%s want=%s", text, trace, rulesKey(gotP), rulesKey(wantP)))
				break
			}
			rank := func(r []string) int {
				if i%3 == 2 {
					v, _ := strconv.Atoi(r[0])
					return v
				}
				// depth below the top of the chain, deeper subjects first => rank = -depth
				parent := map[string]string{}
				for _, g := range gotG {
					parent[g[0]] = g[1]
				}
				d, x := 0, r[0]
				for k := 0; k < 10; k++ {
					p, ok := parent[x]
					if !ok {
						break
					}
					d, x = d+1, p
				}
				return -d
			}
			for k := 1; k < len(gotP); k++ {
				if rank(gotP[k-1]) > rank(gotP[k]) {
					c.Direct(id, "after filtered / incremental loads the rules are not ordered by rank (priority / subject depth) as a plain load of the same lines orders them", fmt.Sprintf("file=%q trace=%v got=%s plain-load=%s", text, trace, rulesKey(gotP), rulesKey(wantP)))
					break
				}
			}
			if i%3 != 2 {
				for _, s := range names {
					a, _ := e.Enforce(s, "data1", "read")
					b, _ := ref.Enforce(s, "data1", "read")
					if a != b {
						c.Direct(id, "after filtered / incremental loads a decision differs from a plain load of the same lines", fmt.Sprintf("file=%q trace=%v sub=%s got=%v want=%v", text, trace, s, a, b))
					}
				}
			}
		}
		c.Count("ordering-model-loads")
	}
}

func init() {
	register("C18", func(c *Ctx) {
		dir, err := os.MkdirTemp("", "verif-c18-")
		if err != nil {
			panic(err)
		}
		defer os.RemoveAll(dir)
		if strings.HasPrefix(dir, "/repo") || strings.HasPrefix(dir, "/verif") {
			panic("c18: temp dir inside /repo or /verif")
		}
		v := &c18Env{c: c, dir: dir, path: filepath.Join(dir, "policy.csv")}
		c18Ordering(c, dir)
		c18ThirdPartyStore(c)
		c18AllTypes(c, dir)
		c18Unreadable(c, dir)
		c18AdapterReuseAndFunctions(c, dir)
		flat, flat2, dom := c18Flat(), c18Flat2(), c18Dom()
		n := 0
		id := func(tag string) string { n++; return fmt.Sprintf("c18.%s.%d", tag, n) }

		// ---- C. fixed witnesses of the repaired findings (must fail if a defect returns)
		threeLines := "p, alice, data1, read\np, admin, data2, write\ng, alice, admin"
		fAlice := c18Op{kind: "lf", arg: "f", P: []string{"alice"}}
		// F24: filtered load, then a full load that fails (file moved away), then SavePolicy
		v.run(id("F24"), "flat", threeLines, []c18Op{fAlice, {kind: "load", io: true}, {kind: "save"}}, true)
		v.run(id("F24"), "flat", threeLines, []c18Op{{kind: "load"}, fAlice, {kind: "load", io: true}, {kind: "save"}, {kind: "load"}}, true)
		// F32: full load, then a filtered load that fails, then SavePolicy
		v.run(id("F32"), "flat", threeLines, []c18Op{{kind: "load"}, {kind: "lf", arg: "bad", P: []string{"alice"}}, {kind: "save"}, {kind: "load"}}, true)
		v.run(id("F32"), "flat", threeLines, []c18Op{{kind: "load"}, {kind: "lf", arg: "f", io: true, P: []string{"alice"}}, {kind: "save"}, {kind: "load"}}, true)
		v.run(id("F32"), "flat", threeLines, []c18Op{{kind: "load"}, {kind: "lf", arg: "nil", io: true}, {kind: "save"}, {kind: "load"}}, true)
		v.run(id("F32"), "flat", threeLines, []c18Op{{kind: "load"}, {kind: "lf", arg: "bad", incr: true}, {kind: "save"}}, true)
		v.run(id("F32"), "dom", "p, alice, d1, data1, read\ng, bob, alice, d1", []c18Op{{kind: "load"}, {kind: "lf", arg: "bad"}, {kind: "save"}, {kind: "load"}}, true)
		// F13: the line ",a" inside a file: an error, not a panic; the partial view stays guarded
		v.run(id("F13"), "flat", "p, alice, data1, read\n,a\ng, alice, admin", []c18Op{{kind: "load"}, fAlice, {kind: "save"}, {kind: "lf", arg: "nil"}, {kind: "save"}}, false)
		// save after add, filtered and not
		v.run(id("add"), "flat", threeLines, []c18Op{{kind: "load"}, {kind: "add", key: "p", rule: []string{"bob", "data2", "write"}}, {kind: "save"}, {kind: "load"}}, true)
		v.run(id("add"), "flat", threeLines, []c18Op{fAlice, {kind: "add", key: "p", rule: []string{"bob", "data2", "write"}}, {kind: "save"}, {kind: "load"}}, true)
		v.run(id("add"), "dom", "p, admin, d1, data1, read\ng, alice, admin, d1", []c18Op{{kind: "lf", arg: "f", G: []string{"", "", "d1"}}, {kind: "add", key: "g", rule: []string{"bob", "admin", "d1"}}, {kind: "save"}, {kind: "load"}, {kind: "save"}}, true)

		// ---- A. exhaustive: every file of <= k clean lines x every single-type filter,
		//         LoadFilteredPolicy(f) then LoadIncrementalFilteredPolicy(f')
		blockA := func(u *c18Universe, maxLines int, sampleEvery int) {
			pf, gf := c18AllFilters(u.pCols), c18AllFilters(u.gCols)
			type fl struct{ P, G []string }
			var fls []fl
			for _, p := range pf {
				fls = append(fls, fl{P: p})
			}
			for _, g := range gf[1:] {
				fls = append(fls, fl{G: g})
			}
			var files []string
			var rec func(prefix []string, depth int)
			rec = func(prefix []string, depth int) {
				files = append(files, strings.Join(prefix, "\n"))
				if depth == maxLines {
					return
				}
				for _, l := range u.lines {
					rec(append(append([]string{}, prefix...), l), depth+1)
				}
			}
			rec(nil, 0)
			k := 0
			for _, file := range files {
				for _, f := range fls {
					k++
					if sampleEvery > 1 && c.Rng.Intn(sampleEvery) != 0 {
						continue
					}
					f2 := fls[c.Rng.Intn(len(fls))]
					ops := []c18Op{{kind: "lf", arg: "f", P: f.P, G: f.G}, {kind: "lf", arg: "f", incr: true, P: f2.P, G: f2.G}}
					v.run(id("A-"+u.name), u.name, file, ops, true)
				}
			}
			c.Notes = append(c.Notes, fmt.Sprintf("block A %s: %d files (<= %d lines over %d clean lines) x %d filters = %d, sampled 1/%d", u.name, len(files), maxLines, len(u.lines), len(fls), k, sampleEvery))
		}
		// ---- B. random histories over clean and messy files
		blockB := func(u *c18Universe, count, maxLines, maxOps int, messy bool) {
			for i := 0; i < count; i++ {
				file := u.randFile(c, maxLines, messy)
				ops := make([]c18Op, 1+c.Rng.Intn(maxOps))
				for j := range ops {
					ops[j] = u.randOp(c, messy)
				}
				tag := "B-"
				if messy {
					tag = "Bm-"
				}
				v.run(id(tag+u.name), u.name, file, ops, !messy)
			}
		}
		if c.Thorough() {
			blockA(flat, 3, 1)
			blockA(dom, 2, 1)
			blockB(flat, 60000, 4, 4, false)
			blockB(flat, 60000, 4, 4, true)
			blockB(dom, 40000, 4, 4, false)
			blockB(dom, 40000, 4, 4, true)
			blockB(flat2, 20000, 4, 4, false)
			blockB(flat2, 10000, 4, 4, true)
		} else {
			blockA(flat, 2, 2)
			blockA(dom, 1, 1)
			blockA(dom, 2, 12)
			blockB(flat, 6000, 3, 3, false)
			blockB(flat, 7000, 3, 3, true)
			blockB(dom, 3500, 3, 3, false)
			blockB(dom, 3500, 3, 3, true)
			blockB(flat2, 1500, 3, 3, false)
			blockB(flat2, 1000, 3, 3, true)
		}

		// ---- the CSV stream for Csv.v
		c18Csv(c)

		// ---- known finding F25: a filter longer than the rule loads nothing (all-wildcard filter)
		{
			if err := os.WriteFile(v.path, []byte("p, alice, data1, read"), 0o644); err != nil {
				panic(err)
			}
			m, _ := model.NewModelFromString(c18FlatModel)
			e, err := casbin.NewEnforcer(m, fileadapter.NewFilteredAdapter(v.path))
			if err != nil {
				panic(err)
			}
			err = e.LoadFilteredPolicy(&fileadapter.Filter{P: []string{"", "", "", ""}})
			p, _ := e.GetPolicy()
			if err == nil && len(p) == 0 {
				c.Known = append(c.Known, "F25\treproduced\tfile `p, alice, data1, read`, Filter{P: 4 empty strings} on p = sub, obj, act: LoadFilteredPolicy ok, GetPolicy() = [] (every value is a wildcard, so the rule should load)")
			} else {
				c.Known = append(c.Known, fmt.Sprintf("F25\tgone\terr=%v policy=%v", err, p))
			}
		}

		c.Rule = "histories on the real fileadapter.FilteredAdapter + Enforcer (temp dir): fixed witnesses of F24/F32/F13; block A = every file of <= k clean lines over the 2x2x2 universes (flat: 8 p + 4 g lines, domains: 8 p + 8 g lines) x every filter over {wildcard, value, value} per column up to the arity, filtered then incremental load; block B = seeded random files (clean, and messy: comments, blanks, duplicates, extra spaces, quoted fields, bad lines) x random op sequences over {LoadPolicy, LoadPolicy with the file moved away, LoadFilteredPolicy(f | nil | typed nil | wrong type | file moved), LoadIncrementalFilteredPolicy(...), SavePolicy, AddPolicy/AddGroupingPolicy}; observables after every step: error, GetPolicy, GetGroupingPolicy, IsFiltered, file bytes, 12 decisions; plus a CSV stream through persist.LoadPolicyLine. non-trivial = some step leaves at least one rule in memory (hist) / the line is not skipped (csv); distinct by case id (seeded, no de-duplication)"
	})
}
