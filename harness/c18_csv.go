package main

import (
	"fmt"
	"strings"

	"github.com/casbin/casbin/v2/model"
	"github.com/casbin/casbin/v2/persist"
)

// The CSV stream of C18: generated lines through the real persist.LoadPolicyLine into a fresh
// model (under recover), compared with Csv.load_policy_line.  Lines contain no LF (the domain of
// the model: every shipped adapter splits the text at LF first).

func c18LoadLine(line string, m model.Model) (out string) {
	defer func() {
		if r := recover(); r != nil {
			out = "panic"
		}
	}()
	if err := persist.LoadPolicyLine(line, m); err != nil {
		return "err"
	}
	return "ok"
}

func c18CsvCase(c *Ctx, id, name string, lines []string) {
	c.Case(id, "csv "+name+" "+QL(lines))
	m, err := model.NewModelFromString(c18ModelText(name))
	if err != nil {
		panic(err)
	}
	skipped := true
	for i, l := range lines {
		c.Obs(id, I(i), c18LoadLine(l, m))
		if l != "" && !strings.HasPrefix(l, "#") {
			skipped = false
		}
	}
	c.Obs(id, "end", fmt.Sprintf("p=%s g=%s r=%s", rulesKey(m["p"]["p"].Policy), rulesKey(m["g"]["g"].Policy), rulesKey(m["r"]["r"].Policy)))
	c.Count("csv lines=" + I(len(lines)))
	if !skipped {
		c.NonTrivial(id)
	}
}

var c18Blanks = []string{" ", "  ", "\t", "\r", "\v", "\f", "\u0085", "\u00a0", "\u1680", "\u2000", "\u2003", "\u200a",
	"\u2028", "\u2029", "\u202f", "\u205f", "\u3000", " \t ", "\u00a0 "}

// bytes that look like the start of a blank but are not one
var c18NearBlanks = []string{"\xc2", "\xe2\x80", "\xe2", "\xa0", "\x85", "\xe2\x80\x8b", "\xe2\x80\x7f", "\xc2\x86", "\xe1\x9a\x81",
	"\xe3\x80\x81", "\xe2\x81\xa0", "\u200b", "\ufeff", "\xc0\xa0", "\x80", "\xe2\x80\x80x", "\xef\xbf\xbd"}

var c18Plain = []string{"alice", "bob", "admin", "data1", "data2", "read", "write", "a b", "x", "al.ice", "d-1", "é", "日本", "a#b", "#a", "0", "a=b"}

func c18Field(c *Ctx) string {
	pick := func(xs []string) string { return xs[c.Rng.Intn(len(xs))] }
	switch x := c.Rng.Intn(200); {
	case x < 70:
		return pick(c18Plain)
	case x < 80:
		return ""
	case x < 100:
		return pick(c18Blanks) + pick(c18Plain)
	case x < 116:
		return pick(c18Plain) + pick(c18Blanks)
	case x < 124:
		return pick(c18Blanks) + pick(c18Plain) + pick(c18Blanks)
	case x < 129:
		return pick(c18Blanks)
	case x < 139:
		return pick(c18NearBlanks) + pick(c18Plain)
	case x < 145:
		return pick(c18Plain) + pick(c18NearBlanks)
	case x < 148:
		return pick(c18NearBlanks)
	case x < 158:
		return `"` + pick(c18Plain) + `"`
	case x < 164:
		return `"` + pick(c18Plain) + `,` + pick(c18Plain) + `"`
	case x < 170:
		return `"` + pick(c18Plain) + `""` + pick(c18Plain) + `"`
	case x < 174:
		return pick(c18Blanks) + `"` + pick(c18Plain) + `"`
	case x < 178:
		return `"` + pick(c18Blanks) + pick(c18Plain) + pick(c18Blanks) + `"`
	case x < 180:
		return `""`
	case x < 182:
		return `""""`
	case x < 184:
		return `"#"`
	case x < 186:
		return `"` + pick(c18Plain) + `"` + pick(c18Blanks) // error: text after the closing quote
	case x < 189:
		return pick(c18Plain) + `"` + pick(c18Plain) // error: bare quote
	case x < 191:
		return `"` + pick(c18Plain) // error: no closing quote (swallows the rest)
	case x < 193:
		return pick(c18Plain) + `"`
	case x < 195:
		return `"` + pick(c18Plain) + `"x`
	case x < 196:
		return `"` + pick(c18Plain) + `""`
	case x < 197:
		return `"`
	case x < 199:
		return `"` + pick(c18Plain) + `,`
	default:
		return `"",""`
	}
}

var c18Keys = []string{"p", "p", "p", "p", "p", "p", "p", "p", "p", "p", "p", "p", "p", "p", "p", "p", "p", "p", "p", "p", "g", "g", "g", "g", "g", "g", "g", "g", "g", "g", "g", "g", "p", "p", "p", "p", "g", "g", "g", "", " p", "p ", "\tp", "x", "r", "m", "e", "#", "#p", "p2", "g2", `"p"`, `"g"`, ` "p"`, "P", "pp", " p", "p ", "l", "logger"}

func c18Csv(c *Ctx) {
	n := 0
	id := func() string { n++; return fmt.Sprintf("c18.csv.%d", n) }
	fixed := []string{
		"", "#", "# comment", " # not a comment", ",a", ",", ",,", " ", "\t", "\r", " \r", "p\r", "p, alice, data1, read\r",
		"p, alice, data1, read\r\r", `"`, `""`, `"""`, `""""`, `",a`, `"",a`, `"p`, `"p"`, `"p",`, "p", "p,", "p, ", "g", "g,a", "g, a, b", "g, a, b, c",
		"p, alice, data1, read", "p,alice,data1,read", "  p, alice, data1, read", "p, alice, data1, read  ", "p, alice, data1", "p, a, b, c, d",
		"x, a, b, c", "r, a", "r", "m, anything, goes", "e", "l, x", "logger, x", `p, "alice", "data1", "read"`, `p, "a,b", data1, read`,
		`p, "a""b", data1, read`, `p, a"b, data1, read`, `p, "alice"x, data1, read`, `p, "alice" , data1, read`, `p, "alice, data1, read`,
		`p, alice, data1, "read`, `p, alice, data1, "read"`, `p, alice, data1, read"`, "p, alice,　data1, read", "p, alice , data1, read",
		"p, \xc2alice, data1, read", "p, \xe2\x80alice, data1, read", "p, \xe2\x80\x80alice, data1, read", "p, \xe2\x80\x8balice, data1, read",
		"p, , , ", "p,,,", "p, #, #, #", "#p, alice, data1, read", "p, alice, data1, read # c", "p, alice, data1, read\x00", "\x00", "p\x00, a, b, c",
		"p, alice, data1, read,", "p,, data1, read", "g, alice, admin", "g,alice,admin", "g, alice", "g2, alice, admin", "p2, a, b, c",
	}
	for _, name := range []string{"flat", "dom"} {
		for _, l := range fixed {
			c18CsvCase(c, id(), name, []string{l})
			c18CsvCase(c, id(), name, []string{l, l})
		}
	}
	// duplicates by PolicyMap key: the comma inside a quoted field (F07's key) — the second line is skipped
	c18CsvCase(c, id(), "flat", []string{`g, "a,b", c`, `g, a, "b,c"`, `g, a, b, c`})
	c18CsvCase(c, id(), "flat", []string{`g, a, b, c`, `g, "a,b", c`})
	count := 20000
	if c.Thorough() {
		count = 200000
	}
	for i := 0; i < count; i++ {
		name := "flat"
		arity := 3
		if c.Rng.Intn(3) == 0 {
			name, arity = "dom", 4
		}
		mk := func() string {
			key := c18Keys[c.Rng.Intn(len(c18Keys))]
			nf := arity
			switch x := c.Rng.Intn(10); {
			case x < 2:
				nf = c.Rng.Intn(6)
			case x < 4:
				nf = arity - 1
			}
			if key == "g" && c.Rng.Intn(2) == 0 {
				nf = arity - 1
			}
			parts := []string{key}
			for j := 0; j < nf; j++ {
				parts = append(parts, c18Field(c))
			}
			sep := ","
			if c.Rng.Intn(3) > 0 {
				sep = ", "
			}
			l := strings.Join(parts, sep)
			switch c.Rng.Intn(12) {
			case 0:
				l = c18Blanks[c.Rng.Intn(len(c18Blanks))] + l
			case 1:
				l = l + c18Blanks[c.Rng.Intn(len(c18Blanks))]
			case 2:
				l = l + "\r"
			}
			return strings.ReplaceAll(l, "\n", " ")
		}
		lines := []string{mk()}
		switch c.Rng.Intn(4) {
		case 0:
			lines = append(lines, lines[0])
		case 1:
			lines = append(lines, mk())
		}
		c18CsvCase(c, id(), name, lines)
	}
}
