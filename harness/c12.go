package main

// C12: "SyncedEnforcer is free of data races and crashes under any concurrent use".
//
// This file is the RUNTIME EXPLORATION part of C12 (the proof part lives in Coq): a race-detector
// stress of the real code. The race runtime only exists in the toolchain go1.26.8, so the harness
// shells out: it writes a tiny module (replace => the casbin tree the harness itself is built
// against) holding one generated stress_test.go, runs `go1.26.8 test -race` on it once per seed,
// and attributes the output (race reports, fatal errors, panics, watchdog messages) to scenarios.
//
// The list of wrapped methods is NOT written by hand: the three *_synced.go files of the tree under
// test are parsed with go/parser, every exported method declared on *SyncedEnforcer is emitted into
// the generated test together with its parameter names/types and the lock it takes, and the test
// calls them through reflection, building arguments per parameter type/name. A parameter type the
// generator does not know makes the test fail loudly (C12-HARNESS-BUG) instead of skipping.
//
// Environment knobs (debugging): C12_KEEP=1 keeps the generated module and prints its path.

import (
	"bytes"
	"context"
	"fmt"
	"go/ast"
	"go/parser"
	"go/token"
	"go/types"
	"os"
	"os/exec"
	"path/filepath"
	"regexp"
	"sort"
	"strconv"
	"strings"
	"syscall"
	"time"
)

const c12GoTool = "go1.26.8"

var c12SyncedFiles = []string{"enforcer_synced.go", "rbac_api_synced.go", "rbac_api_with_domains_synced.go"}

// scenario order = execution order inside the test binary
var c12Scenarios = []string{"plain", "domains", "pattern", "firstcall", "filtered-load", "getter-alias", "priority", "autoload-stop", "autoload-run"}

type c12Param struct{ Name, Type string }

type c12Spec struct {
	Name   string
	Lock   string // "r" read lock only, "w" write lock only, "rw" both, "" none
	Params []c12Param
}

// c12Repo finds the casbin tree the harness binary was built against: the replace line of the
// go.mod next to the harness sources (the binary lives in <harnessdir>/bin/).
func c12Repo() string {
	exe, err := os.Executable()
	if err != nil {
		return "/repo"
	}
	gomod := filepath.Join(filepath.Dir(filepath.Dir(exe)), "go.mod")
	b, err := os.ReadFile(gomod)
	if err != nil {
		return "/repo"
	}
	re := regexp.MustCompile(`(?m)^\s*(?:replace\s+)?github\.com/casbin/casbin/v2(?:\s+v\S+)?\s*=>\s*(\S+)`)
	m := re.FindSubmatch(b)
	if m == nil {
		return "/repo"
	}
	p := string(m[1])
	if !filepath.IsAbs(p) {
		p = filepath.Join(filepath.Dir(gomod), p)
	}
	if st, err := os.Stat(p); err != nil || !st.IsDir() {
		return "/repo"
	}
	return p
}

// c12ParseSpecs collects the exported methods declared on *SyncedEnforcer.
func c12ParseSpecs(repo string) []c12Spec {
	var specs []c12Spec
	seen := map[string]bool{}
	fset := token.NewFileSet()
	for _, fn := range c12SyncedFiles {
		f, err := parser.ParseFile(fset, filepath.Join(repo, fn), nil, 0)
		if err != nil {
			panic(fmt.Sprintf("C12 infrastructure error: cannot parse %s in %s: %v", fn, repo, err))
		}
		for _, d := range f.Decls {
			fd, ok := d.(*ast.FuncDecl)
			if !ok || fd.Recv == nil || len(fd.Recv.List) != 1 || !fd.Name.IsExported() {
				continue
			}
			st, ok := fd.Recv.List[0].Type.(*ast.StarExpr)
			if !ok {
				continue
			}
			id, ok := st.X.(*ast.Ident)
			if !ok || id.Name != "SyncedEnforcer" {
				continue
			}
			sp := c12Spec{Name: fd.Name.Name}
			if fd.Type.Params != nil {
				for i, fld := range fd.Type.Params.List {
					ty := types.ExprString(fld.Type)
					if len(fld.Names) == 0 {
						sp.Params = append(sp.Params, c12Param{fmt.Sprintf("arg%d", i), ty})
					}
					for _, nm := range fld.Names {
						sp.Params = append(sp.Params, c12Param{nm.Name, ty})
					}
				}
			}
			r, w := false, false
			if fd.Body != nil {
				ast.Inspect(fd.Body, func(n ast.Node) bool {
					if ce, ok := n.(*ast.CallExpr); ok {
						if se, ok := ce.Fun.(*ast.SelectorExpr); ok {
							switch se.Sel.Name {
							case "RLock":
								r = true
							case "Lock":
								w = true
							}
						}
					}
					return true
				})
			}
			switch {
			case r && w:
				sp.Lock = "rw"
			case r:
				sp.Lock = "r"
			case w:
				sp.Lock = "w"
			}
			if seen[sp.Name] {
				panic("C12 infrastructure error: method declared twice: " + sp.Name)
			}
			seen[sp.Name] = true
			specs = append(specs, sp)
		}
	}
	sort.Slice(specs, func(i, j int) bool { return specs[i].Name < specs[j].Name })
	if len(specs) == 0 {
		panic("C12 infrastructure error: no SyncedEnforcer method found in " + repo)
	}
	// the lock mode of a wrapper is what the generated lock table says (interprocedural: helpers
	// such as withRLock(func()) or `defer e.acquireRead()()` are seen through); the syntactic scan
	// above is only the fallback for wrappers the table marks irregular
	if tl := c12TableLocks(); tl != nil {
		for i := range specs {
			if m, ok := tl[specs[i].Name]; ok {
				specs[i].Lock = m
			}
		}
	}
	return specs
}

func c12SpecSource(specs []c12Spec) string {
	var b strings.Builder
	for _, sp := range specs {
		fmt.Fprintf(&b, "\t{Name: %q, Lock: %q, Params: []param{", sp.Name, sp.Lock)
		for i, p := range sp.Params {
			if i > 0 {
				b.WriteString(", ")
			}
			fmt.Fprintf(&b, "{%q, %q}", p.Name, p.Type)
		}
		b.WriteString("}},\n")
	}
	return b.String()
}

func c12Family(name string) string {
	switch {
	case strings.Contains(name, "Enforce"):
		return "enforce"
	case strings.HasPrefix(name, "Self"):
		return "self"
	case strings.HasPrefix(name, "Get"), strings.HasPrefix(name, "Has"), strings.HasPrefix(name, "Is"):
		if name == "GetLock" {
			return "control"
		}
		return "read"
	case name == "AddFunction":
		return "control"
	case strings.HasPrefix(name, "Add"):
		return "add"
	case strings.HasPrefix(name, "Remove"), strings.HasPrefix(name, "Delete"):
		return "remove"
	case strings.HasPrefix(name, "Update"):
		return "update"
	case strings.HasPrefix(name, "Load"), strings.HasPrefix(name, "Save"), strings.HasPrefix(name, "Clear"), strings.HasPrefix(name, "Build"):
		return "load-save"
	}
	return "control"
}

// ---------- running go test ----------

type c12Run struct {
	out    string
	wall   time.Duration
	err    error
	killed bool // exec context expired
}

func c12GoTest(dir string, extraEnv []string, testTimeout, wallTimeout time.Duration) c12Run {
	ctx, cancel := context.WithTimeout(context.Background(), wallTimeout)
	defer cancel()
	cmd := exec.CommandContext(ctx, c12GoTool, c12TestArgs(testTimeout)...)
	cmd.Dir = dir
	cmd.Env = append(os.Environ(), "GOFLAGS=-mod=mod", "GOPROXY=off", "GOSUMDB=off", "GOTOOLCHAIN=local")
	cmd.Env = append(cmd.Env, extraEnv...)
	var buf bytes.Buffer
	cmd.Stdout = &buf
	cmd.Stderr = &buf
	cmd.SysProcAttr = &syscall.SysProcAttr{Setpgid: true}
	cmd.Cancel = func() error {
		if cmd.Process != nil {
			_ = syscall.Kill(-cmd.Process.Pid, syscall.SIGKILL)
			return cmd.Process.Kill()
		}
		return nil
	}
	cmd.WaitDelay = 5 * time.Second
	t0 := time.Now()
	err := cmd.Run()
	return c12Run{out: buf.String(), wall: time.Since(t0), err: err, killed: ctx.Err() != nil}
}

func c12TestArgs(testTimeout time.Duration) []string {
	return []string{"test", "-race", "-vet=off", "-v", "-count=1", "-timeout", fmt.Sprintf("%ds", int(testTimeout.Seconds())), "-run", ".", "./..."}
}

// ---------- parsing the output ----------

type c12Seg struct {
	started bool
	done    bool
	calls   int
	nmeth   int
	lines   []string
	methods map[string]int
}

var c12ReStart = regexp.MustCompile(`^C12-SCENARIO (\S+) START`)
var c12ReDone = regexp.MustCompile(`^C12-SCENARIO (\S+) DONE calls=(\d+) methods=(\d+)`)
var c12ReMethod = regexp.MustCompile(`^C12-METHOD (\S+) (\S+) (\d+)`)
var c12ReSynced = regexp.MustCompile(`\(\*SyncedEnforcer\)\.(\w+)`)
var c12ReAccess = regexp.MustCompile(`^(Write|Read|Previous write|Previous read|Atomic write|Atomic read|Previous atomic write|Previous atomic read) at 0x[0-9a-f]+ by `)

func c12ParseOutput(out string) (map[string]*c12Seg, []string) {
	segs := map[string]*c12Seg{}
	var outside []string // lines not inside any scenario segment
	cur := ""
	for _, ln := range strings.Split(out, "\n") {
		ln = strings.TrimRight(ln, "\r")
		if m := c12ReStart.FindStringSubmatch(ln); m != nil {
			cur = m[1]
			if segs[cur] == nil {
				segs[cur] = &c12Seg{methods: map[string]int{}}
			}
			segs[cur].started = true
			continue
		}
		if m := c12ReDone.FindStringSubmatch(ln); m != nil {
			if s := segs[m[1]]; s != nil {
				s.done = true
				s.calls, _ = strconv.Atoi(m[2])
				s.nmeth, _ = strconv.Atoi(m[3])
			}
			// cur is kept: a report printed after DONE (before the next START) still belongs here
			continue
		}
		if m := c12ReMethod.FindStringSubmatch(ln); m != nil {
			if s := segs[m[1]]; s != nil {
				n, _ := strconv.Atoi(m[3])
				s.methods[m[2]] += n
			}
			continue
		}
		if cur != "" {
			segs[cur].lines = append(segs[cur].lines, ln)
		} else {
			outside = append(outside, ln)
		}
	}
	return segs, outside
}

// c12Classify returns ("ok", -1) or (kind, index of the first offending line).
func c12Classify(s *c12Seg) (string, int) {
	find := func(pats ...string) int {
		for i, ln := range s.lines {
			for _, p := range pats {
				if strings.Contains(ln, p) {
					return i
				}
			}
		}
		return -1
	}
	if i := find("WARNING: DATA RACE"); i >= 0 {
		return "race", i
	}
	if i := find("concurrent map", "fatal error:"); i >= 0 {
		return "fault", i
	}
	if i := find("C12-DEADLOCK", "test timed out"); i >= 0 {
		return "deadlock", i
	}
	if i := find("C12-PANIC", "panic:"); i >= 0 {
		return "panic", i
	}
	if i := find("C12-FAULT"); i >= 0 {
		return "fault", i
	}
	if !s.done {
		i := len(s.lines) - 25
		if i < 0 {
			i = 0
		}
		return "fault", i
	}
	return "ok", -1
}

// c12RaceSummary condenses the first race report of a segment: the method pair and the top frames
// of both access stacks. Only frames ABOVE the stress test's own code are used for the pair: casbin's
// enforce() recovers panics, which leaves stale entries on the race detector's shadow stack, so the
// frames below the test's call site are not reliable.
func c12RaceSummary(lines []string) (pair string, text string) {
	var labels, parts []string
	inBlock := false // inside a "Write at / Previous read at" block
	frames := 0      // stack lines copied from the current block
	labelled := false
	for _, ln := range lines {
		t := strings.TrimSpace(strings.ReplaceAll(ln, "\t", " "))
		if strings.HasPrefix(t, "==================") {
			if len(parts) > 1 {
				break
			}
			continue
		}
		if strings.HasPrefix(t, "WARNING: DATA RACE") {
			if len(parts) > 0 {
				break
			}
			parts = append(parts, t)
			continue
		}
		if len(parts) == 0 {
			continue
		}
		if c12ReAccess.MatchString(t) {
			inBlock, frames, labelled = true, 0, false
			parts = append(parts, t)
			continue
		}
		if t == "" {
			if inBlock && !labelled {
				labels = append(labels, "?")
			}
			inBlock = false
			continue
		}
		if !inBlock {
			continue
		}
		if frames < 14 { // 7 frames: function line + file line
			parts = append(parts, t)
			frames++
		}
		if !labelled {
			if m := c12ReSynced.FindStringSubmatch(t); m != nil {
				labels = append(labels, "SyncedEnforcer."+m[1])
				labelled = true
			} else if strings.HasPrefix(t, "c12stress.") {
				// the access is in the caller's own code: it reads a value a wrapper returned earlier
				labels = append(labels, "caller reading a returned value ("+strings.TrimSuffix(t, "()")+")")
				labelled = true
			}
		}
	}
	return strings.Join(labels, " vs "), strings.Join(parts, " | ")
}

func c12OneLine(lines []string, from, n int) string {
	if from < 0 {
		from = 0
	}
	to := from + n
	if to > len(lines) {
		to = len(lines)
	}
	var parts []string
	for _, ln := range lines[from:to] {
		ln = strings.ReplaceAll(ln, "\t", " ")
		ln = strings.TrimSpace(ln)
		if ln == "" {
			continue
		}
		parts = append(parts, ln)
	}
	return strings.Join(parts, " | ")
}

func c12Tail(s string, n int) string {
	ls := strings.Split(strings.TrimRight(s, "\n"), "\n")
	if len(ls) > n {
		ls = ls[len(ls)-n:]
	}
	return strings.Join(ls, "\n")
}

func c12IndexOf(ss []string, s string) int {
	for i, x := range ss {
		if x == s {
			return i
		}
	}
	return -1
}

func init() {
	register("C12", func(c *Ctx) {
		t0 := time.Now()
		c12WatcherEcho(c)
		repo := c12Repo()
		specs := c12ParseSpecs(repo)
		nR, nW := 0, 0
		for _, sp := range specs {
			switch sp.Lock {
			case "r":
				nR++
			case "w":
				nW++
			}
		}

		// tier parameters
		millis, stopRounds, rounds := 2000, 100, 1
		testTimeout, wallTimeout := 180*time.Second, 200*time.Second
		if c.Thorough() {
			millis, stopRounds, rounds = 8000, 200, 5
			testTimeout, wallTimeout = 1500*time.Second, 1530*time.Second
		}

		// the throw-away module
		dir, err := os.MkdirTemp("", "c12stress-")
		if err != nil {
			panic(err)
		}
		if os.Getenv("C12_KEEP") == "" {
			defer os.RemoveAll(dir)
		} else {
			fmt.Fprintln(os.Stderr, "C12: generated module kept in", dir)
		}
		gomod := "module c12stress\n\ngo 1.13\n\nrequire github.com/casbin/casbin/v2 v2.0.0\n\nreplace github.com/casbin/casbin/v2 => " + repo + "\n"
		if err := os.WriteFile(filepath.Join(dir, "go.mod"), []byte(gomod), 0o644); err != nil {
			panic(err)
		}
		if b, err := os.ReadFile(filepath.Join(repo, "go.sum")); err == nil {
			if err := os.WriteFile(filepath.Join(dir, "go.sum"), b, 0o644); err != nil {
				panic(err)
			}
		}
		src := strings.Replace(c12StressTest, "//C12-SPECS//", c12SpecSource(specs), 1)
		if err := os.WriteFile(filepath.Join(dir, "stress_test.go"), []byte(src), 0o644); err != nil {
			panic(err)
		}

		verOut, _ := exec.Command(c12GoTool, "version").CombinedOutput()
		goVersion := strings.TrimSpace(string(verOut))

		c.Rule = fmt.Sprintf("exploration (race-detector stress), not proof: the %d exported methods declared on *SyncedEnforcer (%d read-lock, %d write-lock wrappers; list taken from the AST of %s at run time) are called through reflection from 16 goroutines, each with its own seeded PRNG drawing a weighted random method and arguments built per parameter type/name over a small universe (7 subjects, 3 objects, 2 actions, 2 domains, rules of the model's arity, so calls really collide on the same rules); after every call the calling goroutine deep-reads the returned values outside the lock, and re-reads a quarter of them after 1-3 further calls (aliasing of internal slices, F38 shape); %d scenarios per seed (%s): 5 random-mix scenarios of %d ms each over RBAC / RBAC-with-domains / pattern-matching role manager + keyMatch/regexMatch matcher / priority models with file and filtered-file adapters and a live auto-loader, plus first-call-after-construction rounds behind a barrier (F18 shape), concurrent LoadPolicy on a FilteredAdapter (F36 shape), readers iterating getter results against in-place writers (F38 shape) and concurrent StopAutoLoadPolicy rounds (F28 shape); run under `%s test -race`; a case is one scenario run, its observable is ok unless the segment of the output shows a data race, a concurrent-map/fatal fault, a panic escaping a wrapper, or a watchdog/timeout deadlock; non-trivial = a (scenario, method) pair that was really executed in the concurrent phase", len(specs), nR, nW, strings.Join(c12SyncedFiles, ","), len(c12Scenarios), strings.Join(c12Scenarios, ","), millis, c12GoTool)

		cmdline := "GOFLAGS=-mod=mod GOPROXY=off GOSUMDB=off GOTOOLCHAIN=local " + c12GoTool + " " + strings.Join(c12TestArgs(testTimeout), " ")
		c12TableNotes(c)
		c.Notes = append(c.Notes, "exploration, not proof: a clean run shows no race/panic/deadlock on the explored interleavings only")
		c.Notes = append(c.Notes, "tree under test: "+repo)
		c.Notes = append(c.Notes, "command: "+cmdline+" (env C12_SEED, C12_MILLIS, C12_STOP_ROUNDS, C12_SCENARIO; cwd = generated module)")
		c.Notes = append(c.Notes, "toolchain: "+goVersion)

		everCalled := map[string]int{}
		allOK := true
		var goTestWall time.Duration

		for round := 1; round <= rounds; round++ {
			seed := c.Seed + int64(round-1)*1000003
			remaining := append([]string(nil), c12Scenarios...)
			results := map[string]*c12Seg{}
			for attempt := 0; len(remaining) > 0 && attempt <= len(c12Scenarios); attempt++ {
				env := []string{
					"C12_SEED=" + strconv.FormatInt(seed, 10),
					"C12_MILLIS=" + strconv.Itoa(millis),
					"C12_STOP_ROUNDS=" + strconv.Itoa(stopRounds),
					"C12_SCENARIO=" + strings.Join(remaining, ","),
				}
				run := c12GoTest(dir, env, testTimeout, wallTimeout)
				goTestWall += run.wall
				segs, outside := c12ParseOutput(run.out)
				outsideText := strings.Join(outside, "\n")
				if strings.Contains(run.out, "C12-HARNESS-BUG") {
					var bugs []string
					for _, ln := range strings.Split(run.out, "\n") {
						if strings.Contains(ln, "C12-HARNESS-BUG") && len(bugs) < 20 {
							bugs = append(bugs, strings.TrimSpace(ln))
						}
					}
					panic("C12 infrastructure error: the generated stress test reports a bug of the harness itself (argument construction, or a wrapper with a parameter type the generator does not know: teach c12.go about it), not a property violation:\n" + strings.Join(bugs, "\n"))
				}
				if len(segs) == 0 {
					// nothing ran: build failure, toolchain missing, module resolution ...
					panic(fmt.Sprintf("C12 infrastructure error: `%s` did not run any scenario (err=%v, killed=%v); this is a build/setup failure of the generated test against %s, not a property violation:\n%s", cmdline, run.err, run.killed, repo, c12Tail(run.out, 80)))
				}
				lastStarted := ""
				for _, name := range remaining {
					if s := segs[name]; s != nil && s.started {
						results[name] = s
						lastStarted = name
					}
				}
				// a scenario that killed the process takes the tail (exit status, goroutine dump) with it
				crashed := lastStarted != "" && !results[lastStarted].done
				if crashed && run.killed {
					results[lastStarted].lines = append(results[lastStarted].lines, "C12-DEADLOCK "+lastStarted+" (go test killed by the harness wall-clock bound)")
				}
				if run.err != nil && !crashed {
					// the run failed although every started scenario printed DONE: make sure a reason is attributed
					bad := false
					for _, name := range remaining {
						if s := results[name]; s != nil {
							if k, _ := c12Classify(s); k != "ok" {
								bad = true
							}
						}
					}
					if !bad {
						panic(fmt.Sprintf("C12 infrastructure error: go test failed (%v) but no scenario shows a race/panic/deadlock; output outside scenarios:\n%s\n--- tail ---\n%s", run.err, c12Tail(outsideText, 40), c12Tail(run.out, 40)))
					}
				}
				if !crashed {
					// scenarios that never started although the process ended normally: selection bug
					var next []string
					for _, name := range remaining {
						if results[name] == nil {
							next = append(next, name)
						}
					}
					if len(next) > 0 {
						panic("C12 infrastructure error: scenarios never started: " + strings.Join(next, ","))
					}
					remaining = nil
				} else {
					i := c12IndexOf(remaining, lastStarted)
					remaining = remaining[i+1:]
				}
			}

			for _, name := range c12Scenarios {
				id := "c12." + name
				if round > 1 {
					id = fmt.Sprintf("c12.%s.r%d", name, round)
				}
				c.Case(id, Q(name))
				c.Count("scenario:" + name)
				s := results[name]
				if s == nil {
					s = &c12Seg{methods: map[string]int{}, lines: []string{"scenario did not run"}}
				}
				kind, at := c12Classify(s)
				c.Obs(id, "result", kind)
				total := 0
				for m, n := range s.methods {
					if n > 0 {
						c.NonTrivial(name + "/" + m)
						everCalled[m] += n
						c.Dist["calls:"+c12Family(m)] += n
						total += n
					}
				}
				c.Notes = append(c.Notes, fmt.Sprintf("seed %d scenario %s: result=%s calls=%d distinct-methods=%d", seed, name, kind, total, len(s.methods)))
				if kind != "ok" {
					allOK = false
					what := map[string]string{
						"race":     "data race reported by the race detector",
						"fault":    "fatal runtime fault (concurrent map access / process killed)",
						"panic":    "panic escaped a SyncedEnforcer method",
						"deadlock": "deadlock (watchdog / test timeout)",
					}[kind]
					report := c12OneLine(s.lines, at, 25)
					if kind == "race" {
						if p, txt := c12RaceSummary(s.lines[at:]); txt != "" {
							report = txt
							if p != "" {
								what += ": " + p
							}
						}
					}
					replay := fmt.Sprintf("scenario=%s seed=%d millis=%d repo=%s replay: C12_SEED=%d C12_MILLIS=%d C12_STOP_ROUNDS=%d C12_SCENARIO=%s %s :: %s", name, seed, millis, repo, seed, millis, stopRounds, name, cmdline, report)
					c.Direct(id, what, replay)
				}
			}
		}

		var never []string
		for _, sp := range specs {
			if everCalled[sp.Name] == 0 {
				never = append(never, sp.Name)
			}
		}
		c.Notes = append(c.Notes, fmt.Sprintf("distinct SyncedEnforcer methods exercised in a concurrent phase: %d of %d; never called: [%s]", len(specs)-len(never), len(specs), strings.Join(never, " ")))
		c.Notes = append(c.Notes, fmt.Sprintf("wall time: go test %.1fs, harness total %.1fs (first -race build is ~20s when GOCACHE is cold)", goTestWall.Seconds(), time.Since(t0).Seconds()))
		if len(never) > 0 && allOK {
			panic("C12 infrastructure error: wrapper methods never exercised (a new wrapper is excluded everywhere?): " + strings.Join(never, " "))
		}
	})
}

// c12StressTest is the generated stress_test.go; //C12-SPECS// is replaced by the method table.
// (No backquote may appear inside.)
const c12StressTest = `// Code generated by the C12 harness (verif/harness/c12.go). DO NOT EDIT.
package c12stress

import (
	"fmt"
	"math/rand"
	"os"
	"path/filepath"
	"reflect"
	"runtime"
	"runtime/debug"
	"sort"
	"strconv"
	"strings"
	"sync"
	"sync/atomic"
	"testing"
	"time"

	casbin "github.com/casbin/casbin/v2"
	"github.com/casbin/casbin/v2/model"
	"github.com/casbin/casbin/v2/persist"
	fileadapter "github.com/casbin/casbin/v2/persist/file-adapter"
	"github.com/casbin/casbin/v2/util"
	"github.com/casbin/govaluate"
)

type param struct{ Name, Type string }

type spec struct {
	Name   string
	Lock   string
	Params []param
}

// every exported method declared on *SyncedEnforcer (from the AST of the tree under test)
var specs = []spec{
//C12-SPECS//
}

// ---------------------------------------------------------------- universe

type kind struct {
	name     string
	text     string
	matchers []string // candidate texts for the matcher parameter of *WithMatcher
	p, g, r  []string // column sorts of a p rule, a g rule, a request
	policy   string
	domain   bool
}

func modelText(r, p, g, e, m string) string {
	return "[request_definition]\nr = " + r + "\n[policy_definition]\np = " + p + "\n[role_definition]\ng = " + g + "\n[policy_effect]\ne = " + e + "\n[matchers]\nm = " + m + "\n"
}

const allowOverride = "some(where (p.eft == allow))"

var kindPlain = &kind{
	name:     "plain",
	text:     modelText("sub, obj, act", "sub, obj, act", "_, _", allowOverride, "g(r.sub, p.sub) && r.obj == p.obj && r.act == p.act"),
	matchers: []string{"", "", "g(r.sub, p.sub) && r.obj == p.obj && r.act == p.act", "r.sub == p.sub && r.obj == p.obj", "g(r.sub, p.sub) && keyMatch(r.obj, p.obj)"},
	p:        []string{"sub", "obj", "act"},
	g:        []string{"sub", "sub"},
	r:        []string{"sub", "obj", "act"},
	policy:   "p, alice, data1, read\np, bob, data2, write\np, admin, data1, write\np, role1, data2, read\np, role1, /res/1, read\ng, alice, admin\ng, bob, role1\ng, admin, role1\n",
}

var kindDomains = &kind{
	name:     "domains",
	text:     modelText("sub, dom, obj, act", "sub, dom, obj, act", "_, _, _", allowOverride, "g(r.sub, p.sub, r.dom) && r.dom == p.dom && r.obj == p.obj && r.act == p.act"),
	matchers: []string{"", "", "g(r.sub, p.sub, r.dom) && r.dom == p.dom && r.obj == p.obj && r.act == p.act", "r.sub == p.sub && r.dom == p.dom"},
	p:        []string{"sub", "dom", "obj", "act"},
	g:        []string{"sub", "sub", "dom"},
	r:        []string{"sub", "dom", "obj", "act"},
	policy:   "p, admin, d1, data1, read\np, admin, d2, data2, write\np, role1, d1, /res/1, read\np, alice, d1, data2, read\ng, alice, admin, d1\ng, bob, admin, d2\ng, carol, role1, d1\n",
	domain:   true,
}

var kindPattern = &kind{
	name:     "pattern",
	text:     modelText("sub, obj, act", "sub, obj, act", "_, _", allowOverride, "g(r.sub, p.sub) && (keyMatch2(r.obj, p.obj) || keyMatch4(r.obj, p.obj)) && regexMatch(r.act, p.act)"),
	matchers: []string{"", "", "g(r.sub, p.sub) && keyMatch2(r.obj, p.obj) && regexMatch(r.act, p.act)", "g(r.sub, p.sub) && keyMatch4(r.obj, p.obj)", "r.sub == p.sub && keyMatch(r.obj, p.obj)"},
	p:        []string{"sub", "obj", "act"},
	g:        []string{"sub", "sub"},
	r:        []string{"sub", "obj", "act"},
	policy:   "p, alice, data1, read\np, bob, data2, write\np, admin, /res/:id, (read|write)\np, role1, /res/*, r.*\np, role1, /res/{id}, read\np, admin, data1, write\ng, alice, admin\ng, bob, role1\ng, /res/:id, role1\ng, tmp*, admin\n",
}

var kindPriority = &kind{
	name:     "priority",
	text:     modelText("sub, obj, act", "priority, sub, obj, act, eft", "_, _", "priority(p.eft) || deny", "g(r.sub, p.sub) && r.obj == p.obj && r.act == p.act"),
	matchers: []string{"", "", "g(r.sub, p.sub) && r.obj == p.obj && r.act == p.act", "r.sub == p.sub && r.obj == p.obj"},
	p:        []string{"prio", "sub", "obj", "act", "eft"},
	g:        []string{"sub", "sub"},
	r:        []string{"sub", "obj", "act"},
	policy:   "p, 1, alice, data1, read, allow\np, 2, bob, data2, write, deny\np, 2, admin, data1, write, allow\np, 3, role1, data2, read, allow\np, 3, alice, data2, read, deny\ng, alice, admin\ng, bob, role1\n",
}

var basePools = map[string][]string{
	"sub":  {"alice", "bob", "carol", "admin", "role1", "tmpU", "tmpV"},
	"obj":  {"data1", "data2", "/res/1"},
	"act":  {"read", "write"},
	"dom":  {"d1", "d2"},
	"prio": {"1", "2", "3", "4", "5"},
	"eft":  {"allow", "deny"},
}

var patternPools = map[string][]string{
	"sub":  {"alice", "bob", "carol", "admin", "role1", "tmpU", "tmpV", "tmp*", "/res/:id", "/res/1", "/res/2"},
	"obj":  {"data1", "data2", "/res/1", "/res/2", "/res/:id", "/res/*", "/res/{id}"},
	"act":  {"read", "write", "(read|write)", "r.*"},
	"dom":  {"d1", "d2"},
	"prio": {"1", "2", "3", "4", "5"},
	"eft":  {"allow", "deny"},
}

// matching function of the pattern scenario: "tmp*"-style prefixes for names, keyMatch2 otherwise
func patternMatch(a, b string) bool {
	if !strings.ContainsAny(b, ":*") {
		return a == b
	}
	if strings.HasSuffix(b, "*") && !strings.Contains(b, "/") {
		return strings.HasPrefix(a, b[:len(b)-1])
	}
	return util.KeyMatch2(a, b)
}

// the wrappers that only make sense when the model has a domain column (on other models e.g.
// DeleteRolesForUserInDomain indexes past the end of a 2-column g rule even sequentially)
var domainOnly = map[string]bool{
	"GetUsersForRoleInDomain": true, "GetRolesForUserInDomain": true, "GetPermissionsForUserInDomain": true,
	"AddRoleForUserInDomain": true, "DeleteRoleForUserInDomain": true, "DeleteRolesForUserInDomain": true,
}

type noopWatcher struct{}

func (w *noopWatcher) SetUpdateCallback(func(string)) error { return nil }
func (w *noopWatcher) Update() error                        { return nil }
func (w *noopWatcher) Close()                               {}

func trivialFunction(args ...interface{}) (interface{}, error) { return true, nil }

// ---------------------------------------------------------------- argument generation

type mixCfg struct {
	name     string
	kind     *kind
	pools    map[string][]string
	filtered bool          // FilteredAdapter instead of Adapter
	pattern  bool          // matching function on the role manager (set before the concurrent phase)
	autoDur  time.Duration // >0: StartAutoLoadPolicy(autoDur) runs during the whole concurrent phase
	shortDur bool          // time.Duration arguments are 5..20ms instead of time.Hour
	exclude  map[string]bool
}

type gen struct {
	cfg *mixCfg
	rng *rand.Rand
}

func (g *gen) pick(ss []string) string { return ss[g.rng.Intn(len(ss))] }
func (g *gen) val(sort string) string {
	p := g.cfg.pools[sort]
	if len(p) == 0 {
		panic("no pool for sort " + sort)
	}
	return g.pick(p)
}

func (g *gen) cols(sec string) []string {
	if sec == "g" {
		return g.cfg.kind.g
	}
	return g.cfg.kind.p
}

func (g *gen) rule(sec string) []string {
	cols := g.cols(sec)
	out := make([]string, len(cols))
	for i, c := range cols {
		out[i] = g.val(c)
	}
	return out
}

func (g *gen) request() []interface{} {
	cols := g.cfg.kind.r
	out := make([]interface{}, len(cols))
	for i, c := range cols {
		out[i] = g.val(c)
	}
	return out
}

func secOf(name string) string {
	if strings.Contains(name, "Grouping") || name == "GetAllNamedRoles" {
		return "g"
	}
	return "p"
}

func (g *gen) str(sp *spec, name string, sec string) string {
	switch name {
	case "ptype", "sec":
		return sec
	case "gtype":
		return "g"
	case "matcher":
		return g.pick(g.cfg.kind.matchers)
	case "domain":
		return g.val("dom")
	case "name":
		if sp.Name == "AddFunction" {
			return "c12fn" + strconv.Itoa(g.rng.Intn(4))
		}
	}
	return g.val("sub")
}

func (g *gen) varStrings(sp *spec, name string, sec string, fieldIndex int) ([]string, error) {
	switch name {
	case "fieldValues":
		cols := g.cols(sec)
		room := len(cols) - fieldIndex
		if room > 2 {
			room = 2
		}
		if room < 1 {
			return nil, fmt.Errorf("fieldIndex %d leaves no room in a %s rule", fieldIndex, sec)
		}
		n := 1 + g.rng.Intn(room)
		out := make([]string, n)
		for i := range out {
			if i > 0 && g.rng.Intn(10) < 3 {
				out[i] = ""
			} else {
				out[i] = g.val(cols[fieldIndex+i])
			}
		}
		return out, nil
	case "domain":
		// adders always get the domain on a domain model: AddRoleForUser(u, r) without it would store
		// a g rule shorter than the role definition (casbin does not check the arity), and any later
		// filter on column 2 indexes past its end even sequentially; that is outside C12
		if g.cfg.kind.domain && (strings.HasPrefix(sp.Name, "Add") || g.rng.Intn(100) < 85) {
			return []string{g.val("dom")}, nil
		}
		return nil, nil
	case "permission":
		if sp.Name == "GetImplicitUsersForPermission" {
			r := g.request()
			out := make([]string, 0, len(r))
			for _, v := range r[1:] {
				out = append(out, v.(string))
			}
			return out, nil
		}
		return g.rule("p")[1:], nil
	}
	return nil, fmt.Errorf("no generator for variadic string parameter %q", name)
}

func (g *gen) filter(pt reflect.Type) reflect.Value {
	if !g.cfg.filtered && g.rng.Intn(2) == 0 {
		return reflect.Zero(pt)
	}
	switch g.rng.Intn(4) {
	case 0:
		return reflect.Zero(pt)
	case 1:
		return reflect.ValueOf(&fileadapter.Filter{P: []string{g.val("sub")}})
	case 2:
		if g.cfg.kind.domain {
			return reflect.ValueOf(&fileadapter.Filter{P: []string{"", g.val("dom")}, G: []string{"", "", g.val("dom")}})
		}
		return reflect.ValueOf(&fileadapter.Filter{P: []string{"", g.val("obj")}, G: []string{g.val("sub")}})
	}
	return reflect.ValueOf(&fileadapter.Filter{G: []string{"", g.val("sub")}})
}

// args builds the argument list of one call. Any failure here is a bug of this generator
// (reported as C12-HARNESS-BUG), never a finding about casbin.
func (g *gen) args(sp *spec, mt reflect.Type) (out []reflect.Value, err error) {
	defer func() {
		if r := recover(); r != nil {
			err = fmt.Errorf("argument construction panicked: %v", r)
		}
	}()
	sec := secOf(sp.Name)
	if strings.HasPrefix(sp.Name, "Self") {
		if g.rng.Intn(2) == 0 {
			sec = "g"
		}
	}
	nRules := 1 + g.rng.Intn(3)
	fieldIndex := 0
	for i, p := range sp.Params {
		switch p.Type {
		case "string":
			out = append(out, reflect.ValueOf(g.str(sp, p.Name, sec)))
		case "int":
			maxIdx := len(g.cols(sec)) - 1
			if maxIdx > 2 {
				maxIdx = 2
			}
			fieldIndex = g.rng.Intn(maxIdx + 1)
			out = append(out, reflect.ValueOf(fieldIndex))
		case "...string":
			ss, e := g.varStrings(sp, p.Name, sec, fieldIndex)
			if e != nil {
				return nil, e
			}
			for _, s := range ss {
				out = append(out, reflect.ValueOf(s))
			}
		case "...interface{}":
			if p.Name == "rvals" {
				for _, v := range g.request() {
					out = append(out, reflect.ValueOf(v))
				}
			} else {
				r := g.rule(sec)
				if g.rng.Intn(2) == 0 {
					out = append(out, reflect.ValueOf(r))
				} else {
					for _, s := range r {
						out = append(out, reflect.ValueOf(s))
					}
				}
			}
		case "...[]string":
			n := 1 + g.rng.Intn(2)
			for j := 0; j < n; j++ {
				out = append(out, reflect.ValueOf(g.rule("p")[1:]))
			}
		case "[]string":
			if p.Name == "roles" {
				n := 1 + g.rng.Intn(2)
				rs := make([]string, n)
				for j := range rs {
					rs[j] = g.val("sub")
				}
				out = append(out, reflect.ValueOf(rs))
			} else {
				out = append(out, reflect.ValueOf(g.rule(sec)))
			}
		case "[][]string":
			rs := make([][]string, nRules)
			for j := range rs {
				rs[j] = g.rule(sec)
			}
			out = append(out, reflect.ValueOf(rs))
		case "[][]interface{}":
			n := 1 + g.rng.Intn(3)
			rs := make([][]interface{}, n)
			for j := range rs {
				rs[j] = g.request()
			}
			out = append(out, reflect.ValueOf(rs))
		case "interface{}":
			out = append(out, g.filter(mt.In(i)))
		case "time.Duration":
			d := time.Hour
			if g.cfg.shortDur {
				d = time.Duration(5+g.rng.Intn(16)) * time.Millisecond
			}
			out = append(out, reflect.ValueOf(d))
		case "persist.Watcher":
			var w persist.Watcher = &noopWatcher{}
			out = append(out, reflect.ValueOf(w))
		case "govaluate.ExpressionFunction":
			out = append(out, reflect.ValueOf(govaluate.ExpressionFunction(trivialFunction)))
		default:
			return nil, fmt.Errorf("unknown parameter type %q of parameter %q", p.Type, p.Name)
		}
	}
	return out, nil
}

// validate checks arity and assignability ourselves, so that a panic of reflect.Value.Call can only
// come from inside the called casbin method.
func validate(mt reflect.Type, args []reflect.Value) error {
	n := mt.NumIn()
	fixed := n
	if mt.IsVariadic() {
		fixed = n - 1
		if len(args) < fixed {
			return fmt.Errorf("too few arguments: %d < %d", len(args), fixed)
		}
	} else if len(args) != n {
		return fmt.Errorf("wrong argument count: %d != %d", len(args), n)
	}
	for i, a := range args {
		var want reflect.Type
		if i < fixed {
			want = mt.In(i)
		} else {
			want = mt.In(n - 1).Elem()
		}
		if !a.IsValid() {
			return fmt.Errorf("argument %d is the invalid reflect.Value", i)
		}
		if !a.Type().AssignableTo(want) {
			return fmt.Errorf("argument %d has type %s, want %s", i, a.Type(), want)
		}
	}
	return nil
}

// ---------------------------------------------------------------- calling

type runner struct {
	t        *testing.T
	scenario string
	abort    int32
}

func (r *runner) harnessBug(method string, err error) {
	fmt.Printf("C12-HARNESS-BUG scenario=%s method=%s: %v\n", r.scenario, method, err)
	atomic.StoreInt32(&r.abort, 1)
	r.t.Errorf("C12-HARNESS-BUG %s: %v", method, err)
}

func (r *runner) safeCall(method string, m reflect.Value, args []reflect.Value) (out []reflect.Value) {
	defer func() {
		if p := recover(); p != nil {
			fmt.Printf("C12-PANIC %s %s %v\n%s\n", r.scenario, method, p, debug.Stack())
			r.t.Errorf("panic escaped SyncedEnforcer.%s: %v", method, p)
		}
	}()
	return m.Call(args)
}

// prepared call
type call struct {
	si   int
	m    reflect.Value
	args []reflect.Value
}

func (r *runner) prepare(ev reflect.Value, si int, g *gen) (call, bool) {
	sp := &specs[si]
	m := ev.MethodByName(sp.Name)
	if !m.IsValid() {
		r.harnessBug(sp.Name, fmt.Errorf("method not found through reflection"))
		return call{}, false
	}
	args, err := g.args(sp, m.Type())
	if err == nil {
		err = validate(m.Type(), args)
	}
	if err != nil {
		r.harnessBug(sp.Name, err)
		return call{}, false
	}
	return call{si, m, args}, true
}

func (r *runner) run(c call, slot *int32) []reflect.Value {
	name := specs[c.si].Name
	if slot != nil {
		atomic.StoreInt32(slot, int32(c.si+1))
	}
	out := r.safeCall(name, c.m, c.args)
	if name == "GetLock" && len(out) == 1 {
		if l, ok := out[0].Interface().(*sync.RWMutex); ok && l != nil {
			l.RLock()
			l.RUnlock() //nolint
		}
	}
	if slot != nil {
		atomic.StoreInt32(slot, 0)
	}
	atomic.AddUint64(&wdProgress, 1)
	return out
}

// wdProgress counts completed wrapper calls; the watchdog tells a deadlock (no call completes any
// more) from a slow machine (calls still complete, only later than planned).
var wdProgress uint64

// ---------------------------------------------------------------- reading the results (shape of F38)

// sink receives every goroutine's checksum, so that the reads below cannot be optimised away
var sink uint64

var errorType = reflect.TypeOf((*error)(nil)).Elem()

func syncType(t reflect.Type) bool {
	p := t.PkgPath()
	return p == "sync" || p == "sync/atomic"
}

// folder deep-reads values the way a caller would: AFTER the wrapper returned, outside any lock.
// If a wrapper hands out memory that writers later modify in place, the race detector sees it here.
type folder struct{ sum uint64 }

func (f *folder) str(s string) {
	f.sum = f.sum*31 + uint64(len(s))
	if len(s) > 0 {
		f.sum += uint64(s[0])
	}
}

func (f *folder) walk(v reflect.Value, depth int) {
	if !v.IsValid() || depth > 8 {
		return
	}
	t := v.Type()
	if syncType(t) {
		return
	}
	switch v.Kind() {
	case reflect.String:
		f.str(v.String())
	case reflect.Bool:
		f.sum *= 3
		if v.Bool() {
			f.sum++
		}
	case reflect.Int, reflect.Int8, reflect.Int16, reflect.Int32, reflect.Int64:
		f.sum = f.sum*31 + uint64(v.Int())
	case reflect.Uint, reflect.Uint8, reflect.Uint16, reflect.Uint32, reflect.Uint64, reflect.Uintptr:
		f.sum = f.sum*31 + v.Uint()
	case reflect.Float32, reflect.Float64:
		f.sum = f.sum*31 + uint64(int64(v.Float()))
	case reflect.Slice, reflect.Array:
		if v.Kind() == reflect.Slice && v.IsNil() {
			return
		}
		n := v.Len()
		f.sum = f.sum*31 + uint64(n)
		for i := 0; i < n; i++ {
			f.walk(v.Index(i), depth+1)
		}
	case reflect.Map:
		if v.IsNil() {
			return
		}
		it := v.MapRange()
		for it.Next() {
			f.walk(it.Key(), depth+1)
			f.walk(it.Value(), depth+1)
		}
	case reflect.Ptr:
		if v.IsNil() || syncType(t.Elem()) {
			return
		}
		f.walk(v.Elem(), depth+1)
	case reflect.Interface:
		if v.IsNil() {
			return
		}
		if t.Implements(errorType) && v.CanInterface() {
			f.str(v.Interface().(error).Error()) // what a caller does with an error
			return
		}
		f.walk(v.Elem(), depth+1)
	case reflect.Struct:
		for i := 0; i < v.NumField(); i++ {
			f.walk(v.Field(i), depth+1)
		}
	}
}

func (f *folder) results(out []reflect.Value) {
	for _, v := range out {
		f.walk(v, 0)
	}
}

// kept result: read once more after the goroutine has made a few further calls (a getter returned
// [a b c], a later RemovePolicy shifted the backing array, the old slice is read again)
type kept struct {
	out []reflect.Value
	due int
}

type rereader struct {
	f    folder
	keep []kept
}

// after is called with the results of every call of the goroutine
func (rr *rereader) after(out []reflect.Value, rng *rand.Rand) {
	rr.f.results(out)
	j := 0
	for _, k := range rr.keep {
		k.due--
		if k.due <= 0 {
			rr.f.results(k.out)
		} else {
			rr.keep[j] = k
			j++
		}
	}
	rr.keep = rr.keep[:j]
	if len(out) > 0 && rng.Intn(4) == 0 {
		rr.keep = append(rr.keep, kept{out, 1 + rng.Intn(3)})
	}
}

func (rr *rereader) finish() {
	for _, k := range rr.keep {
		rr.f.results(k.out)
	}
	rr.keep = nil
	atomic.AddUint64(&sink, rr.f.sum)
}

func weight(name string) int {
	switch name {
	case "ClearPolicy", "LoadModel":
		return 1
	case "LoadFilteredPolicy":
		return 2
	case "SavePolicy", "LoadIncrementalFilteredPolicy", "BuildRoleLinks", "StartAutoLoadPolicy", "StopAutoLoadPolicy", "SetWatcher":
		return 3
	case "LoadPolicy":
		return 6
	}
	if strings.Contains(name, "Enforce") {
		return 25
	}
	if strings.Contains(name, "RemoveFiltered") || strings.HasPrefix(name, "Delete") {
		return 5
	}
	return 10
}

// ---------------------------------------------------------------- plumbing

type envCfg struct {
	seed       int64
	millis     int
	workers    int
	stopRounds int
}

func envInt(name string, def int64) int64 {
	if s := os.Getenv(name); s != "" {
		if v, err := strconv.ParseInt(s, 10, 64); err == nil {
			return v
		}
	}
	return def
}

func mixSeed(seed int64, a, b, c int) int64 {
	return seed*1000003 + int64(a)*100019 + int64(b)*1009 + int64(c)*31 + 1
}

func writeFile(t *testing.T, path, text string) {
	if err := os.WriteFile(path, []byte(text), 0644); err != nil {
		t.Fatalf("C12-HARNESS-BUG cannot write %s: %v", path, err)
	}
}

func build(t *testing.T, cfg *mixCfg) *casbin.SyncedEnforcer {
	dir := t.TempDir()
	mp := filepath.Join(dir, "model.conf")
	pp := filepath.Join(dir, "policy.csv")
	writeFile(t, mp, cfg.kind.text)
	writeFile(t, pp, cfg.kind.policy)
	var a persist.Adapter
	if cfg.filtered {
		a = fileadapter.NewFilteredAdapter(pp)
	} else {
		a = fileadapter.NewAdapter(pp)
	}
	e, err := casbin.NewSyncedEnforcer(mp, a)
	if err != nil {
		fmt.Printf("C12-HARNESS-BUG scenario=%s cannot build the enforcer: %v\n", cfg.name, err)
		t.Fatalf("cannot build enforcer: %v", err)
	}
	if cfg.filtered {
		if err := e.LoadPolicy(); err != nil {
			fmt.Printf("C12-HARNESS-BUG scenario=%s initial LoadPolicy: %v\n", cfg.name, err)
			t.Fatalf("initial LoadPolicy: %v", err)
		}
	}
	if cfg.pattern {
		// unwrapped method: only before the concurrent phase
		e.AddNamedMatchingFunc("g", "c12match", patternMatch)
	}
	return e
}

// stopLoader stops the auto-loader and waits (bounded) until it is gone.
func stopLoader(t *testing.T, scenario string, e *casbin.SyncedEnforcer) {
	limit := time.Now().Add(5 * time.Second)
	for {
		e.StopAutoLoadPolicy()
		if !e.IsAutoLoadingRunning() {
			return
		}
		if time.Now().After(limit) {
			fmt.Printf("C12-DEADLOCK %s auto-loader still running 5s after StopAutoLoadPolicy\n", scenario)
			t.Errorf("auto-loader did not stop")
			return
		}
		time.Sleep(time.Millisecond)
	}
}

type watchdog struct{ done chan struct{} }

func startWatchdog(scenario string, limit time.Duration, slots []int32) *watchdog {
	w := &watchdog{done: make(chan struct{})}
	go func() {
		select {
		case <-w.done:
			return
		case <-time.After(limit):
		}
		// past the planned end: a deadlock only if no wrapper call completes for a whole stall
		// window (a loaded machine makes the last calls late, it does not stop them); give up
		// after a hard cap in any case
		const stall = 20 * time.Second
		hard := time.Now().Add(5 * time.Minute)
		for {
			before := atomic.LoadUint64(&wdProgress)
			select {
			case <-w.done:
				return
			case <-time.After(stall):
			}
			if atomic.LoadUint64(&wdProgress) != before && time.Now().Before(hard) {
				fmt.Printf("C12-INFO %s late: workers still completing calls after the planned end (slow machine), waiting\n", scenario)
				continue
			}
			break
		}
		var b strings.Builder
		fmt.Fprintf(&b, "C12-DEADLOCK %s workers did not return within %v and no call completed for %v;", scenario, limit, stall)
		for i := range slots {
			s := atomic.LoadInt32(&slots[i])
			name := "-"
			if s > 0 && int(s) <= len(specs) {
				name = specs[s-1].Name
			}
			fmt.Fprintf(&b, " w%d:%s", i, name)
		}
		fmt.Println(b.String())
		// where everybody is: the frames that matter for a replay
		buf := make([]byte, 1<<20)
		n := runtime.Stack(buf, true)
		kept := 0
		for _, ln := range strings.Split(string(buf[:n]), "\n") {
			if strings.HasPrefix(ln, "goroutine ") || strings.Contains(ln, "casbin") || strings.Contains(ln, "sync.(*RWMutex)") || strings.Contains(ln, "sync.(*Mutex)") {
				if !strings.HasPrefix(ln, "\t") {
					fmt.Println("C12-STACK " + ln)
					kept++
					if kept > 400 {
						break
					}
				}
			}
		}
		os.Exit(3)
	}()
	return w
}

func (w *watchdog) stop() { close(w.done) }

func emit(scenario string, counts map[string]int64) {
	names := make([]string, 0, len(counts))
	var total int64
	for n, c := range counts {
		if c > 0 {
			names = append(names, n)
			total += c
		}
	}
	sort.Strings(names)
	for _, n := range names {
		fmt.Printf("C12-METHOD %s %s %d\n", scenario, n, counts[n])
	}
	fmt.Printf("C12-SCENARIO %s DONE calls=%d methods=%d\n", scenario, total, len(names))
}

func allowed(cfg *mixCfg) []int {
	var out []int
	for i := range specs {
		n := specs[i].Name
		if cfg.exclude[n] || (!cfg.kind.domain && domainOnly[n]) {
			continue
		}
		out = append(out, i)
	}
	return out
}

// dryRun calls every allowed method a few times SEQUENTIALLY on a throw-away enforcer: argument
// construction problems surface here as C12-HARNESS-BUG before any goroutine is started.
func dryRun(t *testing.T, cfg *mixCfg, ec envCfg, scIdx int) bool {
	r := &runner{t: t, scenario: cfg.name}
	e := build(t, cfg)
	ev := reflect.ValueOf(e)
	g := &gen{cfg: cfg, rng: rand.New(rand.NewSource(mixSeed(ec.seed, scIdx, 999, 0)))}
	idx := allowed(cfg)
	slot := make([]int32, 1)
	wd := startWatchdog(cfg.name+" (sequential dry run)", 30*time.Second, slot)
	defer wd.stop()
	for pass := 0; pass < 3; pass++ {
		for _, si := range idx {
			c, ok := r.prepare(ev, si, g)
			if !ok {
				return false
			}
			r.run(c, &slot[0])
		}
	}
	stopLoader(t, cfg.name, e)
	return atomic.LoadInt32(&r.abort) == 0
}

// ---------------------------------------------------------------- random-mix scenarios

func runMix(t *testing.T, cfg *mixCfg, ec envCfg, scIdx int) {
	fmt.Printf("C12-SCENARIO %s START seed=%d millis=%d workers=%d\n", cfg.name, ec.seed, ec.millis, ec.workers)
	if !dryRun(t, cfg, ec, scIdx) {
		return
	}
	r := &runner{t: t, scenario: cfg.name}
	e := build(t, cfg)
	ev := reflect.ValueOf(e)
	idx := allowed(cfg)
	methods := make([]reflect.Value, len(specs))
	cum := make([]int, len(idx))
	total := 0
	for j, si := range idx {
		methods[si] = ev.MethodByName(specs[si].Name)
		total += weight(specs[si].Name)
		cum[j] = total
	}
	if cfg.autoDur > 0 {
		e.StartAutoLoadPolicy(cfg.autoDur)
	}
	dur := time.Duration(ec.millis) * time.Millisecond
	slots := make([]int32, ec.workers)
	counts := make([][]int64, ec.workers)
	wd := startWatchdog(cfg.name, dur+10*time.Second, slots)
	deadline := time.Now().Add(dur)
	var wg sync.WaitGroup
	start := make(chan struct{})
	for w := 0; w < ec.workers; w++ {
		counts[w] = make([]int64, len(specs))
		wg.Add(1)
		go func(w int) {
			defer wg.Done()
			g := &gen{cfg: cfg, rng: rand.New(rand.NewSource(mixSeed(ec.seed, scIdx, w, 1)))}
			mine := counts[w]
			rr := &rereader{}
			defer rr.finish()
			<-start
			for time.Now().Before(deadline) && atomic.LoadInt32(&r.abort) == 0 {
				x := g.rng.Intn(total)
				j := sort.SearchInts(cum, x+1)
				si := idx[j]
				sp := &specs[si]
				args, err := g.args(sp, methods[si].Type())
				if err == nil {
					err = validate(methods[si].Type(), args)
				}
				if err != nil {
					r.harnessBug(sp.Name, err)
					return
				}
				out := r.run(call{si, methods[si], args}, &slots[w])
				rr.after(out, g.rng)
				mine[si]++
			}
		}(w)
	}
	close(start)
	wg.Wait()
	wd.stop()
	stopLoader(t, cfg.name, e)
	sum := map[string]int64{}
	for w := range counts {
		for si, c := range counts[w] {
			sum[specs[si].Name] += c
		}
	}
	emit(cfg.name, sum)
}

// ---------------------------------------------------------------- firstcall (shape of F18)

var firstCallCore = []string{"GetAllSubjects", "GetAllObjects", "GetAllActions", "GetAllRoles", "GetImplicitUsersForPermission",
	"GetPermissionsForUser", "GetImplicitPermissionsForUser", "Enforce", "EnforceEx", "GetFilteredPolicy", "GetAllNamedSubjects",
	"GetNamedImplicitPermissionsForUser", "BatchEnforce", "HasPolicy", "GetImplicitRolesForUser", "LoadPolicy"}

func runFirstCall(t *testing.T, ec envCfg, scIdx int) {
	const name = "firstcall"
	fmt.Printf("C12-SCENARIO %s START seed=%d millis=%d workers=%d\n", name, ec.seed, ec.millis, ec.workers)
	r := &runner{t: t, scenario: name}
	dir := t.TempDir()
	kinds := []*kind{kindPlain, kindDomains, kindPriority}
	cfgs := make([]*mixCfg, len(kinds))
	paths := make([]string, len(kinds))
	readers := make([][]int, len(kinds)) // read-lock-only wrappers valid for the kind
	core := make([][]int, len(kinds))
	for i, k := range kinds {
		cfgs[i] = &mixCfg{name: name, kind: k, pools: basePools}
		paths[i] = filepath.Join(dir, k.name+".csv")
		writeFile(t, paths[i], k.policy)
		for si := range specs {
			n := specs[si].Name
			if !k.domain && domainOnly[n] {
				continue
			}
			if specs[si].Lock == "r" {
				readers[i] = append(readers[i], si)
			}
			for _, c := range firstCallCore {
				if c == n {
					core[i] = append(core[i], si)
				}
			}
		}
		if len(readers[i]) == 0 || len(core[i]) == 0 {
			r.harnessBug("-", fmt.Errorf("no read-lock wrappers found for kind %s", k.name))
			return
		}
	}
	dur := time.Duration(ec.millis) * time.Millisecond
	counts := make([][]int64, ec.workers)
	for w := range counts {
		counts[w] = make([]int64, len(specs))
	}
	wd := startWatchdog(name, dur+10*time.Second, nil)
	deadline := time.Now().Add(dur)
	rounds := 0
	for ; time.Now().Before(deadline) && atomic.LoadInt32(&r.abort) == 0; rounds++ {
		ki := rounds % len(kinds)
		m, err := model.NewModelFromString(kinds[ki].text)
		if err != nil {
			r.harnessBug("-", err)
			break
		}
		e, err := casbin.NewSyncedEnforcer(m, fileadapter.NewAdapter(paths[ki]))
		if err != nil {
			r.harnessBug("-", err)
			break
		}
		ev := reflect.ValueOf(e)
		var ready, done sync.WaitGroup
		start := make(chan struct{})
		for w := 0; w < ec.workers; w++ {
			ready.Add(1)
			done.Add(1)
			go func(w, round int) {
				defer done.Done()
				g := &gen{cfg: cfgs[ki], rng: rand.New(rand.NewSource(mixSeed(ec.seed, scIdx, w, round+2)))}
				calls := make([]call, 0, 3)
				ok := true
				for j := 0; j < 3 && ok; j++ {
					pool := readers[ki]
					if (j == 0 && w%4 != 3) || g.rng.Intn(3) == 0 {
						pool = core[ki]
					}
					var c call
					c, ok = r.prepare(ev, pool[g.rng.Intn(len(pool))], g)
					calls = append(calls, c)
				}
				ready.Done()
				<-start
				if !ok {
					return
				}
				rr := &rereader{}
				for _, c := range calls {
					rr.after(r.run(c, nil), g.rng)
					counts[w][c.si]++
				}
				rr.finish()
			}(w, rounds)
		}
		ready.Wait()
		close(start) // the first call of every goroutine on the fresh enforcer happens here
		done.Wait()
	}
	wd.stop()
	sum := map[string]int64{}
	for w := range counts {
		for si, c := range counts[w] {
			sum[specs[si].Name] += c
		}
	}
	fmt.Printf("C12-INFO %s rounds=%d\n", name, rounds)
	emit(name, sum)
}

// ---------------------------------------------------------------- filtered-load (shape of F36)

type hits struct{ m map[string]*int64 }

func newHits() *hits {
	h := &hits{m: map[string]*int64{}}
	for i := range specs {
		h.m[specs[i].Name] = new(int64)
	}
	return h
}

func (h *hits) hit(name string) {
	if p := h.m[name]; p != nil {
		atomic.AddInt64(p, 1)
	}
}

func (h *hits) counts() map[string]int64 {
	out := map[string]int64{}
	for n, p := range h.m {
		out[n] = atomic.LoadInt64(p)
	}
	return out
}

// guard runs f with the panic reporting of safeCall
func (r *runner) guard(method string, f func()) {
	defer func() {
		if p := recover(); p != nil {
			fmt.Printf("C12-PANIC %s %s %v\n%s\n", r.scenario, method, p, debug.Stack())
			r.t.Errorf("panic escaped SyncedEnforcer.%s: %v", method, p)
		}
	}()
	f()
}

func runFilteredLoad(t *testing.T, ec envCfg, scIdx int) {
	const name = "filtered-load"
	fmt.Printf("C12-SCENARIO %s START seed=%d millis=%d\n", name, ec.seed, ec.millis)
	r := &runner{t: t, scenario: name}
	h := newHits()
	dir := t.TempDir()
	kinds := []*kind{kindPlain, kindDomains}
	dur := time.Duration(ec.millis/2) * time.Millisecond
	wd := startWatchdog(name, dur+60*time.Second, nil)
	deadline := time.Now().Add(dur)
	rounds := 0
	for ; rounds == 0 || time.Now().Before(deadline); rounds++ {
		k := kinds[rounds%len(kinds)]
		pp := filepath.Join(dir, fmt.Sprintf("policy%d.csv", rounds))
		writeFile(t, pp, k.policy)
		m, err := model.NewModelFromString(k.text)
		if err != nil {
			r.harnessBug("-", err)
			break
		}
		e, err := casbin.NewSyncedEnforcer(m, fileadapter.NewFilteredAdapter(pp))
		if err != nil {
			r.harnessBug("-", err)
			break
		}
		cfg := &mixCfg{name: name, kind: k, pools: basePools, filtered: true}
		var loaders, others sync.WaitGroup
		var loadersDone int32
		start := make(chan struct{})
		if rounds%2 == 1 {
			e.StartAutoLoadPolicy(2 * time.Millisecond) // the auto-loader is one more concurrent LoadPolicy caller
			h.hit("StartAutoLoadPolicy")
		}
		for w := 0; w < 8; w++ {
			loaders.Add(1)
			go func() {
				defer loaders.Done()
				<-start
				for i := 0; i < 50; i++ {
					r.guard("LoadPolicy", func() { _ = e.LoadPolicy() })
					h.hit("LoadPolicy")
				}
			}()
		}
		for w := 0; w < 6; w++ {
			others.Add(1)
			go func(w int) {
				defer others.Done()
				g := &gen{cfg: cfg, rng: rand.New(rand.NewSource(mixSeed(ec.seed, scIdx, w, rounds+2)))}
				<-start
				for i := 0; atomic.LoadInt32(&loadersDone) == 0; i++ {
					switch (i + w) % 6 {
					case 0:
						r.guard("Enforce", func() { _, _ = e.Enforce(g.request()...) })
						h.hit("Enforce")
					case 1:
						r.guard("GetPolicy", func() { _, _ = e.GetPolicy() })
						h.hit("GetPolicy")
					case 2:
						r.guard("GetAllSubjects", func() { _, _ = e.GetAllSubjects() })
						h.hit("GetAllSubjects")
					case 3:
						r.guard("HasPolicy", func() { _, _ = e.HasPolicy(g.rule("p")) })
						h.hit("HasPolicy")
					case 4:
						r.guard("GetImplicitPermissionsForUser", func() { _, _ = e.GetImplicitPermissionsForUser(g.val("sub")) })
						h.hit("GetImplicitPermissionsForUser")
					case 5:
						r.guard("AddPolicy", func() { _, _ = e.AddPolicy(g.rule("p")) })
						h.hit("AddPolicy")
					}
				}
			}(w)
		}
		for w := 0; w < 2; w++ {
			others.Add(1)
			go func(w int) {
				defer others.Done()
				g := &gen{cfg: cfg, rng: rand.New(rand.NewSource(mixSeed(ec.seed, scIdx, 100+w, rounds+2)))}
				<-start
				for i := 0; atomic.LoadInt32(&loadersDone) == 0; i++ {
					f := &fileadapter.Filter{P: []string{g.val("sub")}}
					switch (i + w) % 4 {
					case 0:
						r.guard("LoadFilteredPolicy", func() { _ = e.LoadFilteredPolicy(f) })
						h.hit("LoadFilteredPolicy")
					case 1:
						r.guard("LoadIncrementalFilteredPolicy", func() { _ = e.LoadIncrementalFilteredPolicy(f) })
						h.hit("LoadIncrementalFilteredPolicy")
					case 2:
						r.guard("SavePolicy", func() { _ = e.SavePolicy() })
						h.hit("SavePolicy")
					case 3:
						r.guard("LoadFilteredPolicy", func() { _ = e.LoadFilteredPolicy(nil) })
						h.hit("LoadFilteredPolicy")
					}
					time.Sleep(200 * time.Microsecond)
				}
			}(w)
		}
		close(start)
		loaders.Wait()
		atomic.StoreInt32(&loadersDone, 1)
		others.Wait()
		stopLoader(t, name, e)
		h.hit("StopAutoLoadPolicy")
		h.hit("IsAutoLoadingRunning")
	}
	wd.stop()
	fmt.Printf("C12-INFO %s rounds=%d\n", name, rounds)
	emit(name, h.counts())
}

// ---------------------------------------------------------------- getter-alias (shape of F38)

// Readers keep reading the rule lists handed out by the getters AFTER the call returned, while
// writers add, remove (the removal shifts the tail of the model's slice in place) and update
// (overwrites one slot in place) rules. A getter that returns the model's own slice makes the
// readers' element reads race with those in-place writes.
func runGetterAlias(t *testing.T, ec envCfg, scIdx int) {
	const name = "getter-alias"
	fmt.Printf("C12-SCENARIO %s START seed=%d millis=%d\n", name, ec.seed, ec.millis*3/4)
	r := &runner{t: t, scenario: name}
	h := newHits()
	const nWriters, nReaders = 8, 8
	// every writer owns a few rules; they start present and interleaved, ~6+8*3=30 p rules at most
	own := make([][][]string, nWriters)
	ownG := make([][][]string, nWriters)
	policy := "p, alice, data1, read\np, bob, data2, write\np, admin, data1, write\np, role1, data2, read\np, role1, /res/1, read\np, carol, data1, read\ng, alice, admin\ng, bob, role1\n"
	for w := 0; w < nWriters; w++ {
		a, b, c := fmt.Sprintf("w%da", w), fmt.Sprintf("w%db", w), fmt.Sprintf("w%dc", w)
		own[w] = [][]string{{a, "data1", "read"}, {a, "data2", "write"}, {b, "data1", "write"}, {b, "/res/1", "read"}, {c, "data2", "read"}, {c, "data1", "read"}}
		ownG[w] = [][]string{{a, "role1"}, {b, "admin"}, {c, "role1"}}
	}
	for i := 0; i < 3; i++ { // the first three rules of every writer are in the file, interleaved
		for w := 0; w < nWriters; w++ {
			policy += "p, " + strings.Join(own[w][i], ", ") + "\n"
		}
	}
	dir := t.TempDir()
	mp, pp := filepath.Join(dir, "model.conf"), filepath.Join(dir, "policy.csv")
	writeFile(t, mp, kindPlain.text)
	writeFile(t, pp, policy)
	e, err := casbin.NewSyncedEnforcer(mp, fileadapter.NewAdapter(pp))
	if err != nil {
		r.harnessBug("-", err)
		return
	}
	dur := time.Duration(ec.millis*3/4) * time.Millisecond
	wd := startWatchdog(name, dur+10*time.Second, nil)
	deadline := time.Now().Add(dur)
	var wg sync.WaitGroup
	start := make(chan struct{})
	for w := 0; w < nWriters; w++ {
		wg.Add(1)
		go func(w int) {
			defer wg.Done()
			rng := rand.New(rand.NewSource(mixSeed(ec.seed, scIdx, w, 7)))
			present := []bool{true, true, true, false, false, false}
			presentG := []bool{false, false, false}
			find := func(ps []bool, want bool) int {
				off := rng.Intn(len(ps))
				for k := range ps {
					if i := (off + k) % len(ps); ps[i] == want {
						return i
					}
				}
				return -1
			}
			<-start
			for time.Now().Before(deadline) {
				switch rng.Intn(9) {
				case 0, 1:
					if i := find(present, false); i >= 0 {
						r.guard("AddPolicy", func() { _, _ = e.AddPolicy(own[w][i]) })
						h.hit("AddPolicy")
						present[i] = true
					}
				case 2, 3:
					if i := find(present, true); i >= 0 {
						r.guard("RemovePolicy", func() { _, _ = e.RemovePolicy(own[w][i]) })
						h.hit("RemovePolicy")
						present[i] = false
					}
				case 4, 5:
					i, j := find(present, true), find(present, false)
					if i >= 0 && j >= 0 {
						r.guard("UpdatePolicy", func() { _, _ = e.UpdatePolicy(own[w][i], own[w][j]) })
						h.hit("UpdatePolicy")
						present[i], present[j] = false, true
					}
				case 6:
					if i := find(presentG, false); i >= 0 {
						r.guard("AddGroupingPolicy", func() { _, _ = e.AddGroupingPolicy(ownG[w][i]) })
						h.hit("AddGroupingPolicy")
						presentG[i] = true
					}
				case 7:
					if i := find(presentG, true); i >= 0 {
						r.guard("RemoveGroupingPolicy", func() { _, _ = e.RemoveGroupingPolicy(ownG[w][i]) })
						h.hit("RemoveGroupingPolicy")
						presentG[i] = false
					}
				case 8:
					sub := own[w][2*rng.Intn(3)][0]
					r.guard("RemoveFilteredPolicy", func() { _, _ = e.RemoveFilteredPolicy(0, sub) })
					h.hit("RemoveFilteredPolicy")
					for i := range present {
						if own[w][i][0] == sub {
							present[i] = false
						}
					}
				}
			}
		}(w)
	}
	for rd := 0; rd < nReaders; rd++ {
		wg.Add(1)
		go func(rd int) {
			defer wg.Done()
			rng := rand.New(rand.NewSource(mixSeed(ec.seed, scIdx, 100+rd, 7)))
			f := &folder{}
			<-start
			for i := 0; time.Now().Before(deadline); i++ {
				var rules [][]string
				var one []string
				w := rng.Intn(nWriters)
				rule := own[w][rng.Intn(len(own[w]))]
				switch (i + rd) % 7 {
				case 0:
					r.guard("GetPolicy", func() { rules, _ = e.GetPolicy() })
					h.hit("GetPolicy")
				case 1:
					r.guard("GetNamedPolicy", func() { rules, _ = e.GetNamedPolicy("p") })
					h.hit("GetNamedPolicy")
				case 2:
					r.guard("GetGroupingPolicy", func() { rules, _ = e.GetGroupingPolicy() })
					h.hit("GetGroupingPolicy")
				case 3:
					r.guard("GetNamedGroupingPolicy", func() { rules, _ = e.GetNamedGroupingPolicy("g") })
					h.hit("GetNamedGroupingPolicy")
				case 4:
					r.guard("GetFilteredPolicy", func() { rules, _ = e.GetFilteredPolicy(0, rule[0]) })
					h.hit("GetFilteredPolicy")
				case 5:
					r.guard("GetPermissionsForUser", func() { rules, _ = e.GetPermissionsForUser(rule[0]) })
					h.hit("GetPermissionsForUser")
				case 6:
					r.guard("EnforceEx", func() { _, one, _ = e.EnforceEx(rule[0], rule[1], rule[2]) })
					h.hit("EnforceEx")
				}
				// the caller keeps using the result for ~100 microseconds after the lock is gone
				t0 := time.Now()
				for {
					f.sum = f.sum*31 + uint64(len(rules))
					for _, ru := range rules {
						f.sum += uint64(len(ru))
						for _, s := range ru {
							f.str(s)
						}
					}
					for _, s := range one {
						f.str(s)
					}
					if time.Since(t0) > 100*time.Microsecond {
						break
					}
				}
			}
			atomic.AddUint64(&sink, f.sum)
		}(rd)
	}
	close(start)
	wg.Wait()
	wd.stop()
	emit(name, h.counts())
}

// ---------------------------------------------------------------- autoload-stop (shape of F28)

func waitStopped(e *casbin.SyncedEnforcer, limit time.Duration) bool {
	end := time.Now().Add(limit)
	for e.IsAutoLoadingRunning() {
		if time.Now().After(end) {
			return false
		}
		time.Sleep(50 * time.Microsecond)
	}
	return true
}

func runAutoloadStop(t *testing.T, ec envCfg, scIdx int) {
	const name = "autoload-stop"
	fmt.Printf("C12-SCENARIO %s START seed=%d rounds=%d\n", name, ec.seed, ec.stopRounds)
	r := &runner{t: t, scenario: name}
	h := newHits()
	cfg := &mixCfg{name: name, kind: kindPlain, pools: basePools}
	e := build(t, cfg)
	wd := startWatchdog(name, 120*time.Second, nil)
	for i := 0; i < ec.stopRounds; i++ {
		d := time.Hour
		if i%4 == 3 {
			d = time.Millisecond // the loader is really inside LoadPolicy while the stops arrive
		}
		r.guard("StartAutoLoadPolicy", func() { e.StartAutoLoadPolicy(d) })
		h.hit("StartAutoLoadPolicy")
		if i%4 == 3 {
			time.Sleep(3 * time.Millisecond)
		}
		done := make(chan struct{}, 8)
		start := make(chan struct{})
		for j := 0; j < 8; j++ {
			go func() {
				<-start
				r.guard("StopAutoLoadPolicy", func() { e.StopAutoLoadPolicy() })
				h.hit("StopAutoLoadPolicy")
				done <- struct{}{}
			}()
		}
		close(start)
		timeout := time.After(2 * time.Second)
		stuck := false
		for j := 0; j < 8 && !stuck; j++ {
			select {
			case <-done:
			case <-timeout:
				stuck = true
			}
		}
		if stuck {
			fmt.Printf("C12-DEADLOCK %s round=%d: 8 concurrent StopAutoLoadPolicy calls did not all return within 2s\n", name, i)
			t.Errorf("concurrent StopAutoLoadPolicy blocked (round %d)", i)
			break
		}
		h.hit("IsAutoLoadingRunning")
		if !waitStopped(e, 2*time.Second) {
			fmt.Printf("C12-DEADLOCK %s round=%d: auto-loader still running 2s after 8 StopAutoLoadPolicy calls\n", name, i)
			t.Errorf("auto-loader did not stop (round %d)", i)
			break
		}
		// it must be possible to start again and to stop again with a single call
		r.guard("StartAutoLoadPolicy", func() { e.StartAutoLoadPolicy(time.Hour) })
		h.hit("StartAutoLoadPolicy")
		if !e.IsAutoLoadingRunning() {
			fmt.Printf("C12-FAULT %s round=%d: IsAutoLoadingRunning()==false right after StartAutoLoadPolicy\n", name, i)
			t.Errorf("auto-loader not running after start (round %d)", i)
			break
		}
		one := make(chan struct{})
		go func() {
			r.guard("StopAutoLoadPolicy", func() { e.StopAutoLoadPolicy() })
			h.hit("StopAutoLoadPolicy")
			close(one)
		}()
		select {
		case <-one:
		case <-time.After(2 * time.Second):
			fmt.Printf("C12-DEADLOCK %s round=%d: a single StopAutoLoadPolicy did not return within 2s\n", name, i)
			t.Errorf("single StopAutoLoadPolicy blocked (round %d)", i)
			stuck = true
		}
		if stuck {
			break
		}
		if !waitStopped(e, 2*time.Second) {
			fmt.Printf("C12-DEADLOCK %s round=%d: auto-loader still running 2s after a single StopAutoLoadPolicy\n", name, i)
			t.Errorf("auto-loader did not stop after single stop (round %d)", i)
			break
		}
	}
	wd.stop()
	emit(name, h.counts())
}

// ---------------------------------------------------------------- the test

type scenario struct {
	name string
	run  func(t *testing.T, ec envCfg, idx int)
}

func mix(cfg *mixCfg) func(t *testing.T, ec envCfg, idx int) {
	return func(t *testing.T, ec envCfg, idx int) { runMix(t, cfg, ec, idx) }
}

func scenarios() []scenario {
	return []scenario{
		{"plain", mix(&mixCfg{name: "plain", kind: kindPlain, pools: basePools})},
		{"domains", mix(&mixCfg{name: "domains", kind: kindDomains, pools: basePools, shortDur: true})},
		// LoadModel would replace the role manager and drop the matching function: excluded here only
		{"pattern", mix(&mixCfg{name: "pattern", kind: kindPattern, pools: patternPools, pattern: true, exclude: map[string]bool{"LoadModel": true}})},
		{"firstcall", runFirstCall},
		{"filtered-load", runFilteredLoad},
		{"getter-alias", runGetterAlias},
		// SavePolicy excluded: rules written by AddPermissionForUser have a non-numeric priority column,
		// saving them would make every later LoadPolicy fail at once and leave it unexercised
		{"priority", mix(&mixCfg{name: "priority", kind: kindPriority, pools: basePools, exclude: map[string]bool{"SavePolicy": true}})},
		{"autoload-stop", runAutoloadStop},
		// StopAutoLoadPolicy is left out of the mix so that the 5ms loader keeps running LoadPolicy throughout
		{"autoload-run", mix(&mixCfg{name: "autoload-run", kind: kindDomains, pools: basePools, filtered: true, autoDur: 5 * time.Millisecond, shortDur: true, exclude: map[string]bool{"StopAutoLoadPolicy": true}})},
	}
}

func TestC12(t *testing.T) {
	ec := envCfg{
		seed:       envInt("C12_SEED", 1),
		millis:     int(envInt("C12_MILLIS", 2000)),
		workers:    int(envInt("C12_WORKERS", 16)),
		stopRounds: int(envInt("C12_STOP_ROUNDS", 100)),
	}
	sel := os.Getenv("C12_SCENARIO")
	want := func(n string) bool {
		if sel == "" || sel == "all" {
			return true
		}
		for _, s := range strings.Split(sel, ",") {
			if strings.TrimSpace(s) == n {
				return true
			}
		}
		return false
	}
	for i, sc := range scenarios() {
		if !want(sc.name) {
			continue
		}
		sc, idx := sc, i
		t.Run(sc.name, func(t *testing.T) { sc.run(t, ec, idx) })
	}
}
`
