package main

import (
	"fmt"
	"sort"
	"strings"

	"github.com/casbin/casbin/v2/rbac"
	defaultrolemanager "github.com/casbin/casbin/v2/rbac/default-role-manager"
	"github.com/casbin/casbin/v2/util"
)

// C05G: the default role managers as pointer structures.  Drives the REAL
// defaultrolemanager.NewRoleManagerImpl / NewRoleManager / NewDomainManager directly (no enforcer)
// with generated histories of AddLink / DeleteLink / HasLink / GetRoles / GetUsers / Clear /
// AddMatchingFunc / AddDomainMatchingFunc / BuildRelationship / GetDomains / GetAllDomains and prints,
// after every call, the result and the full observable state.  The driver ocaml/rolegraph computes
// the same lines from the structural Coq model (coq/RoleGraph.v).  The matching functions reach
// the model as oracle tables recorded here from the real Go functions over the case's universe.

type c05gCase struct {
	kind    string // impl | rm | dm
	level   int
	from    int // full state printed for steps >= from (results are printed for every step)
	names   []string
	domains []string // dm only (rm: the default domain "")
	mf      func(a, b string) bool
	dmf     func(a, b string) bool
	ops     [][]string
}

func c05gTable(f func(a, b string) bool, univ []string) string {
	var items []string
	if f != nil {
		for _, a := range univ {
			for _, b := range univ {
				if f(a, b) {
					items = append(items, L(Q(a), Q(b)))
				}
			}
		}
	}
	return strings.Join(items, " ")
}

func c05gSortedQL(ss []string) string { return QL(sortedStrings(ss)) }

// every name / domain an op mentions has to be in the oracle universes
func c05gUniverse(cs c05gCase) (names, domains []string) {
	ns, ds := map[string]bool{}, map[string]bool{}
	for _, n := range cs.names {
		ns[n] = true
	}
	for _, d := range cs.domains {
		ds[d] = true
	}
	ds[""] = true
	for _, o := range cs.ops {
		switch o[0] {
		case "add", "del", "has", "build":
			ns[o[1]], ns[o[2]] = true, true
			if len(o) > 3 {
				ds[o[3]] = true
			}
		case "roles", "users":
			ns[o[1]] = true
			if len(o) > 2 {
				ds[o[2]] = true
			}
		case "domains":
			ns[o[1]] = true
		}
	}
	for n := range ns {
		names = append(names, n)
	}
	for d := range ds {
		domains = append(domains, d)
	}
	sort.Strings(names)
	sort.Strings(domains)
	return
}

func c05gNew(cs c05gCase) rbac.RoleManager {
	switch cs.kind {
	case "impl":
		return defaultrolemanager.NewRoleManagerImpl(cs.level)
	case "rm":
		return defaultrolemanager.NewRoleManager(cs.level)
	default:
		return defaultrolemanager.NewDomainManager(cs.level)
	}
}

func c05gView(m rbac.RoleManager, names []string, dom []string) string {
	var b strings.Builder
	b.WriteString("h=")
	for _, u := range names {
		for _, r := range names {
			ok, err := m.HasLink(u, r, dom...)
			if err != nil {
				b.WriteString("E")
			} else {
				b.WriteString(B(ok))
			}
		}
	}
	lst := func(f func(string, ...string) ([]string, error)) string {
		var items []string
		for _, u := range names {
			l, err := f(u, dom...)
			if err != nil {
				items = append(items, "err")
			} else {
				items = append(items, c05gSortedQL(l))
			}
		}
		return strings.Join(items, ",")
	}
	b.WriteString(" r=" + lst(m.GetRoles))
	b.WriteString(" u=" + lst(m.GetUsers))
	return b.String()
}

func c05gLinks(m *defaultrolemanager.RoleManagerImpl) [][]string {
	var ls [][]string
	m.Range(func(a, b string, _ ...string) bool {
		ls = append(ls, []string{a, b})
		return true
	})
	return ls
}

func c05gState(cs c05gCase, m rbac.RoleManager) string {
	switch cs.kind {
	case "impl":
		return c05gView(m, cs.names, nil) + " l=" + sortedRulesKey(c05gLinks(m.(*defaultrolemanager.RoleManagerImpl)))
	default:
		var parts []string
		doms := cs.domains
		if cs.kind == "rm" {
			doms = []string{""}
		}
		for _, d := range doms {
			if cs.kind == "rm" {
				parts = append(parts, Q(d)+":"+c05gView(m, cs.names, nil))
			} else {
				parts = append(parts, Q(d)+":"+c05gView(m, cs.names, []string{d}))
			}
		}
		all, _ := m.GetAllDomains()
		var dn []string
		for _, u := range cs.names {
			l, _ := m.GetDomains(u)
			dn = append(dn, c05gSortedQL(l))
		}
		return strings.Join(parts, " ; ") + " all=" + c05gSortedQL(all) + " dom=" + strings.Join(dn, ",")
	}
}

func c05gApply(cs c05gCase, m rbac.RoleManager, o []string) string {
	es := func(err error) string {
		if err != nil {
			return "err"
		}
		return "ok"
	}
	switch o[0] {
	case "add":
		return es(m.AddLink(o[1], o[2], o[3:]...))
	case "del":
		return es(m.DeleteLink(o[1], o[2], o[3:]...))
	case "build":
		return es(m.BuildRelationship(o[1], o[2], o[3:]...))
	case "has":
		ok, err := m.HasLink(o[1], o[2], o[3:]...)
		return B(ok) + " " + es(err)
	case "roles":
		l, err := m.GetRoles(o[1], o[2:]...)
		return c05gSortedQL(l) + " " + es(err)
	case "users":
		l, err := m.GetUsers(o[1], o[2:]...)
		return c05gSortedQL(l) + " " + es(err)
	case "clear":
		return es(m.Clear())
	case "addmf":
		m.AddMatchingFunc("fn", cs.mf)
		return "ok"
	case "adddmf":
		m.AddDomainMatchingFunc("fn", cs.dmf)
		return "ok"
	case "domains":
		l, err := m.GetDomains(o[1])
		return c05gSortedQL(l) + " " + es(err)
	case "alldomains":
		l, err := m.GetAllDomains()
		return c05gSortedQL(l) + " " + es(err)
	}
	panic("c05g: bad op " + o[0])
}

// runs one case on a fresh real manager; returns the final observable state
func c05gRun(c *Ctx, id string, cs c05gCase) (final string) {
	un, ud := c05gUniverse(cs)
	var ops []string
	usesMF := false
	for _, o := range cs.ops {
		ops = append(ops, QL(o))
		c.Count(cs.kind + "." + o[0])
		if o[0] == "addmf" || o[0] == "adddmf" {
			usesMF = true
		}
	}
	c.Case(id, fmt.Sprintf("%s %d %d (names %s) (domains %s) (mf %s) (dmf %s) (ops %s)", cs.kind, cs.level, cs.from,
		strings.Join(c05gQs(cs.names), " "), strings.Join(c05gQs(cs.domains), " "),
		c05gTable(cs.mf, un), c05gTable(cs.dmf, ud), strings.Join(ops, " ")))
	m := c05gNew(cs)
	k := 0
	defer func() {
		if r := recover(); r != nil {
			// a panic escaping the role manager: recorded as the observable of this step (the model never panics)
			c.Obs(id, fmt.Sprintf("%d.res", k), "panic")
			final = "panic"
		}
	}()
	for ; k < len(cs.ops); k++ {
		res := c05gApply(cs, m, cs.ops[k])
		c.Obs(id, fmt.Sprintf("%d.res", k), res)
		if k >= cs.from {
			final = c05gState(cs, m)
			c.Obs(id, fmt.Sprintf("%d.st", k), final)
		}
	}
	// the property's own predicate on the implementation alone (plain manager, no matching function):
	// the incrementally maintained structure answers like one rebuilt from its own links
	if impl, ok := m.(*defaultrolemanager.RoleManagerImpl); ok && !usesMF {
		fresh := defaultrolemanager.NewRoleManagerImpl(cs.level)
		for _, l := range c05gLinks(impl) {
			_ = fresh.AddLink(l[0], l[1])
		}
		if a, b := c05gView(impl, cs.names, nil), c05gView(fresh, cs.names, nil); a != b {
			c.Direct(id, "RoleManagerImpl after the history answers differently from a fresh one holding the same links (Range)", fmt.Sprintf("ops=%s incremental=%s rebuilt=%s", strings.Join(ops, " "), a, b))
		}
	}
	return final
}

func c05gQs(ss []string) []string {
	out := make([]string, len(ss))
	for i, s := range ss {
		out[i] = Q(s)
	}
	return out
}

// breadth-first enumeration of the observable state space: every reachable state x every call of
// the alphabet is one case (the path to the state followed by the call); a state is expanded once.
// hidden: the names touched since the last Clear are part of the state key (they stay registered
// in allRoles and take part in pattern matching without being visible in the listings).
func c05gEnum(c *Ctx, tag string, base c05gCase, root [][]string, alphabet [][]string, hidden bool, maxStates int) {
	type node struct {
		path [][]string
	}
	touched := func(path [][]string) string {
		t := map[string]bool{}
		for _, o := range path {
			switch o[0] {
			case "add", "del":
				d := ""
				if len(o) > 3 {
					d = o[3]
				}
				t[d+"/"+o[1]], t[d+"/"+o[2]] = true, true
			case "clear":
				t = map[string]bool{}
			}
		}
		var ks []string
		for k := range t {
			ks = append(ks, k)
		}
		sort.Strings(ks)
		mfs := ""
		for _, o := range path {
			if o[0] == "addmf" && !strings.Contains(mfs, "m") {
				mfs += "m"
			}
			if o[0] == "adddmf" && !strings.Contains(mfs, "d") {
				mfs += "d"
			}
		}
		return mfs + "|" + strings.Join(ks, ",")
	}
	seen := map[string]bool{}
	queue := []node{{path: root}}
	nstates := 0
	complete := true
	for len(queue) > 0 {
		n := queue[0]
		queue = queue[1:]
		nstates++
		for ai, a := range alphabet {
			cs := base
			cs.ops = append(append([][]string(nil), n.path...), a)
			cs.from = len(cs.ops) - 2
			if cs.from < 0 {
				cs.from = 0
			}
			id := fmt.Sprintf("c05g.%s.s%d.o%d", tag, nstates, ai)
			key := c05gRun(c, id, cs)
			if hidden {
				key += "#" + touched(cs.ops)
			} else {
				mfs := touched(cs.ops)
				key += "#" + mfs[:strings.Index(mfs, "|")]
			}
			c.NonTrivial(tag + "|" + key + "|" + strings.Join(a, " "))
			if !seen[key] {
				seen[key] = true
				if len(seen) <= maxStates {
					queue = append(queue, node{path: cs.ops})
				} else {
					complete = false
				}
			}
		}
	}
	c.Count(fmt.Sprintf("states.%s=%d", tag, nstates))
	if !complete {
		c.Count("enumeration-capped." + tag)
		c.Exhaust = false
	}
}

func c05gPairs(names []string, self bool) [][2]string {
	var ps [][2]string
	for _, a := range names {
		for _, b := range names {
			if a != b || self {
				ps = append(ps, [2]string{a, b})
			}
		}
	}
	return ps
}

// a random relation on the universe as a matching function.  transitive: closed under
// transitivity.  DomainManager.rebuild (AddDomainMatchingFunc) re-adds the links domain by domain in
// Go's map order and a new domain copies everything its pattern domains hold at that moment, so for a
// NON-transitive domain function the rebuilt content depends on the map order (not comparable, and
// not deterministic in Go); role matching functions have no such restriction.
func c05gTableFn(c *Ctx, univ []string, p float64, transitive bool) func(a, b string) bool {
	t := map[[2]string]bool{}
	for _, a := range univ {
		for _, b := range univ {
			if c.Rng.Float64() < p {
				t[[2]string{a, b}] = true
			}
		}
	}
	for ch := transitive; ch; {
		ch = false
		for _, a := range univ {
			for _, b := range univ {
				for _, d := range univ {
					if t[[2]string{a, b}] && t[[2]string{b, d}] && !t[[2]string{a, d}] {
						t[[2]string{a, d}] = true
						ch = true
					}
				}
			}
		}
	}
	return func(a, b string) bool { return t[[2]string{a, b}] }
}

func c05gRandom(c *Ctx, id string, kind string, names, domains []string, mf, dmf func(a, b string) bool, level, length int, bias [][2]string) {
	cs := c05gCase{kind: kind, level: level, names: names, domains: domains, mf: mf, dmf: dmf}
	pick := func(l []string) string { return l[c.Rng.Intn(len(l))] }
	dom := func() []string {
		if kind == "dm" {
			return []string{pick(domains)}
		}
		return nil
	}
	pair := func() (string, string) {
		if len(bias) > 0 && c.Rng.Intn(4) != 0 {
			p := bias[c.Rng.Intn(len(bias))]
			return p[0], p[1]
		}
		return pick(names), pick(names)
	}
	var added [][]string // links added so far: deletions mostly hit existing links
	mfAt, dmfAt := -1, -1
	if mf != nil {
		mfAt = c.Rng.Intn(length)
		if c.Rng.Intn(2) == 0 {
			mfAt = 0
		}
	}
	if dmf != nil && kind != "impl" {
		dmfAt = c.Rng.Intn(length)
		if c.Rng.Intn(2) == 0 {
			dmfAt = 0
		}
	}
	for k := 0; k < length; k++ {
		if k == mfAt {
			cs.ops = append(cs.ops, []string{"addmf"})
		}
		if k == dmfAt {
			cs.ops = append(cs.ops, []string{"adddmf"})
		}
		x := c.Rng.Intn(100)
		switch {
		case x < 42:
			u, r := pair()
			o := append([]string{"add", u, r}, dom()...)
			added = append(added, o)
			cs.ops = append(cs.ops, o)
		case x < 68:
			if len(added) > 0 && c.Rng.Intn(5) != 0 {
				a := added[c.Rng.Intn(len(added))]
				cs.ops = append(cs.ops, append([]string{"del"}, a[1:]...))
			} else {
				u, r := pair()
				cs.ops = append(cs.ops, append([]string{"del", u, r}, dom()...))
			}
		case x < 76:
			cs.ops = append(cs.ops, append([]string{"has", pick(names), pick(names)}, dom()...))
		case x < 82:
			cs.ops = append(cs.ops, append([]string{"roles", pick(names)}, dom()...))
		case x < 88:
			cs.ops = append(cs.ops, append([]string{"users", pick(names)}, dom()...))
		case x < 91:
			cs.ops = append(cs.ops, []string{"clear"})
			added = nil
		case x < 93:
			cs.ops = append(cs.ops, append([]string{"build", pick(names), pick(names)}, dom()...))
		case x < 95:
			cs.ops = append(cs.ops, []string{"domains", pick(names)})
		case x < 96:
			cs.ops = append(cs.ops, []string{"alldomains"})
		case x < 98 && mf != nil:
			cs.ops = append(cs.ops, []string{"addmf"}) // again: another rebuild
		case x < 100 && dmf != nil && kind != "impl":
			cs.ops = append(cs.ops, []string{"adddmf"})
		default:
			u, r := pair()
			cs.ops = append(cs.ops, append([]string{"add", u, r}, dom()...))
		}
	}
	c05gRun(c, id, cs)
	c.NonTrivial(id)
}

func init() {
	register("C05G", func(c *Ctx) {
		c.Rule = "structural stream: the real RoleManagerImpl / RoleManager / DomainManager driven directly. (1) breadth-first enumeration of the observable state space of tiny universes (plain: 3 link names + an unknown name, all 9 links incl. self links and cycles; KeyMatch role patterns; domain manager 2 names x 2 domains; KeyMatch domain patterns with `*`), every state x every call of the alphabet (AddLink, DeleteLink, HasLink/GetRoles/GetUsers incl. unknown names, Clear, AddMatchingFunc, AddDomainMatchingFunc, BuildRelationship, GetDomains, GetAllDomains); (2) seeded random histories over larger universes (pattern names, chains of 13 names around the level bound, levels 0-3 and 10, matching function registered at the start or in the middle, KeyMatch or a random relation). After every call the result and the full observable state are compared with the extracted structural model. Distinct = (universe, state, call) for the enumeration, one per random history."
		c.Exhaust = true
		th := c.Thorough()
		cap := func(q, t int) int {
			if th {
				return t
			}
			return q
		}
		km := util.KeyMatch

		// ---- (1a) plain RoleManagerImpl, no matching function: names a b c + unknown z
		{
			names := []string{"a", "b", "c"}
			var al [][]string
			for _, p := range c05gPairs(names, true) {
				al = append(al, []string{"add", p[0], p[1]}, []string{"del", p[0], p[1]})
			}
			al = append(al, []string{"has", "a", "b"}, []string{"has", "z", "a"}, []string{"has", "a", "z"}, []string{"has", "z", "y"},
				[]string{"roles", "a"}, []string{"roles", "z"}, []string{"users", "a"}, []string{"users", "z"},
				[]string{"del", "z", "a"}, []string{"del", "a", "z"}, []string{"add", "z", "a"},
				[]string{"clear"}, []string{"build", "a", "b"}, []string{"domains", "a"}, []string{"alldomains"}, []string{"adddmf"})
			base := c05gCase{kind: "impl", level: 10, names: []string{"a", "b", "c", "z"}, dmf: km}
			c05gEnum(c, "plain", base, nil, al, false, cap(700, 5000))
			// the same universe at small hierarchy levels (the level bound is reached by 3 names)
			for _, lv := range []int{0, 1, 2} {
				b2 := base
				b2.level = lv
				var al2 [][]string
				for _, p := range c05gPairs(names, false) {
					al2 = append(al2, []string{"add", p[0], p[1]}, []string{"del", p[0], p[1]})
				}
				al2 = append(al2, []string{"has", "a", "c"}, []string{"clear"})
				c05gEnum(c, fmt.Sprintf("plain-l%d", lv), b2, nil, al2, false, cap(80, 200))
			}
		}
		// ---- (1b) RoleManagerImpl with a role matching function (KeyMatch): patterns of other names
		{
			names := []string{"u", "/a/*", "/a/1"}
			var al [][]string
			for _, p := range c05gPairs(names, true) {
				al = append(al, []string{"add", p[0], p[1]}, []string{"del", p[0], p[1]})
			}
			al = append(al, []string{"has", "/a/2", "u"}, []string{"has", "u", "/a/2"}, []string{"roles", "/a/2"}, []string{"users", "/a/2"},
				[]string{"add", "/a/2", "u"}, []string{"del", "/a/2", "u"}, []string{"del", "u", "/a/2"},
				[]string{"clear"}, []string{"addmf"})
			base := c05gCase{kind: "impl", level: 10, names: []string{"u", "/a/*", "/a/1", "/a/2"}, mf: km}
			c05gEnum(c, "pattern", base, [][]string{{"addmf"}}, al, true, cap(450, 6000))
			// the function registered later: the enumeration starts without it
			c05gEnum(c, "pattern-late", base, nil, al, true, cap(150, 3000))
			if th {
				names4 := []string{"u", "/a/*", "/a/1", "*"}
				var al4 [][]string
				for _, p := range c05gPairs(names4, false) {
					al4 = append(al4, []string{"add", p[0], p[1]}, []string{"del", p[0], p[1]})
				}
				al4 = append(al4, []string{"clear"}, []string{"addmf"})
				b4 := c05gCase{kind: "impl", level: 10, names: names4, mf: km}
				c05gEnum(c, "pattern4", b4, [][]string{{"addmf"}}, al4, true, 4000)
			}
		}
		// ---- (1c) RoleManager (= DomainManager called without a domain), function registered on the way
		{
			names := []string{"a", "b*", "b1"}
			var al [][]string
			for _, p := range c05gPairs(names, false) {
				al = append(al, []string{"add", p[0], p[1]}, []string{"del", p[0], p[1]})
			}
			al = append(al, []string{"add", "a", "a"}, []string{"del", "a", "a"}, []string{"has", "z", "a"}, []string{"roles", "z"}, []string{"users", "b1"},
				[]string{"clear"}, []string{"addmf"}, []string{"adddmf"}, []string{"domains", "a"}, []string{"alldomains"}, []string{"build", "a", "b1"})
			base := c05gCase{kind: "rm", level: 10, names: []string{"a", "b*", "b1", "z"}, mf: km, dmf: km}
			c05gEnum(c, "rm", base, nil, al, true, cap(250, 4000))
		}
		// ---- (1d) DomainManager without matching functions: 2 names x 2 domains + unknown domain d3
		{
			names := []string{"a", "b"}
			doms := []string{"d1", "d2"}
			var al [][]string
			for _, d := range doms {
				for _, p := range c05gPairs(names, true) {
					al = append(al, []string{"add", p[0], p[1], d}, []string{"del", p[0], p[1], d})
				}
			}
			al = append(al, []string{"has", "a", "b", "d3"}, []string{"has", "a", "b", "d1"}, []string{"roles", "a", "d3"}, []string{"users", "b", "d2"},
				[]string{"del", "a", "b", "d3"}, []string{"add", "a", "z", "d3"}, []string{"clear"}, []string{"domains", "a"}, []string{"alldomains"},
				[]string{"build", "a", "b", "d1"})
			base := c05gCase{kind: "dm", level: 10, names: []string{"a", "b", "z"}, domains: []string{"d1", "d2", "d3"}}
			c05gEnum(c, "dom", base, nil, al, false, cap(400, 3000))
		}
		// ---- (1e) DomainManager with a domain matching function (KeyMatch): pattern domain *
		{
			names := []string{"a", "b"}
			doms := []string{"*", "d1", "d2"}
			var al [][]string
			for _, d := range doms {
				for _, p := range c05gPairs(names, false) {
					al = append(al, []string{"add", p[0], p[1], d}, []string{"del", p[0], p[1], d})
				}
			}
			al = append(al, []string{"has", "a", "b", "d3"}, []string{"roles", "a", "d3"}, []string{"del", "a", "b", "d3"},
				[]string{"clear"}, []string{"adddmf"}, []string{"addmf"}, []string{"domains", "a"}, []string{"alldomains"})
			base := c05gCase{kind: "dm", level: 10, names: names, domains: []string{"*", "d1", "d2", "d3"}, mf: km, dmf: km}
			c05gEnum(c, "dompat", base, [][]string{{"adddmf"}}, al, true, cap(300, 5000))
			c05gEnum(c, "dompat-late", base, nil, al, true, cap(120, 2500))
		}

		// ---- (1f) the witnesses of the refuted / non-vacuity lemmas of coq/RoleGraphProofs.v, on the real code
		{
			mfw := func(a, b string) bool { return a == "n" && (b == "p1" || b == "p2") }
			c05gRun(c, "c05g.wit.f06", c05gCase{kind: "impl", level: 10, names: []string{"u", "p1", "p2", "admin", "x", "n"}, mf: mfw,
				ops: [][]string{{"addmf"}, {"add", "u", "p1"}, {"add", "p2", "admin"}, {"add", "x", "n"}, {"del", "x", "n"},
					{"has", "u", "admin"}, {"addmf"}, {"has", "u", "admin"}}})
			c05gRun(c, "c05g.wit.f05", c05gCase{kind: "dm", level: 10, names: []string{"alice", "admin"}, domains: []string{"*", "d1", "d2"}, dmf: km,
				ops: [][]string{{"adddmf"}, {"add", "alice", "admin", "*"}, {"add", "alice", "admin", "d1"}, {"del", "alice", "admin", "*"},
					{"has", "alice", "admin", "d1"}, {"has", "alice", "admin", "d2"}}})
			c05gRun(c, "c05g.wit.pattern", c05gCase{kind: "impl", level: 10, names: []string{"u", "/a/*", "/a/1", "/a/7", "/b/7", "r"}, mf: km,
				ops: [][]string{{"addmf"}, {"add", "u", "/a/*"}, {"add", "/a/*", "r"}, {"has", "u", "/a/1"}, {"has", "/a/7", "r"},
					{"has", "/b/7", "r"}, {"roles", "/a/1"}, {"users", "r"}}})
			c.NonTrivial("wit.f06")
			c.NonTrivial("wit.f05")
			c.NonTrivial("wit.pattern")
		}
		// ---- (2) seeded random histories
		levels := []int{10, 10, 10, 10, 0, 1, 2, 3}
		nr := cap(120, 2500)
		for i := 0; i < nr; i++ {
			names := []string{"u", "v", "/a/*", "/a/1", "/a/b*", "/a/b1", "*"}
			var mf func(a, b string) bool
			switch c.Rng.Intn(4) {
			case 0:
			case 1, 2:
				mf = km
			case 3:
				mf = c05gTableFn(c, names, 0.2, false)
			}
			c05gRandom(c, fmt.Sprintf("c05g.rnd.impl.%d", i), "impl", names, nil, mf, nil, levels[c.Rng.Intn(len(levels))], cap(24, 50), nil)
		}
		// chains longer than the level bound
		chain := make([]string, 13)
		var chainEdges [][2]string
		for i := range chain {
			chain[i] = fmt.Sprintf("n%d", i)
			if i > 0 {
				chainEdges = append(chainEdges, [2]string{chain[i-1], chain[i]})
			}
		}
		chainEdges = append(chainEdges, [2]string{"n12", "n0"}, [2]string{"n5", "n5"}, [2]string{"n3", "n9"})
		for i := 0; i < cap(25, 400); i++ {
			kind := []string{"impl", "rm"}[c.Rng.Intn(2)]
			c05gRandom(c, fmt.Sprintf("c05g.rnd.chain.%d", i), kind, chain, nil, nil, nil, 10, cap(40, 80), chainEdges)
		}
		{ // the full chain, then the boundary moved by deleting and re-adding links
			cs := c05gCase{kind: "impl", level: 10, names: chain}
			for _, e := range chainEdges[:12] {
				cs.ops = append(cs.ops, []string{"add", e[0], e[1]})
			}
			cs.ops = append(cs.ops, []string{"has", "n0", "n10"}, []string{"has", "n0", "n11"}, []string{"add", "n3", "n9"}, []string{"has", "n0", "n12"},
				[]string{"del", "n3", "n9"}, []string{"del", "n4", "n5"}, []string{"add", "n4", "n5"}, []string{"add", "n12", "n0"}, []string{"has", "n12", "n10"})
			c05gRun(c, "c05g.chain.full", cs)
			c.NonTrivial("chain.full")
		}
		for i := 0; i < nr; i++ {
			names := []string{"u", "v", "r*", "r1"}
			doms := []string{"*", "d1", "d2", "d*", ""}
			if i%4 == 3 {
				// domain names that contain bytes a cache key could be joined with: the pairs
				// ("a", "b,*") and ("a,b", "*") (same for : | / space) must be kept apart
				sep := []string{",", ":", "|", "/", " "}[(i/4)%5]
				doms = []string{"*", "a", "a" + sep + "b", "b" + sep + "*", "a" + sep + "*"}
			}
			var mf, dmf func(a, b string) bool
			switch c.Rng.Intn(4) {
			case 0:
			case 1:
				dmf = km
			case 2:
				mf, dmf = km, km
			case 3:
				dmf = c05gTableFn(c, doms, 0.2, true)
				if c.Rng.Intn(2) == 0 {
					mf = c05gTableFn(c, names, 0.25, false)
				}
			}
			kind := "dm"
			if c.Rng.Intn(5) == 0 {
				kind = "rm"
			}
			c05gRandom(c, fmt.Sprintf("c05g.rnd.dm.%d", i), kind, names, doms, mf, dmf, levels[c.Rng.Intn(len(levels))], cap(24, 50), nil)
		}
	})
}
