package main

import (
	"sort"
	"strings"
)

// shared helpers for the per-property harness files

// sortedStrings returns a sorted copy (for results whose Go order is a map iteration order).
func sortedStrings(ss []string) []string {
	out := append([]string(nil), ss...)
	sort.Strings(out)
	return out
}

// rulesKey renders a rule list unambiguously (fields hex-free but length-prefixed).
func rulesKey(rules [][]string) string {
	var b strings.Builder
	for _, r := range rules {
		b.WriteByte('[')
		for i, f := range r {
			if i > 0 {
				b.WriteByte('|')
			}
			b.WriteString(Q(f))
		}
		b.WriteByte(']')
	}
	return b.String()
}

// sortedRulesKey is rulesKey over a sorted copy of the rules.
func sortedRulesKey(rules [][]string) string {
	keys := make([]string, len(rules))
	for i, r := range rules {
		keys[i] = rulesKey([][]string{r})
	}
	sort.Strings(keys)
	return strings.Join(keys, "")
}

func errStr(err error) string {
	if err != nil {
		return "err"
	}
	return "ok"
}
