package main

import (
	"fmt"
	"os"
	"path/filepath"
	"strings"

	casbin "github.com/casbin/casbin/v2"
	"github.com/casbin/casbin/v2/model"
	defaultrolemanager "github.com/casbin/casbin/v2/rbac/default-role-manager"
	"github.com/casbin/casbin/v2/util"
)

// C04: decisions never go stale.
// (A) model correspondence: all sequences to depth 3 (quick) / 4 (thorough) over an alphabet of
//     policy / grouping changes, ClearPolicy, LoadPolicy, with EVERY request of the universe asked
//     before the first and after every change (so every g() result that can go stale has been
//     memoised), on the RBAC and RBAC-with-domains families; every decision compared with the
//     Coq model (Memo.crun);
// (B) the property's own predicate on the implementation, for a wider alphabet that the model
//     does not cover (AddNamedMatchingFunc, AddNamedDomainMatchingFunc, SetRoleManager +
//     BuildRoleLinks, EnforceWithMatcher, batch / filtered / update calls, DeleteUser): after
//     every step every decision must equal that of a FRESH enforcer built from the same model
//     text, the currently listed rules and the same registered functions.

type c04Fam struct {
	name string
	conf machConf
	reqs [][]string
	al   []mOp
	seps []string // separator bytes for the colliding-name witnesses (family "collide")
}

func c04Families() []c04Fam {
	var rb, dm c04Fam
	rb.name, rb.conf = "rbac", c11Conf04
	for _, s := range []string{"alice", "bob", "admin"} {
		for _, o := range []string{"data1", "data2"} {
			for _, a := range []string{"read"} {
				rb.reqs = append(rb.reqs, []string{s, o, a})
			}
		}
	}
	rb.al = []mOp{
		{Kind: "add", Pt: "g", R1: [][]string{{"alice", "admin"}}},
		{Kind: "remove", Pt: "g", R1: [][]string{{"alice", "admin"}}},
		{Kind: "add", Pt: "g", R1: [][]string{{"bob", "alice"}}},
		{Kind: "remove", Pt: "g", R1: [][]string{{"bob", "alice"}}},
		{Kind: "update", Pt: "g", R1: [][]string{{"alice", "admin"}}, R2: [][]string{{"bob", "admin"}}},
		{Kind: "removefiltered", Pt: "g", Fi: 1, Fvs: []string{"admin"}},
		{Kind: "addmanyex", Pt: "g", R1: [][]string{{"alice", "admin"}, {"bob", "alice"}}},
		{Kind: "add", Pt: "p", R1: [][]string{{"admin", "data1", "read"}}},
		{Kind: "remove", Pt: "p", R1: [][]string{{"admin", "data1", "read"}}},
		{Kind: "add", Pt: "p", R1: [][]string{{"alice", "data2", "read"}}},
		{Kind: "clear"},
		{Kind: "load"},
		// identity update and a batch whose old and new rules overlap: the links of the old rules
		// must be removed BEFORE those of the new rules are added (outside the F08 guard when the
		// new rule is listed: compared with the model, no fresh-enforcer predicate)
		{Kind: "update", Pt: "g", R1: [][]string{{"bob", "admin"}}, R2: [][]string{{"bob", "admin"}}},
		{Kind: "updatemany", Pt: "g", R1: [][]string{{"bob", "admin"}, {"alice", "admin"}}, R2: [][]string{{"alice", "admin"}, {"bob", "alice"}}},
	}
	dm.name, dm.conf = "domain", machDomain
	for _, s := range []string{"alice", "admin"} {
		for _, d := range []string{"d1", "d2"} {
			dm.reqs = append(dm.reqs, []string{s, d, "data1", "read"})
		}
	}
	dm.al = []mOp{
		{Kind: "add", Pt: "g", R1: [][]string{{"alice", "admin", "d1"}}},
		{Kind: "remove", Pt: "g", R1: [][]string{{"alice", "admin", "d1"}}},
		{Kind: "add", Pt: "g", R1: [][]string{{"alice", "admin", "d2"}}},
		{Kind: "update", Pt: "g", R1: [][]string{{"alice", "admin", "d1"}}, R2: [][]string{{"alice", "admin", "d2"}}},
		{Kind: "add", Pt: "p", R1: [][]string{{"admin", "d1", "data1", "read"}}},
		{Kind: "add", Pt: "p", R1: [][]string{{"admin", "d2", "data1", "read"}}},
		{Kind: "remove", Pt: "p", R1: [][]string{{"admin", "d1", "data1", "read"}}},
		{Kind: "clear"},
		{Kind: "load"},
	}
	// names whose concatenations collide ("a"+"bc" = "ab"+"c"): the g() memo must keep the
	// arguments apart (the NUL separator itself is F26)
	var cl c04Fam
	cl.name, cl.conf = "rbac", c11Conf04
	for _, s := range []string{"a", "ab", "abc"} {
		cl.reqs = append(cl.reqs, []string{s, "data1", "read"})
	}
	// the same with every byte a key could be joined with: (x, y+s+z) against (x+s+y, z)
	for _, sep := range []string{":", ",", "|", "/", " ", "-", "_", ".", "\t", "$", "#", ";"} {
		cl.reqs = append(cl.reqs, []string{"x" + sep + "y", "data1", "read"}, []string{"x", "data1", "read"})
		cl.seps = append(cl.seps, sep)
	}
	cl.al = []mOp{
		{Kind: "add", Pt: "g", R1: [][]string{{"a", "bc"}}},
		{Kind: "remove", Pt: "g", R1: [][]string{{"a", "bc"}}},
		{Kind: "add", Pt: "g", R1: [][]string{{"ab", "c"}}},
		{Kind: "remove", Pt: "g", R1: [][]string{{"ab", "c"}}},
		{Kind: "add", Pt: "g", R1: [][]string{{"abc", ""}}},
		{Kind: "add", Pt: "p", R1: [][]string{{"bc", "data1", "read"}}},
		{Kind: "remove", Pt: "p", R1: [][]string{{"bc", "data1", "read"}}},
		{Kind: "add", Pt: "p", R1: [][]string{{"c", "data1", "read"}}},
		{Kind: "add", Pt: "p", R1: [][]string{{"", "data1", "read"}}},
		{Kind: "load"},
	}
	var cd c04Fam
	cd.name, cd.conf = "domain", machDomain
	for _, s := range []string{"a", "ab"} {
		for _, d := range []string{"d", "cd", "bcd"} {
			cd.reqs = append(cd.reqs, []string{s, d, "data1", "read"})
		}
	}
	cd.al = []mOp{
		{Kind: "add", Pt: "g", R1: [][]string{{"a", "bc", "d"}}},
		{Kind: "add", Pt: "g", R1: [][]string{{"a", "b", "cd"}}},
		{Kind: "add", Pt: "g", R1: [][]string{{"ab", "c", "d"}}},
		{Kind: "remove", Pt: "g", R1: [][]string{{"a", "bc", "d"}}},
		{Kind: "add", Pt: "p", R1: [][]string{{"b", "cd", "data1", "read"}}},
		{Kind: "add", Pt: "p", R1: [][]string{{"bc", "d", "data1", "read"}}},
		{Kind: "add", Pt: "p", R1: [][]string{{"c", "d", "data1", "read"}}},
		{Kind: "add", Pt: "p", R1: [][]string{{"b", "d", "data1", "read"}}},
		{Kind: "load"},
	}
	// a link that is REDUNDANT when it is added (the role is already reached through a detour) and
	// becomes the only path later: it has to be stored like any other
	var dt c04Fam
	dt.name, dt.conf = "rbac", c11Conf04
	for _, s := range []string{"alice", "bob", "carol"} {
		dt.reqs = append(dt.reqs, []string{s, "data1", "read"})
	}
	dt.al = []mOp{
		{Kind: "add", Pt: "g", R1: [][]string{{"bob", "admin"}}},
		{Kind: "remove", Pt: "g", R1: [][]string{{"bob", "admin"}}},
		{Kind: "remove", Pt: "g", R1: [][]string{{"bob", "alice"}}},
		{Kind: "add", Pt: "g", R1: [][]string{{"bob", "alice"}}},
		{Kind: "remove", Pt: "g", R1: [][]string{{"alice", "admin"}}},
		{Kind: "add", Pt: "g", R1: [][]string{{"alice", "admin"}}},
		{Kind: "addmany", Pt: "g", R1: [][]string{{"carol", "bob"}, {"carol", "admin"}}},
		{Kind: "removemany", Pt: "g", R1: [][]string{{"carol", "bob"}, {"bob", "alice"}}},
		{Kind: "load"},
	}
	return []c04Fam{rb, dm, cl, cd, dt}
}

var c11Conf04 = machConf{Name: "rbac1", Text: `[request_definition]
r = sub, obj, act
[policy_definition]
p = sub, obj, act
[role_definition]
g = _, _
[policy_effect]
e = some(where (p.eft == allow))
[matchers]
m = g(r.sub, p.sub) && r.obj == p.obj && r.act == p.act
`, Defs: []machDef{{"g", true, 2, -1}, {"p", false, 3, -1}}}

func c04Enf(e *casbin.Enforcer, req []string) string {
	ok, err := e.Enforce(toIface(req)...)
	if err != nil {
		return "err"
	}
	return B(ok)
}

func c04Seq(c *Ctx, id string, f c04Fam, content []prule, seq []mOp, direct bool) {
	var items []string
	ask := func() {
		for _, r := range f.reqs {
			items = append(items, L("enf", QL(r)))
		}
	}
	ask()
	for _, o := range seq {
		items = append(items, o.Sx())
		ask()
	}
	var cs []string
	for _, x := range content {
		cs = append(cs, L(Q(x.Pt), QL(x.Rule)))
	}
	c.Case(id, fmt.Sprintf("memo %s (cfg %s) (content %s) (ops %s)", f.name,
		strings.TrimSuffix(strings.TrimPrefix(f.conf.Sx(), "("), ")"), strings.Join(cs, " "), strings.Join(items, " ")))
	m := newMach(f.conf, false, false, "none", content)
	k := 0
	askImpl := func() {
		for _, r := range f.reqs {
			c.Obs(id, fmt.Sprintf("%d.enf", k), c04Enf(m.E, r))
			k++
		}
	}
	askImpl()
	for _, o := range seq {
		c.Obs(id, fmt.Sprintf("%d.res", k), m.apply(o))
		k++
		askImpl()
		c.Count(o.Kind)
	}
	// the property's predicate: a fresh enforcer from the listed rules
	if !direct {
		return
	}
	fresh := c04Fresh(f.conf.Text, m.E, nil)
	for _, r := range f.reqs {
		if a, b := c04Enf(m.E, r), c04Enf(fresh, r); a != b {
			c.Direct(id, fmt.Sprintf("decision %s for %v differs from the fresh enforcer's %s", a, r, b), opsSx(seq))
		}
	}
}

// c04Fresh builds a new enforcer from the model text, the rules currently listed by e and the
// registered matching functions (setup is applied to the fresh enforcer before the rules go in).
func c04Fresh(text string, e *casbin.Enforcer, setup func(*casbin.Enforcer)) *casbin.Enforcer {
	mm, _ := model.NewModelFromString(text)
	f, _ := casbin.NewEnforcer(mm)
	if setup != nil {
		setup(f)
	}
	for sec, prefix := range map[string]string{"p": "p", "g": "g"} {
		_ = prefix
		for pt := range e.GetModel()[sec] {
			var rules [][]string
			if sec == "p" {
				rules, _ = e.GetNamedPolicy(pt)
				for _, r := range rules {
					_, _ = f.AddNamedPolicy(pt, toIface(r)...)
				}
			} else {
				rules, _ = e.GetNamedGroupingPolicy(pt)
				for _, r := range rules {
					_, _ = f.AddNamedGroupingPolicy(pt, toIface(r)...)
				}
			}
		}
	}
	return f
}

func init() {
	register("C04", func(c *Ctx) {
		depth := 3
		if c.Thorough() {
			depth = 4
		}
		c.Rule = fmt.Sprintf("(A) every sequence to depth %d over an alphabet of 12 (RBAC) / 9 (domains) policy and grouping changes incl. ClearPolicy and LoadPolicy, every request of the universe asked before and after each change, compared with the Coq model and with a fresh enforcer; (B) seeded histories over a wider alphabet (matching functions, SetRoleManager+BuildRoleLinks, EnforceWithMatcher, batch/filtered/update calls, DeleteUser) checked against a fresh real enforcer after every step. Distinct = sequence; non-trivial = at least one decision changes along the sequence. Additions: families with names whose concatenations collide (a+bc = ab+c, also across the domain argument); identity updates and batches whose old and new rules overlap (outside the F08 guard: compared with the model only, successors not explored); SetModel / LoadModel in the wide alphabet; conditional role definitions with link condition functions and parameters against an enforcer set up before its first Enforce.", depth)
		for fi, f := range c04Families() {
			content := []prule{}
			switch fi {
			case 0:
				content = []prule{{"p", []string{"admin", "data1", "read"}}, {"g", []string{"bob", "admin"}}}
			case 1:
				content = []prule{{"p", []string{"admin", "d1", "data1", "read"}}, {"g", []string{"alice", "admin", "d1"}}}
			case 2:
				content = []prule{{"p", []string{"c", "data1", "read"}}, {"g", []string{"a", "bc"}}}
			case 3:
				content = []prule{{"p", []string{"bc", "d", "data1", "read"}}, {"g", []string{"a", "b", "cd"}}}
			case 4:
				content = []prule{{"p", []string{"admin", "data1", "read"}}, {"g", []string{"bob", "alice"}}, {"g", []string{"alice", "admin"}}}
			}
			n := len(f.al)
			var rec func(seq []mOp, inGuard bool)
			cnt := 0
			rec = func(seq []mOp, inGuard bool) {
				if len(seq) > 0 {
					cnt++
					id := fmt.Sprintf("c04.%d%s.%d", fi, f.name, cnt)
					c04Seq(c, id, f, content, seq, inGuard)
					c.NonTrivial(id)
					if !inGuard {
						c.Count("outside-F08-guard(model only)")
					}
				}
				if len(seq) == depth || !inGuard {
					return // a state reached outside the F08 guard is not explored further
				}
				for i := 0; i < n; i++ {
					o := f.al[i]
					// F08 guard: update targets must not be listed — evaluated on a replay
					g := true
					if o.Kind == "update" || o.Kind == "updatemany" {
						m := newMach(f.conf, false, false, "none", content)
						for _, x := range seq {
							m.apply(x)
						}
						for _, nr := range o.R2 {
							if containsRule(m.current(o.Pt), nr) || containsRule(o.R1, nr) {
								g = false
							}
						}
					}
					rec(append(append([]mOp(nil), seq...), o), g)
				}
			}
			rec(nil, true)
		}
		// separator witnesses: for every separator byte s, the links (x -> y+s+z) and (x+s+y -> z)
		// with a rule on z only: x must not inherit z's permission, x+s+y must
		for si, sep := range c04Families()[2].seps {
			f := c04Families()[2]
			yz, xy := "y"+sep+"z", "x"+sep+"y"
			rules := []prule{{"p", []string{"z", "data1", "read"}}, {"p", []string{yz, "data1", "read"}}}
			noop := []mOp{{Kind: "load"}, {Kind: "add", Pt: "p", R1: [][]string{{"w", "data2", "read"}}}}
			// only x -> y+s+z: x is allowed (through y+s+z), x+s+y is not; asked in that order, so
			// that g(x, y+s+z) = true is memoised when g(x+s+y, z) is evaluated
			f.reqs = [][]string{{"x", "data1", "read"}, {xy, "data1", "read"}}
			c04Seq(c, fmt.Sprintf("c04.sep.%d", si), f, append(append([]prule(nil), rules...), prule{"g", []string{"x", yz}}), noop, true)
			// only x+s+y -> z: the other way round
			f.reqs = [][]string{{xy, "data1", "read"}, {"x", "data1", "read"}}
			c04Seq(c, fmt.Sprintf("c04.sepr.%d", si), f, append(append([]prule(nil), rules...), prule{"g", []string{xy, "z"}}), noop, true)
		}
		c.Exhaust = true
		c04Wide(c)
		c04Probes(c)
	})
}

// ---------- (B) wider alphabet, implementation vs fresh implementation ----------

const c04PatternModel = `[request_definition]
r = sub, obj, act
[policy_definition]
p = sub, obj, act
[role_definition]
g = _, _
g2 = _, _
[policy_effect]
e = some(where (p.eft == allow))
[matchers]
m = g(r.sub, p.sub) && g2(r.obj, p.obj) && r.act == p.act
`

// deterministic witnesses of the repaired findings F01 and F02: they must stay repaired
// reloads rejected while the role links are rebuilt: decisions afterwards are those of a fresh
// enforcer over whatever is listed (nothing of the rejected policy, nothing memoised before)
func c04FailedReloads(c *Ctx) {
	machFailedReloads(c, "c04", func(id string, m *mach, conf machConf) {
		fresh := c04Fresh(conf.Text, m.E, nil)
		for _, u := range []string{"alice", "bob", "carol", "dave", "admin", "staff"} {
			var reqs [][]string
			if conf.Text == machRBAC.Text {
				reqs = [][]string{{u, "data1", "read"}, {u, "data2", "read"}}
			} else {
				reqs = [][]string{{u, "d1", "data1", "read"}, {u, "d2", "data1", "read"}}
			}
			for _, r := range reqs {
				if a, b := c04Enf(m.E, r), c04Enf(fresh, r); a != b {
					c.Direct(id, fmt.Sprintf("after a rejected reload the decision %s for %v differs from the fresh enforcer's %s", a, r, b), fmt.Sprintf("content=%v listed=%s", m.A.Content, m.listedKey()))
				}
			}
		}
	})
}

// an incremental role-link build that fails half-way (a batch whose later rule is too short for
// the role definition, after every request has been asked): whatever the call reports, the
// decisions afterwards are those of a fresh enforcer over the listed rules -- the links that were
// built before the failure must not be hidden by memoised g() answers.
func c04FailedIncremental(c *Ctx) {
	type fam struct {
		conf  machConf
		p     []string
		good  [][]string
		short []string
		reqs  [][]string
	}
	fams := []fam{
		{machRBAC, []string{"admin", "data1", "read"}, [][]string{{"bob", "admin"}, {"carol", "admin"}}, []string{"dave"},
			[][]string{{"bob", "data1", "read"}, {"carol", "data1", "read"}, {"dave", "data1", "read"}, {"alice", "data1", "read"}}},
		{machDomain, []string{"admin", "d1", "data1", "read"}, [][]string{{"bob", "admin", "d1"}, {"carol", "admin", "d1"}}, []string{"dave", "admin"},
			[][]string{{"bob", "d1", "data1", "read"}, {"carol", "d1", "data1", "read"}, {"dave", "d1", "data1", "read"}, {"bob", "d2", "data1", "read"}}},
	}
	for fi, f := range fams {
		for pos := 0; pos <= len(f.good); pos++ {
			for _, how := range []string{"batch", "batch-then-remove", "ex"} {
				m := newMach(f.conf, false, false, "none", nil)
				_, _ = m.E.AddPolicy(toIface(f.p)...)
				_, _ = m.E.AddGroupingPolicy(toIface(append([]string{"alice"}, f.good[0][1:]...))...)
				for _, r := range f.reqs {
					_ = c04Enf(m.E, r)
				}
				var batch [][]string
				batch = append(batch, f.good[:pos]...)
				batch = append(batch, f.short)
				batch = append(batch, f.good[pos:]...)
				var ok bool
				var err error
				if how == "ex" {
					ok, err = m.E.AddGroupingPoliciesEx(batch)
				} else {
					ok, err = m.E.AddGroupingPolicies(batch)
				}
				if how == "batch-then-remove" {
					_, _ = m.E.RemoveGroupingPolicy(toIface(f.short)...)
				}
				// oracle: the memo-free answer of the LIVE role manager (a failed build may leave
				// rules listed without links -- F17, C11's subject -- so a fresh enforcer over the
				// listing is not the reference here)
				rm := m.E.GetRoleManager()
				for _, r := range f.reqs {
					var hl bool
					if len(r) == 3 {
						hl, _ = rm.HasLink(r[0], "admin")
					} else {
						hl, _ = rm.HasLink(r[0], "admin", r[1])
						hl = hl && r[1] == "d1"
					}
					if a, b := c04Enf(m.E, r), B(hl); a != b {
						c.Direct(fmt.Sprintf("c04.failed-incremental.%d.%d.%s", fi, pos, how), fmt.Sprintf("every request asked, then AddGroupingPolicies%v reported (%v, %v): the decision %s for %v differs from what the role manager answers now (%s): a memoised g() result survived the change of the links", batch, ok, err, a, r, b), fmt.Sprintf("listed=%s", m.listedKey()))
					}
				}
				c.Count("failed-incremental")
			}
		}
	}
}

// a role manager swapped in with SetRoleManager, then reloads (same and changed grouping rules)
// and incremental grouping changes, every request asked after each step: decisions = fresh
// enforcer over the listed rules.  (SetRoleManager alone leaves the new manager empty until the
// next reload; the comparison starts after that reload.)
func c04SwapReload(c *Ctx) {
	reqs := [][]string{{"alice", "data1", "read"}, {"bob", "data1", "read"}, {"carol", "data1", "read"}, {"alice", "data2", "read"}, {"bob", "data2", "read"}}
	content := []prule{{"p", []string{"admin", "data1", "read"}}, {"p", []string{"staff", "data2", "read"}}, {"g", []string{"alice", "admin"}}, {"g", []string{"alice", "staff"}}}
	steps := [][]mOp{
		{{Kind: "add", Pt: "g", R1: [][]string{{"bob", "staff"}}}},
		{{Kind: "remove", Pt: "g", R1: [][]string{{"alice", "staff"}}}},
		{{Kind: "load"}, {Kind: "add", Pt: "g", R1: [][]string{{"bob", "admin"}}}},
		{{Kind: "add", Pt: "g", R1: [][]string{{"carol", "admin"}}}, {Kind: "load"}, {Kind: "remove", Pt: "g", R1: [][]string{{"carol", "admin"}}}},
		{{Kind: "load"}, {Kind: "load"}, {Kind: "add", Pt: "g", R1: [][]string{{"bob", "staff"}}}, {Kind: "remove", Pt: "g", R1: [][]string{{"bob", "staff"}}}},
	}
	for si, seq := range steps {
		for _, named := range []bool{false, true} {
			m := newMach(machRBAC, true, false, "none", content)
			_ = m.E.LoadPolicy()
			for _, r := range reqs {
				_ = c04Enf(m.E, r)
			}
			if named {
				m.E.SetNamedRoleManager("g", defaultrolemanager.NewRoleManagerImpl(10))
			} else {
				m.E.SetRoleManager(defaultrolemanager.NewRoleManagerImpl(10))
			}
			_ = m.E.LoadPolicy()
			for k, o := range append([]mOp{{Kind: "noop"}}, seq...) {
				if o.Kind != "noop" {
					_ = m.apply(o)
				}
				fresh := c04Fresh(machRBAC.Text, m.E, nil)
				for _, r := range reqs {
					if a, b := c04Enf(m.E, r), c04Enf(fresh, r); a != b {
						c.Direct(fmt.Sprintf("c04.swap-reload.%d.%v.%d", si, named, k), fmt.Sprintf("SetRoleManager, LoadPolicy, then %s: the decision %s for %v differs from the fresh enforcer's %s", opsSx(seq[:k]), a, r, b), fmt.Sprintf("listed=%s", m.listedKey()))
					}
				}
			}
			c.Count("swap-reload")
		}
	}
}

// a second role definition (g2 on the object side): every way of removing / replacing its rules
// (single, batch, filtered, update, batch update) after the requests have been asked -- the
// decisions afterwards are those of a fresh enforcer over the listed rules.
func c04SecondDefinition(c *Ctx) {
	text := "[request_definition]\nr = sub, obj, act\n[policy_definition]\np = sub, obj, act\n[role_definition]\ng = _, _\ng2 = _, _\n[policy_effect]\ne = some(where (p.eft == allow))\n[matchers]\nm = g(r.sub, p.sub) && g2(r.obj, p.obj) && r.act == p.act\n"
	reqs := [][]string{{"alice", "data1", "read"}, {"alice", "data2", "read"}, {"bob", "data1", "read"}, {"alice", "data3", "read"}}
	calls := []struct {
		name string
		f    func(e *casbin.Enforcer)
	}{
		{"RemoveNamedGroupingPolicy(g2)", func(e *casbin.Enforcer) { _, _ = e.RemoveNamedGroupingPolicy("g2", "data1", "group") }},
		{"RemoveNamedGroupingPolicies(g2)", func(e *casbin.Enforcer) {
			_, _ = e.RemoveNamedGroupingPolicies("g2", [][]string{{"data1", "group"}, {"data2", "group"}})
		}},
		{"RemoveFilteredNamedGroupingPolicy(g2)", func(e *casbin.Enforcer) { _, _ = e.RemoveFilteredNamedGroupingPolicy("g2", 1, "group") }},
		{"UpdateNamedGroupingPolicy(g2)", func(e *casbin.Enforcer) {
			_, _ = e.UpdateNamedGroupingPolicy("g2", []string{"data1", "group"}, []string{"data3", "group"})
		}},
		{"UpdateNamedGroupingPolicies(g2)", func(e *casbin.Enforcer) {
			_, _ = e.UpdateNamedGroupingPolicies("g2", [][]string{{"data1", "group"}, {"data2", "group"}}, [][]string{{"data3", "group"}, {"data4", "group"}})
		}},
		{"AddNamedGroupingPolicies(g2)", func(e *casbin.Enforcer) { _, _ = e.AddNamedGroupingPolicies("g2", [][]string{{"data3", "group"}}) }},
		{"RemoveNamedGroupingPolicies(g)", func(e *casbin.Enforcer) { _, _ = e.RemoveNamedGroupingPolicies("g", [][]string{{"alice", "admin"}}) }},
	}
	for _, cl := range calls {
		mm, _ := model.NewModelFromString(text)
		e, _ := casbin.NewEnforcer(mm)
		_, _ = e.AddPolicy("admin", "group", "read")
		_, _ = e.AddGroupingPolicy("alice", "admin")
		_, _ = e.AddNamedGroupingPolicy("g2", "data1", "group")
		_, _ = e.AddNamedGroupingPolicy("g2", "data2", "group")
		for _, r := range reqs {
			_ = c04Enf(e, r)
		}
		cl.f(e)
		fresh := c04Fresh(text, e, nil)
		for _, r := range reqs {
			if a, b := c04Enf(e, r), c04Enf(fresh, r); a != b {
				c.Direct("c04.second-definition."+cl.name, fmt.Sprintf("every request asked, then %s: the decision %s for %v differs from the fresh enforcer's %s", cl.name, a, r, b), "")
			}
		}
		c.Count("second-definition")
	}
}

func c04Witnesses(c *Ctx) {
	{ // F01: a matching function registered after the decision was memoised
		mm, _ := model.NewModelFromString(c04PatternModel)
		e, _ := casbin.NewEnforcer(mm)
		_, _ = e.AddPolicy("admin", "data1", "read")
		_, _ = e.AddGroupingPolicy("/u/*", "admin")
		_, _ = e.AddNamedGroupingPolicy("g2", "data1", "data1")
		before, _ := e.Enforce("/u/1", "data1", "read")
		e.AddNamedMatchingFunc("g", "keyMatch", util.KeyMatch)
		after, _ := e.Enforce("/u/1", "data1", "read")
		fresh := c04Fresh(c04PatternModel, e, func(f *casbin.Enforcer) { f.AddNamedMatchingFunc("g", "keyMatch", util.KeyMatch) })
		want, _ := fresh.Enforce("/u/1", "data1", "read")
		if after != want {
			c.Direct("c04.witness.F01", fmt.Sprintf("Enforce(/u/1,data1,read) = %v before and %v after AddNamedMatchingFunc; a fresh enforcer says %v", before, after, want), "F01")
		}
		// same for the domain matching function
		md, _ := model.NewModelFromString(machDomain.Text)
		ed, _ := casbin.NewEnforcer(md)
		_, _ = ed.AddPolicy("admin", "d1", "data1", "read")
		_, _ = ed.AddGroupingPolicy("alice", "admin", "*")
		b2, _ := ed.Enforce("alice", "d1", "data1", "read")
		ed.AddNamedDomainMatchingFunc("g", "keyMatch", util.KeyMatch)
		a2, _ := ed.Enforce("alice", "d1", "data1", "read")
		fd := c04Fresh(machDomain.Text, ed, func(f *casbin.Enforcer) { f.AddNamedDomainMatchingFunc("g", "keyMatch", util.KeyMatch) })
		w2, _ := fd.Enforce("alice", "d1", "data1", "read")
		if a2 != w2 {
			c.Direct("c04.witness.F01d", fmt.Sprintf("Enforce(alice,d1,data1,read) = %v before and %v after AddNamedDomainMatchingFunc; a fresh enforcer says %v", b2, a2, w2), "F01")
		}
		c.Count("witness-F01")
	}
	{ // F02: ClearPolicy must clear the role links
		mm, _ := model.NewModelFromString(c11Conf04.Text)
		e, _ := casbin.NewEnforcer(mm)
		_, _ = e.AddGroupingPolicy("alice", "admin")
		e.ClearPolicy()
		_, _ = e.AddPolicy("admin", "data1", "read")
		got, _ := e.Enforce("alice", "data1", "read")
		if got {
			c.Direct("c04.witness.F02", "after AddGroupingPolicy(alice,admin); ClearPolicy(); AddPolicy(admin,data1,read) Enforce(alice,data1,read) is still true", "F02")
		}
		c.Count("witness-F02")
	}
}

const c04CondModel = `[request_definition]
r = sub, obj, act
[policy_definition]
p = sub, obj, act
[role_definition]
g = _, _, (_, _)
[policy_effect]
e = some(where (p.eft == allow))
[matchers]
m = g(r.sub, p.sub) && r.obj == p.obj && r.act == p.act
`

// conditional role definitions (g = _, _, (_, _)): link condition functions and their parameters
// are "registered functions" of the statement.  Histories of Enforce / AddNamedLinkConditionFunc /
// SetNamedLinkConditionFuncParams / batch additions (the single-rule calls are F04) on one live
// enforcer; after every step every decision must equal that of an enforcer that was given the
// same rules, functions and parameters BEFORE its first Enforce.
func c04Conditional(c *Ctx) {
	nh := 60
	if c.Thorough() {
		nh = 1500
	}
	flag := func(args ...string) (bool, error) { return len(args) != 0 && args[0] == "on", nil }
	links := [][]string{{"alice", "admin"}, {"bob", "admin"}, {"admin", "root"}}
	type reg struct {
		u, r  string
		param string
	}
	for h := 0; h < nh; h++ {
		build := func(regs []reg, listed [][]string) *casbin.Enforcer {
			mm, _ := model.NewModelFromString(c04CondModel)
			e, _ := casbin.NewEnforcer(mm)
			_, _ = e.AddPolicy("admin", "data1", "read")
			_, _ = e.AddPolicy("root", "data2", "read")
			if len(listed) > 0 {
				_, _ = e.AddGroupingPolicies(listed)
			}
			for _, x := range regs {
				e.AddNamedLinkConditionFunc("g", x.u, x.r, flag)
				e.SetNamedLinkConditionFuncParams("g", x.u, x.r, x.param)
			}
			return e
		}
		ask := func(e *casbin.Enforcer) string {
			var b strings.Builder
			for _, s := range []string{"alice", "bob", "admin"} {
				for _, o := range []string{"data1", "data2"} {
					ok, err := e.Enforce(s, o, "read")
					if err != nil {
						b.WriteString("e")
					} else {
						b.WriteString(B(ok))
					}
				}
			}
			return b.String()
		}
		var regs []reg
		var listed [][]string
		live := build(nil, nil)
		var trace []string
		id := fmt.Sprintf("c04.cond.%d", h)
		n := 3 + c.Rng.Intn(8)
		for i := 0; i < n; i++ {
			_ = ask(live)
			switch c.Rng.Intn(3) {
			case 0:
				var batch [][]string
				for _, l := range links {
					r := []string{l[0], l[1], "_", "_"}
					if c.Rng.Intn(2) == 0 && !containsRule(listed, r) {
						batch = append(batch, r)
					}
				}
				if len(batch) > 0 {
					_, _ = live.AddGroupingPolicies(batch)
					listed = append(listed, batch...)
					trace = append(trace, fmt.Sprint("addg-batch", batch))
				}
			default:
				l := links[c.Rng.Intn(len(links))]
				param := []string{"on", "off"}[c.Rng.Intn(2)]
				if !containsRule(listed, []string{l[0], l[1], "_", "_"}) {
					continue // a condition on a link that does not exist: nothing to observe
				}
				live.AddNamedLinkConditionFunc("g", l[0], l[1], flag)
				live.SetNamedLinkConditionFuncParams("g", l[0], l[1], param)
				var out []reg
				for _, x := range regs {
					if x.u != l[0] || x.r != l[1] {
						out = append(out, x)
					}
				}
				regs = append(out, reg{l[0], l[1], param})
				trace = append(trace, fmt.Sprint("cond", l, param))
			}
			fresh := build(regs, listed)
			if got, want := ask(live), ask(fresh); got != want {
				c.Direct(id, "conditional role links: decisions differ from an enforcer given the same rules, link condition functions and parameters before its first Enforce", fmt.Sprintf("trace=%v got=%s fresh=%s", trace, got, want))
				break
			}
		}
		c.Count("conditional-history")
	}
}

// custom matcher functions are "registered functions" too.  FunctionMap.AddFunction keeps the
// FIRST function registered under a name (LoadOrStore), so a later AddFunction with the same
// name changes nothing: the fresh enforcer gets the first one
const c04FuncModel = `[request_definition]
r = sub, obj, act
[policy_definition]
p = sub, obj, act
[policy_effect]
e = some(where (p.eft == allow))
[matchers]
m = pick(r.sub, p.sub) && r.obj == p.obj && r.act == p.act
`

func c04Functions(c *Ctx) {
	fam := []func(args ...interface{}) (interface{}, error){
		func(args ...interface{}) (interface{}, error) { return args[0] == args[1], nil },
		func(args ...interface{}) (interface{}, error) { return true, nil },
		func(args ...interface{}) (interface{}, error) { return false, nil },
		func(args ...interface{}) (interface{}, error) { return args[0] == "alice", nil },
	}
	nh := 40
	if c.Thorough() {
		nh = 1000
	}
	ask := func(e *casbin.Enforcer) string {
		var b strings.Builder
		for _, s := range []string{"alice", "bob"} {
			for _, o := range []string{"data1", "data2"} {
				ok, err := e.Enforce(s, o, "read")
				if err != nil {
					b.WriteString("e")
				} else {
					b.WriteString(B(ok))
				}
			}
		}
		return b.String()
	}
	for h := 0; h < nh; h++ {
		mm, _ := model.NewModelFromString(c04FuncModel)
		e, _ := casbin.NewEnforcer(mm)
		cur := c.Rng.Intn(len(fam))
		e.AddFunction("pick", fam[cur])
		var trace []string
		id := fmt.Sprintf("c04.func.%d", h)
		for i := 0; i < 3+c.Rng.Intn(6); i++ {
			_ = ask(e)
			switch c.Rng.Intn(4) {
			case 3:
				// drop the compiled matchers (ClearPolicy invalidates) and put the rules back: the
				// recompiled matcher must still call the function registered FIRST
				keep, _ := e.GetPolicy()
				keep = append([][]string(nil), keep...)
				e.ClearPolicy()
				for _, r := range keep {
					_, _ = e.AddPolicy(toIface(r)...)
				}
				trace = append(trace, "ClearPolicy+re-add")
			case 0:
				again := c.Rng.Intn(len(fam))
				e.AddFunction("pick", fam[again]) // ignored: the name is taken
				trace = append(trace, fmt.Sprint("AddFunction pick v", again, " (name taken by v", cur, ")"))
			case 1:
				r := []string{[]string{"alice", "bob"}[c.Rng.Intn(2)], []string{"data1", "data2"}[c.Rng.Intn(2)], "read"}
				_, _ = e.AddPolicy(toIface(r)...)
				trace = append(trace, fmt.Sprint("addp", r))
			default:
				r := []string{[]string{"alice", "bob"}[c.Rng.Intn(2)], []string{"data1", "data2"}[c.Rng.Intn(2)], "read"}
				_, _ = e.RemovePolicy(toIface(r)...)
				trace = append(trace, fmt.Sprint("rmp", r))
			}
			fresh := c04Fresh(c04FuncModel, e, func(f *casbin.Enforcer) { f.AddFunction("pick", fam[cur]) })
			if got, want := ask(e), ask(fresh); got != want {
				c.Direct(id, "decisions differ from a freshly constructed enforcer with the same model, listed rules and registered custom function", fmt.Sprintf("trace=%v got=%s fresh=%s", trace, got, want))
				break
			}
		}
		c.Count("custom-function-history")
	}
}

func c04Wide(c *Ctx) {
	c04Witnesses(c)
	c04FailedReloads(c)
	c04FailedIncremental(c)
	c04SwapReload(c)
	c04SecondDefinition(c)
	c04Conditional(c)
	c04Functions(c)
	nh := 150
	if c.Thorough() {
		nh = 4000
	}
	subs := []string{"alice", "bob", "/u/1", "/u/2"}
	objs := []string{"data1", "/res/1", "/res/2"}
	ask := func(e *casbin.Enforcer) string {
		var b strings.Builder
		for _, s := range subs {
			for _, o := range objs {
				ok, err := e.Enforce(s, o, "read")
				if err != nil {
					b.WriteString("e")
				} else {
					b.WriteString(B(ok))
				}
				ok2, err2 := e.EnforceWithMatcher("g(r.sub, p.sub) && r.act == p.act", s, o, "read")
				if err2 != nil {
					b.WriteString("e")
				} else {
					b.WriteString(B(ok2))
				}
			}
		}
		return b.String()
	}
	dir, derr := os.MkdirTemp("", "verif-c04-")
	if derr != nil {
		panic(derr)
	}
	defer os.RemoveAll(dir)
	mpath := filepath.Join(dir, "model.conf")
	_ = os.WriteFile(mpath, []byte(c04PatternModel), 0o644)
	for h := 0; h < nh; h++ {
		var e *casbin.Enforcer
		fileBacked := h%2 == 0
		if fileBacked {
			e, _ = casbin.NewEnforcer(mpath)
		} else {
			mm, _ := model.NewModelFromString(c04PatternModel)
			e, _ = casbin.NewEnforcer(mm)
		}
		// registered functions so far (replayed on the fresh enforcer)
		var regs []func(*casbin.Enforcer)
		gRules := [][]string{{"alice", "admin"}, {"bob", "admin"}, {"/u/1", "admin"}, {"alice", "/u/*"}}
		g2Rules := [][]string{{"/res/1", "grp"}, {"/res/*", "grp"}, {"data1", "grp"}}
		pRules := [][]string{{"admin", "grp", "read"}, {"/u/*", "data1", "read"}, {"alice", "/res/1", "read"}}
		var trace []string
		removedUnderPattern := false
		patternOn := false
		n := 4 + c.Rng.Intn(12)
		id := fmt.Sprintf("c04.wide.%d", h)
		for i := 0; i < n; i++ {
			_ = ask(e) // memoise before the change
			switch c.Rng.Intn(16) {
			case 14, 15:
				// the manual way of changing the role graph: edit the model's rule list, then
				// BuildRoleLinks() (both public API): decisions memoised before must not survive
				gr, _ := e.GetGroupingPolicy()
				if len(gr) > 0 && !patternOn {
					r := append([]string(nil), gr[c.Rng.Intn(len(gr))]...)
					_, _ = e.GetModel().RemovePolicy("g", "g", r)
					_ = e.BuildRoleLinks()
					trace = append(trace, fmt.Sprint("model.RemovePolicy(g)+BuildRoleLinks ", r))
				} else if !patternOn {
					r := gRules[c.Rng.Intn(len(gRules))]
					if has, _ := e.HasGroupingPolicy(toIface(r)...); !has {
						_ = e.GetModel().AddPolicy("g", "g", append([]string(nil), r...))
						_ = e.BuildRoleLinks()
						trace = append(trace, fmt.Sprint("model.AddPolicy(g)+BuildRoleLinks ", r))
					}
				}
			case 12:
				// SetModel: a new model object with the same text and the currently listed rules,
				// then BuildRoleLinks (SetModel itself builds none).  Compiled matchers of the old
				// model (with their g() memo bound to the old role managers) must not survive; the
				// registered matching functions do not survive either (initialize() makes new role
				// managers), so the fresh enforcer gets none.
				m2, _ := model.NewModelFromString(c04PatternModel)
				for _, sec := range []string{"p", "g"} {
					for pt, ast := range e.GetModel()[sec] {
						for _, r := range ast.Policy {
							_ = m2.AddPolicy(sec, pt, append([]string(nil), r...))
						}
					}
				}
				keepG := c.Rng.Intn(2) == 0
				if !keepG {
					// drop the grouping rules from the new model: every role-based decision must go
					for pt := range m2["g"] {
						m2["g"][pt].Policy = nil
						m2["g"][pt].PolicyMap = map[string]int{}
					}
				}
				e.SetModel(m2)
				_ = e.BuildRoleLinks()
				regs = nil
				patternOn, removedUnderPattern = false, false
				trace = append(trace, fmt.Sprint("setmodel keepG=", keepG))
			case 13:
				// LoadModel from the CONF file: the policy is gone with the old model
				if fileBacked {
					_ = e.LoadModel()
					regs = nil
					patternOn, removedUnderPattern = false, false
					trace = append(trace, "loadmodel")
				}
			case 0, 1:
				r := gRules[c.Rng.Intn(len(gRules))]
				_, _ = e.AddGroupingPolicy(toIface(r)...)
				trace = append(trace, fmt.Sprint("addg", r))
			case 2:
				r := gRules[c.Rng.Intn(len(gRules))]
				_, _ = e.RemoveGroupingPolicy(toIface(r)...)
				trace = append(trace, fmt.Sprint("rmg", r))
				if patternOn {
					removedUnderPattern = true // F06: lingering names under role patterns
				}
			case 3:
				r := g2Rules[c.Rng.Intn(len(g2Rules))]
				_, _ = e.AddNamedGroupingPolicy("g2", toIface(r)...)
				trace = append(trace, fmt.Sprint("addg2", r))
			case 4:
				r := pRules[c.Rng.Intn(len(pRules))]
				_, _ = e.AddPolicy(toIface(r)...)
				trace = append(trace, fmt.Sprint("addp", r))
			case 5:
				r := pRules[c.Rng.Intn(len(pRules))]
				_, _ = e.RemovePolicy(toIface(r)...)
				trace = append(trace, fmt.Sprint("rmp", r))
			case 6:
				// the F01 witness family: registering a matching function after decisions were memoised
				pt := []string{"g", "g2"}[c.Rng.Intn(2)]
				e.AddNamedMatchingFunc(pt, "keyMatch", util.KeyMatch)
				regs = append(regs, func(f *casbin.Enforcer) { f.AddNamedMatchingFunc(pt, "keyMatch", util.KeyMatch) })
				trace = append(trace, "matchfunc "+pt)
				patternOn = true
			case 7:
				_, _ = e.AddGroupingPolicies([][]string{gRules[0], gRules[2]})
				trace = append(trace, "addg-batch")
			case 8:
				_, _ = e.RemoveFilteredGroupingPolicy(1, "admin")
				trace = append(trace, "rmfiltered g 1 admin")
				if patternOn {
					removedUnderPattern = true
				}
			case 9:
				if !patternOn {
					// a new default role manager, then rebuild: must not serve links of the old one
					e.SetRoleManager(defaultrolemanager.NewRoleManagerImpl(10))
					_ = e.BuildRoleLinks()
					trace = append(trace, "setrm+build")
				}
			case 10:
				e.ClearPolicy()
				trace = append(trace, "clear")
				removedUnderPattern = false
			case 11:
				_, _ = e.DeleteUser("alice")
				trace = append(trace, "deleteuser alice")
				if patternOn {
					removedUnderPattern = true
				}
			}
			if removedUnderPattern {
				continue // outside the guard (known finding F06); decisions are not compared
			}
			fresh := c04Fresh(c04PatternModel, e, func(f *casbin.Enforcer) {
				for _, r := range regs {
					r(f)
				}
			})
			if got, want := ask(e), ask(fresh); got != want {
				c.Direct(id, "decisions differ from a freshly constructed enforcer with the same model, listed rules and registered functions", fmt.Sprintf("trace=%v got=%s fresh=%s", trace, got, want))
				break
			}
		}
		c.Count("wide-history")
	}
}

// F26 (not repaired): the memo key joins the arguments with NUL
func c04Probes(c *Ctx) {
	mm, _ := model.NewModelFromString(machDomain.Text)
	e, _ := casbin.NewEnforcer(mm)
	_, _ = e.AddPolicy("admin", "d", "data1", "read")
	_, _ = e.AddGroupingPolicy("u", "admin", "x\x00d")
	// g("u", "admin", "x\0d") is true in domain "x\0d"; the colliding call g("u", "admin\0x", "d") must be false
	a, _ := e.Enforce("u", "x\x00d", "data1", "read")
	_ = a
	mm2, _ := model.NewModelFromString(strings.Replace(machDomain.Text, "g(r.sub, p.sub, r.dom)", "g(r.sub, p.sub, r.dom) || g(r.sub, r.obj, r.act)", 1))
	e2, _ := casbin.NewEnforcer(mm2)
	_, _ = e2.AddPolicy("zzz", "d0", "data1", "read")
	_, _ = e2.AddGroupingPolicy("u", "a", "b\x00c")
	// first call memoises g(u, a, "b\0c") = true under key \0u\0a\0b\0c ...
	r1, _ := e2.Enforce("u", "b\x00c", "a", "x") // g(r.sub,p.sub,r.dom)=g(u,zzz,b\0c)=false || g(u, a, x)... not the collision yet
	_ = r1
	// direct collision through the exported function generator
	g := util.GenerateGFunction(e2.GetRoleManager())
	v1, _ := g("u", "a", "b\x00c")
	v2, _ := g("u", "a\x00b", "c")
	if v1 == true && v2 == true {
		c.Known = append(c.Known, "F26\treproduced\tg(u, a, \"b\\0c\") = true is memoised under the key \\0u\\0a\\0b\\0c and then served for the different call g(u, \"a\\0b\", c), whose fresh answer is false")
	} else {
		c.Known = append(c.Known, "F26\tgone\t")
	}
}
