package main

import (
	"math/rand"
)

// Shared generator of management-call histories for the machine properties (C10 C11 C15).
// Operations are drawn while the history runs on the real enforcer so that the guards of the
// theorems can be evaluated on the current listing (update targets not listed, batch-update
// rules distinct, filters inside the arity); everything else is unconstrained.

type machUni struct {
	Pt    string
	IsG   bool
	Rules [][]string
}

func machUniverses(conf machConf) []machUni {
	var us []machUni
	for _, d := range conf.Defs {
		u := machUni{Pt: d.Pt, IsG: d.IsG}
		switch {
		case d.IsG && d.Arity == 2:
			u.Rules = [][]string{{"alice", "admin"}, {"bob", "admin"}, {"admin", "root"}, {"bob", "user"}, {"root", "alice"}}
		case d.IsG && d.Arity == 3:
			u.Rules = [][]string{{"alice", "admin", "d1"}, {"alice", "admin", "d2"}, {"bob", "admin", "d1"}, {"admin", "root", "d1"}, {"bob", "user", "d2"}}
		// field values that equal a policy type / section name ("p", "p2", "g") are ordinary names
		case d.Arity == 2:
			u.Rules = [][]string{{"alice", "data1"}, {"bob", "data2"}, {"admin", "data1"}, {"root", "data2"}, {"user", "data1"}, {"p2", "data1"}, {"p", "g"}}
		case d.Arity == 3:
			u.Rules = [][]string{{"alice", "data1", "read"}, {"bob", "data2", "write"}, {"admin", "data1", "write"}, {"root", "data2", "read"}, {"user", "data1", "read"}, {"p", "data1", "read"}, {"g", "p", "p2"}}
		case d.Arity == 4:
			u.Rules = [][]string{{"alice", "d1", "data1", "read"}, {"admin", "d1", "data1", "write"}, {"admin", "d2", "data2", "read"}, {"root", "d1", "data2", "write"}, {"bob", "d2", "data1", "read"}}
		case d.Arity == 5:
			u.Rules = [][]string{{"1", "alice", "data1", "read", "allow"}, {"2", "alice", "data1", "read", "deny"}, {"1", "bob", "data2", "write", "allow"}, {"0", "admin", "data1", "write", "deny"}, {"3", "admin", "data1", "read", "allow"}}
		}
		us = append(us, u)
	}
	return us
}

func (m *mach) current(pt string) [][]string {
	var p [][]string
	if d := m.Conf.Def(pt); d != nil && d.IsG {
		p, _ = m.E.GetNamedGroupingPolicy(pt)
	} else {
		p, _ = m.E.GetNamedPolicy(pt)
	}
	return append([][]string(nil), p...)
}

type machGenOpts struct {
	Clear, Load, Save, Flags, Self, Fail, UpdateFiltered bool
}

// machGenOp draws one operation inside the guards for the current state of m (nil: try again).
func machGenOp(rng *rand.Rand, m *mach, us []machUni, o machGenOpts) *mOp {
	u := us[rng.Intn(len(us))]
	cur := m.current(u.Pt)
	pick := func() []string { return u.Rules[rng.Intn(len(u.Rules))] }
	fresh := func() []string { // a universe rule that is not listed, or nil
		perm := rng.Perm(len(u.Rules))
		for _, i := range perm {
			if !containsRule(cur, u.Rules[i]) {
				return u.Rules[i]
			}
		}
		return nil
	}
	batch := func(n int) [][]string { // n rules (repetitions possible), n >= 1: one-rule batches are batches
		var b [][]string
		for i := 0; i < n; i++ {
			b = append(b, pick())
		}
		return b
	}
	k := rng.Intn(21)
	var op *mOp
	switch k {
	case 0, 1, 2:
		op = &mOp{Kind: "add", Pt: u.Pt, R1: [][]string{pick()}}
	case 3:
		op = &mOp{Kind: "addmany", Pt: u.Pt, R1: batch(1 + rng.Intn(3))}
	case 4:
		op = &mOp{Kind: "addmanyex", Pt: u.Pt, R1: batch(1 + rng.Intn(3))}
	case 5, 6:
		op = &mOp{Kind: "remove", Pt: u.Pt, R1: [][]string{pick()}}
	case 7:
		op = &mOp{Kind: "removemany", Pt: u.Pt, R1: batch(1 + rng.Intn(3))}
	case 8, 9:
		n := fresh()
		old := pick()
		if n == nil || sameRule(n, old) {
			return nil
		}
		if d := m.Conf.Def(u.Pt); d != nil && d.Prio >= 0 && n[d.Prio] != old[d.Prio] {
			return nil // F11: the update must keep the priority
		}
		op = &mOp{Kind: "update", Pt: u.Pt, R1: [][]string{old}, R2: [][]string{n}}
	case 10:
		// batch update: olds pairwise distinct, news fresh, distinct and disjoint from olds
		o1, o2 := pick(), pick()
		if sameRule(o1, o2) {
			return nil
		}
		var news [][]string
		for _, r := range u.Rules {
			if !containsRule(cur, r) && !sameRule(r, o1) && !sameRule(r, o2) && len(news) < 2 {
				news = append(news, r)
			}
		}
		if len(news) < 2 {
			return nil
		}
		if d := m.Conf.Def(u.Pt); d != nil && d.Prio >= 0 {
			return nil
		}
		op = &mOp{Kind: "updatemany", Pt: u.Pt, R1: [][]string{o1, o2}, R2: news}
	case 11, 12:
		r := pick()
		fi := rng.Intn(len(r))
		fvs := []string{r[fi]}
		if fi+1 < len(r) && rng.Intn(2) == 0 {
			fvs = []string{"", r[fi+1]}
		}
		op = &mOp{Kind: "removefiltered", Pt: u.Pt, Fi: fi, Fvs: fvs}
	case 13:
		if !o.Clear || rng.Intn(3) != 0 {
			return nil
		}
		op = &mOp{Kind: "clear"}
	case 14:
		if !o.Load {
			return nil
		}
		op = &mOp{Kind: "load"}
	case 15:
		if !o.Save {
			return nil
		}
		op = &mOp{Kind: "save"}
	case 16:
		if !o.Flags {
			return nil
		}
		if rng.Intn(2) == 0 {
			op = &mOp{Kind: "autosave", B: rng.Intn(2) == 0}
		} else {
			op = &mOp{Kind: "autonotify", B: rng.Intn(2) == 0}
		}
	case 17:
		if !o.Fail {
			return nil
		}
		op = &mOp{Kind: "failnext", K: rng.Intn(2)}
	case 18:
		if !o.Self {
			return nil
		}
		// every Self* entry point (the replay side of a WatcherEx bus): same call, no notification
		switch kind := []string{"add", "remove", "addmany", "removemany", "addmanyex", "removefiltered", "update", "updatemany"}[rng.Intn(8)]; kind {
		case "add", "remove":
			op = &mOp{Kind: kind, Pt: u.Pt, R1: [][]string{pick()}, Self: true}
		case "addmany", "removemany", "addmanyex":
			op = &mOp{Kind: kind, Pt: u.Pt, R1: [][]string{pick(), pick()}, Self: true}
		case "removefiltered":
			r := pick()
			fi := rng.Intn(len(r))
			op = &mOp{Kind: kind, Pt: u.Pt, Fi: fi, Fvs: []string{r[fi]}, Self: true}
		case "update":
			n := fresh()
			old := pick()
			if n == nil || sameRule(n, old) {
				return nil
			}
			if d := m.Conf.Def(u.Pt); d != nil && d.Prio >= 0 && n[d.Prio] != old[d.Prio] {
				return nil
			}
			op = &mOp{Kind: kind, Pt: u.Pt, R1: [][]string{old}, R2: [][]string{n}, Self: true}
		case "updatemany":
			o1, o2 := pick(), pick()
			if sameRule(o1, o2) {
				return nil
			}
			var news [][]string
			for _, r := range u.Rules {
				if !containsRule(cur, r) && !sameRule(r, o1) && !sameRule(r, o2) && len(news) < 2 {
					news = append(news, r)
				}
			}
			if d := m.Conf.Def(u.Pt); len(news) < 2 || (d != nil && d.Prio >= 0) {
				return nil
			}
			op = &mOp{Kind: kind, Pt: u.Pt, R1: [][]string{o1, o2}, R2: news, Self: true}
		}
	case 19:
		return nil
	case 20:
		// UpdateFilteredPolicies (policy types only).  Inside the F09 guard: auto-save on, the
		// filter matches at least one stored rule; the new rules are fresh and pairwise distinct.
		if !o.UpdateFiltered || u.IsG || !m.AutoSave {
			return nil
		}
		if d := m.Conf.Def(u.Pt); d != nil && d.Prio >= 0 {
			return nil
		}
		if len(cur) == 0 {
			return nil
		}
		r := cur[rng.Intn(len(cur))]
		fi := rng.Intn(len(r))
		fvs := []string{r[fi]}
		// new rules: not listed, or listed AND selected by the filter (a rule may be "replaced by
		// itself"); a new rule that is listed but not selected would be listed twice (F08 shape)
		var news [][]string
		want := 1 + rng.Intn(2)
		for _, i := range rng.Perm(len(u.Rules)) {
			x := u.Rules[i]
			if len(news) < want && (!containsRule(cur, x) || specMatches(fi, fvs, x)) {
				news = append(news, x)
			}
		}
		if len(news) == 0 {
			return nil
		}
		// the adapter content must agree with memory for the filter to select the same rules
		op = &mOp{Kind: "updatefiltered", Pt: u.Pt, R2: news, Fi: fi, Fvs: fvs}
	}
	if op != nil && op.Kind == "updatemany" {
		// olds must not be given twice
	}
	return op
}
