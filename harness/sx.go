package main

import (
	"fmt"
	"strings"
)

// S-expression printing. Atoms that are not plain tokens are written as quoted
// strings with \xHH escapes so that every byte survives.
func isPlain(s string) bool {
	if s == "" {
		return false
	}
	for i := 0; i < len(s); i++ {
		ch := s[i]
		if !(ch >= 'a' && ch <= 'z' || ch >= 'A' && ch <= 'Z' || ch >= '0' && ch <= '9' || ch == '_' || ch == '-' || ch == '.' || ch == ':' || ch == '/' || ch == '*' || ch == '+' || ch == '=' || ch == '!' || ch == '<' || ch == '>' || ch == '&' || ch == '|') {
			return false
		}
	}
	return true
}

// Q writes a string atom.
func Q(s string) string {
	if isPlain(s) {
		return s
	}
	var b strings.Builder
	b.WriteByte('"')
	for i := 0; i < len(s); i++ {
		ch := s[i]
		if ch >= 0x20 && ch < 0x7f && ch != '"' && ch != '\\' {
			b.WriteByte(ch)
		} else {
			fmt.Fprintf(&b, "\\x%02x", ch)
		}
	}
	b.WriteByte('"')
	return b.String()
}

// L writes a list of already printed items.
func L(items ...string) string { return "(" + strings.Join(items, " ") + ")" }

// QL writes a list of string atoms.
func QL(ss []string) string {
	out := make([]string, len(ss))
	for i, s := range ss {
		out[i] = Q(s)
	}
	return L(out...)
}

// QLL writes a list of lists of string atoms.
func QLL(sss [][]string) string {
	out := make([]string, len(sss))
	for i, s := range sss {
		out[i] = QL(s)
	}
	return L(out...)
}

func B(b bool) string {
	if b {
		return "1"
	}
	return "0"
}

func I(i int) string { return fmt.Sprintf("%d", i) }
