package main

import (
	"crypto/md5"
	"fmt"
	"strings"

	casbin "github.com/casbin/casbin/v2"
	"github.com/casbin/casbin/v2/model"
)

// C19: replicated self-operations are exact, idempotent and deterministic.
// Three real casbin.DistributedEnforcer replicas (persist always / never / by a seeded coin), each
// over its own recording set-semantics adapter (recAdapter of mach.go), apply the same log of
// *Self calls.  After every observed call, on every replica: the returned affected list / bool /
// error, the adapter calls made by this call, the adapter content, the listed rules of every
// type, HasLink/GetRoles/GetUsers over the name universe and the Enforce decisions of a fixed
// request set are compared with the Coq model (Dist.dstep with the same persist bit).  On the
// implementation alone: replicas agree, a repeated call reports nothing and changes nothing,
// a replica that was not asked to persist leaves its adapter untouched, and the affected lists
// are exactly the rules added / removed.

type c19Op struct {
	Kind string // add remove removefiltered clear update updatemany updatefiltered failnext
	Pt   string
	R1   [][]string // rules / old rule(s)
	R2   [][]string // new rule(s)
	Fi   int
	Fvs  []string
	K    int
}

func (o c19Op) Sx() string {
	switch o.Kind {
	case "add", "remove":
		return L(o.Kind, Q(o.Pt), QLL(o.R1))
	case "removefiltered":
		return L(o.Kind, Q(o.Pt), I(o.Fi), QL(o.Fvs))
	case "clear":
		return L(o.Kind)
	case "update":
		return L(o.Kind, Q(o.Pt), QL(o.R1[0]), QL(o.R2[0]))
	case "updatemany":
		return L(o.Kind, Q(o.Pt), QLL(o.R1), QLL(o.R2))
	case "updatefiltered":
		return L(o.Kind, Q(o.Pt), QLL(o.R2), I(o.Fi), QL(o.Fvs))
	case "failnext":
		return L(o.Kind, I(o.K))
	}
	panic("c19: bad op kind " + o.Kind)
}

// ---------- a replica ----------

type c19Replica struct {
	D    *casbin.DistributedEnforcer
	A    *recAdapter
	M    *mach // view of the embedded enforcer for the shared observers
	log0 int   // adapter log length after construction (the initial LoadPolicy)
}

func c19NewReplica(conf machConf) *c19Replica {
	m, err := model.NewModelFromString(conf.Text)
	if err != nil {
		panic(err)
	}
	a := newRecAdapter()
	d, err := casbin.NewDistributedEnforcer(m, a)
	if err != nil {
		panic(err)
	}
	return &c19Replica{D: d, A: a, M: &mach{Conf: conf, E: d.Enforcer, A: a}, log0: len(a.Log)}
}

func c19Rules(aff [][]string, err error) string {
	return "aff=" + rulesKey(aff) + " " + errStr(err)
}
func c19Flag(b bool, err error) string { return "flag=" + B(b) + " " + errStr(err) }

// apply runs one *Self call with the given answer of the persist predicate.
func (r *c19Replica) apply(o c19Op, persist bool) (res string) {
	defer func() {
		if rec := recover(); rec != nil {
			res = "panic"
		}
	}()
	called := 0
	sp := func() bool { called++; return persist }
	d := r.D
	sec := "p"
	if df := r.M.Conf.Def(o.Pt); df != nil && df.IsG {
		sec = "g"
	}
	switch o.Kind {
	case "add":
		return c19Rules(d.AddPoliciesSelf(sp, sec, o.Pt, o.R1))
	case "remove":
		return c19Rules(d.RemovePoliciesSelf(sp, sec, o.Pt, o.R1))
	case "removefiltered":
		return c19Rules(d.RemoveFilteredPolicySelf(sp, sec, o.Pt, o.Fi, o.Fvs...))
	case "clear":
		return errStr(d.ClearPolicySelf(sp))
	case "update":
		return c19Flag(d.UpdatePolicySelf(sp, sec, o.Pt, o.R1[0], o.R2[0]))
	case "updatemany":
		return c19Flag(d.UpdatePoliciesSelf(sp, sec, o.Pt, o.R1, o.R2))
	case "updatefiltered":
		return c19Flag(d.UpdateFilteredPoliciesSelf(sp, sec, o.Pt, o.R2, o.Fi, o.Fvs...))
	case "failnext":
		r.A.FailIn = o.K
		return "ok"
	}
	panic("c19: bad op " + o.Kind)
}

func (r *c19Replica) listedOf(pt string) [][]string {
	d := r.M.Conf.Def(pt)
	if d == nil {
		return nil
	}
	var rules [][]string
	if d.IsG {
		rules, _ = r.D.Enforcer.GetNamedGroupingPolicy(pt)
	} else {
		rules, _ = r.D.Enforcer.GetNamedPolicy(pt)
	}
	return append([][]string(nil), rules...)
}

// ---------- universes ----------

type c19Uni struct {
	conf    machConf
	rules   map[string][][]string // 4-rule universe per policy type
	pts     []string
	linkObs [][]string // per role definition: pt, then names
	domains []string
	reqs    [][]string
}

func c19RBAC() c19Uni {
	u := c19Uni{conf: machRBAC, pts: []string{"g", "g2", "p", "p2"}}
	u.rules = map[string][][]string{
		"g":  {{"alice", "admin"}, {"bob", "admin"}, {"admin", "root"}, {"root", "alice"}},
		"g2": {{"data1", "grp"}, {"data2", "grp"}, {"grp", "all"}, {"data2", "all"}},
		"p":  {{"admin", "data1", "read"}, {"alice", "data2", "write"}, {"root", "grp", "read"}, {"bob", "all", "write"}},
		"p2": {{"alice", "x"}, {"alice", "y"}, {"bob", "x"}, {"bob", "y"}},
	}
	u.linkObs = [][]string{{"g", "alice", "bob", "admin", "root"}, {"g2", "data1", "data2", "grp", "all"}}
	for _, s := range []string{"alice", "bob", "admin", "root"} {
		for _, o := range []string{"data1", "data2"} {
			for _, a := range []string{"read", "write"} {
				u.reqs = append(u.reqs, []string{s, o, a})
			}
		}
	}
	return u
}

func c19Domain() c19Uni {
	u := c19Uni{conf: machDomain, pts: []string{"g", "p"}, domains: []string{"d1", "d2"}}
	u.rules = map[string][][]string{
		"g": {{"alice", "admin", "d1"}, {"alice", "admin", "d2"}, {"bob", "admin", "d1"}, {"admin", "root", "d1"}},
		"p": {{"admin", "d1", "data1", "read"}, {"root", "d1", "data2", "write"}, {"admin", "d2", "data1", "read"}, {"alice", "d2", "data2", "write"}},
	}
	u.linkObs = [][]string{{"g", "alice", "bob", "admin", "root"}}
	for _, s := range []string{"alice", "bob", "admin", "root"} {
		for _, d := range []string{"d1", "d2"} {
			for _, o := range []string{"data1", "data2"} {
				for _, a := range []string{"read", "write"} {
					u.reqs = append(u.reqs, []string{s, d, o, a})
				}
			}
		}
	}
	return u
}

func (u c19Uni) header() string {
	var lo []string
	for _, l := range u.linkObs {
		lo = append(lo, L(Q(l[0]), QL(l[1:]), QL(u.domains)))
	}
	return fmt.Sprintf("(cfg %s) (kind %s) (links %s) (reqs %s)",
		strings.TrimSuffix(strings.TrimPrefix(u.conf.Sx(), "("), ")"), u.conf.Name,
		strings.Join(lo, " "), strings.TrimSuffix(strings.TrimPrefix(QLL(u.reqs), "("), ")"))
}

func (u c19Uni) decisions(r *c19Replica) string {
	var b strings.Builder
	for _, q := range u.reqs {
		ok, err := r.D.Enforce(toIface(q)...)
		if err != nil {
			b.WriteString("E")
		} else {
			b.WriteString(B(ok))
		}
	}
	return b.String()
}

func (u c19Uni) links(r *c19Replica) []string {
	var out []string
	for _, l := range u.linkObs {
		out = append(out, r.M.linksKey(l[0], l[1:], u.domains))
	}
	return out
}

// the alphabet of the exhaustive part: repeated and overlapping batches on every type
func (u c19Uni) alphabet() []c19Op {
	var al []c19Op
	rs := func(pt string, is ...int) [][]string {
		var out [][]string
		for _, i := range is {
			out = append(out, u.rules[pt][i])
		}
		return out
	}
	G, P := u.rules["g"], u.rules["p"]
	al = append(al,
		c19Op{Kind: "add", Pt: "g", R1: rs("g", 0)},
		c19Op{Kind: "add", Pt: "g", R1: rs("g", 0, 1)},
		c19Op{Kind: "add", Pt: "g", R1: rs("g", 1, 2, 1)},
		c19Op{Kind: "add", Pt: "g", R1: rs("g", 2, 3)},
		c19Op{Kind: "remove", Pt: "g", R1: rs("g", 0)},
		c19Op{Kind: "remove", Pt: "g", R1: rs("g", 1, 0, 1)},
		c19Op{Kind: "remove", Pt: "g", R1: rs("g", 2, 3)},
		c19Op{Kind: "removefiltered", Pt: "g", Fi: 0, Fvs: []string{G[0][0]}},
		c19Op{Kind: "removefiltered", Pt: "g", Fi: 1, Fvs: []string{G[0][1]}},
		c19Op{Kind: "update", Pt: "g", R1: rs("g", 0), R2: rs("g", 3)},
		c19Op{Kind: "update", Pt: "g", R1: rs("g", 2), R2: rs("g", 1)},
		c19Op{Kind: "updatemany", Pt: "g", R1: rs("g", 0, 1), R2: rs("g", 2, 3)},
		c19Op{Kind: "add", Pt: "p", R1: rs("p", 0, 1)},
		c19Op{Kind: "add", Pt: "p", R1: rs("p", 1, 2, 0)},
		c19Op{Kind: "remove", Pt: "p", R1: rs("p", 0, 2)},
		c19Op{Kind: "removefiltered", Pt: "p", Fi: 1, Fvs: []string{P[0][1]}},
		c19Op{Kind: "update", Pt: "p", R1: rs("p", 0), R2: rs("p", 3)},
		c19Op{Kind: "updatemany", Pt: "p", R1: rs("p", 1, 2), R2: rs("p", 3, 0)},
		c19Op{Kind: "clear"},
	)
	if u.conf.Name == "rbac" {
		al = append(al,
			c19Op{Kind: "add", Pt: "g2", R1: rs("g2", 0, 1)},
			c19Op{Kind: "remove", Pt: "g2", R1: rs("g2", 0)},
			c19Op{Kind: "update", Pt: "g2", R1: rs("g2", 1), R2: rs("g2", 2)},
			c19Op{Kind: "add", Pt: "p2", R1: rs("p2", 0, 1, 2)},
			c19Op{Kind: "removefiltered", Pt: "p2", Fi: 0, Fvs: []string{"alice"}},
			c19Op{Kind: "removefiltered", Pt: "p2", Fi: 0, Fvs: []string{}}, // no filter value: every rule matches
		)
	} else {
		al = append(al,
			c19Op{Kind: "removefiltered", Pt: "g", Fi: 2, Fvs: []string{"d1"}},
			c19Op{Kind: "removefiltered", Pt: "g", Fi: 0, Fvs: []string{"", "", "d2"}},
			c19Op{Kind: "add", Pt: "p", R1: rs("p", 3, 3)},
			c19Op{Kind: "add", Pt: "g", R1: [][]string{}},
		)
	}
	return al
}

// c19Witnesses: logs that must stay in the stream whatever the seed.
func c19Witnesses(u c19Uni) [][]c19Op {
	G, P := u.rules["g"], u.rules["p"]
	g := func(is ...int) [][]string {
		var out [][]string
		for _, i := range is {
			out = append(out, G[i])
		}
		return out
	}
	p := func(is ...int) [][]string {
		var out [][]string
		for _, i := range is {
			out = append(out, P[i])
		}
		return out
	}
	return [][]c19Op{
		// F02 (repaired by bd8551d): a grouping rule added, ClearPolicySelf: the link must be gone on
		// every replica ...
		{{Kind: "add", Pt: "g", R1: g(0)}, {Kind: "clear"}, {Kind: "add", Pt: "g", R1: g(2)}},
		// ... and so must the g() results memoised in the compiled matcher: after the clear only the
		// p rules come back, a request that needed the link must now be denied
		{{Kind: "add", Pt: "g", R1: g(0, 2)}, {Kind: "add", Pt: "p", R1: p(0, 1, 2)}, {Kind: "clear"}, {Kind: "add", Pt: "p", R1: p(0, 1, 2)},
			{Kind: "add", Pt: "g", R1: g(2)}, {Kind: "clear"}, {Kind: "clear"}},
		// a replayed log: every entry twice
		{{Kind: "add", Pt: "g", R1: g(0, 1, 0)}, {Kind: "add", Pt: "g", R1: g(0, 1, 0)},
			{Kind: "update", Pt: "g", R1: g(0), R2: g(3)}, {Kind: "update", Pt: "g", R1: g(0), R2: g(3)},
			{Kind: "updatemany", Pt: "g", R1: g(1, 3), R2: g(2, 0)}, {Kind: "updatemany", Pt: "g", R1: g(1, 3), R2: g(2, 0)},
			{Kind: "remove", Pt: "g", R1: g(2, 2, 1)}, {Kind: "remove", Pt: "g", R1: g(2, 2, 1)},
			{Kind: "removefiltered", Pt: "g", Fi: 0, Fvs: []string{G[0][0]}}, {Kind: "removefiltered", Pt: "g", Fi: 0, Fvs: []string{G[0][0]}}},
		// a batch update refused half-way (second old rule not listed) is rolled back on every replica
		{{Kind: "add", Pt: "p", R1: p(0)}, {Kind: "updatemany", Pt: "p", R1: p(0, 1), R2: p(2, 3)}, {Kind: "updatemany", Pt: "p", R1: p(0, 1), R2: p(2, 3)},
			{Kind: "add", Pt: "p", R1: p(1)}, {Kind: "updatemany", Pt: "p", R1: p(0, 1), R2: p(2, 3)}, {Kind: "updatemany", Pt: "p", R1: p(0, 1), R2: p(2, 3)}},
	}
}

// c19OogOps: the calls of part (1b); each is outside the F08 guard in some reachable state.
func c19OogOps(u c19Uni) []c19Op {
	var out []c19Op
	pts := []string{"g", "p"}
	if u.conf.Name == "rbac" {
		pts = append(pts, "g2")
	}
	for _, pt := range pts {
		R := u.rules[pt]
		rs := func(is ...int) [][]string {
			var o [][]string
			for _, i := range is {
				o = append(o, R[i])
			}
			return o
		}
		out = append(out,
			c19Op{Kind: "update", Pt: pt, R1: rs(0), R2: rs(0)},           // identity
			c19Op{Kind: "update", Pt: pt, R1: rs(1), R2: rs(1)},           // identity
			c19Op{Kind: "update", Pt: pt, R1: rs(0), R2: rs(1)},           // onto a listed rule
			c19Op{Kind: "update", Pt: pt, R1: rs(2), R2: rs(0)},           // onto a listed rule
			c19Op{Kind: "updatemany", Pt: pt, R1: rs(0, 1), R2: rs(1, 2)}, // chain: new[0] = old[1]
			c19Op{Kind: "updatemany", Pt: pt, R1: rs(0, 1), R2: rs(1, 0)}, // swap
			c19Op{Kind: "updatemany", Pt: pt, R1: rs(0, 1), R2: rs(0, 1)}, // identity batch
			c19Op{Kind: "updatemany", Pt: pt, R1: rs(1), R2: rs(1)},       // identity batch of one
			c19Op{Kind: "updatemany", Pt: pt, R1: rs(0, 2), R2: rs(3, 3)}, // both onto one new rule
			c19Op{Kind: "updatemany", Pt: pt, R1: rs(2, 0), R2: rs(2, 3)}) // identity + ordinary
	}
	return out
}

// c19Guard: the call is inside the guards of the theorems, given the rules listed now.
//
//	update:     the old rule is not listed (no-op) or the new rule is not listed, and old != new (F08)
//	updatemany: equal non-zero lengths; the first old rule is not listed (immediate no-op) or the
//	            new rules are pairwise distinct, not listed and none is an old rule of the call (F08)
func c19Guard(listed [][]string, o c19Op) bool {
	switch o.Kind {
	case "update":
		if sameRule(o.R1[0], o.R2[0]) {
			return false
		}
		return !(containsRule(listed, o.R1[0]) && containsRule(listed, o.R2[0]))
	case "updatemany":
		if len(o.R1) != len(o.R2) || len(o.R1) == 0 {
			return false
		}
		if !containsRule(listed, o.R1[0]) {
			return true
		}
		for i, n := range o.R2 {
			if containsRule(listed, n) || containsRule(o.R1, n) || containsRule(o.R2[:i], n) {
				return false
			}
		}
	}
	return true
}

// ---------- running one log ----------

type c19Step struct {
	Op   c19Op
	Bits []bool // persist answer per replica
	Oog  bool   // the call is outside the F08 guard in the state it is applied to
}

func c19LogSx(steps []c19Step) string {
	var items []string
	for _, s := range steps {
		it := []string{s.Op.Sx()}
		for _, b := range s.Bits {
			it = append(it, B(b))
		}
		items = append(items, L(it...))
	}
	return strings.Join(items, " ")
}

func c19First(rules [][]string, keep func(r []string) bool) [][]string {
	var out [][]string
	for _, r := range rules {
		if keep(r) && !containsRule(out, r) {
			out = append(out, r)
		}
	}
	return out
}

// c19Run applies the log to len(steps[0].Bits) fresh replicas, observing from step `from` on.
// agree: the replicas must agree with each other (no injected failure, no UpdateFiltered).
// digest: one line per case carrying the MD5 of all its observables (thorough tier).
func c19Run(c *Ctx, id string, u c19Uni, steps []c19Step, from int, agree bool, digest bool) (nontrivial bool) {
	nrep := len(steps[0].Bits)
	c.Case(id, fmt.Sprintf("%s (from %d) (digest %s) (ops %s)", u.header(), from, B(digest), c19LogSx(steps)))
	reps := make([]*c19Replica, nrep)
	for i := range reps {
		reps[i] = c19NewReplica(u.conf)
	}
	replay := func() string { return fmt.Sprintf("model=%s ops=%s", u.conf.Name, c19LogSx(steps)) }
	sum := md5.New()
	if digest {
		defer func() { c.Obs(id, "all", fmt.Sprintf("%x", sum.Sum(nil))) }()
	}
	// F08 (known): outside the guard the listing may hold a rule twice or lose its index entry;
	// "affected is exact" and "a repeated call reports nothing" are known to fail from then on.
	// The model follows the code there, so the log stays in the correspondence stream (and the
	// replica-agreement / persist-only-if-asked / failed-persist predicates, which do not depend
	// on the guard, stay on); the two F08-sensitive predicates stop at the first such call.
	tainted := false
	for k, st := range steps {
		o := st.Op
		c.Count(o.Kind)
		if st.Oog {
			if !tainted {
				c.Count("outside-F08-guard(correspondence only)")
			}
			tainted = true
		}
		if k < from { // a prefix that shorter logs of the enumeration have observed already
			for i, r := range reps {
				r.apply(o, st.Bits[i])
			}
			continue
		}
		type snap struct {
			listed string
			links  []string
			dec    string
		}
		before := make([]snap, nrep)
		var before0 [][]string
		if o.Pt != "" {
			before0 = reps[0].listedOf(o.Pt)
		}
		for i, r := range reps {
			before[i] = snap{r.M.listedKey(), u.links(r), u.decisions(r)}
		}
		var first struct {
			res string
			s   snap
		}
		for i, r := range reps {
			l0 := len(r.A.Log)
			content0 := r.A.contentKey()
			res := r.apply(o, st.Bits[i])
			adlog := strings.Join(r.A.Log[l0:], " ; ")
			after := snap{r.M.listedKey(), u.links(r), u.decisions(r)}
			if after.listed != before[i].listed || (strings.HasPrefix(res, "aff=[")) || strings.HasPrefix(res, "flag=1") {
				nontrivial = true
			}
			if k >= from {
				pre := fmt.Sprintf("%d.%d.", k, i)
				if digest {
					all := []string{pre, res, adlog, r.A.contentKey(), after.listed}
					all = append(append(all, after.links...), after.dec)
					sum.Write([]byte(strings.Join(all, "\n") + "\n"))
				} else {
					c.Obs(id, pre+"res", res)
					c.Obs(id, pre+"adlog", adlog)
					c.Obs(id, pre+"adcontent", r.A.contentKey())
					c.Obs(id, pre+"listed", after.listed)
					for j, l := range u.linkObs {
						c.Obs(id, pre+"links."+l[0], after.links[j])
					}
					c.Obs(id, pre+"dec", after.dec)
				}
			}
			if o.Kind == "failnext" {
				continue
			}
			// the adapter is touched only when the persist predicate says so
			if !st.Bits[i] && (adlog != "" || r.A.contentKey() != content0) {
				c.Direct(id, fmt.Sprintf("replica %d was not asked to persist, yet its adapter was touched at step %d: %s", i, k, adlog), replay())
			}
			if st.Bits[i] && len(r.A.Log)-l0 > 1 {
				c.Direct(id, fmt.Sprintf("replica %d made more than one adapter call at step %d: %s", i, k, adlog), replay())
			}
			// a failed persist leaves memory unchanged
			if strings.HasSuffix(res, "err") &&
				(after.listed != before[i].listed || strings.Join(after.links, "#") != strings.Join(before[i].links, "#")) {
				c.Direct(id, fmt.Sprintf("replica %d: the call at step %d returned an error (failed adapter call), yet memory changed", i, k), replay())
			}
			if agree {
				if i == 0 {
					first.res, first.s = res, after
				} else if res != first.res || after.listed != first.s.listed || after.dec != first.s.dec ||
					strings.Join(after.links, "#") != strings.Join(first.s.links, "#") {
					c.Direct(id, fmt.Sprintf("replicas 0 and %d disagree after step %d (result, listed rules, links or decisions)", i, k), replay())
				}
				// a repeated call reports nothing and changes nothing
				if !tainted && k > 0 && steps[k-1].Op.Sx() == o.Sx() && o.Pt != "p9" {
					nothing := res == "aff= ok" || res == "flag=0 ok" || (o.Kind == "clear" && res == "ok")
					if !nothing || after.listed != before[i].listed || after.dec != before[i].dec ||
						strings.Join(after.links, "#") != strings.Join(before[i].links, "#") {
						c.Direct(id, fmt.Sprintf("replica %d: the call at step %d repeats the previous one but reported %q or changed memory", i, k, res), replay())
					}
				}
			}
		}
		// the affected list is exactly what was added / removed (replica 0)
		if agree && !tainted && (o.Kind == "add" || o.Kind == "remove") && reps[0].M.Conf.Def(o.Pt) != nil {
			after0 := reps[0].listedOf(o.Pt)
			var want, wantAfter [][]string
			if o.Kind == "add" {
				want = c19First(o.R1, func(r []string) bool { return !containsRule(before0, r) })
				wantAfter = append(append([][]string(nil), before0...), want...)
			} else {
				want = c19First(o.R1, func(r []string) bool { return containsRule(before0, r) })
				for _, r := range before0 {
					if !containsRule(want, r) {
						wantAfter = append(wantAfter, r)
					}
				}
			}
			if first.res != c19Rules(want, nil) || rulesKey(after0) != rulesKey(wantAfter) {
				c.Direct(id, fmt.Sprintf("step %d: reported %q, expected %q; listed %s, expected %s", k, first.res, c19Rules(want, nil), rulesKey(after0), rulesKey(wantAfter)), replay())
			}
		}
	}
	return nontrivial
}

// ---------- generators ----------

func c19RandomOp(c *Ctx, u c19Uni, withFiltered bool) c19Op {
	pt := u.pts[c.Rng.Intn(len(u.pts))]
	R := u.rules[pt]
	arity := len(R[0])
	batch := func() [][]string {
		n := c.Rng.Intn(5)
		var out [][]string
		for i := 0; i < n; i++ {
			out = append(out, R[c.Rng.Intn(len(R))])
		}
		return out
	}
	filter := func() (int, []string) {
		r := R[c.Rng.Intn(len(R))]
		fi := c.Rng.Intn(arity)
		n := 1 + c.Rng.Intn(arity-fi)
		fvs := make([]string, n)
		for i := range fvs {
			if c.Rng.Intn(3) > 0 {
				fvs[i] = r[fi+i]
			}
		}
		return fi, fvs
	}
	x := c.Rng.Intn(100)
	if withFiltered && x < 30 {
		fi, fvs := filter()
		return c19Op{Kind: "updatefiltered", Pt: pt, R2: batch(), Fi: fi, Fvs: fvs}
	}
	switch {
	case x < 28:
		return c19Op{Kind: "add", Pt: pt, R1: batch()}
	case x < 50:
		return c19Op{Kind: "remove", Pt: pt, R1: batch()}
	case x < 62:
		fi, fvs := filter()
		return c19Op{Kind: "removefiltered", Pt: pt, Fi: fi, Fvs: fvs}
	case x < 76:
		return c19Op{Kind: "update", Pt: pt, R1: [][]string{R[c.Rng.Intn(len(R))]}, R2: [][]string{R[c.Rng.Intn(len(R))]}}
	case x < 90:
		n := 1 + c.Rng.Intn(2)
		perm := c.Rng.Perm(len(R))
		var os, ns [][]string
		for i := 0; i < n; i++ {
			os = append(os, R[perm[i]])
			ns = append(ns, R[perm[(i+n)%len(R)]])
		}
		if c.Rng.Intn(6) == 0 { // a repeated old rule: the second pair is refused and the batch rolled back
			os[n-1] = os[0]
		}
		switch c.Rng.Intn(6) {
		case 0: // overlapping: the new rules are the old ones rotated / shifted (outside the F08 guard when listed)
			for i := range ns {
				ns[i] = os[(i+1)%n]
			}
		case 1: // identity batch
			for i := range ns {
				ns[i] = os[i]
			}
		case 2: // any new rules, listed or not, repeated or not
			for i := range ns {
				ns[i] = R[c.Rng.Intn(len(R))]
			}
		}
		return c19Op{Kind: "updatemany", Pt: pt, R1: os, R2: ns}
	case x < 96:
		return c19Op{Kind: "clear"}
	case x < 98:
		// a policy type the model does not define: every call fails without touching memory
		o := c19Op{Kind: []string{"add", "remove", "update"}[c.Rng.Intn(3)], Pt: "p9", R1: [][]string{{"a", "b"}}, R2: [][]string{{"c", "d"}}}
		if o.Kind != "update" && c.Rng.Intn(3) == 0 {
			o.R1 = [][]string{} // AddPoliciesSelf reaches the adapter before it fails only for an empty batch
		}
		return o
	default:
		return c19Op{Kind: "removefiltered", Pt: pt, Fi: 0, Fvs: []string{}}
	}
}

// c19RandomLog draws a log inside the guards by running it on a scratch replica.
//
// allowOog: a call outside the F08 guard (update onto a listed rule, identity update, overlapping
// batch update) is kept half of the time and marked; the log goes on behind it (the model follows
// the code there).  Batch updates outside the guard are limited to two pairs: a refused longer
// batch is rolled back by iterating a Go map, whose order matters once the pairs overlap.
func c19RandomLog(c *Ctx, u c19Uni, maxLen int, nrep int, withFiltered bool, withFailures bool, allowOog bool) []c19Step {
	scratch := c19NewReplica(u.conf)
	n := 1 + c.Rng.Intn(maxLen)
	var steps []c19Step
	for len(steps) < n {
		var o c19Op
		if len(steps) > 0 && steps[len(steps)-1].Op.Kind != "failnext" && c.Rng.Intn(4) == 0 {
			o = steps[len(steps)-1].Op // replayed entry
		} else if withFailures && c.Rng.Intn(5) == 0 {
			o = c19Op{Kind: "failnext", K: c.Rng.Intn(2)}
		} else {
			o = c19RandomOp(c, u, withFiltered)
		}
		oog := false
		if o.Pt != "" && !c19Guard(scratch.listedOf(o.Pt), o) {
			if !allowOog || c.Rng.Intn(2) == 0 ||
				(o.Kind == "updatemany" && (len(o.R1) != len(o.R2) || len(o.R1) == 0 || len(o.R1) > 2)) {
				c.Count("redrawn-outside-guard(F08)")
				continue
			}
			oog = true
		}
		bits := make([]bool, nrep)
		for i := range bits {
			switch {
			case nrep == 1:
				bits[i] = withFiltered || c.Rng.Intn(4) > 0
			case i == 0:
				bits[i] = true
			case i == 1:
				bits[i] = false
			default:
				bits[i] = c.Rng.Intn(2) == 0
			}
		}
		if o.Kind != "failnext" {
			scratch.apply(o, false)
		}
		steps = append(steps, c19Step{Op: o, Bits: bits, Oog: oog})
	}
	return steps
}

func init() {
	register("C19", func(c *Ctx) {
		c.Rule = "three real DistributedEnforcer replicas (persist always / never / seeded coin) over recording set-semantics adapters apply the same log of *Self calls. (0) fixed witnesses (F02 links and memoised g() results after ClearPolicySelf, a fully replayed log, a refused batch update); (1) exhaustive: every log of length <= 3 (thorough: also length 4 on the RBAC model for logs starting with an AddPoliciesSelf) over an alphabet of 25 (RBAC: p, p2, g, g2) / 23 (domain model) calls with repeated and overlapping batches on a 4-rule universe per type, observed after its last call; (2) seeded random logs of <= 12 calls (random batches with repetition, replayed entries, empty batches, unknown type), observed after every call; (3) single persisting replica with injected adapter failures; (4) single persisting replica with UpdateFilteredPoliciesSelf. The direct predicates 'affected exact' and 'a repeated call reports nothing' stay inside the guards (F08: update targets not listed, no identity update); OUTSIDE the guard the model follows the code, so such calls are part of the correspondence stream (and of the guard-independent predicates: replicas agree, persist only when asked, failed persist leaves memory alone): (1b) from every in-guard state of the exhaustive part up to length 1 (half of the length-2 logs behind an AddPoliciesSelf; thorough: all of length 2) every identity update, update onto a listed rule, overlapping / swapping / identity batch update of g, p (and g2), followed by AddPoliciesSelf and RemovePoliciesSelf of the type's whole rule universe (they show what the index still knows), and a third of the random logs of (2) keep half of their out-of-guard draws (batches of <= 2 pairs) and go on behind them. Distinct = (model, log); non-trivial = the log contains a call that changes memory or reports a non-empty result."
		unis := []c19Uni{c19RBAC(), c19Domain()}
		// (0) fixed witnesses, observed after every call on the three replicas
		for ui, u := range unis {
			for wi, w := range c19Witnesses(u) {
				steps := make([]c19Step, len(w))
				for k, o := range w {
					steps[k] = c19Step{Op: o, Bits: []bool{true, false, (k+wi)%2 == 0}}
				}
				id := fmt.Sprintf("c19.w%d.%d", ui, wi)
				if c19Run(c, id, u, steps, 0, true, false) {
					c.NonTrivial(id)
				}
			}
		}
		// (1) exhaustive
		for ui, u := range unis {
			al := u.alphabet()
			depth := 3
			if c.Thorough() && ui == 0 {
				depth = 4
			}
			if !c.Thorough() && ui == 1 {
				depth = 2
			}
			var rec func(path []int, maxLen int)
			rec = func(path []int, maxLen int) {
				if len(path) > 0 {
					// replay on a scratch replica to evaluate the guards
					scratch := c19NewReplica(u.conf)
					steps := make([]c19Step, len(path))
					for k, ai := range path {
						o := al[ai]
						if o.Pt != "" && !c19Guard(scratch.listedOf(o.Pt), o) {
							c.Count("pruned-outside-guard(F08)")
							return
						}
						scratch.apply(o, false)
						steps[k] = c19Step{Op: o, Bits: []bool{true, false, c.Rng.Intn(2) == 0}}
					}
					id := fmt.Sprintf("c19.x%d", ui)
					for _, ai := range path {
						id += fmt.Sprintf(".%d", ai)
					}
					if c19Run(c, id, u, steps, len(path)-1, true, len(path) >= 4) {
						c.NonTrivial(id)
					}
				}
				if len(path) < maxLen {
					for ai := range al {
						ml := maxLen
						if len(path) == 0 && ml == 4 && al[ai].Kind != "add" {
							// length 4 only for logs that start by changing the empty enforcer; a log whose
							// first call is a no-op on memory is covered up to length 3
							ml = 3
						}
						rec(append(append([]int(nil), path...), ai), ml)
					}
				}
			}
			rec(nil, depth)
		}
		// (1b) calls outside the F08 guard, correspondence only: from every state reached by an
		// in-guard log of the exhaustive alphabet (quick: length <= 1, and every second length-2 log whose first
		// call is an AddPoliciesSelf; thorough: length <= 2), every identity update, update onto a
		// listed rule and overlapping / identity batch update of c19OogOps, followed by
		// AddPoliciesSelf and RemovePoliciesSelf of the whole rule universe of that type (they show
		// which rules the index still knows), observed from the out-of-guard call on
		for ui, u := range unis {
			al := u.alphabet()
			oogs := c19OogOps(u)
			var paths [][]int
			paths = append(paths, nil)
			for a := range al {
				paths = append(paths, []int{a})
				for b := range al {
					if c.Thorough() || (al[a].Kind == "add" && (a+b)%2 == 0) {
						paths = append(paths, []int{a, b})
					}
				}
			}
			for pi, path := range paths {
				scratch := c19NewReplica(u.conf)
				var prefix []c19Step
				ok := true
				for _, ai := range path {
					o := al[ai]
					if o.Pt != "" && !c19Guard(scratch.listedOf(o.Pt), o) {
						ok = false
						break
					}
					scratch.apply(o, false)
					prefix = append(prefix, c19Step{Op: o, Bits: []bool{true, false, c.Rng.Intn(2) == 0}})
				}
				if !ok {
					continue
				}
				for oi, o := range oogs {
					if c19Guard(scratch.listedOf(o.Pt), o) {
						continue // inside the guard in this state: the main stream covers it
					}
					all := u.rules[o.Pt]
					steps := append(append([]c19Step(nil), prefix...),
						c19Step{Op: o, Bits: []bool{true, false, c.Rng.Intn(2) == 0}, Oog: true},
						c19Step{Op: c19Op{Kind: "add", Pt: o.Pt, R1: all}, Bits: []bool{true, false, true}},
						c19Step{Op: c19Op{Kind: "remove", Pt: o.Pt, R1: all}, Bits: []bool{true, false, false}})
					id := fmt.Sprintf("c19.o%d.%d.%d", ui, pi, oi)
					if c19Run(c, id, u, steps, len(prefix), true, false) {
						c.NonTrivial(id)
					}
				}
			}
		}
		// (2) random logs, three replicas
		nrand := 400
		if c.Thorough() {
			nrand = 20000
		}
		for i := 0; i < nrand; i++ {
			u := unis[i%2]
			steps := c19RandomLog(c, u, 12, 3, false, false, i%3 == 2)
			id := fmt.Sprintf("c19.r%d", i)
			if c19Run(c, id, u, steps, 0, true, i >= 400) {
				c.NonTrivial(id)
			}
		}
		// (3) injected adapter failures, one replica with a mostly-true predicate
		nfail := 150
		if c.Thorough() {
			nfail = 3000
		}
		for i := 0; i < nfail; i++ {
			u := unis[i%2]
			steps := c19RandomLog(c, u, 10, 1, false, true, false)
			id := fmt.Sprintf("c19.f%d", i)
			if c19Run(c, id, u, steps, 0, false, i >= 400) {
				c.NonTrivial(id)
			}
		}
		// (4) UpdateFilteredPoliciesSelf on a persisting replica
		nuf := 150
		if c.Thorough() {
			nuf = 3000
		}
		for i := 0; i < nuf; i++ {
			u := unis[i%2]
			steps := c19RandomLog(c, u, 10, 1, true, false, false)
			id := fmt.Sprintf("c19.u%d", i)
			if c19Run(c, id, u, steps, 0, false, i >= 400) {
				c.NonTrivial(id)
			}
		}
		c.Exhaust = false
		c19Probes(c)
	})
}

// ---------- probes of the known findings ----------

func c19Probes(c *Ctx) {
	never := func() bool { return false }
	{ // F08: UpdatePolicySelf to a rule that is already listed lists it twice
		r := c19NewReplica(machRBAC)
		A, Bq := []string{"alice", "data1", "read"}, []string{"bob", "data2", "write"}
		_, _ = r.D.AddPoliciesSelf(never, "p", "p", [][]string{A, Bq})
		ok, _ := r.D.UpdatePolicySelf(never, "p", "p", A, Bq)
		pol := r.listedOf("p")
		aff, _ := r.D.RemovePoliciesSelf(never, "p", "p", [][]string{Bq})
		still := containsRule(r.listedOf("p"), Bq)
		same, _ := r.D.UpdatePolicySelf(never, "p", "p", Bq, Bq)
		if ok && len(pol) == 2 && sameRule(pol[0], pol[1]) && len(aff) == 1 && still && same {
			c.Known = append(c.Known, "F08\treproduced\tUpdatePolicySelf(A->B) with B listed lists B twice; RemovePoliciesSelf([B]) then reports B removed while B is still listed; UpdatePolicySelf(B->B) reports true")
		} else {
			c.Known = append(c.Known, "F08\tgone\t")
		}
	}
	{ // F09 family: without persistence UpdateFilteredPoliciesSelf has no old rules
		r := c19NewReplica(machRBAC)
		A, N := []string{"alice", "data1", "read"}, []string{"alice", "data2", "write"}
		_, _ = r.D.AddPoliciesSelf(never, "p", "p", [][]string{A})
		ok, err := r.D.UpdateFilteredPoliciesSelf(never, "p", "p", [][]string{N}, 0, "alice")
		pol := r.listedOf("p")
		if !ok && err == nil && containsRule(pol, N) && containsRule(pol, A) {
			c.Known = append(c.Known, "F09\treproduced\tUpdateFilteredPoliciesSelf with persist=false: old rules are nil, the new rule is added next to the one it should replace and the call reports false")
		} else {
			c.Known = append(c.Known, "F09\tgone\t")
		}
	}
}
