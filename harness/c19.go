package main

import (
	"crypto/md5"
	"fmt"
	"strconv"
	"strings"

	casbin "github.com/casbin/casbin/v2"
	"github.com/casbin/casbin/v2/model"
	"github.com/casbin/casbin/v2/persist"
)

// C19: replicated self-operations are exact, idempotent and deterministic.
// Four real casbin.DistributedEnforcer replicas (persist always / never / by a seeded coin, and a
// fourth one wired to its own recording dispatcher), each
// over its own recording set-semantics adapter (recAdapter of mach.go), apply the same log of
// *Self calls.  After every observed call, on every replica: the returned affected list / bool /
// error, the adapter calls made by this call, the adapter content, the listed rules of every
// type, HasLink/GetRoles/GetUsers over the name universe and the Enforce decisions of a fixed
// request set are compared with the Coq model (Dist.dstep with the same persist bit).  On the
// implementation alone: replicas agree, a repeated call reports nothing and changes nothing,
// a replica that was not asked to persist leaves its adapter untouched, and the affected lists
// are exactly the rules added / removed.

type c19Op struct {
	Kind string // add remove removefiltered clear update updatemany updatefiltered failnext
	Pt   string
	R1   [][]string // rules / old rule(s)
	R2   [][]string // new rule(s)
	Fi   int
	Fvs  []string
	K    int
}

func (o c19Op) Sx() string {
	switch o.Kind {
	case "add", "remove":
		return L(o.Kind, Q(o.Pt), QLL(o.R1))
	case "removefiltered":
		return L(o.Kind, Q(o.Pt), I(o.Fi), QL(o.Fvs))
	case "clear":
		return L(o.Kind)
	case "update":
		return L(o.Kind, Q(o.Pt), QL(o.R1[0]), QL(o.R2[0]))
	case "updatemany":
		return L(o.Kind, Q(o.Pt), QLL(o.R1), QLL(o.R2))
	case "updatefiltered":
		return L(o.Kind, Q(o.Pt), QLL(o.R2), I(o.Fi), QL(o.Fvs))
	case "failnext":
		return L(o.Kind, I(o.K))
	}
	panic("c19: bad op kind " + o.Kind)
}

// ---------- a replica ----------

type c19Replica struct {
	D    *casbin.DistributedEnforcer
	A    *recAdapter
	M    *mach      // view of the embedded enforcer for the shared observers
	log0 int        // adapter log length after construction (the initial LoadPolicy)
	Disp *c19Disp   // the replica's own dispatcher (nil: SetDispatcher was never called)
	Aff  [][]string // the affected rules returned by the last Add / Remove / RemoveFiltered call
}

// c19Disp is a dispatcher that only records what it is asked to replicate.  The *Self calls are
// what a dispatcher invokes on the receiving replicas: none of them may ever reach it.
type c19Disp struct{ Calls []string }

var _ persist.Dispatcher = (*c19Disp)(nil)

func (s *c19Disp) rec(name string) error { s.Calls = append(s.Calls, name); return nil }
func (s *c19Disp) AddPolicies(sec string, ptype string, rules [][]string) error {
	return s.rec("AddPolicies")
}
func (s *c19Disp) RemovePolicies(sec string, ptype string, rules [][]string) error {
	return s.rec("RemovePolicies")
}
func (s *c19Disp) RemoveFilteredPolicy(sec string, ptype string, fieldIndex int, fieldValues ...string) error {
	return s.rec("RemoveFilteredPolicy")
}
func (s *c19Disp) ClearPolicy() error { return s.rec("ClearPolicy") }
func (s *c19Disp) UpdatePolicy(sec string, ptype string, oldRule, newRule []string) error {
	return s.rec("UpdatePolicy")
}
func (s *c19Disp) UpdatePolicies(sec string, ptype string, oldrules, newRules [][]string) error {
	return s.rec("UpdatePolicies")
}
func (s *c19Disp) UpdateFilteredPolicies(sec string, ptype string, oldRules [][]string, newRules [][]string) error {
	return s.rec("UpdateFilteredPolicies")
}

// c19NewReplica builds a replica; wired: it gets its own recording dispatcher through
// SetDispatcher (auto-notify stays at its default, on), as in a real deployment.
func c19NewReplica(conf machConf, wired bool) *c19Replica {
	m, err := model.NewModelFromString(conf.Text)
	if err != nil {
		panic(err)
	}
	a := newRecAdapter()
	d, err := casbin.NewDistributedEnforcer(m, a)
	if err != nil {
		panic(err)
	}
	r := &c19Replica{D: d, A: a, M: &mach{Conf: conf, E: d.Enforcer, A: a}, log0: len(a.Log)}
	if wired {
		r.Disp = &c19Disp{}
		d.SetDispatcher(r.Disp)
	}
	return r
}

func (r *c19Replica) dispKey() string {
	if r.Disp == nil {
		return "none"
	}
	return "[" + strings.Join(r.Disp.Calls, " ") + "]"
}

// hasKey: what the index (PolicyMap) of every type knows about the rules of the universe
func (u c19Uni) hasKey(r *c19Replica) string {
	var b strings.Builder
	for _, pt := range u.pts {
		sec := "p"
		if r.M.Conf.Def(pt).IsG {
			sec = "g"
		}
		for _, rule := range u.rules[pt] {
			ok, err := r.D.GetModel().HasPolicy(sec, pt, rule)
			if err != nil {
				b.WriteString("E")
			} else {
				b.WriteString(B(ok))
			}
		}
		b.WriteString("|")
	}
	return b.String()
}

func c19Rules(aff [][]string, err error) string {
	return "aff=" + rulesKey(aff) + " " + errStr(err)
}
func c19Flag(b bool, err error) string { return "flag=" + B(b) + " " + errStr(err) }

// apply runs one *Self call with the given answer of the persist predicate.
func (r *c19Replica) apply(o c19Op, persist bool) (res string) {
	defer func() {
		if rec := recover(); rec != nil {
			res = "panic"
		}
	}()
	called := 0
	sp := func() bool { called++; return persist }
	d := r.D
	sec := "p"
	if df := r.M.Conf.Def(o.Pt); df != nil && df.IsG {
		sec = "g"
	}
	switch o.Kind {
	case "add":
		aff, err := d.AddPoliciesSelf(sp, sec, o.Pt, o.R1)
		r.Aff = aff
		return c19Rules(aff, err)
	case "remove":
		aff, err := d.RemovePoliciesSelf(sp, sec, o.Pt, o.R1)
		r.Aff = aff
		return c19Rules(aff, err)
	case "removefiltered":
		aff, err := d.RemoveFilteredPolicySelf(sp, sec, o.Pt, o.Fi, o.Fvs...)
		r.Aff = aff
		return c19Rules(aff, err)
	case "clear":
		return errStr(d.ClearPolicySelf(sp))
	case "update":
		return c19Flag(d.UpdatePolicySelf(sp, sec, o.Pt, o.R1[0], o.R2[0]))
	case "updatemany":
		return c19Flag(d.UpdatePoliciesSelf(sp, sec, o.Pt, o.R1, o.R2))
	case "updatefiltered":
		return c19Flag(d.UpdateFilteredPoliciesSelf(sp, sec, o.Pt, o.R2, o.Fi, o.Fvs...))
	case "failnext":
		r.A.FailIn = o.K
		return "ok"
	}
	panic("c19: bad op " + o.Kind)
}

func (r *c19Replica) listedOf(pt string) [][]string {
	d := r.M.Conf.Def(pt)
	if d == nil {
		return nil
	}
	var rules [][]string
	if d.IsG {
		rules, _ = r.D.Enforcer.GetNamedGroupingPolicy(pt)
	} else {
		rules, _ = r.D.Enforcer.GetNamedPolicy(pt)
	}
	return append([][]string(nil), rules...)
}

// ---------- universes ----------

type c19Uni struct {
	conf    machConf
	rules   map[string][][]string // 4-rule universe per policy type
	pts     []string
	linkObs [][]string // per role definition: pt, then names
	domains []string
	reqs    [][]string
}

func c19RBAC() c19Uni {
	u := c19Uni{conf: machRBAC, pts: []string{"g", "g2", "p", "p2"}}
	u.rules = map[string][][]string{
		"g":  {{"alice", "admin"}, {"bob", "admin"}, {"admin", "root"}, {"root", "alice"}},
		"g2": {{"data1", "grp"}, {"data2", "grp"}, {"grp", "all"}, {"data2", "all"}},
		"p":  {{"admin", "data1", "read"}, {"alice", "data2", "write"}, {"root", "grp", "read"}, {"bob", "all", "write"}},
		"p2": {{"alice", "x"}, {"alice", "y"}, {"bob", "x"}, {"bob", "y"}},
	}
	u.linkObs = [][]string{{"g", "alice", "bob", "admin", "root"}, {"g2", "data1", "data2", "grp", "all"}}
	for _, s := range []string{"alice", "bob", "admin", "root"} {
		for _, o := range []string{"data1", "data2"} {
			for _, a := range []string{"read", "write"} {
				u.reqs = append(u.reqs, []string{s, o, a})
			}
		}
	}
	return u
}

func c19Domain() c19Uni {
	u := c19Uni{conf: machDomain, pts: []string{"g", "p"}, domains: []string{"d1", "d2"}}
	u.rules = map[string][][]string{
		"g": {{"alice", "admin", "d1"}, {"alice", "admin", "d2"}, {"bob", "admin", "d1"}, {"admin", "root", "d1"}},
		"p": {{"admin", "d1", "data1", "read"}, {"root", "d1", "data2", "write"}, {"admin", "d2", "data1", "read"}, {"alice", "d2", "data2", "write"}},
	}
	u.linkObs = [][]string{{"g", "alice", "bob", "admin", "root"}}
	for _, s := range []string{"alice", "bob", "admin", "root"} {
		for _, d := range []string{"d1", "d2"} {
			for _, o := range []string{"data1", "data2"} {
				for _, a := range []string{"read", "write"} {
					u.reqs = append(u.reqs, []string{s, d, o, a})
				}
			}
		}
	}
	return u
}

// c19Priority: a model with an explicit priority column (p = priority, sub, obj, act, eft;
// e = priority(p.eft) || deny).  model.AddPolicy inserts a rule with a numeric priority behind
// the last rule whose priority is not greater (PolicyMap of every rule it passes is bumped);
// the seven p rules force insertion in front (P1, P4, P5 before P0), ties (P0/P2, P1/P5, P3/P6:
// the later rule goes behind the earlier one) and a rule that sorts last (P3, P6).
func c19Priority() c19Uni {
	u := c19Uni{conf: machPriority, pts: []string{"g", "p"}}
	u.rules = map[string][][]string{
		"g": {{"alice", "admin"}, {"bob", "admin"}, {"admin", "root"}, {"root", "alice"}},
		"p": {{"10", "alice", "data1", "read", "allow"}, {"5", "admin", "data1", "read", "deny"},
			{"10", "bob", "data2", "write", "allow"}, {"20", "root", "data2", "write", "deny"},
			{"1", "alice", "data2", "write", "deny"}, {"5", "bob", "data1", "read", "allow"},
			{"20", "admin", "data2", "write", "allow"}},
	}
	u.linkObs = [][]string{{"g", "alice", "bob", "admin", "root"}}
	for _, s := range []string{"alice", "bob", "admin", "root"} {
		for _, o := range []string{"data1", "data2"} {
			for _, a := range []string{"read", "write"} {
				u.reqs = append(u.reqs, []string{s, o, a})
			}
		}
	}
	return u
}

// prioCol: the priority column of a policy type, -1 when it has none
func (u c19Uni) prioCol(pt string) int {
	if d := u.conf.Def(pt); d != nil {
		return d.Prio
	}
	return -1
}

// c19SortedNum: every rule has a numeric priority in column col and the priorities do not decrease
func c19SortedNum(rules [][]string, col int) bool {
	last := 0
	for i, r := range rules {
		if col >= len(r) {
			return false
		}
		v, err := strconv.Atoi(r[col])
		if err != nil || (i > 0 && v < last) {
			return false
		}
		last = v
	}
	return true
}

func c19AllNum(rules [][]string, col int) bool {
	for _, r := range rules {
		if col >= len(r) {
			return false
		}
		if _, err := strconv.Atoi(r[col]); err != nil {
			return false
		}
	}
	return true
}

func (u c19Uni) header() string {
	var lo []string
	for _, l := range u.linkObs {
		lo = append(lo, L(Q(l[0]), QL(l[1:]), QL(u.domains)))
	}
	var un []string
	for _, pt := range u.pts {
		un = append(un, L(Q(pt), QLL(u.rules[pt])))
	}
	return fmt.Sprintf("(cfg %s) (kind %s) (links %s) (reqs %s) (uni %s)",
		strings.TrimSuffix(strings.TrimPrefix(u.conf.Sx(), "("), ")"), u.conf.Name,
		strings.Join(lo, " "), strings.TrimSuffix(strings.TrimPrefix(QLL(u.reqs), "("), ")"),
		strings.Join(un, " "))
}

func (u c19Uni) decisions(r *c19Replica) string {
	var b strings.Builder
	for _, q := range u.reqs {
		ok, err := r.D.Enforce(toIface(q)...)
		if err != nil {
			b.WriteString("E")
		} else {
			b.WriteString(B(ok))
		}
	}
	return b.String()
}

func (u c19Uni) links(r *c19Replica) []string {
	var out []string
	for _, l := range u.linkObs {
		out = append(out, r.M.linksKey(l[0], l[1:], u.domains))
	}
	return out
}

// the alphabet of the exhaustive part: repeated and overlapping batches on every type
func (u c19Uni) alphabet() []c19Op {
	var al []c19Op
	rs := func(pt string, is ...int) [][]string {
		var out [][]string
		for _, i := range is {
			out = append(out, u.rules[pt][i])
		}
		return out
	}
	G, P := u.rules["g"], u.rules["p"]
	al = append(al,
		c19Op{Kind: "add", Pt: "g", R1: rs("g", 0)},
		c19Op{Kind: "add", Pt: "g", R1: rs("g", 0, 1)},
		c19Op{Kind: "add", Pt: "g", R1: rs("g", 1, 2, 1)},
		c19Op{Kind: "add", Pt: "g", R1: rs("g", 2, 3)},
		c19Op{Kind: "remove", Pt: "g", R1: rs("g", 0)},
		c19Op{Kind: "remove", Pt: "g", R1: rs("g", 1, 0, 1)},
		c19Op{Kind: "remove", Pt: "g", R1: rs("g", 2, 3)},
		c19Op{Kind: "removefiltered", Pt: "g", Fi: 0, Fvs: []string{G[0][0]}},
		c19Op{Kind: "removefiltered", Pt: "g", Fi: 1, Fvs: []string{G[0][1]}},
		c19Op{Kind: "update", Pt: "g", R1: rs("g", 0), R2: rs("g", 3)},
		c19Op{Kind: "update", Pt: "g", R1: rs("g", 2), R2: rs("g", 1)},
		c19Op{Kind: "updatemany", Pt: "g", R1: rs("g", 0, 1), R2: rs("g", 2, 3)},
		c19Op{Kind: "add", Pt: "p", R1: rs("p", 0, 1)},
		c19Op{Kind: "add", Pt: "p", R1: rs("p", 1, 2, 0)},
		c19Op{Kind: "remove", Pt: "p", R1: rs("p", 0, 2)},
		c19Op{Kind: "removefiltered", Pt: "p", Fi: 1, Fvs: []string{P[0][1]}},
		c19Op{Kind: "update", Pt: "p", R1: rs("p", 0), R2: rs("p", 3)},
		c19Op{Kind: "updatemany", Pt: "p", R1: rs("p", 1, 2), R2: rs("p", 3, 0)},
		c19Op{Kind: "clear"},
	)
	switch u.conf.Name {
	case "rbac":
		al = append(al,
			c19Op{Kind: "add", Pt: "g2", R1: rs("g2", 0, 1)},
			c19Op{Kind: "remove", Pt: "g2", R1: rs("g2", 0)},
			c19Op{Kind: "update", Pt: "g2", R1: rs("g2", 1), R2: rs("g2", 2)},
			c19Op{Kind: "add", Pt: "p2", R1: rs("p2", 0, 1, 2)},
			c19Op{Kind: "removefiltered", Pt: "p2", Fi: 0, Fvs: []string{"alice"}},
			c19Op{Kind: "removefiltered", Pt: "p2", Fi: 0, Fvs: []string{}}, // no filter value: every rule matches
		)
	case "priority":
		// the generic part already inserts in front (add p(0,1): P1 before P0; add p(1,2,0): P1, then
		// P2 behind it, then P0 behind its tie P2) and updates across priorities (P0 -> P3)
		al = append(al,
			c19Op{Kind: "add", Pt: "p", R1: rs("p", 4)},       // in front of everything
			c19Op{Kind: "add", Pt: "p", R1: rs("p", 3, 5)},    // last, then into the middle (tie with P1)
			c19Op{Kind: "add", Pt: "p", R1: rs("p", 6, 2, 4)}, // tie with P3, tie with P0, front
			c19Op{Kind: "remove", Pt: "p", R1: rs("p", 3)},    // the rule that sorts last
			c19Op{Kind: "remove", Pt: "p", R1: rs("p", 6, 0)},
			c19Op{Kind: "remove", Pt: "p", R1: rs("p", 1, 4)},
			c19Op{Kind: "update", Pt: "p", R1: rs("p", 3), R2: rs("p", 6)}, // same priority, the last rule
			c19Op{Kind: "update", Pt: "p", R1: rs("p", 0), R2: rs("p", 2)}, // same priority
			c19Op{Kind: "updatemany", Pt: "p", R1: rs("p", 3, 1), R2: rs("p", 6, 5)},
			c19Op{Kind: "removefiltered", Pt: "p", Fi: 0, Fvs: []string{"10"}},
			c19Op{Kind: "removefiltered", Pt: "p", Fi: 4, Fvs: []string{"deny"}},
		)
	default:
		al = append(al,
			c19Op{Kind: "removefiltered", Pt: "g", Fi: 2, Fvs: []string{"d1"}},
			c19Op{Kind: "removefiltered", Pt: "g", Fi: 0, Fvs: []string{"", "", "d2"}},
			c19Op{Kind: "add", Pt: "p", R1: rs("p", 3, 3)},
			c19Op{Kind: "add", Pt: "g", R1: [][]string{}},
		)
	}
	return al
}

// c19Witnesses: logs that must stay in the stream whatever the seed.
// an adapter with the five mandatory calls only (no batch, no update calls)
type c19MinAdapter struct{}

func (c19MinAdapter) LoadPolicy(model.Model) error                   { return nil }
func (c19MinAdapter) SavePolicy(model.Model) error                   { return nil }
func (c19MinAdapter) AddPolicy(string, string, []string) error       { return nil }
func (c19MinAdapter) RemovePolicy(string, string, []string) error    { return nil }
func (c19MinAdapter) RemoveFilteredPolicy(string, string, int, ...string) error {
	return nil
}

// the storage adapter is touched only when the persist predicate says so: a replica that never
// persists needs no adapter at all (or only a minimal one) -- with the predicate answering false
// every *Self operation gives the results and the policy of a replica that has a full adapter.
func c19BareReplicas(c *Ctx) {
	seq := []c19Op{
		{Kind: "add", Pt: "p", R1: [][]string{{"alice", "data1", "read"}, {"bob", "data2", "write"}}},
		{Kind: "add", Pt: "g", R1: [][]string{{"alice", "admin"}}},
		{Kind: "update", Pt: "p", R1: [][]string{{"alice", "data1", "read"}}, R2: [][]string{{"alice", "data1", "write"}}},
		{Kind: "updatemany", Pt: "p", R1: [][]string{{"bob", "data2", "write"}}, R2: [][]string{{"bob", "data3", "write"}}},
		{Kind: "updatefiltered", Pt: "p", R2: [][]string{{"carol", "data1", "read"}}, Fi: 0, Fvs: []string{"alice"}},
		{Kind: "update", Pt: "g", R1: [][]string{{"alice", "admin"}}, R2: [][]string{{"alice", "staff"}}},
		{Kind: "updatemany", Pt: "g", R1: [][]string{{"alice", "staff"}}, R2: [][]string{{"alice", "root"}}},
		{Kind: "removefiltered", Pt: "p", Fi: 0, Fvs: []string{"bob"}},
		{Kind: "remove", Pt: "g", R1: [][]string{{"alice", "root"}}},
		{Kind: "clear"},
	}
	for _, kind := range []string{"no-adapter", "minimal-adapter"} {
		ref := c19NewReplica(machRBAC, false)
		m, _ := model.NewModelFromString(machRBAC.Text)
		var d *casbin.DistributedEnforcer
		var err error
		if kind == "no-adapter" {
			d, err = casbin.NewDistributedEnforcer(m)
		} else {
			d, err = casbin.NewDistributedEnforcer(m, c19MinAdapter{})
		}
		if err != nil {
			c.Direct("c19.bare."+kind, "cannot build the replica", err.Error())
			continue
		}
		bare := &c19Replica{D: d, A: newRecAdapter(), M: &mach{Conf: machRBAC, E: d.Enforcer, A: newRecAdapter()}}
		for k, o := range seq {
			a, b := ref.apply(o, false), bare.apply(o, false)
			la, lb := ref.M.listedKey(), bare.M.listedKey()
			if a != b || la != lb {
				c.Direct(fmt.Sprintf("c19.bare.%s.%d", kind, k), fmt.Sprintf("persist predicate false: %s on a replica with %s gives %s / %s, a replica with a full adapter gives %s / %s", o.Sx(), kind, b, lb, a, la), "")
				break
			}
		}
		c.Count("bare-replica")
	}
}

func c19Witnesses(u c19Uni) [][]c19Op {
	G, P := u.rules["g"], u.rules["p"]
	g := func(is ...int) [][]string {
		var out [][]string
		for _, i := range is {
			out = append(out, G[i])
		}
		return out
	}
	p := func(is ...int) [][]string {
		var out [][]string
		for _, i := range is {
			out = append(out, P[i])
		}
		return out
	}
	ws := [][]c19Op{
		// F02 (repaired by bd8551d): a grouping rule added, ClearPolicySelf: the link must be gone on
		// every replica ...
		{{Kind: "add", Pt: "g", R1: g(0)}, {Kind: "clear"}, {Kind: "add", Pt: "g", R1: g(2)}},
		// ... and so must the g() results memoised in the compiled matcher: after the clear only the
		// p rules come back, a request that needed the link must now be denied
		{{Kind: "add", Pt: "g", R1: g(0, 2)}, {Kind: "add", Pt: "p", R1: p(0, 1, 2)}, {Kind: "clear"}, {Kind: "add", Pt: "p", R1: p(0, 1, 2)},
			{Kind: "add", Pt: "g", R1: g(2)}, {Kind: "clear"}, {Kind: "clear"}},
		// a replayed log: every entry twice
		{{Kind: "add", Pt: "g", R1: g(0, 1, 0)}, {Kind: "add", Pt: "g", R1: g(0, 1, 0)},
			{Kind: "update", Pt: "g", R1: g(0), R2: g(3)}, {Kind: "update", Pt: "g", R1: g(0), R2: g(3)},
			{Kind: "updatemany", Pt: "g", R1: g(1, 3), R2: g(2, 0)}, {Kind: "updatemany", Pt: "g", R1: g(1, 3), R2: g(2, 0)},
			{Kind: "remove", Pt: "g", R1: g(2, 2, 1)}, {Kind: "remove", Pt: "g", R1: g(2, 2, 1)},
			{Kind: "removefiltered", Pt: "g", Fi: 0, Fvs: []string{G[0][0]}}, {Kind: "removefiltered", Pt: "g", Fi: 0, Fvs: []string{G[0][0]}}},
		// a batch update refused half-way (second old rule not listed) is rolled back on every replica
		{{Kind: "add", Pt: "p", R1: p(0)}, {Kind: "updatemany", Pt: "p", R1: p(0, 1), R2: p(2, 3)}, {Kind: "updatemany", Pt: "p", R1: p(0, 1), R2: p(2, 3)},
			{Kind: "add", Pt: "p", R1: p(1)}, {Kind: "updatemany", Pt: "p", R1: p(0, 1), R2: p(2, 3)}, {Kind: "updatemany", Pt: "p", R1: p(0, 1), R2: p(2, 3)}},
	}
	if u.conf.Name == "priority" {
		ws = append(ws,
			// a rule inserted in front of the listed ones, then the rule that sorts LAST is removed,
			// removed again (replay), re-added, replaced by a rule of the same priority (twice) ...
			[]c19Op{{Kind: "add", Pt: "p", R1: p(0, 3)}, {Kind: "add", Pt: "p", R1: p(4)},
				{Kind: "remove", Pt: "p", R1: p(3)}, {Kind: "remove", Pt: "p", R1: p(3)},
				{Kind: "add", Pt: "p", R1: p(3)}, {Kind: "add", Pt: "p", R1: p(1)},
				{Kind: "update", Pt: "p", R1: p(3), R2: p(6)}, {Kind: "update", Pt: "p", R1: p(3), R2: p(6)},
				{Kind: "remove", Pt: "p", R1: p(6)}, {Kind: "remove", Pt: "p", R1: p(0, 4, 1)}},
			// ... only ONE rule is shifted by the insertion, then a batch update names the last rule
			[]c19Op{{Kind: "add", Pt: "p", R1: p(3)}, {Kind: "add", Pt: "p", R1: p(1)},
				{Kind: "updatemany", Pt: "p", R1: p(3, 1), R2: p(6, 5)}, {Kind: "updatemany", Pt: "p", R1: p(3, 1), R2: p(6, 5)},
				{Kind: "remove", Pt: "p", R1: p(6)}, {Kind: "remove", Pt: "p", R1: p(5)}},
			// ties: a rule goes behind the listed rules of the same priority, in front of the greater ones
			[]c19Op{{Kind: "add", Pt: "p", R1: p(3, 0, 1)}, {Kind: "add", Pt: "p", R1: p(2, 5, 6)}, {Kind: "add", Pt: "p", R1: p(4, 4, 2)},
				{Kind: "remove", Pt: "p", R1: p(6, 3)}, {Kind: "remove", Pt: "p", R1: p(6, 3)},
				{Kind: "removefiltered", Pt: "p", Fi: 0, Fvs: []string{"10"}}, {Kind: "clear"}, {Kind: "add", Pt: "p", R1: p(3, 4)},
				{Kind: "remove", Pt: "p", R1: p(3)}},
			// the priority effect: the first matching rule with a decided effect wins; a link changes who matches
			[]c19Op{{Kind: "add", Pt: "g", R1: g(0)}, {Kind: "add", Pt: "p", R1: p(0, 5)}, {Kind: "add", Pt: "p", R1: p(1)},
				{Kind: "remove", Pt: "g", R1: g(0)}, {Kind: "remove", Pt: "p", R1: p(0)}, {Kind: "add", Pt: "g", R1: g(0, 1)}})
	}
	return ws
}

// c19OogOps: the calls of part (1b); each is outside the F08 guard in some reachable state.
func c19OogOps(u c19Uni) []c19Op {
	var out []c19Op
	pts := []string{"g", "p"}
	if u.conf.Name == "rbac" {
		pts = append(pts, "g2")
	}
	for _, pt := range pts {
		if u.prioCol(pt) >= 0 {
			// F08 x priority column, kept out of the stream: once an update onto a listed rule has
			// listed a rule twice, the priority bubble of a later AddPoliciesSelf bumps the rule's single
			// PolicyMap entry once per listed copy it passes, past the end of the list, and the next
			// RemovePoliciesSelf naming it panics (slice bounds out of range) where Store.remove is total
			continue
		}
		R := u.rules[pt]
		rs := func(is ...int) [][]string {
			var o [][]string
			for _, i := range is {
				o = append(o, R[i])
			}
			return o
		}
		out = append(out,
			c19Op{Kind: "update", Pt: pt, R1: rs(0), R2: rs(0)},           // identity
			c19Op{Kind: "update", Pt: pt, R1: rs(1), R2: rs(1)},           // identity
			c19Op{Kind: "update", Pt: pt, R1: rs(0), R2: rs(1)},           // onto a listed rule
			c19Op{Kind: "update", Pt: pt, R1: rs(2), R2: rs(0)},           // onto a listed rule
			c19Op{Kind: "updatemany", Pt: pt, R1: rs(0, 1), R2: rs(1, 2)}, // chain: new[0] = old[1]
			c19Op{Kind: "updatemany", Pt: pt, R1: rs(0, 1), R2: rs(1, 0)}, // swap
			c19Op{Kind: "updatemany", Pt: pt, R1: rs(0, 1), R2: rs(0, 1)}, // identity batch
			c19Op{Kind: "updatemany", Pt: pt, R1: rs(1), R2: rs(1)},       // identity batch of one
			c19Op{Kind: "updatemany", Pt: pt, R1: rs(0, 2), R2: rs(3, 3)}, // both onto one new rule
			c19Op{Kind: "updatemany", Pt: pt, R1: rs(2, 0), R2: rs(2, 3)}) // identity + ordinary
	}
	return out
}

// c19Guard: the call is inside the guards of the theorems, given the rules listed now.
//
//	update:     the old rule is not listed (no-op) or the new rule is not listed, and old != new (F08)
//	updatemany: equal non-zero lengths; the first old rule is not listed (immediate no-op) or the
//	            new rules are pairwise distinct, not listed and none is an old rule of the call (F08)
func c19Guard(listed [][]string, o c19Op) bool {
	switch o.Kind {
	case "update":
		if sameRule(o.R1[0], o.R2[0]) {
			return false
		}
		return !(containsRule(listed, o.R1[0]) && containsRule(listed, o.R2[0]))
	case "updatemany":
		if len(o.R1) != len(o.R2) || len(o.R1) == 0 {
			return false
		}
		if !containsRule(listed, o.R1[0]) {
			return true
		}
		for i, n := range o.R2 {
			if containsRule(listed, n) || containsRule(o.R1, n) || containsRule(o.R2[:i], n) {
				return false
			}
		}
	}
	return true
}

// ---------- running one log ----------

type c19Step struct {
	Op   c19Op
	Bits []bool // persist answer per replica
	Oog  bool   // the call is outside the F08 guard in the state it is applied to
}

func c19LogSx(steps []c19Step) string {
	var items []string
	for _, s := range steps {
		it := []string{s.Op.Sx()}
		for _, b := range s.Bits {
			it = append(it, B(b))
		}
		items = append(items, L(it...))
	}
	return strings.Join(items, " ")
}

func c19First(rules [][]string, keep func(r []string) bool) [][]string {
	var out [][]string
	for _, r := range rules {
		if keep(r) && !containsRule(out, r) {
			out = append(out, r)
		}
	}
	return out
}

// c19Snap: what is observed of a replica's memory
type c19Snap struct {
	full   bool // links and dec were taken
	listed string
	has    string
	links  []string
	dec    string
}

func (u c19Uni) take(r *c19Replica, full bool) c19Snap {
	s := c19Snap{full: full, listed: r.M.listedKey(), has: u.hasKey(r)}
	if full {
		s.links, s.dec = u.links(r), u.decisions(r)
	}
	return s
}

// c19Wire: which replicas of a log get their own recording dispatcher.  Logs with several
// replicas: persist always / never / seeded coin without dispatcher, and a fourth one (seeded
// coin) wired with SetDispatcher; single-replica logs: the replica is wired in every second log.
func c19Wire(nrep int, single bool) []bool {
	w := make([]bool, nrep)
	if nrep > 1 {
		w[nrep-1] = true
	} else {
		w[0] = single
	}
	return w
}

// c19Bits: persist answers of the four replicas of a log: always, never, coin, coin (wired)
func c19Bits(c *Ctx) []bool {
	return []bool{true, false, c.Rng.Intn(2) == 0, c.Rng.Intn(2) == 0}
}

// c19Matches: the filter of RemoveFilteredPolicy ("" matches every value); the harness keeps
// fi + len(fvs) within the rule length
func c19Matches(r []string, fi int, fvs []string) bool {
	for i, v := range fvs {
		if fi+i >= len(r) || (v != "" && r[fi+i] != v) {
			return false
		}
	}
	return true
}

func c19ReplaceFirst(l [][]string, o, n []string) [][]string {
	out := append([][]string(nil), l...)
	for i, r := range out {
		if sameRule(r, o) {
			out[i] = n
			break
		}
	}
	return out
}

// c19Run applies the log to len(steps[0].Bits) fresh replicas, observing from step `from` on.
// wired[i]: replica i has its own recording dispatcher; no *Self call may reach it, and the replica
// must behave like the others.
// agree: the replicas must agree with each other (no injected failure, no UpdateFiltered).
// digest: one line per case carrying the MD5 of all its observables (thorough tier).
func c19Run(c *Ctx, id string, u c19Uni, steps []c19Step, from int, agree bool, digest bool, wired []bool) (nontrivial bool) {
	nrep := len(steps[0].Bits)
	var wb []string
	for _, w := range wired {
		wb = append(wb, B(w))
	}
	c.Case(id, fmt.Sprintf("%s (wired %s) (from %d) (digest %s) (ops %s)", u.header(), strings.Join(wb, " "), from, B(digest), c19LogSx(steps)))
	reps := make([]*c19Replica, nrep)
	for i := range reps {
		reps[i] = c19NewReplica(u.conf, wired[i])
	}
	replay := func() string {
		return fmt.Sprintf("model=%s wired=%s ops=%s", u.conf.Name, strings.Join(wb, ""), c19LogSx(steps))
	}
	sum := md5.New()
	if digest {
		defer func() { c.Obs(id, "all", fmt.Sprintf("%x", sum.Sum(nil))) }()
	}
	// F08 (known): outside the guard the listing may hold a rule twice or lose its index entry;
	// "affected is exact" and "a repeated call reports nothing" are known to fail from then on.
	// The model follows the code there, so the log stays in the correspondence stream (and the
	// replica-agreement / persist-only-if-asked / failed-persist / dispatcher-free predicates, which
	// do not depend on the guard, stay on); the F08-sensitive predicates stop at the first such call.
	tainted := false
	dispSeen := make([]int, nrep)
	prev := make([]c19Snap, nrep)
	// a *Self call is what a dispatcher invokes on the receiving replica: it never goes back to the
	// replica's own dispatcher (whatever the guards, failures included)
	checkDisp := func(i, k int, o c19Op) {
		r := reps[i]
		if r.Disp != nil && len(r.Disp.Calls) != dispSeen[i] {
			c.Direct(id, fmt.Sprintf("replica %d: the *Self call at step %d (%s) was handed to the replica's own dispatcher: %v", i, k, o.Kind, r.Disp.Calls[dispSeen[i]:]), replay())
			dispSeen[i] = len(r.Disp.Calls)
		}
	}
	for k, st := range steps {
		o := st.Op
		c.Count(o.Kind)
		if st.Oog {
			if !tainted {
				c.Count("outside-F08-guard(correspondence only)")
			}
			tainted = true
		}
		if k < from { // a prefix that shorter logs of the enumeration have observed already
			for i, r := range reps {
				r.apply(o, st.Bits[i])
				checkDisp(i, k, o)
			}
			continue
		}
		// the state before the call: the snapshot taken after the previous observed call, or a fresh
		// one; links and decisions (the expensive part) are only taken when a predicate needs them:
		// the call repeats the previous one, or adapter failures are injected (!agree)
		needFull := !agree || (k > 0 && steps[k-1].Op.Sx() == o.Sx())
		before := make([]c19Snap, nrep)
		var before0 [][]string
		if o.Pt != "" {
			before0 = reps[0].listedOf(o.Pt)
		}
		for i, r := range reps {
			if prev[i].full {
				before[i] = prev[i]
			} else {
				// replica 0 always: its Enforce calls fill the matcher cache (memoised g() results) before
				// the call, so a call that forgets to invalidate it serves stale answers afterwards
				before[i] = u.take(r, needFull || i == 0)
			}
		}
		var first struct {
			res string
			s   c19Snap
		}
		for i, r := range reps {
			l0 := len(r.A.Log)
			content0 := r.A.contentKey()
			res := r.apply(o, st.Bits[i])
			adlog := strings.Join(r.A.Log[l0:], " ; ")
			after := u.take(r, true)
			prev[i] = after
			if after.listed != before[i].listed || (strings.HasPrefix(res, "aff=[")) || strings.HasPrefix(res, "flag=1") {
				nontrivial = true
			}
			pre := fmt.Sprintf("%d.%d.", k, i)
			if digest {
				all := []string{pre, res, adlog, r.A.contentKey(), after.listed, after.has}
				all = append(append(all, after.links...), after.dec, r.dispKey())
				sum.Write([]byte(strings.Join(all, "\n") + "\n"))
			} else {
				c.Obs(id, pre+"res", res)
				c.Obs(id, pre+"adlog", adlog)
				c.Obs(id, pre+"adcontent", r.A.contentKey())
				c.Obs(id, pre+"listed", after.listed)
				c.Obs(id, pre+"has", after.has)
				for j, l := range u.linkObs {
					c.Obs(id, pre+"links."+l[0], after.links[j])
				}
				c.Obs(id, pre+"dec", after.dec)
				if r.Disp != nil {
					c.Obs(id, pre+"disp", r.dispKey())
				}
			}
			checkDisp(i, k, o)
			if o.Kind == "failnext" {
				continue
			}
			// the adapter is touched only when the persist predicate says so
			if !st.Bits[i] && (adlog != "" || r.A.contentKey() != content0) {
				c.Direct(id, fmt.Sprintf("replica %d was not asked to persist, yet its adapter was touched at step %d: %s", i, k, adlog), replay())
			}
			if st.Bits[i] && len(r.A.Log)-l0 > 1 {
				c.Direct(id, fmt.Sprintf("replica %d made more than one adapter call at step %d: %s", i, k, adlog), replay())
			}
			// a failed persist leaves memory unchanged
			if strings.HasSuffix(res, "err") &&
				(after.listed != before[i].listed || after.has != before[i].has ||
					(before[i].full && strings.Join(after.links, "#") != strings.Join(before[i].links, "#"))) {
				c.Direct(id, fmt.Sprintf("replica %d: the call at step %d returned an error (failed adapter call), yet memory changed", i, k), replay())
			}
			if agree {
				if i == 0 {
					first.res, first.s = res, after
				} else if res != first.res || after.listed != first.s.listed || after.has != first.s.has || after.dec != first.s.dec ||
					strings.Join(after.links, "#") != strings.Join(first.s.links, "#") {
					c.Direct(id, fmt.Sprintf("replicas 0 and %d disagree after step %d (result, listed rules, indexed rules, links or decisions)", i, k), replay())
				}
				// a repeated call reports nothing and changes nothing
				if !tainted && k > 0 && steps[k-1].Op.Sx() == o.Sx() && o.Pt != "p9" {
					nothing := res == "aff= ok" || res == "flag=0 ok" || (o.Kind == "clear" && res == "ok")
					if !nothing || after.listed != before[i].listed || after.has != before[i].has || after.dec != before[i].dec ||
						strings.Join(after.links, "#") != strings.Join(before[i].links, "#") {
						c.Direct(id, fmt.Sprintf("replica %d: the call at step %d repeats the previous one but reported %q or changed memory", i, k, res), replay())
					}
				}
			}
		}
		if !(agree && !tainted) || o.Pt == "" || reps[0].M.Conf.Def(o.Pt) == nil {
			continue
		}
		// inside the guards, on replica 0 (the others agree with it): the reported rules / flag are
		// exactly what was added / removed / replaced, the index knows exactly the listed rules, and
		// a type with a priority column stays sorted by priority
		after0 := reps[0].listedOf(o.Pt)
		col := u.prioCol(o.Pt)
		switch o.Kind {
		case "add":
			// reported: the rules of the batch that were not listed, batch order, each once; listed
			// afterwards: the old rules in their old order plus exactly the reported ones — appended in
			// batch order when the type has no priority column
			want := c19First(o.R1, func(r []string) bool { return !containsRule(before0, r) })
			wantAfter := append(append([][]string(nil), before0...), want...)
			okAfter := rulesKey(after0) == rulesKey(wantAfter)
			if col >= 0 {
				old := c19First(after0, func(r []string) bool { return containsRule(before0, r) })
				okAfter = sortedRulesKey(after0) == sortedRulesKey(wantAfter) && len(after0) == len(wantAfter) &&
					rulesKey(old) == rulesKey(before0)
			}
			if first.res != c19Rules(want, nil) || !okAfter {
				c.Direct(id, fmt.Sprintf("step %d: reported %q, expected %q; listed %s, expected %s", k, first.res, c19Rules(want, nil), rulesKey(after0), rulesKey(wantAfter)), replay())
			}
			if col >= 0 && c19SortedNum(before0, col) && c19AllNum(o.R1, col) && !c19SortedNum(after0, col) {
				c.Direct(id, fmt.Sprintf("step %d: the rules of %s were sorted by priority, AddPoliciesSelf of rules with numeric priorities left them unsorted: %s", k, o.Pt, rulesKey(after0)), replay())
			}
		case "remove", "removefiltered":
			// every rule reported as removed is no longer listed, every rule no longer listed was
			// reported, the others keep their order; RemovePoliciesSelf reports in batch order
			aff := reps[0].Aff
			var wantAfter [][]string
			for _, r := range before0 {
				if !containsRule(aff, r) {
					wantAfter = append(wantAfter, r)
				}
			}
			bad := rulesKey(after0) != rulesKey(wantAfter) || len(before0)-len(after0) != len(aff)
			if o.Kind == "remove" {
				want := c19First(o.R1, func(r []string) bool { return containsRule(before0, r) })
				bad = bad || first.res != c19Rules(want, nil)
			} else { // the listed rules matching the filter, in listing order
				want := c19First(before0, func(r []string) bool { return c19Matches(r, o.Fi, o.Fvs) })
				bad = bad || first.res != c19Rules(want, nil)
			}
			if bad {
				c.Direct(id, fmt.Sprintf("step %d: reported %q; listed before %s, after %s: the reported rules are not exactly the rules that went", k, first.res, rulesKey(before0), rulesKey(after0)), replay())
			}
			if col >= 0 && c19SortedNum(before0, col) && !c19SortedNum(after0, col) {
				c.Direct(id, fmt.Sprintf("step %d: a removal left the rules of %s unsorted: %s", k, o.Pt, rulesKey(after0)), replay())
			}
		case "update":
			// true iff the old rule was listed; then it was replaced in its slot
			want, wantAfter := "flag=0 ok", before0
			if containsRule(before0, o.R1[0]) {
				want, wantAfter = "flag=1 ok", c19ReplaceFirst(before0, o.R1[0], o.R2[0])
			}
			if first.res != want || rulesKey(after0) != rulesKey(wantAfter) {
				c.Direct(id, fmt.Sprintf("step %d: reported %q, expected %q; listed %s, expected %s", k, first.res, want, rulesKey(after0), rulesKey(wantAfter)), replay())
			}
		case "updatemany":
			// true iff every old rule was listed when its turn came; then each was replaced in its
			// slot; otherwise the batch was rolled back completely
			want, wantAfter := "flag=1 ok", before0
			for j := range o.R1 {
				if !containsRule(wantAfter, o.R1[j]) {
					want, wantAfter = "flag=0 ok", before0
					break
				}
				wantAfter = c19ReplaceFirst(wantAfter, o.R1[j], o.R2[j])
			}
			if first.res != want || rulesKey(after0) != rulesKey(wantAfter) {
				c.Direct(id, fmt.Sprintf("step %d: reported %q, expected %q; listed %s, expected %s", k, first.res, want, rulesKey(after0), rulesKey(wantAfter)), replay())
			}
		}
		// the index knows exactly the listed rules (the rules of the universe are the only ones used)
		for j, r := range u.rules[o.Pt] {
			if u.hasOf(first.s.has, o.Pt, j) != containsRule(after0, r) {
				c.Direct(id, fmt.Sprintf("step %d: rule %v of %s is listed: %v, known to the index: %v", k, r, o.Pt, containsRule(after0, r), !containsRule(after0, r)), replay())
				break
			}
		}
	}
	return nontrivial
}

// hasOf: the bit of rule j of type pt in a hasKey
func (u c19Uni) hasOf(key string, pt string, j int) bool {
	parts := strings.Split(key, "|")
	for i, p := range u.pts {
		if p == pt && i < len(parts) && j < len(parts[i]) {
			return parts[i][j] == '1'
		}
	}
	return false
}

// ---------- generators ----------

func c19RandomOp(c *Ctx, u c19Uni, withFiltered bool) c19Op {
	pt := u.pts[c.Rng.Intn(len(u.pts))]
	R := u.rules[pt]
	arity := len(R[0])
	batch := func() [][]string {
		n := c.Rng.Intn(5)
		var out [][]string
		for i := 0; i < n; i++ {
			out = append(out, R[c.Rng.Intn(len(R))])
		}
		return out
	}
	filter := func() (int, []string) {
		r := R[c.Rng.Intn(len(R))]
		fi := c.Rng.Intn(arity)
		n := 1 + c.Rng.Intn(arity-fi)
		fvs := make([]string, n)
		for i := range fvs {
			if c.Rng.Intn(3) > 0 {
				fvs[i] = r[fi+i]
			}
		}
		return fi, fvs
	}
	x := c.Rng.Intn(100)
	if withFiltered && x < 30 {
		fi, fvs := filter()
		return c19Op{Kind: "updatefiltered", Pt: pt, R2: batch(), Fi: fi, Fvs: fvs}
	}
	switch {
	case x < 28:
		return c19Op{Kind: "add", Pt: pt, R1: batch()}
	case x < 50:
		return c19Op{Kind: "remove", Pt: pt, R1: batch()}
	case x < 62:
		fi, fvs := filter()
		return c19Op{Kind: "removefiltered", Pt: pt, Fi: fi, Fvs: fvs}
	case x < 76:
		return c19Op{Kind: "update", Pt: pt, R1: [][]string{R[c.Rng.Intn(len(R))]}, R2: [][]string{R[c.Rng.Intn(len(R))]}}
	case x < 90:
		n := 1 + c.Rng.Intn(2)
		perm := c.Rng.Perm(len(R))
		var os, ns [][]string
		for i := 0; i < n; i++ {
			os = append(os, R[perm[i]])
			ns = append(ns, R[perm[(i+n)%len(R)]])
		}
		if c.Rng.Intn(6) == 0 { // a repeated old rule: the second pair is refused and the batch rolled back
			os[n-1] = os[0]
		}
		switch c.Rng.Intn(6) {
		case 0: // overlapping: the new rules are the old ones rotated / shifted (outside the F08 guard when listed)
			for i := range ns {
				ns[i] = os[(i+1)%n]
			}
		case 1: // identity batch
			for i := range ns {
				ns[i] = os[i]
			}
		case 2: // any new rules, listed or not, repeated or not
			for i := range ns {
				ns[i] = R[c.Rng.Intn(len(R))]
			}
		}
		return c19Op{Kind: "updatemany", Pt: pt, R1: os, R2: ns}
	case x < 96:
		return c19Op{Kind: "clear"}
	case x < 98:
		// a policy type the model does not define: every call fails without touching memory
		o := c19Op{Kind: []string{"add", "remove", "update"}[c.Rng.Intn(3)], Pt: "p9", R1: [][]string{{"a", "b"}}, R2: [][]string{{"c", "d"}}}
		if o.Kind != "update" && c.Rng.Intn(3) == 0 {
			o.R1 = [][]string{} // AddPoliciesSelf reaches the adapter before it fails only for an empty batch
		}
		return o
	default:
		return c19Op{Kind: "removefiltered", Pt: pt, Fi: 0, Fvs: []string{}}
	}
}

// c19RandomLog draws a log inside the guards by running it on a scratch replica.
//
// allowOog: a call outside the F08 guard (update onto a listed rule, identity update, overlapping
// batch update) is kept half of the time and marked; the log goes on behind it (the model follows
// the code there).  Batch updates outside the guard are limited to two pairs: a refused longer
// batch is rolled back by iterating a Go map, whose order matters once the pairs overlap.
func c19RandomLog(c *Ctx, u c19Uni, maxLen int, nrep int, withFiltered bool, withFailures bool, allowOog bool) []c19Step {
	scratch := c19NewReplica(u.conf, false)
	n := 1 + c.Rng.Intn(maxLen)
	var steps []c19Step
	for len(steps) < n {
		var o c19Op
		if len(steps) > 0 && steps[len(steps)-1].Op.Kind != "failnext" && c.Rng.Intn(4) == 0 {
			o = steps[len(steps)-1].Op // replayed entry
		} else if withFailures && c.Rng.Intn(5) == 0 {
			o = c19Op{Kind: "failnext", K: c.Rng.Intn(2)}
		} else {
			o = c19RandomOp(c, u, withFiltered)
		}
		oog := false
		if o.Pt != "" && !c19Guard(scratch.listedOf(o.Pt), o) {
			if !allowOog || c.Rng.Intn(2) == 0 || u.prioCol(o.Pt) >= 0 || // (priority column: see c19OogOps)
				(o.Kind == "updatemany" && (len(o.R1) != len(o.R2) || len(o.R1) == 0 || len(o.R1) > 2)) {
				c.Count("redrawn-outside-guard(F08)")
				continue
			}
			oog = true
		}
		bits := make([]bool, nrep)
		for i := range bits {
			switch {
			case nrep == 1:
				bits[i] = withFiltered || c.Rng.Intn(4) > 0
			case i == 0:
				bits[i] = true
			case i == 1:
				bits[i] = false
			default:
				bits[i] = c.Rng.Intn(2) == 0
			}
		}
		if o.Kind != "failnext" {
			scratch.apply(o, false)
		}
		steps = append(steps, c19Step{Op: o, Bits: bits, Oog: oog})
	}
	return steps
}

func init() {
	register("C19", func(c *Ctx) {
		c19BareReplicas(c)
		c.Rule = "four real DistributedEnforcer replicas (persist always / never / seeded coin without dispatcher, and a fourth one with a seeded coin that is wired to its own recording persist.Dispatcher through SetDispatcher, auto-notify on) over recording set-semantics adapters apply the same log of *Self calls, on three models: RBAC (p, p2, g, g2), RBAC with domains, and a model with an explicit priority column (p = priority, sub, obj, act, eft under priority(p.eft) || deny; seven p rules whose priorities force insertion in front of listed rules, ties, and rules that sort last). Observed per call and replica: result, adapter calls and content, listed rules, what the index (PolicyMap) knows about every rule of the universe, HasLink/GetRoles/GetUsers, Enforce decisions, and for the wired replica the calls its dispatcher received (the model says: none, ever). (0) fixed witnesses (F02 links and memoised g() results after ClearPolicySelf, a fully replayed log, a refused batch update; priority model: insertion in front then removal / update / batch update of the rule that sorts last, each replayed, ties, the priority effect with a link); (1) exhaustive: every log of length <= 3 on the RBAC model (thorough: also length 4 for logs starting with an AddPoliciesSelf), <= 2 on the domain model and on the priority model (thorough: <= 3 there) over an alphabet of 25 (RBAC) / 23 (domain) / 30 (priority) calls with repeated and overlapping batches, observed after its last call; (2) seeded random logs of <= 12 calls (random batches with repetition, replayed entries, empty batches, unknown type), observed after every call; (3) a single persisting replica with injected adapter failures and (4) a single persisting replica with UpdateFilteredPoliciesSelf — in both the replica is wired to a dispatcher in every second log. Direct predicates on the implementation alone: the wired replica's dispatcher never receives a call (every stream, no guard); replicas agree (results, listed rules, indexed rules, links, decisions); persist only when asked; a failed persist leaves memory alone; and inside the guards (F08: update targets not listed, no identity update): the reported rules / flag of Add / Remove / RemoveFiltered / Update / UpdatePolicies are exactly what was added / removed / replaced (every rule reported as removed is no longer listed, every rule no longer listed was reported, the others keep their order), the index knows exactly the listed rules, a repeated call reports nothing and changes nothing, and a type with a priority column that was sorted stays sorted (numeric priorities; removals always). OUTSIDE the F08 guard the model follows the code, so such calls are part of the correspondence stream (and of the guard-independent predicates): (1b) from every in-guard state of the exhaustive part up to length 1 (half of the length-2 logs behind an AddPoliciesSelf; thorough: all of length 2) every identity update, update onto a listed rule, overlapping / swapping / identity batch update of g, p (and g2), followed by AddPoliciesSelf and RemovePoliciesSelf of the type's whole rule universe, and a third of the random logs of (2) keep half of their out-of-guard draws (batches of <= 2 pairs) and go on behind them — except on a type with a priority column (F08 x priority bubble: the duplicated rule's single index entry is bumped past the end of the list and a later RemovePoliciesSelf panics where Store.remove is total). Distinct = (model, log); non-trivial = the log contains a call that changes memory or reports a non-empty result."
		unis := []c19Uni{c19RBAC(), c19Domain(), c19Priority()}
		// (0) fixed witnesses, observed after every call on the three replicas
		for ui, u := range unis {
			for wi, w := range c19Witnesses(u) {
				steps := make([]c19Step, len(w))
				for k, o := range w {
					steps[k] = c19Step{Op: o, Bits: []bool{true, false, (k+wi)%2 == 0, (k+wi)%3 == 0}}
				}
				id := fmt.Sprintf("c19.w%d.%d", ui, wi)
				if c19Run(c, id, u, steps, 0, true, false, c19Wire(4, false)) {
					c.NonTrivial(id)
				}
			}
		}
		// (1) exhaustive
		for ui, u := range unis {
			al := u.alphabet()
			depth := 3
			if c.Thorough() && ui == 0 {
				depth = 4
			}
			if ui >= 1 && !(c.Thorough() && ui == 2) {
				depth = 2 // domain model; priority model in the quick tier
			}
			var rec func(path []int, maxLen int)
			rec = func(path []int, maxLen int) {
				if len(path) > 0 {
					// replay on a scratch replica to evaluate the guards
					scratch := c19NewReplica(u.conf, false)
					steps := make([]c19Step, len(path))
					for k, ai := range path {
						o := al[ai]
						if o.Pt != "" && !c19Guard(scratch.listedOf(o.Pt), o) {
							c.Count("pruned-outside-guard(F08)")
							return
						}
						scratch.apply(o, false)
						steps[k] = c19Step{Op: o, Bits: c19Bits(c)}
					}
					id := fmt.Sprintf("c19.x%d", ui)
					for _, ai := range path {
						id += fmt.Sprintf(".%d", ai)
					}
					if c19Run(c, id, u, steps, len(path)-1, true, len(path) >= 4, c19Wire(4, false)) {
						c.NonTrivial(id)
					}
				}
				if len(path) < maxLen {
					for ai := range al {
						ml := maxLen
						if len(path) == 0 && ml == 4 && al[ai].Kind != "add" {
							// length 4 only for logs that start by changing the empty enforcer; a log whose
							// first call is a no-op on memory is covered up to length 3
							ml = 3
						}
						rec(append(append([]int(nil), path...), ai), ml)
					}
				}
			}
			rec(nil, depth)
		}
		// (1b) calls outside the F08 guard, correspondence only: from every state reached by an
		// in-guard log of the exhaustive alphabet (quick: length <= 1, and every second length-2 log whose first
		// call is an AddPoliciesSelf; thorough: length <= 2), every identity update, update onto a
		// listed rule and overlapping / identity batch update of c19OogOps, followed by
		// AddPoliciesSelf and RemovePoliciesSelf of the whole rule universe of that type (they show
		// which rules the index still knows), observed from the out-of-guard call on
		for ui, u := range unis {
			al := u.alphabet()
			oogs := c19OogOps(u)
			var paths [][]int
			paths = append(paths, nil)
			for a := range al {
				paths = append(paths, []int{a})
				for b := range al {
					if c.Thorough() || (al[a].Kind == "add" && (a+b)%2 == 0) {
						paths = append(paths, []int{a, b})
					}
				}
			}
			for pi, path := range paths {
				scratch := c19NewReplica(u.conf, false)
				var prefix []c19Step
				ok := true
				for _, ai := range path {
					o := al[ai]
					if o.Pt != "" && !c19Guard(scratch.listedOf(o.Pt), o) {
						ok = false
						break
					}
					scratch.apply(o, false)
					prefix = append(prefix, c19Step{Op: o, Bits: c19Bits(c)})
				}
				if !ok {
					continue
				}
				for oi, o := range oogs {
					if c19Guard(scratch.listedOf(o.Pt), o) {
						continue // inside the guard in this state: the main stream covers it
					}
					all := u.rules[o.Pt]
					steps := append(append([]c19Step(nil), prefix...),
						c19Step{Op: o, Bits: c19Bits(c), Oog: true},
						c19Step{Op: c19Op{Kind: "add", Pt: o.Pt, R1: all}, Bits: []bool{true, false, true, false}},
						c19Step{Op: c19Op{Kind: "remove", Pt: o.Pt, R1: all}, Bits: []bool{true, false, false, true}})
					id := fmt.Sprintf("c19.o%d.%d.%d", ui, pi, oi)
					if c19Run(c, id, u, steps, len(prefix), true, false, c19Wire(4, false)) {
						c.NonTrivial(id)
					}
				}
			}
		}
		// (2) random logs, three replicas
		nquick := 450
		nrand := nquick
		if c.Thorough() {
			nrand = 20000
		}
		for i := 0; i < nrand; i++ {
			u := unis[i%3]
			steps := c19RandomLog(c, u, 12, 4, false, false, (i/3)%3 == 2)
			id := fmt.Sprintf("c19.r%d", i)
			if c19Run(c, id, u, steps, 0, true, i >= nquick, c19Wire(4, false)) {
				c.NonTrivial(id)
			}
		}
		// (3) injected adapter failures, one replica with a mostly-true predicate
		nfail := 150
		if c.Thorough() {
			nfail = 3000
		}
		for i := 0; i < nfail; i++ {
			u := unis[i%3]
			steps := c19RandomLog(c, u, 10, 1, false, true, false)
			id := fmt.Sprintf("c19.f%d", i)
			if c19Run(c, id, u, steps, 0, false, i >= 400, c19Wire(1, (i/3)%2 == 1)) {
				c.NonTrivial(id)
			}
		}
		// (4) UpdateFilteredPoliciesSelf on a persisting replica
		nuf := 150
		if c.Thorough() {
			nuf = 3000
		}
		for i := 0; i < nuf; i++ {
			u := unis[i%3]
			steps := c19RandomLog(c, u, 10, 1, true, false, false)
			id := fmt.Sprintf("c19.u%d", i)
			if c19Run(c, id, u, steps, 0, false, i >= 400, c19Wire(1, (i/3)%2 == 1)) {
				c.NonTrivial(id)
			}
		}
		c.Exhaust = false
		c19Probes(c)
	})
}

// ---------- probes of the known findings ----------

func c19Probes(c *Ctx) {
	never := func() bool { return false }
	{ // F08: UpdatePolicySelf to a rule that is already listed lists it twice
		r := c19NewReplica(machRBAC, false)
		A, Bq := []string{"alice", "data1", "read"}, []string{"bob", "data2", "write"}
		_, _ = r.D.AddPoliciesSelf(never, "p", "p", [][]string{A, Bq})
		ok, _ := r.D.UpdatePolicySelf(never, "p", "p", A, Bq)
		pol := r.listedOf("p")
		aff, _ := r.D.RemovePoliciesSelf(never, "p", "p", [][]string{Bq})
		still := containsRule(r.listedOf("p"), Bq)
		same, _ := r.D.UpdatePolicySelf(never, "p", "p", Bq, Bq)
		if ok && len(pol) == 2 && sameRule(pol[0], pol[1]) && len(aff) == 1 && still && same {
			c.Known = append(c.Known, "F08\treproduced\tUpdatePolicySelf(A->B) with B listed lists B twice; RemovePoliciesSelf([B]) then reports B removed while B is still listed; UpdatePolicySelf(B->B) reports true")
		} else {
			c.Known = append(c.Known, "F08\tgone\t")
		}
	}
	{ // F09 family: without persistence UpdateFilteredPoliciesSelf has no old rules
		r := c19NewReplica(machRBAC, false)
		A, N := []string{"alice", "data1", "read"}, []string{"alice", "data2", "write"}
		_, _ = r.D.AddPoliciesSelf(never, "p", "p", [][]string{A})
		ok, err := r.D.UpdateFilteredPoliciesSelf(never, "p", "p", [][]string{N}, 0, "alice")
		pol := r.listedOf("p")
		if !ok && err == nil && containsRule(pol, N) && containsRule(pol, A) {
			c.Known = append(c.Known, "F09\treproduced\tUpdateFilteredPoliciesSelf with persist=false: old rules are nil, the new rule is added next to the one it should replace and the call reports false")
		} else {
			c.Known = append(c.Known, "F09\tgone\t")
		}
	}
}
