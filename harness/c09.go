package main

import (
	"fmt"
	"os"
	"strings"
	"sync"
	"time"

	"github.com/casbin/casbin/v2/util"
)

// C09: util.KeyMatch/KeyGet/KeyMatch2/KeyGet2/KeyMatch3/KeyGet3/KeyMatch4/KeyMatch5/IPMatch and
// their *Func wrappers against the extracted Coq model (coq/KeyMatch.v, coq/IpMatch.v), plus an
// independent reference matcher written here (no regexp, no net package) for the property's own
// predicate, plus a 16-goroutine purity run.
//
// Streams:
//   grid     every pattern of the segment grammar up to N segments x every path up to M segments
//            (bounded-exhaustive); each pattern is looked at through up to five "views"
//            (syntax, structured pattern) that are well-formed for that syntax
//   hostile  random well-formed patterns with unusual bytes, paths made by instantiating them
//   outside  the witnesses of the refuted lemmas (outside wf_pattern / nl_free); the model is
//            faithful there too, so they are compared as well
//   func     the govaluate wrappers with right / wrong arity and non-string arguments
//   ip       random IPv4 / IPv6 / IPv4-mapped addresses and CIDR prefixes in several text forms,
//            single addresses, malformed texts
//   conc     the same calls from 16 goroutines (results must equal the sequential ones)
//   cold     (child process, c09_proc.go) 16 goroutines meet fresh patterns on a cold regexp cache
//   poison   (child process, c09_proc.go) panicking calls followed by valid calls under a watchdog
//   *-race   both child phases once more under the race detector (go1.26.8) when available

const (
	c09Plain = iota
	c09Colon
	c09Brace
)

var c09SyName = []string{"plain", "colon", "brace"}

type c09Seg struct {
	par bool
	s   string
}

type c09Pat struct {
	segs []c09Seg
	star bool
}

func c09PrintSeg(sy int, s c09Seg) string {
	if !s.par {
		return s.s
	}
	switch sy {
	case c09Colon:
		return ":" + s.s
	case c09Brace:
		return "{" + s.s + "}"
	}
	return s.s
}

func c09Print(sy int, p c09Pat) string {
	var b strings.Builder
	for _, s := range p.segs {
		b.WriteByte('/')
		b.WriteString(c09PrintSeg(sy, s))
	}
	if p.star {
		b.WriteString("/*")
	}
	return b.String()
}

func c09IsMeta(ch byte) bool { return strings.IndexByte(`\.+*?()|[]{}^$`, ch) >= 0 }

// mirror of KeyMatch.wf_pattern
func c09Wf(sy int, p c09Pat) bool {
	for _, s := range p.segs {
		if s.par {
			if sy == c09Plain || s.s == "" {
				return false
			}
			for i := 0; i < len(s.s); i++ {
				ch := s.s[i]
				if ch == '/' || (sy == c09Brace && ch == '}') {
					return false
				}
			}
			continue
		}
		for i := 0; i < len(s.s); i++ {
			ch := s.s[i]
			switch sy {
			case c09Plain:
				if ch == '/' || ch == '*' {
					return false
				}
			default:
				if ch >= 0x80 || c09IsMeta(ch) || ch == '/' || (sy == c09Colon && ch == ':') {
					return false
				}
			}
		}
	}
	return true
}

// every segment becomes the literal of its text under syntax sy
func c09Plainify(sy int, p c09Pat) c09Pat {
	q := c09Pat{star: p.star}
	for _, s := range p.segs {
		q.segs = append(q.segs, c09Seg{false, c09PrintSeg(sy, s)})
	}
	return q
}

func c09HasPar(p c09Pat) bool {
	for _, s := range p.segs {
		if s.par {
			return true
		}
	}
	return false
}

func c09Names(p c09Pat) []string {
	var out []string
	seen := map[string]bool{}
	for _, s := range p.segs {
		if s.par && !seen[s.s] {
			seen[s.s] = true
			out = append(out, s.s)
		}
	}
	return out
}

func c09SegsSx(p c09Pat) string {
	items := make([]string, len(p.segs))
	for i, s := range p.segs {
		if s.par {
			items[i] = L("P", Q(s.s))
		} else {
			items[i] = L("L", Q(s.s))
		}
	}
	return L(items...)
}

// ---------- the reference (segment level, no regexp) ----------

// values of the placeholders and whether the path fits
func c09RefFill(p c09Pat, path string) ([]string, bool) {
	var ss []string
	if path != "" {
		if path[0] != '/' {
			return nil, false
		}
		rest := path[1:]
		cur := ""
		for i := 0; i < len(rest); i++ {
			if rest[i] == '/' {
				ss = append(ss, cur)
				cur = ""
			} else {
				cur += rest[i : i+1]
			}
		}
		ss = append(ss, cur)
	}
	var vals []string
	i := 0
	for _, s := range p.segs {
		if i >= len(ss) {
			return nil, false
		}
		if s.par {
			if ss[i] == "" {
				return nil, false
			}
			vals = append(vals, ss[i])
		} else if ss[i] != s.s {
			return nil, false
		}
		i++
	}
	if p.star {
		return vals, i < len(ss)
	}
	return vals, i == len(ss)
}

func c09RefFirst(p c09Pat, vals []string, name string) string {
	k := 0
	for _, s := range p.segs {
		if s.par {
			if s.s == name {
				return vals[k]
			}
			k++
		}
	}
	return ""
}

func c09RefConsistent(p c09Pat, vals []string) bool {
	seen := map[string]string{}
	k := 0
	for _, s := range p.segs {
		if s.par {
			if v, ok := seen[s.s]; ok && v != vals[k] {
				return false
			}
			if _, ok := seen[s.s]; !ok {
				seen[s.s] = vals[k]
			}
			k++
		}
	}
	return true
}

func c09StripQuery(s string) string {
	if i := strings.IndexByte(s, '?'); i >= 0 {
		return s[:i]
	}
	return s
}

// ---------- running the implementation ----------

func c09B(f func() bool) (r byte) {
	defer func() {
		if recover() != nil {
			r = 'P'
		}
	}()
	if f() {
		return '1'
	}
	return '0'
}

func c09V(f func() string) (r string) {
	defer func() {
		if recover() != nil {
			r = "!P"
		}
	}()
	return Q(f())
}

type c09PathSet struct {
	id    string
	paths []string
}

// one recorded call for the concurrency run
type c09Call struct {
	fn         string
	a, b, name string
	want       string
}

type c09Gen struct {
	c     *Ctx
	n     int
	calls []c09Call
	keep  int // keep every keep-th call for the concurrency run
	tick  int
}

func (g *c09Gen) record(fn, a, b, name, want string) {
	g.tick++
	if g.keep > 0 && g.tick%g.keep == 0 {
		g.calls = append(g.calls, c09Call{fn, a, b, name, want})
	}
}

func (g *c09Gen) newSet(paths []string) *c09PathSet {
	g.n++
	s := &c09PathSet{id: fmt.Sprintf("c09.s%d", g.n), paths: paths}
	g.c.Case(s.id, "paths "+QL(paths))
	return s
}

func c09Call1(fn, a, b, name string) string {
	switch fn {
	case "km":
		return string(c09B(func() bool { return util.KeyMatch(a, b) }))
	case "kg":
		return c09V(func() string { return util.KeyGet(a, b) })
	case "km2":
		return string(c09B(func() bool { return util.KeyMatch2(a, b) }))
	case "kg2":
		return c09V(func() string { return util.KeyGet2(a, b, name) })
	case "km3":
		return string(c09B(func() bool { return util.KeyMatch3(a, b) }))
	case "kg3":
		return c09V(func() string { return util.KeyGet3(a, b, name) })
	case "km4":
		return string(c09B(func() bool { return util.KeyMatch4(a, b) }))
	case "km5":
		return string(c09B(func() bool { return util.KeyMatch5(a, b) }))
	case "ip":
		return string(c09B(func() bool { return util.IPMatch(a, b) }))
	}
	panic("c09: unknown function " + fn)
}

// view: one (syntax, pattern) looked at over a path set.  guarded = the paths are inside the
// nl_free guard, so the reference predicate is evaluated as well.
func (g *c09Gen) view(kind string, sy int, p c09Pat, set *c09PathSet, guarded bool) {
	c := g.c
	g.n++
	id := fmt.Sprintf("c09.%s%d", kind, g.n)
	text := c09Print(sy, p)
	wf := c09Wf(sy, p)
	names := append(c09Names(p), "z")
	if sy == c09Plain {
		names = nil
	}
	c.Case(id, fmt.Sprintf("km %s %s %s %s %s", c09SyName[sy], c09SegsSx(p), B(p.star), QL(names), set.id))
	c.Obs(id, "pat", Q(text)+" wf="+B(wf))
	c.Count("view:" + kind + ":" + c09SyName[sy])
	if !wf {
		return
	}
	positive := false
	bits := func(fn string) string {
		var b strings.Builder
		for _, path := range set.paths {
			r := c09Call1(fn, path, text, "")
			g.record(fn, path, text, "", r)
			b.WriteString(r)
		}
		return b.String()
	}
	vals := func(fn, name string) []string {
		out := make([]string, len(set.paths))
		for i, path := range set.paths {
			out[i] = c09Call1(fn, path, text, name)
			g.record(fn, path, text, name, out[i])
		}
		return out
	}
	direct := func(fn string, path string, got, want string) {
		if got != want {
			c.Direct(id, fmt.Sprintf("%s differs from the segment-level reference: got %s want %s", fn, got, want),
				fmt.Sprintf("%s(%q, %q)", fn, path, text))
		}
	}
	wantBit := func(b bool) string {
		if b {
			return "1"
		}
		return "0"
	}
	switch sy {
	case c09Plain:
		km := bits("km")
		kg := vals("kg", "")
		c.Obs(id, "km", km)
		c.Obs(id, "kg", strings.Join(kg, " "))
		if strings.Contains(km, "1") {
			positive = true
		}
		for i, path := range set.paths {
			_, ok := c09RefFill(p, path)
			direct("KeyMatch", path, km[i:i+1], wantBit(ok))
			want := ""
			if ok && p.star {
				want = path[len(c09Print(sy, c09Pat{segs: p.segs}))+1:]
			}
			direct("KeyGet", path, kg[i], Q(want))
		}
	case c09Colon:
		km := bits("km2")
		c.Obs(id, "km2", km)
		if strings.Contains(km, "1") {
			positive = true
		}
		kgs := map[string][]string{}
		for _, n := range names {
			kgs[n] = vals("kg2", n)
			c.Obs(id, "kg2:"+Q(n), strings.Join(kgs[n], " "))
		}
		if guarded {
			for i, path := range set.paths {
				vs, ok := c09RefFill(p, path)
				direct("KeyMatch2", path, km[i:i+1], wantBit(ok))
				for _, n := range names {
					want := ""
					if ok {
						want = c09RefFirst(p, vs, n)
					}
					direct("KeyGet2["+n+"]", path, kgs[n][i], Q(want))
				}
			}
		}
	case c09Brace:
		km3 := bits("km3")
		km4 := bits("km4")
		km5 := bits("km5")
		c.Obs(id, "km3", km3)
		c.Obs(id, "km4", km4)
		c.Obs(id, "km5", km5)
		if strings.Contains(km3+km5, "1") {
			positive = true
		}
		kgs := map[string][]string{}
		for _, n := range names {
			kgs[n] = vals("kg3", n)
			c.Obs(id, "kg3:"+Q(n), strings.Join(kgs[n], " "))
		}
		if guarded {
			for i, path := range set.paths {
				vs, ok := c09RefFill(p, path)
				direct("KeyMatch3", path, km3[i:i+1], wantBit(ok))
				direct("KeyMatch4", path, km4[i:i+1], wantBit(ok && c09RefConsistent(p, vs)))
				_, ok5 := c09RefFill(p, c09StripQuery(path))
				direct("KeyMatch5", path, km5[i:i+1], wantBit(ok5))
				for _, n := range names {
					want := ""
					if ok {
						want = c09RefFirst(p, vs, n)
					}
					direct("KeyGet3["+n+"]", path, kgs[n][i], Q(want))
				}
			}
		}
	}
	if positive {
		c.NonTrivial(id)
	}
}

// all views of a structured pattern that are meaningful
func (g *c09Gen) views(kind string, p c09Pat, sets []*c09PathSet) {
	for _, set := range sets {
		g.view(kind, c09Colon, p, set, true)
		g.view(kind, c09Brace, p, set, true)
		if !c09HasPar(p) {
			g.view(kind, c09Plain, p, set, true)
			continue
		}
		// the texts with placeholders, read by the functions that do not know that syntax:
		// there the placeholder is an ordinary literal
		g.view(kind, c09Plain, c09Plainify(c09Colon, p), set, true)
		g.view(kind, c09Plain, c09Plainify(c09Brace, p), set, true)
		g.view(kind, c09Brace, c09Plainify(c09Colon, p), set, true)
	}
}

// ---------- grid ----------

func c09AllPaths(alpha []string, maxSeg int) []string {
	var out []string
	var rec func(prefix string, n int)
	rec = func(prefix string, n int) {
		if n > 0 {
			out = append(out, prefix)
		}
		if n == maxSeg {
			return
		}
		for _, a := range alpha {
			rec(prefix+"/"+a, n+1)
		}
	}
	rec("", 0)
	return out
}

func c09Chunks(paths []string, size int) [][]string {
	var out [][]string
	for len(paths) > size {
		out = append(out, paths[:size])
		paths = paths[size:]
	}
	if len(paths) > 0 {
		out = append(out, paths)
	}
	return out
}

func (g *c09Gen) grid() {
	c := g.c
	patAlpha := []c09Seg{{false, "a"}, {false, "b"}, {false, "ab"}, {false, ""}, {true, "x"}, {true, "y"}}
	pathAlpha := []string{"a", "b", "", "ab"}
	maxPat, maxPath, chunk := 3, 4, 96
	if c.Thorough() {
		maxPat, maxPath, chunk = 4, 5, 160
		pathAlpha = []string{"a", "b", "", "ab"}
	}
	paths := []string{"", "a", "a/b", "/ab", "/ab/a", "/a/ab", "/ab/ab", "/b/ab/a", "/a/b/ab"}
	paths = append(paths, c09AllPaths(pathAlpha, maxPath)...)
	// query strings (KeyMatch5 cuts at the first '?'; for the others '?' is an ordinary byte)
	for _, p := range c09AllPaths([]string{"a", "b", ""}, 2) {
		paths = append(paths, p+"?", p+"?a=/b", p+"/a?b", p+"?a?b", p+"?/a?")
	}
	paths = append(paths, "?", "?/a", "/a/b/a?x=1&y=/2", "??", "/a?/b?/a", "/a/b?a/b?")
	var sets []*c09PathSet
	for _, ch := range c09Chunks(paths, chunk) {
		sets = append(sets, g.newSet(ch))
	}
	c.Count(fmt.Sprintf("grid:paths=%d", len(paths)))
	npat := 0
	var rec func(segs []c09Seg)
	rec = func(segs []c09Seg) {
		for _, star := range []bool{false, true} {
			p := c09Pat{segs: append([]c09Seg(nil), segs...), star: star}
			g.views("g", p, sets)
			npat++
		}
		if len(segs) == maxPat {
			return
		}
		for _, s := range patAlpha {
			rec(append(segs, s))
		}
	}
	rec(nil)
	c.Count(fmt.Sprintf("grid:patterns=%d", npat))
}

// ---------- hostile ----------

const c09LitChars = "abz09_-~%=&,;@!#<>'\" \t\x01\x7f"

func (g *c09Gen) randFrom(chars string, min, max int) string {
	n := min + g.c.Rng.Intn(max-min+1)
	b := make([]byte, n)
	for i := range b {
		b[i] = chars[g.c.Rng.Intn(len(chars))]
	}
	return string(b)
}

func (g *c09Gen) hostile(n int, withNL bool) {
	rng := g.c.Rng
	nameChars := "xyid_*:{.+$()[]^\\|?\xff\xc3\xa9\x00 -"
	valChars := "abxyz09_-.~%:{}*+$()[]^\\|?\xff\xc3\xa9\x00 "
	for k := 0; k < n; k++ {
		sy := c09Colon + rng.Intn(2)
		var p c09Pat
		ns := rng.Intn(6)
		for i := 0; i < ns; i++ {
			if rng.Intn(10) < 4 {
				name := g.randFrom(nameChars, 1, 3)
				if sy == c09Brace {
					name = strings.Replace(name, "}", "x", -1)
				}
				if rng.Intn(3) == 0 && i > 0 {
					// repeat an earlier name
					for _, s := range p.segs {
						if s.par {
							name = s.s
						}
					}
				}
				p.segs = append(p.segs, c09Seg{true, name})
			} else {
				lit := g.randFrom(c09LitChars, 0, 3)
				if sy == c09Brace && rng.Intn(4) == 0 {
					lit += ":"
				}
				p.segs = append(p.segs, c09Seg{false, lit})
			}
		}
		p.star = rng.Intn(3) == 0
		if !c09Wf(sy, p) {
			panic("c09: hostile generator left the guard: " + c09Print(sy, p))
		}
		var paths []string
		for j := 0; j < 6; j++ {
			var segs []string
			var vals = map[string]string{}
			for _, s := range p.segs {
				if s.par {
					v := g.randFrom(valChars, 1, 3)
					if old, ok := vals[s.s]; ok && rng.Intn(3) > 0 {
						v = old
					}
					vals[s.s] = v
					segs = append(segs, v)
				} else if rng.Intn(8) == 0 {
					segs = append(segs, g.randFrom(c09LitChars, 0, 2))
				} else {
					segs = append(segs, s.s)
				}
			}
			if p.star || rng.Intn(6) == 0 {
				for t := rng.Intn(4); t > 0; t-- {
					segs = append(segs, g.randFrom(valChars, 0, 2))
				}
			}
			switch rng.Intn(10) {
			case 0:
				if len(segs) > 0 {
					segs = segs[:len(segs)-1]
				}
			case 1:
				if len(segs) > 0 {
					segs[rng.Intn(len(segs))] = ""
				}
			case 2:
				segs = append(segs, "")
			}
			path := ""
			for _, s := range segs {
				path += "/" + s
			}
			switch rng.Intn(12) {
			case 0:
				path += "?q=/" + g.randFrom(valChars, 0, 2) + "?" + g.randFrom(valChars, 0, 2)
			case 1:
				path = strings.TrimPrefix(path, "/")
			}
			if withNL {
				// somewhere after the first byte
				i := 0
				if len(path) > 0 {
					i = 1 + rng.Intn(len(path))
				}
				path = path[:i] + "\n" + path[i:]
			}
			paths = append(paths, path)
		}
		set := g.newSet(paths)
		if withNL {
			g.view("n", sy, p, set, false)
			g.c.Count("outside-guard:newline")
		} else {
			g.view("h", sy, p, set, true)
		}
	}
	// KeyMatch / KeyGet take any byte but '/' and '*' in a literal
	for k := 0; k < n/4; k++ {
		var p c09Pat
		for i := rng.Intn(5); i > 0; i-- {
			p.segs = append(p.segs, c09Seg{false, g.randFrom("ab:{}.+?$\xff\xc3\xa9\n ", 0, 3)})
		}
		p.star = rng.Intn(2) == 0
		var paths []string
		for j := 0; j < 6; j++ {
			path := c09Print(c09Plain, c09Pat{segs: p.segs})
			switch rng.Intn(6) {
			case 0:
				path += "/"
			case 1:
				path += "/" + g.randFrom("ab/\n*", 0, 4)
			case 2:
				path += g.randFrom("ab/", 1, 2)
			case 3:
				if len(path) > 0 {
					path = path[:len(path)-1]
				}
			}
			paths = append(paths, path)
		}
		g.view("h", c09Plain, p, g.newSet(paths), true)
	}
}

// ---------- outside the guards (witnesses of the refuted lemmas) ----------

func (g *c09Gen) raw(fn string, args ...string) {
	g.n++
	id := fmt.Sprintf("c09.r%d", g.n)
	items := make([]string, len(args))
	for i, a := range args {
		items[i] = Q(a)
	}
	g.c.Case(id, "raw "+fn+" "+strings.Join(items, " "))
	name := ""
	if len(args) > 2 {
		name = args[2]
	}
	r := c09Call1(fn, args[0], args[1], name)
	switch {
	case r == "P" || r == "!P":
		r = "panic"
	case fn == "kg" || fn == "kg2" || fn == "kg3":
		r = "v:" + r
	}
	g.c.Obs(id, fn, r)
}

// keyMatch / keyGet with the star ANYWHERE in the pattern (in the middle, doubled, followed by a
// suffix, first byte): the documented semantics cover the trailing star only, but the model
// follows the code for every pattern (prefix up to the first star), so these are correspondence
// cases: every pattern of <= 4 bytes over {a / *} against every path of <= 4 bytes over {a b /}.
func (g *c09Gen) starGrid() {
	var gen func(alpha string, n int, cur string, out *[]string)
	gen = func(alpha string, n int, cur string, out *[]string) {
		*out = append(*out, cur)
		if len(cur) == n {
			return
		}
		for i := 0; i < len(alpha); i++ {
			gen(alpha, n, cur+alpha[i:i+1], out)
		}
	}
	var pats, paths []string
	gen("a/*", 4, "", &pats)
	gen("ab/", 4, "", &paths)
	for _, p := range pats {
		if !strings.Contains(p, "*") {
			continue
		}
		for _, k := range paths {
			g.raw("km", k, p)
			g.raw("kg", k, p)
		}
	}
	g.c.Count("star-anywhere-grid")
}

// the govaluate wrappers are functions of their two arguments: pairs (path, pattern) whose
// concatenations coincide, asked in both orders in one process, each answer compared with the
// plain function's answer for the same pair.
func (g *c09Gen) wrapperPairs() {
	type fn struct {
		name  string
		wrap  func(...interface{}) (interface{}, error)
		plain func(string, string) bool
	}
	fns := []fn{{"keyMatch", util.KeyMatchFunc, util.KeyMatch}, {"keyMatch2", util.KeyMatch2Func, util.KeyMatch2}, {"keyMatch3", util.KeyMatch3Func, util.KeyMatch3}, {"keyMatch4", util.KeyMatch4Func, util.KeyMatch4}, {"keyMatch5", util.KeyMatch5Func, util.KeyMatch5}, {"regexMatch", util.RegexMatchFunc, util.RegexMatch}, {"globMatch", util.GlobMatchFunc, func(a, b string) bool { ok, _ := util.GlobMatch(a, b); return ok }}}
	pairs := [][2][2]string{
		{{"/res/a", "/res/:id"}, {"/res/a/res", "/:id"}},
		{{"/res/a", "/res/{id}"}, {"/res/a/res", "/{id}"}},
		{{"/a", "/a/*"}, {"/a/a", "/*"}},
		{{"/x/y", "/x/y"}, {"/x", "/y/x/y"}},
		{{"ab", "c"}, {"a", "bc"}},
		{{"/b/1", "/b/:i"}, {"/b/1/b", "/:i"}},
	}
	for _, f := range fns {
		for pi, pr := range pairs {
			for _, first := range []int{0, 1} {
				for _, k := range []int{first, 1 - first, first} {
					a, b := pr[k][0], pr[k][1]
					var got interface{}
					var err error
					func() {
						defer func() {
							if r := recover(); r != nil {
								err = fmt.Errorf("panic: %v", r)
							}
						}()
						got, err = f.wrap(a, b)
					}()
					var want bool
					wantPanic := false
					func() {
						defer func() {
							if r := recover(); r != nil {
								wantPanic = true
							}
						}()
						want = f.plain(a, b)
					}()
					if wantPanic || err != nil {
						continue
					}
					if gb, ok := got.(bool); !ok || gb != want {
						g.c.Direct(fmt.Sprintf("c09.wrapper-pure.%s.%d", f.name, pi), fmt.Sprintf("%sFunc(%q, %q) answered %v after other calls in this process, the plain function answers %v", f.name, a, b, got, want), "")
					}
				}
			}
		}
	}
	g.c.Count("wrapper-pairs")
}

func (g *c09Gen) outside() {
	for _, w := range [][]string{
		{"km2", "/a/b\nc", "/a/*"}, {"km3", "/a/b\nc", "/a/*"}, {"km4", "/a/b\nc", "/a/*"}, {"km5", "/a/b\nc", "/a/*"},
		{"km", "/a/b\nc", "/a/*"}, {"kg", "/a/b\nc", "/a/*"},
		{"km2", "/axb", "/a.b"}, {"km3", "/axb", "/a.b"},
		{"km2", "/a/x/b", "/*/b"}, {"km3", "/a/x/b", "/*/b"}, {"km", "/ab", "/a*"}, {"kg", "/ab", "/a*"},
		{"kg2", "/a/b/c", "/a/*", "x"}, {"kg3", "/a/b/c", "/a/*", "x"},
		// "/*" is rewritten wherever it occurs, not only at the end
		{"km2", "/x/a/y", "/*/a/*"}, {"km3", "/x/a/y", "/*/a/*"}, {"km4", "/x/a/y", "/*/a/*"}, {"km5", "/x/a/y?q", "/*/a/*"},
		{"km2", "/x/y/a/", "/*/a/*"}, {"km2", "/a/y", "/*/a/*"}, {"kg2", "/x/y/a/b", "/*/a/:v", "v"}, {"kg3", "/x/y/a/b", "/*/a/{v}", "v"},
		{"kg2", "/x/y/z", "/*/:v", "v"}, {"km4", "/x/y/x", "/{v}/*/{v}"}, {"km4", "/x/y/z", "/{v}/*/{v}"},
	} {
		g.raw(w[0], w[1:]...)
		g.c.Count("outside-guard:witness")
	}
}

// ---------- the govaluate wrappers ----------

func c09FuncOf(fn string) func(...interface{}) (interface{}, error) {
	switch fn {
	case "km":
		return util.KeyMatchFunc
	case "kg":
		return util.KeyGetFunc
	case "km2":
		return util.KeyMatch2Func
	case "kg2":
		return util.KeyGet2Func
	case "km3":
		return util.KeyMatch3Func
	case "kg3":
		return util.KeyGet3Func
	case "km4":
		return util.KeyMatch4Func
	case "km5":
		return util.KeyMatch5Func
	case "ip":
		return util.IPMatchFunc
	}
	panic("c09: unknown wrapper " + fn)
}

func (g *c09Gen) fn(fn string, args []interface{}) {
	g.n++
	id := fmt.Sprintf("c09.f%d", g.n)
	items := make([]string, len(args))
	allStr := true
	for i, a := range args {
		if s, ok := a.(string); ok {
			items[i] = L("S", Q(s))
		} else {
			items[i] = "O"
			allStr = false
		}
	}
	g.c.Case(id, "func "+fn+" "+L(items...))
	res := func() (r string) {
		defer func() {
			if recover() != nil {
				r = "panic"
			}
		}()
		v, err := c09FuncOf(fn)(args...)
		if err != nil {
			return "err"
		}
		switch x := v.(type) {
		case bool:
			return "ok:" + B(x)
		case string:
			return "ok:" + Q(x)
		}
		return "ok:?"
	}()
	g.c.Obs(id, "func:"+fn, res)
	arity := 2
	if fn == "kg2" || fn == "kg3" {
		arity = 3
	}
	g.c.Count(fmt.Sprintf("func:%s", map[bool]string{true: "well-typed", false: "ill-typed"}[allStr && len(args) == arity]))
	if (len(args) != arity || !allStr) && res != "err" {
		g.c.Direct(id, "wrapper accepted a call with wrong arity / non-string argument: "+res, fmt.Sprintf("%sFunc%v", fn, args))
	}
}

func (g *c09Gen) funcs() {
	good := map[string][][]interface{}{
		"km":  {{"/a/b", "/a/*"}, {"/a", "/a/*"}},
		"kg":  {{"/a/b/c", "/a/*"}, {"/a", "/a/*"}},
		"km2": {{"/a/b", "/a/:x"}, {"/a/", "/a/:x"}, {"/a/b/c", "/a/*"}},
		"kg2": {{"/a/b", "/a/:x", "x"}, {"/a/b", "/a/:x", "y"}, {"/a", "/a/:x", "x"}},
		"km3": {{"/a/b", "/a/{x}"}, {"/a/", "/a/{x}"}},
		"kg3": {{"/a/b", "/a/{x}", "x"}, {"/a/b", "/a/{x}", "y"}, {"/a", "/a/{x}", "x"}},
		"km4": {{"/a/a", "/{x}/{x}"}, {"/a/b", "/{x}/{x}"}},
		"km5": {{"/a/b?q=1", "/a/{x}"}, {"/a?q=1/b", "/a/{x}"}},
		"ip":  {{"10.0.0.1", "10.0.0.0/8"}, {"11.0.0.1", "10.0.0.0/8"}, {"::1", "::1"}, {"10.0.0.1", "10.0.0.0/33"}, {"x", "10.0.0.0/8"}, {"10.0.0.1", "y"}},
	}
	others := []interface{}{1, nil, []byte("a"), true, 1.5, []string{"a"}}
	for _, fn := range []string{"km", "kg", "km2", "kg2", "km3", "kg3", "km4", "km5", "ip"} {
		for _, a := range good[fn] {
			g.fn(fn, a)
			// wrong arity
			g.fn(fn, a[:len(a)-1])
			g.fn(fn, append(append([]interface{}{}, a...), "extra"))
			// a non-string at each position
			for i := range a {
				for _, o := range others {
					b := append([]interface{}{}, a...)
					b[i] = o
					g.fn(fn, b)
				}
			}
		}
		g.fn(fn, nil)
		g.fn(fn, []interface{}{"only"})
	}
}

// ---------- IPMatch ----------

type c09Addr struct {
	b [16]byte // 16-byte form
	// how it is written
	dotted bool // "a.b.c.d" (then b is the IPv4-mapped form)
}

var c09V4Prefix = [12]byte{0, 0, 0, 0, 0, 0, 0, 0, 0, 0, 0xff, 0xff}

func c09Is4(b [16]byte) bool {
	for i := 0; i < 12; i++ {
		if b[i] != c09V4Prefix[i] {
			return false
		}
	}
	return true
}

func c09Dotted(b []byte) string { return fmt.Sprintf("%d.%d.%d.%d", b[0], b[1], b[2], b[3]) }

// IPv6 text in one of several styles
func (g *c09Gen) renderV6(b [16]byte) string {
	rng := g.c.Rng
	grp := make([]int, 8)
	for i := 0; i < 8; i++ {
		grp[i] = int(b[2*i])<<8 | int(b[2*i+1])
	}
	style := rng.Intn(5)
	hex := func(v int) string {
		switch style {
		case 1:
			return fmt.Sprintf("%04X", v)
		case 2:
			return fmt.Sprintf("%X", v)
		}
		return fmt.Sprintf("%x", v)
	}
	ngrp := 8
	tail := ""
	if style == 3 || (c09Is4(b) && rng.Intn(2) == 0) {
		ngrp = 6
		tail = c09Dotted(b[12:])
	}
	parts := make([]string, ngrp)
	for i := 0; i < ngrp; i++ {
		parts[i] = hex(grp[i])
	}
	// compress one run of zero groups (any run, not necessarily the longest: all are legal input)
	if style != 1 || rng.Intn(2) == 0 {
		var runs [][2]int
		for i := 0; i < ngrp; {
			if grp[i] != 0 {
				i++
				continue
			}
			j := i
			for j < ngrp && grp[j] == 0 {
				j++
			}
			runs = append(runs, [2]int{i, j})
			i = j
		}
		if len(runs) > 0 && rng.Intn(5) > 0 {
			r := runs[rng.Intn(len(runs))]
			// possibly only a part of the run
			if r[1]-r[0] > 1 && rng.Intn(3) == 0 {
				r[0] += rng.Intn(r[1] - r[0])
			}
			left := strings.Join(parts[:r[0]], ":")
			right := strings.Join(parts[r[1]:], ":")
			if tail != "" {
				if right != "" {
					right += ":"
				}
				right += tail
			}
			return left + "::" + right
		}
	}
	s := strings.Join(parts, ":")
	if tail != "" {
		s += ":" + tail
	}
	return s
}

func (g *c09Gen) render(a c09Addr) string {
	if a.dotted {
		return c09Dotted(a.b[12:])
	}
	return g.renderV6(a.b)
}

func c09Bit(b []byte, i int) byte { return (b[i/8] >> uint(7-i%8)) & 1 }

// the specification (KeyMatch cidr_spec), bit by bit: the family rule, then the first n bits
func c09RefCIDR(net c09Addr, n int, ip [16]byte) bool {
	ip4 := c09Is4(ip)
	var nb, ib []byte
	switch {
	case net.dotted:
		if !ip4 {
			return false
		}
		nb, ib = net.b[12:], ip[12:]
	case n >= 96 && c09Is4(net.b):
		if !ip4 {
			return false
		}
		nb, ib, n = net.b[12:], ip[12:], n-96
	default:
		if ip4 {
			return false
		}
		nb, ib = net.b[:], ip[:]
	}
	for i := 0; i < n; i++ {
		if c09Bit(nb, i) != c09Bit(ib, i) {
			return false
		}
	}
	return true
}

func (g *c09Gen) randAddr() c09Addr {
	rng := g.c.Rng
	var a c09Addr
	switch rng.Intn(5) {
	case 0, 1: // dotted IPv4
		copy(a.b[:12], c09V4Prefix[:])
		for i := 12; i < 16; i++ {
			a.b[i] = byte(rng.Intn(256))
		}
		a.dotted = true
	case 2: // IPv4-mapped, written as IPv6
		copy(a.b[:12], c09V4Prefix[:])
		for i := 12; i < 16; i++ {
			a.b[i] = byte(rng.Intn(256))
		}
	default:
		for i := 0; i < 16; i++ {
			a.b[i] = byte(rng.Intn(256))
		}
		// zero some groups so that "::" has something to compress
		for k := rng.Intn(4); k > 0; k-- {
			s := rng.Intn(8)
			e := s + 1 + rng.Intn(8-s)
			for i := 2 * s; i < 2*e; i++ {
				a.b[i] = 0
			}
		}
		if rng.Intn(6) == 0 { // nearly mapped
			copy(a.b[:12], c09V4Prefix[:])
			a.b[rng.Intn(12)] ^= byte(1 << uint(rng.Intn(8)))
		}
	}
	return a
}

func (g *c09Gen) ipCase(ip1, ip2 string, kind string, want *bool) {
	g.n++
	id := fmt.Sprintf("c09.i%d", g.n)
	g.c.Case(id, "ip "+Q(ip1)+" "+Q(ip2))
	r := c09Call1("ip", ip1, ip2, "")
	g.record("ip", ip1, ip2, "", r)
	obs := r
	if r == "P" {
		obs = "panic"
	}
	g.c.Obs(id, "ip", obs)
	g.c.Count("ip:" + kind + ":" + obs)
	if want != nil {
		w := "0"
		if *want {
			w = "1"
		}
		if obs != w {
			g.c.Direct(id, "IPMatch differs from prefix arithmetic: got "+obs+" want "+w, fmt.Sprintf("IPMatch(%q, %q)", ip1, ip2))
		}
		g.c.NonTrivial(id)
	}
}

func (g *c09Gen) ips(n int) {
	rng := g.c.Rng
	v4Pre := []int{0, 1, 7, 8, 9, 15, 16, 17, 23, 24, 25, 30, 31, 32}
	v6Pre := []int{0, 1, 7, 8, 9, 31, 32, 33, 63, 64, 65, 80, 88, 95, 96, 97, 103, 104, 105, 112, 120, 126, 127, 128}
	for k := 0; k < n; k++ {
		net := g.randAddr()
		bits := 128
		if net.dotted {
			bits = 32
		}
		var pre int
		switch rng.Intn(3) {
		case 0:
			pre = rng.Intn(bits + 1)
		default:
			if bits == 32 {
				pre = v4Pre[rng.Intn(len(v4Pre))]
			} else {
				pre = v6Pre[rng.Intn(len(v6Pre))]
			}
		}
		// the address: the network's bytes with the host bits randomised, then maybe one prefix
		// bit flipped; sometimes something unrelated (other family)
		var ip c09Addr
		switch rng.Intn(8) {
		case 0:
			ip = g.randAddr()
		default:
			ip.b = net.b
			off := 0
			if net.dotted {
				off = 96
			}
			for i := pre; i < bits; i++ {
				if rng.Intn(2) == 0 {
					ip.b[(off+i)/8] ^= 1 << uint(7-(off+i)%8)
				}
			}
			if pre > 0 && rng.Intn(2) == 0 {
				i := rng.Intn(pre)
				if rng.Intn(2) == 0 {
					i = pre - 1 // the last prefix bit: off-by-one in the mask shows here
				}
				ip.b[(off+i)/8] ^= 1 << uint(7-(off+i)%8)
			}
			ip.dotted = c09Is4(ip.b) && rng.Intn(2) == 0
		}
		pfx := fmt.Sprintf("%d", pre)
		if rng.Intn(10) == 0 {
			pfx = "0" + pfx
		}
		want := c09RefCIDR(net, pre, ip.b)
		g.ipCase(g.render(ip), g.render(net)+"/"+pfx, "cidr", &want)
		// single address
		if k%4 == 0 {
			other := ip
			if rng.Intn(2) == 0 {
				other = g.randAddr()
			}
			other.dotted = c09Is4(other.b) && rng.Intn(2) == 0
			eq := other.b == ip.b
			g.ipCase(g.render(ip), g.render(other), "single", &eq)
		}
	}
	// malformed and unusual texts: fixed list and random edits of valid texts
	bad := []string{"", " ", "1.2.3", "1.2.3.4.5", "1.2.3.256", "01.2.3.4", "1.2.3.04", "1..2.3", ".1.2.3", "1.2.3.", "1.2.3.4 ", " 1.2.3.4",
		"::1%eth0", "%eth0", "1.2.3.4%a", ":", ":::", "1:::2", "::1::", "1:2:3:4:5:6:7", "1:2:3:4:5:6:7:8:9", "1:2:3:4:5:6:7:8::", "::1:2:3:4:5:6:7:8",
		"1:2:3:4:5:6:7::", "::2:3:4:5:6:7:8", "12345::", "g::", "::g", "1:2:3:4:5:6:1.2.3.4", "1:2:3:4:5:1.2.3.4", "1:2:3:4:5:6:7:1.2.3.4", "::1.2.3.4", "::1.2.3",
		"::1.2.3.4.5", "::01.2.3.4", "1::1.2.3.4", "::ffff:1.2.3.4", "::FFFF:1.2.3.4", "1.2.3.4:", "1.2.3.4::", "::1.2.3.4:1", "abcd", "1", "0x1.2.3.4", "1.2.3.4/",
		"1.2.3.4/33", "1.2.3.4/32", "1.2.3.4/-1", "1.2.3.4/+1", "1.2.3.4/ 1", "1.2.3.4/1 ", "1.2.3.4/024", "1.2.3.4/0", "1.2.3.4/00", "1.2.3.4/1/2", "/24", "::/129", "::/128", "::/0128",
		"::1%eth0/128", "1.2.3.4/16777215", "1.2.3.4/99999999999999999999", "::ffff:1.2.3.4/95", "::ffff:1.2.3.4/96", "::ffff:1.2.3.4/97", "::ffff:0:0/64", "1:2::3:4/-0", "::/", "1.2.3.4/x"}
	good := []string{"1.2.3.4", "::ffff:1.2.3.4", "::1", "1:2:3:4:5:6:7:8", "::", "255.255.255.255", "0.0.0.0", "1.2.3.4/24", "::/0", "1:2::/32", "::ffff:1.2.3.0/120"}
	for _, b := range bad {
		for _, gd := range good {
			g.ipCase(b, gd, "malformed", nil)
			g.ipCase(gd, b, "malformed", nil)
		}
	}
	edits := ".:/%g01f 9aF"
	for k := 0; k < n/2; k++ {
		a, b := g.render(g.randAddr()), g.render(g.randAddr())
		if rng.Intn(2) == 0 {
			b += fmt.Sprintf("/%d", rng.Intn(140))
		}
		edit := func(s string) string {
			if s == "" {
				return s
			}
			i := rng.Intn(len(s))
			switch rng.Intn(4) {
			case 0:
				return s[:i] + s[i+1:]
			case 1:
				return s[:i] + string(edits[rng.Intn(len(edits))]) + s[i:]
			case 2:
				return s[:i] + string(edits[rng.Intn(len(edits))]) + s[i+1:]
			}
			return s[:i] + string(s[i]) + s[i:]
		}
		if rng.Intn(2) == 0 {
			a = edit(a)
		} else {
			b = edit(b)
		}
		g.ipCase(a, b, "edited", nil)
	}
}

// ---------- purity under concurrent use ----------

func (g *c09Gen) concurrent() {
	calls := g.calls
	if len(calls) == 0 {
		return
	}
	const workers = 16
	var wg sync.WaitGroup
	type diff struct {
		c   c09Call
		got string
	}
	diffs := make([][]diff, workers)
	for w := 0; w < workers; w++ {
		wg.Add(1)
		go func(w int) {
			defer wg.Done()
			// every worker walks the whole list with its own stride, so that at any moment
			// different goroutines are busy with different patterns (and the same ones)
			n := len(calls)
			stride := []int{1, 7, 13, 31, 61, 127, 251, 509, 1021, 2039, 4093, 8191, 16381, 32749, 65521, 131071}[w]
			for stride%n == 0 || c09Gcd(stride, n) != 1 {
				stride++
			}
			j := (w * 7919) % n
			for i := 0; i < n; i++ {
				cl := calls[j]
				got := c09Call1(cl.fn, cl.a, cl.b, cl.name)
				if got != cl.want && len(diffs[w]) < 5 {
					diffs[w] = append(diffs[w], diff{cl, got})
				}
				j = (j + stride) % n
			}
		}(w)
	}
	wg.Wait()
	for w := range diffs {
		for _, d := range diffs[w] {
			g.c.Direct("c09.conc", fmt.Sprintf("result under concurrent use differs from the sequential one: got %s want %s", d.got, d.c.want),
				fmt.Sprintf("%s(%q, %q, %q) in goroutine %d of %d", d.c.fn, d.c.a, d.c.b, d.c.name, w, workers))
		}
	}
	g.c.Count(fmt.Sprintf("conc:calls=%d x %d goroutines", len(calls), workers))
	g.c.Notes = append(g.c.Notes, fmt.Sprintf("concurrency: %d recorded calls (all nine functions, interleaved patterns) repeated by %d goroutines, each in its own order; every result compared with the sequential one", len(calls), workers))
}

func c09Gcd(a, b int) int {
	for b != 0 {
		a, b = b, a%b
	}
	return a
}

// c09CrossOrder: the answer of one function on a pattern must not depend on which OTHER
// function saw the same pattern text first (translations, placeholder lists and compiled
// regexps may be cached, but per function).  Every pattern here is new to the process; the
// expected values are immediate for these shapes (one placeholder "id" / two placeholders).
func c09CrossOrder(c *Ctx) {
	n := 60
	if c.Thorough() {
		n = 2000
	}
	type call struct {
		fn, path, pat, name string
		want                string
	}
	for k := 0; k < n; k++ {
		u := fmt.Sprintf("co%d", k)
		colon := "/" + u + "/:id/x/:k"
		brace := "/" + u + "/{id}/x/{k}"
		path := "/" + u + "/alice/x/7"
		orders := [][]call{
			// the {}-functions see the :name text first (placeholders are literals to them)
			{{"kg3", path, colon, "id", ""}, {"km3", path, colon, "", "false"}, {"km4", path, colon, "", "false"}, {"km5", path, colon, "", "false"},
				{"km2", path, colon, "", "true"}, {"kg2", path, colon, "id", "alice"}, {"kg2", path, colon, "k", "7"}, {"kg3", path, colon, "id", ""}},
			// the :name functions see the {name} text first
			{{"kg2", path, brace, "id", ""}, {"km2", path, brace, "", "false"},
				{"km3", path, brace, "", "true"}, {"kg3", path, brace, "id", "alice"}, {"kg3", path, brace, "k", "7"}, {"km4", path, brace, "", "true"}, {"km5", path, brace, "", "true"}, {"kg2", path, brace, "id", ""}},
		}
		ord := orders[k%2]
		if k%4 >= 2 { // and the proper function first, the foreign ones in between, the proper one again
			ord = append(append([]call(nil), ord[len(ord)/2:]...), ord...)
		}
		for i, cl := range ord {
			var got string
			switch cl.fn {
			case "kg2":
				got = util.KeyGet2(cl.path, cl.pat, cl.name)
			case "kg3":
				got = util.KeyGet3(cl.path, cl.pat, cl.name)
			case "km2":
				got = fmt.Sprint(util.KeyMatch2(cl.path, cl.pat))
			case "km3":
				got = fmt.Sprint(util.KeyMatch3(cl.path, cl.pat))
			case "km4":
				got = fmt.Sprint(util.KeyMatch4(cl.path, cl.pat))
			case "km5":
				got = fmt.Sprint(util.KeyMatch5(cl.path, cl.pat))
			}
			if got != cl.want {
				var prev []string
				for _, p := range ord[:i] {
					prev = append(prev, p.fn)
				}
				c.Direct(fmt.Sprintf("c09.crossorder.%d", k), fmt.Sprintf("%s(%q, %q, %q) = %q, expected %q, after the calls %v on the same pattern text: the answer depends on which function saw the pattern first", cl.fn, cl.path, cl.pat, cl.name, got, cl.want, prev), cl.pat)
				break
			}
		}
		c.Count("cross-function-order")
	}
}

func init() {
	register("C09", func(c *Ctx) {
		if ph := os.Getenv(c09PhaseEnv); ph != "" {
			c09ChildMain(c, ph)
			return
		}
		g := &c09Gen{c: c, keep: 97}
		nHostile, nIP := 2500, 6000
		if c.Thorough() {
			g.keep = 1499
			nHostile, nIP = 40000, 120000
		}
		c.Exhaust = false
		c.Rule = "grid (bounded-exhaustive): every pattern over segments {a, b, ab, empty, placeholder x, placeholder y} of up to 3 (thorough 4) segments, with and without trailing /*, x every path over {a, b, empty(, ab)} of up to 4 (thorough 5) segments plus query-string and no-leading-slash variants; each pattern is run through every function whose placeholder syntax makes it well-formed (KeyMatch2/KeyGet2 on the :name text, KeyMatch3/4/5/KeyGet3 on the {name} text, KeyMatch/KeyGet and KeyMatch3/4/5 on the texts where the other syntax' placeholders are literals), keyGet2/3 for every placeholder name and one absent name. hostile: random well-formed patterns with unusual literal bytes and arbitrary name bytes, paths obtained by instantiating the pattern and mutating it (arbitrary bytes incl. invalid UTF-8, no line feed); a small line-feed stream and the refuted-lemma witnesses are outside the theorem guards but the model is faithful there and they are compared too. func: the nine *Func wrappers with right/wrong arity and non-string arguments. ip: random IPv4 / IPv6 / IPv4-mapped networks and prefixes (boundary prefixes /0 /1 /31 /32 /95 /96 /97 /127 /128 and random), addresses derived from the network by randomising host bits and flipping one prefix bit, several text forms (::-compression, upper case, leading zeros, embedded IPv4), single addresses, malformed texts (fixed list and random one-byte edits). conc: a sample of all these calls repeated from 16 goroutines (warm regexp cache). cold (child process): 16 goroutines released together, 32 (thorough 200) rounds, each round every goroutine calls KeyGet2 / KeyGet3 / KeyMatch4 on fresh well-formed patterns nobody compiled before (12 shared by all goroutines in the same order + 20 private ones) mixed with patterns cached one round earlier, every result compared with the reference and (as single calls, justified by C09_cache_transparent) with the model; a Go runtime fatal error (concurrent map writes) or a child that does not finish is a violation. poison (child process): every call whose expanded pattern does not compile (unbalanced ( ) [, nested repetition, KeyMatch4 token-count panic, malformed IP text) is followed by 13 valid calls on cached and fresh patterns through all nine functions under a 5 s watchdog and by itself again (an error must not poison later calls), then 8 goroutines mix panicking and valid calls. Both child phases run once more in a binary built with go1.26.8 -race when that toolchain is installed (any reported data race is a violation). Non-trivial = a (view, path set) with at least one accepted path, or a well-formed (address, CIDR) pair."
		c09CrossOrder(c) // first: these patterns must be unknown to every cache of the process
		g.grid()
		g.hostile(nHostile, false)
		g.hostile(nHostile/20, true)
		g.outside()
		g.starGrid()
		g.wrapperPairs()
		g.funcs()
		g.ips(nIP)
		g.concurrent()
		limit := 120 * time.Second
		if c.Thorough() {
			limit = 900 * time.Second
		}
		c09RunChild(c, "cold", limit, "16 goroutines, first use of fresh patterns on a cold regexp cache")
		c09RunChild(c, "poison", limit, "panicking calls followed by valid calls under a watchdog")
		// the same two phases under the race detector (a data race is reported even when this
		// run's interleaving did not corrupt anything)
		if dir, err := os.MkdirTemp("", "verif-c09-race-"); err == nil {
			if exe := c09RaceBinary(c, dir); exe != "" {
				c09RunChildExe(c, exe, "cold", "cold-race", false, limit, "the cold phase in a binary built with go1.26.8 -race")
				c09RunChildExe(c, exe, "poison", "poison-race", false, limit, "the poison phase in a binary built with go1.26.8 -race")
			}
			os.RemoveAll(dir)
		}
	})
}
