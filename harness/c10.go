package main

import (
	"fmt"
	"os"
	"path/filepath"
	"strings"

	casbin "github.com/casbin/casbin/v2"
	"github.com/casbin/casbin/v2/model"
	"github.com/casbin/casbin/v2/persist"
	fileadapter "github.com/casbin/casbin/v2/persist/file-adapter"
	stringadapter "github.com/casbin/casbin/v2/persist/string-adapter"
)

// C10: what is persisted is what is enforced.
// Histories of management calls on the real enforcer over the recording set-semantics adapter,
// under both auto-save settings (also toggled mid-history), with save / load / injected adapter
// failures; after every call: result, listed rules, adapter call log, adapter content — all
// compared with Machine.step.  On the implementation alone: whenever auto-save has been on since
// the last save/load (and no ClearPolicy), a SECOND real enforcer freshly loaded from the adapter
// decides every request of the universe like the first; with auto-save off the adapter log does
// not grow until SavePolicy; save + load reproduces the rules in order.  Text side: rule lists
// through the real file and string adapters (save, reload, compare).

func c10Requests(conf machConf) [][]interface{} {
	subs := []string{"alice", "bob", "admin", "root", "user"}
	var out [][]interface{}
	switch conf.Name {
	case "domain":
		for _, s := range subs {
			for _, d := range []string{"d1", "d2"} {
				for _, o := range []string{"data1", "data2"} {
					for _, a := range []string{"read", "write"} {
						out = append(out, []interface{}{s, d, o, a})
					}
				}
			}
		}
	default:
		for _, s := range subs {
			for _, o := range []string{"data1", "data2"} {
				for _, a := range []string{"read", "write"} {
					out = append(out, []interface{}{s, o, a})
				}
			}
		}
	}
	return out
}

func c10Decisions(e *casbin.Enforcer, reqs [][]interface{}) string {
	var b strings.Builder
	for _, r := range reqs {
		ok, err := e.Enforce(r...)
		if err != nil {
			b.WriteString("e")
		} else {
			b.WriteString(B(ok))
		}
	}
	return b.String()
}

// a second real enforcer loaded from a copy of the adapter content
func c10FreshFrom(m *mach) *casbin.Enforcer {
	mm, _ := model.NewModelFromString(m.Conf.Text)
	a := newRecAdapter()
	a.Content = append([]prule(nil), m.A.Content...)
	e, err := casbin.NewEnforcer(mm, a)
	if err != nil {
		return nil
	}
	return e
}

func c10History(c *Ctx, id string, conf machConf, autosave bool, n int, opts machGenOpts) {
	us := machUniverses(conf)
	m := newMach(conf, autosave, false, "none", nil)
	reqs := c10Requests(conf)
	var ops []mOp
	type obs struct{ res, listed, adlog, adcontent string }
	var recs []obs
	inSync := autosave // adapter content == listed rules is expected to hold
	curAuto := autosave
	changed := false
	for len(ops) < n {
		op := machGenOp(c.Rng, m, us, opts)
		if op == nil {
			continue
		}
		logBefore := len(m.A.Log)
		listedBefore := m.listedKey()
		res := m.apply(*op)
		ops = append(ops, *op)
		recs = append(recs, obs{res, m.listedKey(), m.newAdapterLog(), m.A.contentKey()})
		c.Count(op.Kind)
		if m.listedKey() != listedBefore {
			changed = true
		}
		switch op.Kind {
		case "autosave":
			curAuto = op.B
			if !op.B {
				inSync = false
			}
		case "clear":
			inSync = false
		case "save":
			if res == "ok1" {
				inSync = curAuto || true
			}
		case "load":
			if res == "ok1" {
				inSync = true
			}
		default:
			if !curAuto && op.Kind != "failnext" && op.Kind != "autonotify" {
				// auto-save off: the adapter must not have been called
				if len(m.A.Log) != logBefore {
					c.Direct(id, "auto-save is off but a management call reached the adapter", opsSx(ops))
				}
				if m.listedKey() != listedBefore {
					inSync = false
				}
			}
		}
		if !curAuto && op.Kind != "save" && op.Kind != "load" {
			// stays out of sync until the next save/load unless nothing changed
		}
		if inSync && curAuto && (len(ops)%4 == 0 || len(ops) == n) {
			// the property's predicate: a freshly loaded enforcer decides alike
			f := c10FreshFrom(m)
			if f == nil {
				c.Direct(id, "an enforcer could not be loaded from the adapter content", opsSx(ops))
			} else if got, want := c10Decisions(f, reqs), c10Decisions(m.E, reqs); got != want {
				c.Direct(id, "an enforcer freshly loaded from the adapter decides differently", fmt.Sprintf("ops=%s fresh=%s origin=%s", opsSx(ops), got, want))
			}
		}
	}
	c.Case(id, fmt.Sprintf("(cfg %s) (flags %s 0 none) (content) (obs res listed adlog adcontent) (ops %s)",
		strings.TrimSuffix(strings.TrimPrefix(conf.Sx(), "("), ")"), B(autosave),
		strings.TrimSuffix(strings.TrimPrefix(opsSx(ops), "("), ")")))
	for k, r := range recs {
		c.Obs(id, fmt.Sprintf("%d.res", k), r.res)
		c.Obs(id, fmt.Sprintf("%d.listed", k), r.listed)
		c.Obs(id, fmt.Sprintf("%d.adlog", k), r.adlog)
		c.Obs(id, fmt.Sprintf("%d.adcontent", k), r.adcontent)
	}
	if changed {
		c.NonTrivial(id)
	}
}

func init() {
	register("C10", func(c *Ctx) {
		c.Rule = "seeded histories of management calls (single/batch/Ex add, remove, update, batch update, filtered removal, Self* calls, ClearPolicy, LoadPolicy, SavePolicy, auto-save toggles, injected adapter failures) of length 8..30 on three models (RBAC with p/p2/g/g2, domains, priority) under both initial auto-save settings, every step compared with the model on result, listed rules, adapter call log and content; text round trip through the real file and string adapters. Distinct = history; non-trivial = the history changes the listed rules. Additions: every Self* entry point, UpdateFilteredPolicies (auto-save on), one-rule batches, field values equal to policy-type names; text round trip over four rule types (p, p2, g, g2 of different arities) with empty fields and trailing blanks, the loaded rules compared with an independent reading of the text, and a shrunk policy saved over the longer file."
		nh := 5000
		if c.Thorough() {
			nh = 20000
		}
		confs := []machConf{machRBAC, machDomain, machPriority}
		for h := 0; h < nh; h++ {
			conf := confs[h%len(confs)]
			autosave := (h/len(confs))%2 == 0
			opts := machGenOpts{Clear: h%7 == 0, Load: true, Save: true, Flags: h%5 == 0, Self: true, Fail: h%3 == 0, UpdateFiltered: true}
			c10History(c, fmt.Sprintf("c10.h%d", h), conf, autosave, 8+c.Rng.Intn(23), opts)
		}
		c10Text(c)
		c10FilteredViews(c)
		c10Probes(c)
	})
}

// text round trip through the bundled adapters: load (incl. quoted CSV fields), save, reload
func c10Text(c *Ctx) {
	dir, err := os.MkdirTemp("", "verif-c10-")
	if err != nil {
		panic(err)
	}
	defer os.RemoveAll(dir)
	// a model with two policy types and two role definitions of different arities: what is saved
	// must come back under the SAME type
	const mtext = `[request_definition]
r = sub, obj, act
[policy_definition]
p = sub, obj, act
p2 = sub, act
[role_definition]
g = _, _
g2 = _, _, _
[policy_effect]
e = some(where (p.eft == allow))
[matchers]
m = g(r.sub, p.sub) && r.obj == p.obj && r.act == p.act
`
	safe := []string{"alice", "bob", "data1", "data2", "read", "a b", "x-y_z", "ü", "1", "-"}
	// blanks at the END of a field survive the round trip in every column but the last (the
	// adapters trim the whole line; leading blanks and blanks ending the line are F15 territory)
	safe = append(safe, "#general", "#42", "a#b") // '#' starts a comment only at the beginning of a line
	inner := append(append([]string(nil), safe...), "alice ", "x  ", "a b ", "")
	safe = append(safe, "") // an empty field is a value like any other, in every column
	n := 300
	if c.Thorough() {
		n = 5000
	}
	for i := 0; i < n; i++ {
		var lines []string
		k := 1 + c.Rng.Intn(6)
		pk := func(last bool) string {
			if last {
				return safe[c.Rng.Intn(len(safe))]
			}
			return inner[c.Rng.Intn(len(inner))]
		}
		for j := 0; j < k; j++ {
			switch c.Rng.Intn(6) {
			case 0:
				lines = append(lines, fmt.Sprintf("g, %s, %s", pk(false), pk(true)))
			case 1:
				lines = append(lines, fmt.Sprintf("g2, %s, %s, %s", pk(false), pk(false), pk(true)))
			case 2:
				lines = append(lines, fmt.Sprintf("p2, %s, %s", pk(false), pk(true)))
			default:
				lines = append(lines, fmt.Sprintf("p, %s, %s, %s", pk(false), pk(false), pk(true)))
			}
		}
		text := strings.Join(lines, "\n") + "\n"
		id := fmt.Sprintf("c10.text.%d", i)
		// file adapter
		path := filepath.Join(dir, fmt.Sprintf("p%d.csv", i))
		_ = os.WriteFile(path, []byte(text), 0o644)
		m1, _ := model.NewModelFromString(mtext)
		e1, err := casbin.NewEnforcer(m1, fileadapter.NewAdapter(path))
		if err != nil {
			c.Direct(id, "a policy of safe fields does not load through the file adapter", text)
			continue
		}
		allKey := func(e *casbin.Enforcer) string {
			a, _ := e.GetNamedPolicy("p")
			b, _ := e.GetNamedPolicy("p2")
			x, _ := e.GetNamedGroupingPolicy("g")
			y, _ := e.GetNamedGroupingPolicy("g2")
			return rulesKey(a) + "#" + rulesKey(b) + "#" + rulesKey(x) + "#" + rulesKey(y)
		}
		before := allKey(e1)
		// what the text says, read independently of casbin (no quotes, no commas inside fields)
		var want [4][][]string
		for _, ln := range lines {
			f := strings.Split(ln, ",")
			for q := range f {
				f[q] = strings.TrimLeft(f[q], " ")
			}
			idx := map[string]int{"p": 0, "p2": 1, "g": 2, "g2": 3}[f[0]]
			if !containsRule(want[idx], f[1:]) {
				want[idx] = append(want[idx], f[1:])
			}
		}
		if ref := rulesKey(want[0]) + "#" + rulesKey(want[1]) + "#" + rulesKey(want[2]) + "#" + rulesKey(want[3]); ref != before {
			c.Direct(id, "the file adapter loaded other rules than the text states", fmt.Sprintf("text=%q loaded=%s expected=%s", text, before, ref))
		}
		if err := e1.SavePolicy(); err != nil {
			c.Direct(id, "SavePolicy failed on the file adapter", text)
			continue
		}
		if err := e1.LoadPolicy(); err != nil {
			c.Direct(id, "LoadPolicy after SavePolicy failed on the file adapter", text)
			continue
		}
		if after := allKey(e1); after != before {
			c.Direct(id, "SavePolicy+LoadPolicy through the file adapter changed the rules", fmt.Sprintf("text=%q before=%s after=%s", text, before, after))
		}
		// the policy shrinks, is saved over the longer file and reloaded: nothing of the old
		// content may come back
		e1.EnableAutoSave(false)
		if pol, _ := e1.GetNamedPolicy("p"); len(pol) > 0 {
			_, _ = e1.RemoveNamedPolicy("p", toIface(append([]string(nil), pol[0]...))...)
		} else if gp, _ := e1.GetNamedGroupingPolicy("g"); len(gp) > 0 {
			_, _ = e1.RemoveNamedGroupingPolicy("g", toIface(append([]string(nil), gp[0]...))...)
		}
		shrunk := allKey(e1)
		if err := e1.SavePolicy(); err != nil {
			c.Direct(id, "SavePolicy of the shrunk policy failed on the file adapter", text)
		} else if err := e1.LoadPolicy(); err != nil {
			c.Direct(id, "LoadPolicy after saving the shrunk policy failed on the file adapter", fmt.Sprintf("text=%q shrunk=%s", text, shrunk))
		} else if after := allKey(e1); after != shrunk {
			c.Direct(id, "a shorter policy saved over a longer file does not reload as itself", fmt.Sprintf("text=%q saved=%s reloaded=%s", text, shrunk, after))
		}
		// string adapter: load only (its SavePolicy keeps the text in memory)
		m2, _ := model.NewModelFromString(mtext)
		sa := stringadapter.NewAdapter(text)
		e2, err := casbin.NewEnforcer(m2, sa)
		if err == nil {
			if k3 := allKey(e2); k3 != before {
				c.Direct(id, "string adapter and file adapter load different rules from the same text", text)
			}
			if err := e2.SavePolicy(); err == nil {
				if err := e2.LoadPolicy(); err == nil {
					if k4 := allKey(e2); k4 != before {
						c.Direct(id, "SavePolicy+LoadPolicy through the string adapter changed the rules", text)
					}
				}
			}
			// a second save of a shrunk policy through the SAME string adapter: nothing of the
			// first save may come back
			e2.EnableAutoSave(false)
			if pol, _ := e2.GetNamedPolicy("p"); len(pol) > 0 {
				_, _ = e2.RemoveNamedPolicy("p", toIface(append([]string(nil), pol[0]...))...)
			} else if gp, _ := e2.GetNamedGroupingPolicy("g"); len(gp) > 0 {
				_, _ = e2.RemoveNamedGroupingPolicy("g", toIface(append([]string(nil), gp[0]...))...)
			}
			shrunk2 := allKey(e2)
			// (an EMPTY policy is left out: the string adapter refuses to load its own empty text)
			if err := e2.SavePolicy(); err == nil && shrunk2 != "###" {
				if err := e2.LoadPolicy(); err != nil {
					c.Direct(id, "LoadPolicy after a second SavePolicy failed on the string adapter", fmt.Sprintf("text=%q shrunk=%s", text, shrunk2))
				} else if after := allKey(e2); after != shrunk2 {
					c.Direct(id, "a second SavePolicy (shrunk policy) through the same string adapter does not reload as itself", fmt.Sprintf("text=%q saved=%s reloaded=%s", text, shrunk2, after))
				}
			}
		}
		c.Count("text-roundtrip")
	}
}

// A store that can also load filtered views (persist.FilteredAdapter) AND implements the auto-save
// calls, like the database adapters.  While a filtered view is loaded the enforcer refuses
// SavePolicy (C18), but every single management call still has to reach the store: what is
// persisted is what is enforced, for the rules the view contains.
var c10FilteredConf = machConf{Name: "rbac1", Text: `[request_definition]
r = sub, obj, act
[policy_definition]
p = sub, obj, act
[role_definition]
g = _, _
[policy_effect]
e = some(where (p.eft == allow))
[matchers]
m = g(r.sub, p.sub) && r.obj == p.obj && r.act == p.act
`, Defs: []machDef{{"g", true, 2, -1}, {"p", false, 3, -1}}}

type c10FilteredStore struct {
	*recAdapter
	filtered bool
}

func (a *c10FilteredStore) IsFiltered() bool { return a.filtered }
func (a *c10FilteredStore) LoadPolicy(m model.Model) error {
	a.filtered = false
	return a.recAdapter.LoadPolicy(m)
}
func (a *c10FilteredStore) LoadFilteredPolicy(m model.Model, filter interface{}) error {
	sub, _ := filter.(string)
	a.filtered = true
	for _, x := range a.Content {
		if len(x.Rule) > 0 && x.Rule[0] == sub {
			if err := persist.LoadPolicyArray(append([]string{x.Pt}, x.Rule...), m); err != nil {
				return err
			}
		}
	}
	return nil
}

func c10FilteredViews(c *Ctx) {
	n := 40
	if c.Thorough() {
		n = 600
	}
	for i := 0; i < n; i++ {
		id := fmt.Sprintf("c10.filtered.%d", i)
		st := &c10FilteredStore{recAdapter: newRecAdapter()}
		st.Content = []prule{{"p", []string{"alice", "data1", "read"}}, {"p", []string{"bob", "data2", "write"}}, {"p", []string{"alice", "data2", "read"}},
			{"g", []string{"alice", "admin"}}, {"g", []string{"bob", "admin"}}, {"p", []string{"admin", "data1", "write"}}}
		mm, _ := model.NewModelFromString(c10FilteredConf.Text)
		e, err := casbin.NewEnforcer(mm)
		if err != nil {
			panic(err)
		}
		e.SetAdapter(st)
		if err := e.LoadFilteredPolicy("alice"); err != nil {
			c.Direct(id, "LoadFilteredPolicy failed on the filtered store", "")
			continue
		}
		var trace []string
		for k := 0; k < 1+c.Rng.Intn(5); k++ {
			var pt string
			var rule []string
			add := c.Rng.Intn(2) == 0
			if c.Rng.Intn(3) == 0 {
				pt, rule = "g", []string{"alice", []string{"admin", "root", "user"}[c.Rng.Intn(3)]}
			} else {
				pt, rule = "p", []string{"alice", []string{"data1", "data2", "data3"}[c.Rng.Intn(3)], []string{"read", "write"}[c.Rng.Intn(2)]}
			}
			var ok bool
			var err error
			switch {
			case add && pt == "g":
				ok, err = e.AddGroupingPolicy(toIface(rule)...)
			case add:
				ok, err = e.AddPolicy(toIface(rule)...)
			case pt == "g":
				ok, err = e.RemoveGroupingPolicy(toIface(rule)...)
			default:
				ok, err = e.RemovePolicy(toIface(rule)...)
			}
			trace = append(trace, fmt.Sprintf("%v %s %v -> %v", add, pt, rule, ok))
			if err != nil {
				c.Direct(id, "a management call on a filtered view failed", strings.Join(trace, "; "))
				break
			}
			// listed in memory <=> stored, for the rule just named
			var listed bool
			if pt == "g" {
				listed, _ = e.HasGroupingPolicy(toIface(rule)...)
			} else {
				listed, _ = e.HasPolicy(toIface(rule)...)
			}
			if listed != st.has(pt, rule) {
				c.Direct(id, "auto-save is on and a filtered view is loaded: the rule is listed in memory but not in the store (or the reverse)",
					fmt.Sprintf("trace=%s listed=%v stored=%v", strings.Join(trace, "; "), listed, st.has(pt, rule)))
				break
			}
		}
		// a second enforcer loading the same view decides alike
		m2, _ := model.NewModelFromString(c10FilteredConf.Text)
		e2, _ := casbin.NewEnforcer(m2)
		e2.SetAdapter(st)
		if err := e2.LoadFilteredPolicy("alice"); err == nil {
			reqs := c10Requests(c10FilteredConf)
			if a, b := c10Decisions(e, reqs), c10Decisions(e2, reqs); a != b {
				c.Direct(id, "an enforcer freshly loaded with the same filtered view decides differently", fmt.Sprintf("trace=%s origin=%s fresh=%s", strings.Join(trace, "; "), a, b))
			}
		}
		c.Count("filtered-view-history")
	}
}

// F15 (not repaired): SavePolicy does not CSV-quote
func c10Probes(c *Ctx) {
	dir, err := os.MkdirTemp("", "verif-c10p-")
	if err != nil {
		panic(err)
	}
	defer os.RemoveAll(dir)
	path := filepath.Join(dir, "p.csv")
	_ = os.WriteFile(path, []byte("p, \"a,b\", data1, read\n"), 0o644)
	m1, _ := model.NewModelFromString(machRBAC.Text)
	e, err := casbin.NewEnforcer(m1, fileadapter.NewAdapter(path))
	if err != nil {
		c.Known = append(c.Known, "F15\tgone\tquoted line does not load any more")
		return
	}
	before, _ := e.GetPolicy()
	_ = e.SavePolicy()
	err = e.LoadPolicy()
	after, _ := e.GetPolicy()
	if err != nil || rulesKey(before) != rulesKey(after) {
		c.Known = append(c.Known, fmt.Sprintf("F15\treproduced\tloaded %s from a quoted CSV line; after SavePolicy+LoadPolicy: %s err=%v", rulesKey(before), rulesKey(after), err != nil))
	} else {
		c.Known = append(c.Known, "F15\tgone\t")
	}
}
