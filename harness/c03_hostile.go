package main

import (
	"fmt"
	"os"
	"path/filepath"
	"strings"
	"time"

	casbin "github.com/casbin/casbin/v2"
	"github.com/casbin/casbin/v2/model"
	"github.com/casbin/casbin/v2/persist"
	fileadapter "github.com/casbin/casbin/v2/persist/file-adapter"
	stringadapter "github.com/casbin/casbin/v2/persist/string-adapter"
	"github.com/casbin/casbin/v2/util"
)

// C03 hostile stream (fuzzing in support of the model, not proof): on the implementation alone,
// for arbitrary request values (arbitrary strings, wrong arity, non-string values, unknown
// enforce-context names), arbitrary stored policy content and every example model:
//   * Enforce / EnforceEx / BatchEnforce / EnforceWithMatcher return within a watchdog,
//   * no panic escapes,
//   * an error implies decision false;
// and loading arbitrary policy text through the file and string adapters (and LoadPolicyLine
// directly) returns ok or an error, never panics, never hangs.

var c03Strings = []string{"", "alice", "data1", "read", " ", ",", "\"", "a,b", "\x00", "a\x00b", "*", "/", "/a/*", ":id", "{id}", "{", "}", "(", ")", "[", "]", "\\", "'", "r.sub", "p_sub", "eval(p.sub_rule)", "1", "-1", "1e309", "true", "10.0.0.0/8", "10.0.0.1", "::1", "not-an-ip", "^(", "[a-", "ü", "\xff\xfe", strings.Repeat("a", 5000), "allow", "deny", "#", "p", "g", "\n", "a\nb", "$$"}

func c03Value(c *Ctx) interface{} {
	switch c.Rng.Intn(12) {
	case 0:
		return c.Rng.Intn(100)
	case 1:
		return 3.5
	case 2:
		return nil
	case 3:
		return []string{"a", "b"}
	case 4:
		return map[string]interface{}{"Age": 30, "Name": "alice"}
	case 5:
		return struct{ Age int }{Age: 20}
	case 6:
		return true
	case 7:
		return casbin.NewEnforceContext("9")
	default:
		return c03Strings[c.Rng.Intn(len(c03Strings))]
	}
}

type c03Out struct {
	what string
	ok   bool
	err  error
}

// guarded runs f under recover and a watchdog; returns "panic", "hang" or "".
func c03Guarded(f func()) string {
	done := make(chan string, 1)
	go func() {
		defer func() {
			if r := recover(); r != nil {
				done <- "panic: " + fmt.Sprint(r)
			}
		}()
		f()
		done <- ""
	}()
	select {
	case s := <-done:
		return s
	case <-time.After(20 * time.Second):
		return "hang"
	}
}

func c03Examples() [][2]string {
	// (model file, policy file) pairs of /repo/examples that load with the plain constructor
	ms, _ := filepath.Glob("/repo/examples/*_model.conf")
	var out [][2]string
	for _, m := range ms {
		p := strings.Replace(m, "_model.conf", "_policy.csv", 1)
		if _, err := os.Stat(p); err != nil {
			p = ""
		}
		out = append(out, [2]string{m, p})
	}
	return out
}

// c03FollowUp: after a call of the Enforce family on e ended in an error, the same request on the
// same enforcer must return, with the outcome class it had before, and the sentinels must still
// answer (c03_after.go).  false: something hung, stop generating.
func c03FollowUp(c *Ctx, id string, e *casbin.Enforcer, req []interface{}, first c03Out, replay string) bool {
	var ok2 bool
	var err2 error
	s := c03GuardedT(c03AfterLimit, func() { ok2, err2 = e.Enforce(req...) })
	c.Count("follow-up after an error")
	switch {
	case s == "hang":
		c.Direct(id, fmt.Sprintf("an earlier error poisons later calls: the same Enforce on the same enforcer did not return within %s the second time", c03AfterLimit), replay)
		return false
	case s != "":
		c.Direct(id, "the same Enforce on the same enforcer, repeated after an error: "+s, replay)
	case first.what == "Enforce" && (ok2 != first.ok || (err2 != nil) != (first.err != nil)):
		c.Direct(id, fmt.Sprintf("the same Enforce on the same enforcer answered (%v, err=%v) and, repeated after an error, (%v, err=%v)", first.ok, first.err != nil, ok2, err2 != nil), replay)
	}
	return c03AfterError(c, id, replay)
}

// hostile patterns for the built-in operators: texts whose expansion is not a regular
// expression, placeholders of every syntax, CIDR / glob oddities
var c03OpPatterns = []string{"/p/{id}/c/{id}", "/x/{id}/unbalanced(", "/p/:id", "/x/:id/unbalanced(", "/p/*", "/a/[", "/a/)", "(", ")", "[a-", "/*+", "**", "{", "}", "{}", "{/}", ":",
	"/{a}/(b)", "/(a)/{b}", "/{a}/{a}/{a}", "/:a/:a", "10.0.0.0/8", "10.0.0.0/33", "not-an-ip", "::1/129", "::/0", "", "\\", "^(", "a{2,1}", "a{1001}", "\xff", "(?P<n>", "[[:foo:]]", "\\pX", "[", "[]", "[^", "{a,b", "\\", "/**/x", "x{1000}{1000}"}

var c03OpObjs = []string{"/p/1/c/1", "/p/1/c/2", "/x/1/unbalanced(", "/p/7", "/a/b", "/a/a/a", "10.0.0.1", "::1", "", "(", "not-an-ip", "\xff", "/p/7?x=(", "a\nb", "7", "id"}

// c03Operators: every built-in operator that takes a pattern, in a matcher of its own, over
// stored patterns that do not compile and hostile request values.  Implementation only: no
// escaping panic, no hang, error => deny, and after every error the follow-up calls.
func c03Operators(c *Ctx) bool {
	exprs := []string{
		"keyMatch4(r.obj, p.obj)", "keyGet2(r.obj, p.obj, 'id') == r.act", "keyGet3(r.obj, p.obj, 'id') == r.act",
		"keyGet2(r.obj, p.obj, r.act) != ''", "keyGet3(r.obj, p.obj, r.act) != ''", "keyGet(r.obj, p.obj) == r.act",
		"keyMatch(r.obj, p.obj)", "keyMatch2(r.obj, p.obj)", "keyMatch3(r.obj, p.obj)", "keyMatch5(r.obj, p.obj)",
		"regexMatch(r.obj, p.obj)", "globMatch(r.obj, p.obj)", "ipMatch(r.obj, p.obj)",
		"keyMatch4(p.obj, r.obj)", "regexMatch(p.obj, r.obj)", "globMatch(p.obj, r.obj)", "ipMatch(p.obj, r.obj)",
		"(keyMatch4(r.obj, p.obj) || keyGet2(r.obj, p.obj, 'id') == r.act || keyGet3(r.obj, p.obj, 'id') == r.act)",
		"(regexMatch(r.act, p.act) && keyMatch4(r.obj, p.obj))",
	}
	iters := 120
	if c.Thorough() {
		iters = 3000
	}
	pick := func(xs []string) string { return xs[c.Rng.Intn(len(xs))] }
	for xi, expr := range exprs {
		m, err := model.NewModelFromString(c03OpModel(expr))
		if err != nil {
			panic(err)
		}
		e, err := casbin.NewEnforcer(m)
		if err != nil {
			panic(err)
		}
		for it := 0; it < iters; it++ {
			if it%12 == 0 {
				e.ClearPolicy()
			}
			if it%3 == 0 {
				pat := pick(c03OpPatterns)
				if c.Rng.Intn(4) == 0 {
					pat = pick(c03Strings)
				}
				rule := []string{"alice", pat, pick([]string{"read", "1", "7", "id", "(", ""})}
				_ = c03Guarded(func() { _, _ = e.AddPolicy(toIface(rule)...) })
			}
			obj := pick(c03OpObjs)
			if c.Rng.Intn(4) == 0 {
				obj = pick(c03Strings)
			}
			req := []interface{}{"alice", obj, pick([]string{"read", "1", "7", "id", "("})}
			if c.Rng.Intn(10) == 0 {
				req[1+c.Rng.Intn(2)] = c03Value(c)
			}
			id := fmt.Sprintf("c03.hostile.op%d.%d", xi, it)
			replay := func() string {
				p, _ := e.GetPolicy()
				return fmt.Sprintf("matcher=%q policy=%q request=%#v", "r.sub == p.sub && "+expr, p, req)
			}
			var first c03Out
			var ok2 bool
			var err2 error
			s := c03Guarded(func() {
				ok, err := e.Enforce(req...)
				first = c03Out{"Enforce", ok, err}
				ok2, _, err2 = e.EnforceEx(req...)
			})
			c.Count("hostile-operator")
			if s != "" {
				c.Direct(id, "Enforce with a built-in operator on a hostile pattern: "+s, replay())
				if strings.HasPrefix(s, "hang") {
					return false
				}
				continue
			}
			if (first.err != nil && first.ok) || (err2 != nil && ok2) {
				c.Direct(id, "Enforce / EnforceEx returned an error together with decision true", replay())
			}
			if first.ok != ok2 || (first.err != nil) != (err2 != nil) {
				c.Direct(id, fmt.Sprintf("Enforce = (%v, err=%v) but EnforceEx = (%v, err=%v)", first.ok, first.err != nil, ok2, err2 != nil), replay())
			}
			if first.err != nil {
				c.Count("hostile-operator error")
				if !c03FollowUp(c, id, e, req, first, replay()) {
					return false
				}
			}
		}
	}
	return true
}

// c03ConcurrentOperators: independent enforcers used from 16 goroutines at once, every one
// meeting patterns nobody compiled before (the operators share a process-wide regexp cache):
// every call must return its sequential answer.  A Go runtime fatal error here (concurrent map
// writes) cannot be recovered: it ends the harness process and ./check reports the crash.
func c03ConcurrentOperators(c *Ctx) {
	const workers = 16
	n := 150
	if c.Thorough() {
		n = 2000
	}
	type res struct{ bad string }
	out := make([]res, workers)
	start := make(chan struct{})
	done := make(chan int, workers)
	for w := 0; w < workers; w++ {
		e := c03NewEnforcer(c03OpModel("(keyMatch4(r.obj, p.obj) || keyGet2(r.obj, p.obj, 'id') == r.act || keyGet3(r.obj, p.obj, 'id') == r.act)"), nil, nil)
		go func(w int, e *casbin.Enforcer) {
			defer func() {
				if r := recover(); r != nil {
					out[w].bad = "panic: " + fmt.Sprint(r)
				}
				done <- w
			}()
			<-start
			for k := 0; k < n && out[w].bad == ""; k++ {
				var rule []string
				var yes, no []interface{}
				switch k % 3 {
				case 0:
					rule = []string{"alice", fmt.Sprintf("/w%d/k%d/{a}/{a}", w, k), "x"}
					yes, no = toIface([]string{"alice", fmt.Sprintf("/w%d/k%d/7/7", w, k), "-"}), toIface([]string{"alice", fmt.Sprintf("/w%d/k%d/7/8", w, k), "-"})
				case 1:
					rule = []string{"alice", fmt.Sprintf("/w%d/k%d/:id", w, k), "x"}
					yes, no = toIface([]string{"alice", fmt.Sprintf("/w%d/k%d/7", w, k), "7"}), toIface([]string{"alice", fmt.Sprintf("/w%d/k%d/7", w, k), "8"})
				default:
					// the same fresh pattern in every goroutine at (nearly) the same time
					rule = []string{"alice", fmt.Sprintf("/shared/k%d/{id}", k), "x"}
					yes, no = toIface([]string{"alice", fmt.Sprintf("/shared/k%d/7", k), "7"}), toIface([]string{"alice", fmt.Sprintf("/shared/k%d/7/x", k), "7"})
				}
				if _, err := e.AddPolicy(toIface(rule)...); err != nil {
					out[w].bad = "AddPolicy: " + err.Error()
					break
				}
				if ok, err := e.Enforce(yes...); !ok || err != nil {
					out[w].bad = fmt.Sprintf("rule %v: Enforce(%v) = (%v, %v), want (true, nil)", rule, yes, ok, err)
				}
				if ok, err := e.Enforce(no...); ok || err != nil {
					out[w].bad = fmt.Sprintf("rule %v: Enforce(%v) = (%v, %v), want (false, nil)", rule, no, ok, err)
				}
				if k%10 == 9 {
					e.ClearPolicy()
				}
			}
		}(w, e)
	}
	close(start)
	timeout := time.After(120 * time.Second)
	for i := 0; i < workers; i++ {
		select {
		case <-done:
		case <-timeout:
			c.Direct("c03.hostile.conc", "concurrent Enforce calls on independent enforcers (keyMatch4 / keyGet2 / keyGet3 on fresh patterns) did not return within 120 s", fmt.Sprintf("%d goroutines x %d fresh patterns", workers, n))
			c03Stop = true
			return
		}
	}
	for w := range out {
		if out[w].bad != "" {
			c.Direct("c03.hostile.conc", "concurrent Enforce calls on independent enforcers: goroutine "+fmt.Sprint(w)+": "+out[w].bad, fmt.Sprintf("%d goroutines x %d fresh patterns", workers, n))
		}
	}
	c.Count("hostile-concurrent-operators")
}

// JSON requests (EnableAcceptJsonRequest): hostile JSON texts as request values, an ABAC matcher
// that reaches into them; no panic, no hang, an error means false.
func c03Json(c *Ctx) {
	deep := strings.Repeat(`{"a":`, 2000) + "1" + strings.Repeat("}", 2000)
	texts := []string{`{}`, `{"Name":null}`, `{"Name":{"Name":"x"}}`, `{"Name":[1,2,3]}`, `{"Name":1e400}`, `{"Name":"a","Name":"b"}`,
		`{"Name":"\u0000"}`, `{"":""}`, `{"Name":true,"Age":"old"}`, deep, `{"Name":"` + strings.Repeat("x", 70000) + `"}`, "{\"Name\":\"\xff\xfe\"}",
		`null`, `[]`, `{"Age":-0}`, `{"Age":9223372036854775808}`, ` { "Name" : "alice" } `, `{"Name":"alice"}garbage`}
	models := []string{
		"[request_definition]\nr = sub, obj, act\n[policy_definition]\np = sub, obj, act\n[policy_effect]\ne = some(where (p.eft == allow))\n[matchers]\nm = r.sub.Name == p.sub && r.obj == p.obj && r.act == p.act\n",
		"[request_definition]\nr = sub, obj, act\n[policy_definition]\np = sub, obj, act\n[policy_effect]\ne = some(where (p.eft == allow))\n[matchers]\nm = r.sub.Age > 18 && r.sub.Name.Name == p.sub || r.obj.a.a == 1\n",
		"[request_definition]\nr = sub, obj, act\n[policy_definition]\np = sub, obj, act\n[policy_effect]\ne = !some(where (p.eft == deny))\n[matchers]\nm = r.sub == p.sub && keyMatch(r.obj, p.obj)\n",
	}
	for mi, text := range models {
		m, err := model.NewModelFromString(text)
		if err != nil {
			continue
		}
		e, err := casbin.NewEnforcer(m)
		if err != nil {
			continue
		}
		e.EnableAcceptJsonRequest(true)
		_, _ = e.AddPolicy("alice", "data1", "read")
		_, _ = e.AddPolicy("x", `{"a":1}`, "read")
		for _, a := range texts {
			for _, b := range []string{"data1", `{"a":{"a":1}}`, a} {
				var ok bool
				var err error
				req := []interface{}{a, b, "read"}
				if s := c03Guarded(func() { ok, err = e.Enforce(req...) }); s != "" {
					c.Direct(fmt.Sprintf("c03.json.%d", mi), "Enforce with a JSON request value did not return: "+s, fmt.Sprintf("%.200q %.200q", a, b))
					return
				}
				if err != nil && ok {
					c.Direct(fmt.Sprintf("c03.json.%d", mi), "Enforce returned an error together with the decision true", fmt.Sprintf("%.200q %.200q: %v", a, b, err))
				}
				c.Count("json-request")
			}
		}
	}
}

func c03Hostile(c *Ctx) {
	c03Json(c)
	iters := 300
	if c.Thorough() {
		iters = 6000
	}
	examples := c03Examples()
	for _, ex := range examples {
		var e *casbin.Enforcer
		var err error
		if s := c03Guarded(func() {
			if ex[1] != "" {
				e, err = casbin.NewEnforcer(ex[0], ex[1])
			} else {
				e, err = casbin.NewEnforcer(ex[0])
			}
		}); s != "" {
			c.Direct("c03.hostile.new", "constructing an enforcer from a shipped example "+s, ex[0])
			continue
		}
		if err != nil || e == nil {
			continue
		}
		nr := 3
		if toks := e.GetModel()["r"]["r"]; toks != nil {
			nr = len(toks.Tokens)
		}
		for it := 0; it < iters; it++ {
			// hostile stored content now and then (arity kept: wrong-arity rules are a separate case)
			if it%5 == 0 {
				if pa := e.GetModel()["p"]["p"]; pa != nil {
					rule := make([]string, len(pa.Tokens))
					for i := range rule {
						rule[i] = c03Strings[c.Rng.Intn(len(c03Strings))]
					}
					_ = c03Guarded(func() { _, _ = e.AddPolicy(toIface(rule)...) })
				}
				if ga := e.GetModel()["g"]["g"]; ga != nil && e.GetRoleManager() != nil {
					rule := make([]string, len(ga.Tokens))
					for i := range rule {
						rule[i] = c03Strings[c.Rng.Intn(len(c03Strings))]
					}
					_ = c03Guarded(func() { _, _ = e.AddGroupingPolicy(toIface(rule)...) })
				}
			}
			if it%17 == 0 {
				// a stored rule of the wrong size
				_ = c03Guarded(func() { _, _ = e.AddPolicy("only-one-field") })
			}
			n := nr
			switch c.Rng.Intn(6) {
			case 0:
				n = c.Rng.Intn(9)
			case 1:
				n = nr + 1
			}
			req := make([]interface{}, n)
			for i := range req {
				req[i] = c03Value(c)
			}
			id := fmt.Sprintf("c03.hostile.%s.%d", filepath.Base(ex[0]), it)
			var outs []c03Out
			s := c03Guarded(func() {
				ok, err := e.Enforce(req...)
				outs = append(outs, c03Out{"Enforce", ok, err})
				ok2, _, err2 := e.EnforceEx(req...)
				outs = append(outs, c03Out{"EnforceEx", ok2, err2})
				rs, err3 := e.BatchEnforce([][]interface{}{req, req})
				any := false
				for _, r := range rs {
					any = any || r
				}
				if err3 != nil {
					// results returned so far belong to requests that did not fail
					any = false
				}
				outs = append(outs, c03Out{"BatchEnforce", any, err3})
				ok4, err4 := e.EnforceWithMatcher(c03Strings[c.Rng.Intn(len(c03Strings))], req...)
				outs = append(outs, c03Out{"EnforceWithMatcher", ok4, err4})
			})
			c.Count("hostile-enforce")
			if s != "" {
				c.Direct(id, "Enforce family: "+s, fmt.Sprintf("model=%s request=%#v", ex[0], req))
				if strings.HasPrefix(s, "hang") {
					return
				}
				continue
			}
			anyErr := false
			for _, o := range outs {
				if o.err != nil && o.ok {
					c.Direct(id, o.what+" returned an error together with decision true", fmt.Sprintf("model=%s request=%#v", ex[0], req))
				}
				anyErr = anyErr || o.err != nil
			}
			if anyErr && !c03FollowUp(c, id, e, req, outs[0], fmt.Sprintf("model=%s request=%#v", ex[0], req)) {
				return
			}
		}
	}
	if !c03Operators(c) {
		return
	}
	// built-in operator wrappers with hostile arguments called directly must error, not panic —
	// except where the documented behaviour IS a panic inside Enforce's recover (recorded only)
	// loading arbitrary policy text
	dir, err := os.MkdirTemp("", "verif-c03-")
	if err != nil {
		panic(err)
	}
	defer os.RemoveAll(dir)
	nl := 2000
	if c.Thorough() {
		nl = 20000
	}
	pieces := []string{"p", "g", "p2", "g2", ",", ", ", " ", "\"", "\"\"", "#", "alice", "data1", "read", "\n", "\r\n", "\x00", "a\"b", "\xff", "", "x", "p,", ",a", "\t", "e", "m", "r"}
	const mtext = `[request_definition]
r = sub, obj, act
[policy_definition]
p = sub, obj, act
[role_definition]
g = _, _
[policy_effect]
e = some(where (p.eft == allow))
[matchers]
m = g(r.sub, p.sub) && r.obj == p.obj && r.act == p.act
`
	for i := 0; i < nl; i++ {
		var b strings.Builder
		k := c.Rng.Intn(12)
		for j := 0; j < k; j++ {
			b.WriteString(pieces[c.Rng.Intn(len(pieces))])
		}
		text := b.String()
		id := fmt.Sprintf("c03.load.%d", i)
		if s := c03Guarded(func() {
			mm, _ := model.NewModelFromString(mtext)
			for _, line := range strings.Split(text, "\n") {
				_ = persist.LoadPolicyLine(strings.TrimSpace(line), mm)
			}
		}); s != "" {
			c.Direct(id, "persist.LoadPolicyLine "+s, fmt.Sprintf("%q", text))
		}
		if s := c03Guarded(func() {
			mm, _ := model.NewModelFromString(mtext)
			e, err := casbin.NewEnforcer(mm, stringadapter.NewAdapter(text))
			if err == nil && e != nil {
				ok, err := e.Enforce("alice", "data1", "read")
				if err != nil && ok {
					panic("error with decision true")
				}
			}
		}); s != "" {
			c.Direct(id, "string adapter load "+s, fmt.Sprintf("%q", text))
		}
		path := filepath.Join(dir, "p.csv")
		_ = os.WriteFile(path, []byte(text), 0o644)
		if s := c03Guarded(func() {
			mm, _ := model.NewModelFromString(mtext)
			_, _ = casbin.NewEnforcer(mm, fileadapter.NewAdapter(path))
			mm2, _ := model.NewModelFromString(mtext)
			e2, err := casbin.NewEnforcer(mm2, fileadapter.NewFilteredAdapter(path))
			if err == nil && e2 != nil {
				_ = e2.LoadFilteredPolicy(&fileadapter.Filter{P: []string{"alice"}})
			}
		}); s != "" {
			c.Direct(id, "file adapter load "+s, fmt.Sprintf("%q", text))
		}
		c.Count("hostile-load")
	}
	// cyclic role graphs under every effect incl. subjectPriority (F12 repaired: must return)
	effects := []string{"some(where (p.eft == allow))", "!some(where (p.eft == deny))", "some(where (p.eft == allow)) && !some(where (p.eft == deny))", "priority(p.eft) || deny", "subjectPriority(p.eft) || deny"}
	for _, eff := range effects {
		text := "[request_definition]\nr = sub, obj, act\n[policy_definition]\np = sub, obj, act, eft\n[role_definition]\ng = _, _\n[policy_effect]\ne = " + eff + "\n[matchers]\nm = g(r.sub, p.sub) && r.obj == p.obj && r.act == p.act\n"
		pol := "p, a, d, read, allow\np, r, d, read, deny\ng, a, r\ng, b, a\ng, a, b\ng, r, r\n"
		if s := c03Guarded(func() {
			mm, _ := model.NewModelFromString(text)
			e, err := casbin.NewEnforcer(mm, stringadapter.NewAdapter(pol))
			if err == nil && e != nil {
				for _, sub := range []string{"a", "b", "r", "zz"} {
					ok, err := e.Enforce(sub, "d", "read")
					if err != nil && ok {
						panic("error with decision true")
					}
				}
			}
		}); s != "" {
			c.Direct("c03.cycle", "cyclic role graph under effect "+eff+": "+s, pol)
		}
		c.Count("hostile-cycle")
	}
	// several policy types of DIFFERENT widths under the ordering effects: the domain / priority
	// column of one type must never be applied to the rules of another (a narrower type would be
	// indexed past its end while the loaded policy is sorted)
	for _, eff := range []string{"subjectPriority(p.eft) || deny", "priority(p.eft) || deny"} {
		for _, pdefs := range []string{
			"p = sub, dom, obj, act, eft\np2 = sub, eft",
			"p = priority, sub, dom, obj, act, eft\np2 = sub, eft\np3 = sub, obj, priority",
			"p = sub, eft\np2 = sub, obj, act, dom, eft",
		} {
			text := "[request_definition]\nr = sub, dom, obj, act\n[policy_definition]\n" + pdefs + "\n[role_definition]\ng = _, _, _\n[policy_effect]\ne = " + eff +
				"\n[matchers]\nm = g(r.sub, p.sub, r.dom) && r.sub == p.sub\n"
			pol := "p2, alice, allow\np2, bob, deny\np2, carol, allow\ng, alice, admin, d1\ng, admin, root, d1\ng, bob, admin, d2\n"
			switch {
			case strings.HasPrefix(pdefs, "p = sub, dom"):
				pol += "p, admin, d1, data1, read, allow\np, root, d1, data1, read, deny\np, alice, d2, data1, read, allow\n"
			case strings.HasPrefix(pdefs, "p = priority"):
				pol += "p, 2, admin, d1, data1, read, allow\np, 1, root, d1, data1, read, deny\np3, alice, data1, 5\np3, bob, data1, 1\np3, carol, data2, 3\n"
			default:
				pol += "p, zed, allow\np, alice, deny\n"
				pol = strings.Replace(pol, "p2, alice, allow\np2, bob, deny\np2, carol, allow\n", "p2, alice, data1, read, d1, allow\np2, admin, data1, read, d1, deny\np2, root, data1, read, d2, allow\n", 1)
			}
			if s := c03Guarded(func() {
				mm, err := model.NewModelFromString(text)
				if err != nil {
					return
				}
				e, err := casbin.NewEnforcer(mm, stringadapter.NewAdapter(pol))
				if err == nil && e != nil {
					for _, sub := range []string{"alice", "bob", "root"} {
						ok, err := e.Enforce(sub, "d1", "data1", "read")
						if err != nil && ok {
							panic("error with decision true")
						}
					}
					_ = e.LoadPolicy()
				}
			}); s != "" {
				c.Direct("c03.multitype", "loading policy types of different widths under "+eff+": "+s, pdefs+" | "+pol)
			}
			c.Count("hostile-multitype-load")
		}
	}
	// matching functions run while the POLICY IS LOADED (role links are built outside enforce's
	// recover): a matcher with keyMatch(r.dom, p.dom) registers KeyMatch as domain matching function
	// automatically; empty, pattern and odd domains / names in the grouping rules must not crash it
	{
		text := "[request_definition]\nr = sub, dom, obj, act\n[policy_definition]\np = sub, dom, obj, act\n[role_definition]\ng = _, _, _\n[policy_effect]\ne = some(where (p.eft == allow))\n[matchers]\nm = g(r.sub, p.sub, r.dom) && keyMatch(r.dom, p.dom) && r.obj == p.obj && r.act == p.act\n"
		doms := []string{"", "tenant*", "*", "t1", "/", "a*b", "**", " "}
		for i := 0; i < len(doms); i++ {
			for j := 0; j < len(doms); j++ {
				pol := fmt.Sprintf("p, admin, %s, data1, read\ng, bob, admin, %s\ng, alice, admin, %s\ng, , admin, %s\n", doms[i], doms[i], doms[j], doms[j])
				if s := c03Guarded(func() {
					mm, err := model.NewModelFromString(text)
					if err != nil {
						return
					}
					e, err := casbin.NewEnforcer(mm, stringadapter.NewAdapter(pol))
					if err == nil && e != nil {
						for _, d := range doms {
							ok, err := e.Enforce("alice", d, "data1", "read")
							if err != nil && ok {
								panic("error with decision true")
							}
						}
						_, _ = e.AddGroupingPolicy("carol", "admin", doms[(i+j)%len(doms)])
						_ = e.LoadPolicy()
					}
				}); s != "" {
					c.Direct("c03.domload", "loading grouping rules under an automatically registered domain matching function: "+s, pol)
				}
				c.Count("hostile-domain-load")
			}
		}
	}
	// the self-referential eval rule (F29 repaired: must be an error, not a dead process)
	{
		text := "[request_definition]\nr = sub, obj, act\n[policy_definition]\np = sub_rule, obj, act\n[policy_effect]\ne = some(where (p.eft == allow))\n[matchers]\nm = eval(p.sub_rule) && r.obj == p.obj && r.act == p.act\n"
		if s := c03Guarded(func() {
			mm, _ := model.NewModelFromString(text)
			e, _ := casbin.NewEnforcer(mm)
			_, _ = e.AddPolicy("eval(p.sub_rule)", "data1", "read")
			ok, err := e.Enforce("alice", "data1", "read")
			if ok || err == nil {
				panic(fmt.Sprint("self-referential eval rule: expected (false, error), got ", ok, err))
			}
		}); s != "" {
			c.Direct("c03.evalself", s, "eval(p.sub_rule)")
		}
	}
	_ = util.KeyMatch
	// last: a runtime fatal error here ends the process
	if !c03Stop {
		c03ConcurrentOperators(c)
	}
}
