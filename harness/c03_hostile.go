package main

import (
	"fmt"
	"os"
	"path/filepath"
	"strings"
	"time"

	casbin "github.com/casbin/casbin/v2"
	"github.com/casbin/casbin/v2/model"
	"github.com/casbin/casbin/v2/persist"
	fileadapter "github.com/casbin/casbin/v2/persist/file-adapter"
	stringadapter "github.com/casbin/casbin/v2/persist/string-adapter"
	"github.com/casbin/casbin/v2/util"
)

// C03 hostile stream (fuzzing in support of the model, not proof): on the implementation alone,
// for arbitrary request values (arbitrary strings, wrong arity, non-string values, unknown
// enforce-context names), arbitrary stored policy content and every example model:
//   * Enforce / EnforceEx / BatchEnforce / EnforceWithMatcher return within a watchdog,
//   * no panic escapes,
//   * an error implies decision false;
// and loading arbitrary policy text through the file and string adapters (and LoadPolicyLine
// directly) returns ok or an error, never panics, never hangs.

var c03Strings = []string{"", "alice", "data1", "read", " ", ",", "\"", "a,b", "\x00", "a\x00b", "*", "/", "/a/*", ":id", "{id}", "{", "}", "(", ")", "[", "]", "\\", "'", "r.sub", "p_sub", "eval(p.sub_rule)", "1", "-1", "1e309", "true", "10.0.0.0/8", "10.0.0.1", "::1", "not-an-ip", "^(", "[a-", "ü", "\xff\xfe", strings.Repeat("a", 5000), "allow", "deny", "#", "p", "g", "\n", "a\nb", "$$"}

func c03Value(c *Ctx) interface{} {
	switch c.Rng.Intn(12) {
	case 0:
		return c.Rng.Intn(100)
	case 1:
		return 3.5
	case 2:
		return nil
	case 3:
		return []string{"a", "b"}
	case 4:
		return map[string]interface{}{"Age": 30, "Name": "alice"}
	case 5:
		return struct{ Age int }{Age: 20}
	case 6:
		return true
	case 7:
		return casbin.NewEnforceContext("9")
	default:
		return c03Strings[c.Rng.Intn(len(c03Strings))]
	}
}

type c03Out struct {
	what string
	ok   bool
	err  error
}

// guarded runs f under recover and a watchdog; returns "panic", "hang" or "".
func c03Guarded(f func()) string {
	done := make(chan string, 1)
	go func() {
		defer func() {
			if r := recover(); r != nil {
				done <- "panic: " + fmt.Sprint(r)
			}
		}()
		f()
		done <- ""
	}()
	select {
	case s := <-done:
		return s
	case <-time.After(20 * time.Second):
		return "hang"
	}
}

func c03Examples() [][2]string {
	// (model file, policy file) pairs of /repo/examples that load with the plain constructor
	ms, _ := filepath.Glob("/repo/examples/*_model.conf")
	var out [][2]string
	for _, m := range ms {
		p := strings.Replace(m, "_model.conf", "_policy.csv", 1)
		if _, err := os.Stat(p); err != nil {
			p = ""
		}
		out = append(out, [2]string{m, p})
	}
	return out
}

func c03Hostile(c *Ctx) {
	iters := 300
	if c.Thorough() {
		iters = 6000
	}
	examples := c03Examples()
	for _, ex := range examples {
		var e *casbin.Enforcer
		var err error
		if s := c03Guarded(func() {
			if ex[1] != "" {
				e, err = casbin.NewEnforcer(ex[0], ex[1])
			} else {
				e, err = casbin.NewEnforcer(ex[0])
			}
		}); s != "" {
			c.Direct("c03.hostile.new", "constructing an enforcer from a shipped example "+s, ex[0])
			continue
		}
		if err != nil || e == nil {
			continue
		}
		nr := 3
		if toks := e.GetModel()["r"]["r"]; toks != nil {
			nr = len(toks.Tokens)
		}
		for it := 0; it < iters; it++ {
			// hostile stored content now and then (arity kept: wrong-arity rules are a separate case)
			if it%5 == 0 {
				if pa := e.GetModel()["p"]["p"]; pa != nil {
					rule := make([]string, len(pa.Tokens))
					for i := range rule {
						rule[i] = c03Strings[c.Rng.Intn(len(c03Strings))]
					}
					_ = c03Guarded(func() { _, _ = e.AddPolicy(toIface(rule)...) })
				}
				if ga := e.GetModel()["g"]["g"]; ga != nil && e.GetRoleManager() != nil {
					rule := make([]string, len(ga.Tokens))
					for i := range rule {
						rule[i] = c03Strings[c.Rng.Intn(len(c03Strings))]
					}
					_ = c03Guarded(func() { _, _ = e.AddGroupingPolicy(toIface(rule)...) })
				}
			}
			if it%17 == 0 {
				// a stored rule of the wrong size
				_ = c03Guarded(func() { _, _ = e.AddPolicy("only-one-field") })
			}
			n := nr
			switch c.Rng.Intn(6) {
			case 0:
				n = c.Rng.Intn(9)
			case 1:
				n = nr + 1
			}
			req := make([]interface{}, n)
			for i := range req {
				req[i] = c03Value(c)
			}
			id := fmt.Sprintf("c03.hostile.%s.%d", filepath.Base(ex[0]), it)
			var outs []c03Out
			s := c03Guarded(func() {
				ok, err := e.Enforce(req...)
				outs = append(outs, c03Out{"Enforce", ok, err})
				ok2, _, err2 := e.EnforceEx(req...)
				outs = append(outs, c03Out{"EnforceEx", ok2, err2})
				rs, err3 := e.BatchEnforce([][]interface{}{req, req})
				any := false
				for _, r := range rs {
					any = any || r
				}
				if err3 != nil {
					// results returned so far belong to requests that did not fail
					any = false
				}
				outs = append(outs, c03Out{"BatchEnforce", any, err3})
				ok4, err4 := e.EnforceWithMatcher(c03Strings[c.Rng.Intn(len(c03Strings))], req...)
				outs = append(outs, c03Out{"EnforceWithMatcher", ok4, err4})
			})
			c.Count("hostile-enforce")
			if s != "" {
				c.Direct(id, "Enforce family: "+s, fmt.Sprintf("model=%s request=%#v", ex[0], req))
				if strings.HasPrefix(s, "hang") {
					return
				}
				continue
			}
			for _, o := range outs {
				if o.err != nil && o.ok {
					c.Direct(id, o.what+" returned an error together with decision true", fmt.Sprintf("model=%s request=%#v", ex[0], req))
				}
			}
		}
	}
	// built-in operator wrappers with hostile arguments called directly must error, not panic —
	// except where the documented behaviour IS a panic inside Enforce's recover (recorded only)
	// loading arbitrary policy text
	dir, err := os.MkdirTemp("", "verif-c03-")
	if err != nil {
		panic(err)
	}
	defer os.RemoveAll(dir)
	nl := 2000
	if c.Thorough() {
		nl = 20000
	}
	pieces := []string{"p", "g", "p2", "g2", ",", ", ", " ", "\"", "\"\"", "#", "alice", "data1", "read", "\n", "\r\n", "\x00", "a\"b", "\xff", "", "x", "p,", ",a", "\t", "e", "m", "r"}
	const mtext = `[request_definition]
r = sub, obj, act
[policy_definition]
p = sub, obj, act
[role_definition]
g = _, _
[policy_effect]
e = some(where (p.eft == allow))
[matchers]
m = g(r.sub, p.sub) && r.obj == p.obj && r.act == p.act
`
	for i := 0; i < nl; i++ {
		var b strings.Builder
		k := c.Rng.Intn(12)
		for j := 0; j < k; j++ {
			b.WriteString(pieces[c.Rng.Intn(len(pieces))])
		}
		text := b.String()
		id := fmt.Sprintf("c03.load.%d", i)
		if s := c03Guarded(func() {
			mm, _ := model.NewModelFromString(mtext)
			for _, line := range strings.Split(text, "\n") {
				_ = persist.LoadPolicyLine(strings.TrimSpace(line), mm)
			}
		}); s != "" {
			c.Direct(id, "persist.LoadPolicyLine "+s, fmt.Sprintf("%q", text))
		}
		if s := c03Guarded(func() {
			mm, _ := model.NewModelFromString(mtext)
			e, err := casbin.NewEnforcer(mm, stringadapter.NewAdapter(text))
			if err == nil && e != nil {
				ok, err := e.Enforce("alice", "data1", "read")
				if err != nil && ok {
					panic("error with decision true")
				}
			}
		}); s != "" {
			c.Direct(id, "string adapter load "+s, fmt.Sprintf("%q", text))
		}
		path := filepath.Join(dir, "p.csv")
		_ = os.WriteFile(path, []byte(text), 0o644)
		if s := c03Guarded(func() {
			mm, _ := model.NewModelFromString(mtext)
			_, _ = casbin.NewEnforcer(mm, fileadapter.NewAdapter(path))
			mm2, _ := model.NewModelFromString(mtext)
			e2, err := casbin.NewEnforcer(mm2, fileadapter.NewFilteredAdapter(path))
			if err == nil && e2 != nil {
				_ = e2.LoadFilteredPolicy(&fileadapter.Filter{P: []string{"alice"}})
			}
		}); s != "" {
			c.Direct(id, "file adapter load "+s, fmt.Sprintf("%q", text))
		}
		c.Count("hostile-load")
	}
	// cyclic role graphs under every effect incl. subjectPriority (F12 repaired: must return)
	effects := []string{"some(where (p.eft == allow))", "!some(where (p.eft == deny))", "some(where (p.eft == allow)) && !some(where (p.eft == deny))", "priority(p.eft) || deny", "subjectPriority(p.eft) || deny"}
	for _, eff := range effects {
		text := "[request_definition]\nr = sub, obj, act\n[policy_definition]\np = sub, obj, act, eft\n[role_definition]\ng = _, _\n[policy_effect]\ne = " + eff + "\n[matchers]\nm = g(r.sub, p.sub) && r.obj == p.obj && r.act == p.act\n"
		pol := "p, a, d, read, allow\np, r, d, read, deny\ng, a, r\ng, b, a\ng, a, b\ng, r, r\n"
		if s := c03Guarded(func() {
			mm, _ := model.NewModelFromString(text)
			e, err := casbin.NewEnforcer(mm, stringadapter.NewAdapter(pol))
			if err == nil && e != nil {
				for _, sub := range []string{"a", "b", "r", "zz"} {
					ok, err := e.Enforce(sub, "d", "read")
					if err != nil && ok {
						panic("error with decision true")
					}
				}
			}
		}); s != "" {
			c.Direct("c03.cycle", "cyclic role graph under effect "+eff+": "+s, pol)
		}
		c.Count("hostile-cycle")
	}
	// the self-referential eval rule (F29 repaired: must be an error, not a dead process)
	{
		text := "[request_definition]\nr = sub, obj, act\n[policy_definition]\np = sub_rule, obj, act\n[policy_effect]\ne = some(where (p.eft == allow))\n[matchers]\nm = eval(p.sub_rule) && r.obj == p.obj && r.act == p.act\n"
		if s := c03Guarded(func() {
			mm, _ := model.NewModelFromString(text)
			e, _ := casbin.NewEnforcer(mm)
			_, _ = e.AddPolicy("eval(p.sub_rule)", "data1", "read")
			ok, err := e.Enforce("alice", "data1", "read")
			if ok || err == nil {
				panic(fmt.Sprint("self-referential eval rule: expected (false, error), got ", ok, err))
			}
		}); s != "" {
			c.Direct("c03.evalself", s, "eval(p.sub_rule)")
		}
	}
	_ = util.KeyMatch
}
