package main

import (
	"errors"
	"fmt"
	"strings"

	casbin "github.com/casbin/casbin/v2"
	"github.com/casbin/casbin/v2/model"
	"github.com/casbin/casbin/v2/rbac"
	defaultrolemanager "github.com/casbin/casbin/v2/rbac/default-role-manager"
	"github.com/casbin/casbin/v2/util"
)

// C11: a failed persistence or load leaves the enforcer unchanged.
// Fault enumeration: every reachable state over a 3-rule universe per type (BFS on the real
// enforcer, auto-save on) x every management call of the alphabet x failure of each adapter call
// the call makes (failnext 0, 1, and none), plus LoadPolicy failing after k stored lines for
// every k; every step compared with Machine.step; on the implementation alone: an error result
// leaves listed rules, role links and decisions (asked with requests never asked before, so the
// g() memo cannot mask a broken graph) exactly as they were.  Role-manager failures: a LoadPolicy
// whose link rebuild fails at the j-th link (custom failing manager) must restore the links
// (F16, repaired); a failing AddLink inside AddGroupingPolicy is the known finding F17.

func c11Alphabet() []mOp {
	P := [][]string{{"alice", "data1", "read"}, {"admin", "data1", "write"}, {"bob", "data2", "read"}}
	G := [][]string{{"alice", "admin"}, {"bob", "admin"}, {"admin", "root"}}
	var al []mOp
	for _, set := range []struct {
		pt string
		R  [][]string
	}{{"p", P}, {"g", G}} {
		pt, R := set.pt, set.R
		for i := range R {
			al = append(al, mOp{Kind: "add", Pt: pt, R1: [][]string{R[i]}})
			al = append(al, mOp{Kind: "remove", Pt: pt, R1: [][]string{R[i]}})
		}
		al = append(al, mOp{Kind: "addmany", Pt: pt, R1: [][]string{R[0], R[1]}})
		al = append(al, mOp{Kind: "addmanyex", Pt: pt, R1: [][]string{R[1], R[2]}})
		al = append(al, mOp{Kind: "removemany", Pt: pt, R1: [][]string{R[0], R[2]}})
		al = append(al, mOp{Kind: "update", Pt: pt, R1: [][]string{R[0]}, R2: [][]string{R[2]}})
		al = append(al, mOp{Kind: "update", Pt: pt, R1: [][]string{R[1]}, R2: [][]string{R[0]}})
		al = append(al, mOp{Kind: "updatemany", Pt: pt, R1: [][]string{R[0], R[1]}, R2: [][]string{R[2], {"zed", R[0][1]}}[:2]})
		al = append(al, mOp{Kind: "removefiltered", Pt: pt, Fi: 0, Fvs: []string{R[0][0]}})
		al = append(al, mOp{Kind: "removefiltered", Pt: pt, Fi: 1, Fvs: []string{R[0][1]}})
		al = append(al, mOp{Kind: "add", Pt: pt, R1: [][]string{R[0]}, Self: true})
		al = append(al, mOp{Kind: "removemany", Pt: pt, R1: [][]string{R[0], R[1]}, Self: true})
	}
	// fix the arity of the "zed" rule of the p batch
	for i := range al {
		if al[i].Kind == "updatemany" && al[i].Pt == "p" {
			al[i].R2 = [][]string{{"bob", "data2", "read"}, {"zed", "data1", "read"}}
		}
		if al[i].Kind == "updatemany" && al[i].Pt == "g" {
			al[i].R2 = [][]string{{"admin", "root"}, {"zed", "admin"}}
		}
	}
	// batches whose new rules are never listed (always inside the guard): when the second old rule
	// is missing the first one has already been replaced in its slot and is rolled back
	al = append(al, mOp{Kind: "updatemany", Pt: "p", R1: [][]string{P[0], P[1]}, R2: [][]string{{"zed", "data1", "read"}, {"zed2", "data1", "read"}}},
		mOp{Kind: "updatemany", Pt: "p", R1: [][]string{P[2], P[0]}, R2: [][]string{{"zed", "data1", "read"}, {"zed2", "data1", "read"}}},
		mOp{Kind: "updatemany", Pt: "g", R1: [][]string{G[0], G[1]}, R2: [][]string{{"zed", "admin"}, {"zed2", "admin"}}},
		mOp{Kind: "updatemany", Pt: "g", R1: [][]string{G[2], G[0]}, R2: [][]string{{"zed", "admin"}, {"zed2", "admin"}}})
	// a batch whose first pair is an identity (old == new) and whose second old rule may be
	// missing: outside the F08 guard when the rule is listed (compared with the model only)
	al = append(al, mOp{Kind: "updatemany", Pt: "p", R1: [][]string{P[0], P[1]}, R2: [][]string{P[0], {"zed3", "data1", "read"}}},
		mOp{Kind: "updatemany", Pt: "g", R1: [][]string{G[0], G[1]}, R2: [][]string{G[0], {"zed3", "admin"}}})
	al = append(al, mOp{Kind: "save"}, mOp{Kind: "load"})
	return al
}

func c11Names() []string { return []string{"alice", "bob", "admin", "root", "zed"} }

func c11Decisions(e *casbin.Enforcer, salt int) string {
	// requests include a subject never asked before in this state, so that memoised g() results
	// cannot hide a changed role graph
	var b strings.Builder
	for _, s := range []string{"alice", "bob", "admin", "root", "zed", fmt.Sprintf("fresh%d", salt)} {
		for _, o := range []string{"data1", "data2"} {
			for _, a := range []string{"read", "write"} {
				ok, err := e.Enforce(s, o, a)
				if err != nil {
					b.WriteString("e")
				} else {
					b.WriteString(B(ok))
				}
			}
		}
	}
	return b.String()
}

const c11Obs = "res listed (links g (alice bob admin root zed) ()) adlog adcontent"

func c11Observe(c *Ctx, id string, k int, m *mach, res string) {
	c.Obs(id, fmt.Sprintf("%d.res", k), res)
	c.Obs(id, fmt.Sprintf("%d.listed", k), m.listedKey())
	c.Obs(id, fmt.Sprintf("%d.links.g", k), m.linksKey("g", c11Names(), nil))
	c.Obs(id, fmt.Sprintf("%d.adlog", k), m.newAdapterLog())
	c.Obs(id, fmt.Sprintf("%d.adcontent", k), m.A.contentKey())
}

var c11Conf = machConf{Name: "rbac1", Text: `[request_definition]
r = sub, obj, act
[policy_definition]
p = sub, obj, act
[role_definition]
g = _, _
[policy_effect]
e = some(where (p.eft == allow))
[matchers]
m = g(r.sub, p.sub) && r.obj == p.obj && r.act == p.act
`, Defs: []machDef{{"g", true, 2, -1}, {"p", false, 3, -1}}}

func c11Guard(cur map[string][][]string, o mOp) bool {
	l := cur[o.Pt]
	switch o.Kind {
	case "update":
		return !containsRule(l, o.R2[0])
	case "updatemany":
		for _, n := range o.R2 {
			if containsRule(l, n) {
				return false
			}
		}
	}
	return true
}

func init() {
	register("C11", func(c *Ctx) {
		c.Rule = "fault enumeration: every reachable state of a 3+3-rule universe (p and g, BFS on the real enforcer with auto-save on) x every call of a 30-call alphabet (incl. Self* calls, SavePolicy, LoadPolicy) x {no failure, failure of the 1st adapter call, failure of the 2nd}; LoadPolicy failing after k stored lines for every k; custom failing role manager at the j-th link. Distinct = (state, call, failure point); non-trivial = a failure was injected and reached. Additions: a watcher (plain / ex / updatable, auto-notify on) attached in every second state; failing loads into an enforcer whose p and/or g list is empty; failing role manager with two role definitions (either one failing, repeated for Go map order) and on a definition that is empty before the load."
		al := c11Alphabet()
		type node struct{ path []mOp }
		seen := map[string]bool{"": true}
		queue := []node{{}}
		nstates := 0
		maxStates := 80
		if c.Thorough() {
			// (bounded: every state costs ~130 cases with their whole paths observed; 100000 states made
			// the comparison outgrow the machine's memory)
			maxStates = 1500
		}
		salt := 0
		for len(queue) > 0 && nstates < maxStates {
			n := queue[0]
			queue = queue[1:]
			nstates++
			m0 := newMach(c11Conf, true, false, "none", nil)
			for _, o := range n.path {
				m0.apply(o)
			}
			cur := map[string][][]string{"p": m0.current("p"), "g": m0.current("g")}
			for ai, o := range al {
				inGuard := c11Guard(cur, o)
				identityBatch := o.Kind == "updatemany" && len(o.R1) > 0 && sameRule(o.R1[0], o.R2[0])
				if !inGuard && !identityBatch {
					continue
				}
				for _, fail := range []int{-1, 0, 1} {
					ops := append([]mOp(nil), n.path...)
					if fail >= 0 {
						ops = append(ops, mOp{Kind: "failnext", K: fail})
					}
					ops = append(ops, o)
					id := fmt.Sprintf("c11.s%d.o%d.f%d", nstates, ai, fail)
					// a watcher is attached (auto-notify on) in every second state: an error must stay an
					// error whatever the notification that follows (or is skipped) returns
					wk, an := "none", false
					if nstates%2 == 0 {
						wk, an = []string{"ex", "plain", "upd"}[(nstates/2)%3], true
					}
					c.Case(id, fmt.Sprintf("(cfg %s) (flags 1 %s %s) (content) (obs %s) (ops %s)",
						strings.TrimSuffix(strings.TrimPrefix(c11Conf.Sx(), "("), ")"), B(an), wk, c11Obs,
						strings.TrimSuffix(strings.TrimPrefix(opsSx(ops), "("), ")")))
					m := newMach(c11Conf, true, an, wk, nil)
					var res string
					var lb, kb, db string
					for k, op := range ops {
						if k == len(ops)-1 {
							salt++
							lb, kb, db = m.listedKey(), m.linksKey("g", c11Names(), nil), c11Decisions(m.E, salt)
						}
						res = m.apply(op)
						c11Observe(c, id, k, m, res)
					}
					c.Count(o.Kind)
					if (res == "falseerr" || res == "trueerr") && inGuard {
						// the property's predicate: an error leaves rules, links, decisions unchanged
						salt++
						if m.listedKey() != lb || m.linksKey("g", c11Names(), nil) != kb || c11Decisions(m.E, salt) != db {
							c.Direct(id, "the call returned an error but the enforcer changed", fmt.Sprintf("ops=%s listed %s -> %s", opsSx(ops), lb, m.listedKey()))
						}
						c.NonTrivial(id)
						c.Count("failed-calls")
					}
					if (o.Kind == "updatemany" || o.Kind == "update") && (res == "ok0" || res == "falseerr") {
						// a refused or failed update leaves the listing as it was - and the index as
						// well: each listed rule of that type is still removed from its own slot
						for xi, x := range cur[o.Pt] {
							fops := append(append([]mOp(nil), ops...), mOp{Kind: "remove", Pt: o.Pt, R1: [][]string{x}})
							fid := fmt.Sprintf("%s.rm%d", id, xi)
							c.Case(fid, fmt.Sprintf("(cfg %s) (flags 1 %s %s) (content) (obs %s) (ops %s)",
								strings.TrimSuffix(strings.TrimPrefix(c11Conf.Sx(), "("), ")"), B(an), wk, c11Obs,
								strings.TrimSuffix(strings.TrimPrefix(opsSx(fops), "("), ")")))
							fm := newMach(c11Conf, true, an, wk, nil)
							for k, op := range fops {
								c11Observe(c, fid, k, fm, fm.apply(op))
							}
							c.Count("follow-up-after-refused-update")
						}
					}
					if fail == -1 && inGuard {
						key := m.listedKey()
						if !seen[key] {
							seen[key] = true
							queue = append(queue, node{path: ops})
						}
					}
				}
			}
		}
		c.Count(fmt.Sprintf("states=%d", nstates))
		c.Exhaust = len(queue) == 0
		// LoadPolicy failing after k stored lines (a stored p rule of the wrong arity at position k)
		good := []prule{{"p", []string{"alice", "data1", "read"}}, {"g", []string{"alice", "admin"}}, {"p", []string{"admin", "data1", "write"}}, {"g", []string{"admin", "root"}}, {"p", []string{"bob", "data2", "read"}}}
		bads := []prule{{"p", []string{"short"}}, {"g", []string{"lonely"}}, {"x", []string{"unknown", "type"}}, {"p", []string{"too", "many", "fields", "here"}}}
		for k := 0; k <= len(good); k++ {
			for bi, bad := range bads {
				content := append(append(append([]prule(nil), good[:k]...), bad), good[k:]...)
				var cs []string
				for _, x := range content {
					cs = append(cs, L(Q(x.Pt), QL(x.Rule)))
				}
				// first a good state in memory (different from the stored one), then the failing load;
				// variants: memory holds no g rule / no p rule / nothing at all (an empty rule list
				// must not be shared with the scratch model the load fills)
				for variant := 0; variant < 4; variant++ {
					ops := []mOp{{Kind: "autosave", B: false}}
					if variant == 0 || variant == 1 {
						ops = append(ops, mOp{Kind: "add", Pt: "p", R1: [][]string{{"root", "data2", "write"}}})
					}
					if variant == 0 || variant == 2 {
						ops = append(ops, mOp{Kind: "add", Pt: "g", R1: [][]string{{"bob", "root"}}})
					}
					ops = append(ops, mOp{Kind: "load"})
					id := fmt.Sprintf("c11.load.k%d.b%d.v%d", k, bi, variant)
					c.Case(id, fmt.Sprintf("(cfg %s) (flags 1 0 none) (content %s) (obs %s) (ops %s)",
						strings.TrimSuffix(strings.TrimPrefix(c11Conf.Sx(), "("), ")"), strings.Join(cs, " "), c11Obs,
						strings.TrimSuffix(strings.TrimPrefix(opsSx(ops), "("), ")")))
					m := newMach(c11Conf, true, false, "none", content)
					var lb, kb string
					for i, op := range ops {
						if i == len(ops)-1 {
							lb, kb = m.listedKey(), m.linksKey("g", c11Names(), nil)
						}
						res := m.apply(op)
						c11Observe(c, id, i, m, res)
						if i == len(ops)-1 {
							if res != "falseerr" {
								c.Direct(id, "a stored line that cannot be loaded did not make LoadPolicy fail", id)
							}
							if m.listedKey() != lb || m.linksKey("g", c11Names(), nil) != kb {
								c.Direct(id, "a rejected LoadPolicy changed the enforcer", fmt.Sprintf("listed %s -> %s", lb, m.listedKey()))
							}
						}
					}
					c.NonTrivial(id)
					c.Count("load-failing-at-line")
				}
			}
		}
		c11RoleManagerFaults(c)
	})
}

// ---------- role managers that fail ----------

type c11FailingRM struct {
	rbac.RoleManager
	failAt    int // the failAt-th AddLink from now fails (1-based); 0 = never
	calls     int
	failClear bool // Clear reports an error (and clears nothing)
}

func (f *c11FailingRM) Clear() error {
	if f.failClear {
		return errors.New("injected role-manager failure (Clear)")
	}
	return f.RoleManager.Clear()
}

func (f *c11FailingRM) AddLink(n1, n2 string, d ...string) error {
	f.calls++
	if f.failAt != 0 && f.calls == f.failAt {
		return errors.New("injected role-manager failure")
	}
	return f.RoleManager.AddLink(n1, n2, d...)
}

func c11RoleManagerFaults(c *Ctx) {
	// F16 (repaired): LoadPolicy whose link rebuild fails at the j-th link restores the old links
	for j := 1; j <= 3; j++ {
		mm, _ := model.NewModelFromString(c11Conf.Text)
		a := newRecAdapter()
		a.Content = []prule{{"p", []string{"admin", "data1", "read"}}, {"g", []string{"alice", "admin"}}, {"g", []string{"bob", "admin"}}, {"g", []string{"admin", "root"}}}
		e, _ := casbin.NewEnforcer(mm)
		frm := &c11FailingRM{RoleManager: defaultrolemanager.NewRoleManagerImpl(10)}
		e.SetRoleManager(frm)
		e.SetAdapter(a)
		if err := e.LoadPolicy(); err != nil {
			c.Direct("c11.rm.load", "initial load failed", "")
			continue
		}
		m := &mach{Conf: c11Conf, E: e, A: a}
		before := m.linksKey("g", c11Names(), nil)
		lb := m.listedKey()
		a.Content = append(a.Content, prule{"g", []string{"zed", "admin"}})
		frm.calls, frm.failAt = 0, j
		err := e.LoadPolicy()
		frm.failAt = 0
		after := m.linksKey("g", c11Names(), nil)
		id := fmt.Sprintf("c11.rm.load.j%d", j)
		if err == nil {
			c.Direct(id, "LoadPolicy did not report the role manager's error", id)
		} else if after != before || m.listedKey() != lb {
			c.Direct(id, "LoadPolicy failed while rebuilding the links and left the role graph changed (F16)", fmt.Sprintf("links %s -> %s", before, after))
		}
		c.Count("rm-failure-during-load")
	}
	// a role manager whose Clear fails while LoadPolicy rebuilds the links: the error must
	// surface and the enforcer must stay as it was
	{
		mm, _ := model.NewModelFromString(c11Conf.Text)
		a := newRecAdapter()
		a.Content = []prule{{"p", []string{"admin", "data1", "read"}}, {"g", []string{"alice", "admin"}}, {"g", []string{"admin", "root"}}}
		e, _ := casbin.NewEnforcer(mm)
		frm := &c11FailingRM{RoleManager: defaultrolemanager.NewRoleManagerImpl(10)}
		e.SetRoleManager(frm)
		e.SetAdapter(a)
		if err := e.LoadPolicy(); err != nil {
			c.Direct("c11.rm.clear", "initial load failed", "")
		} else {
			m := &mach{Conf: c11Conf, E: e, A: a}
			before, lb := m.linksKey("g", c11Names(), nil), m.listedKey()
			a.Content = []prule{{"p", []string{"admin", "data1", "read"}}, {"g", []string{"zed", "admin"}}, {"g", []string{"bob", "zed"}}}
			frm.failClear = true
			err := e.LoadPolicy()
			frm.failClear = false
			after := m.linksKey("g", c11Names(), nil)
			if err == nil {
				c.Direct("c11.rm.clear", "LoadPolicy did not report the error of the role manager's Clear", fmt.Sprintf("links %s -> %s listed %s -> %s", before, after, lb, m.listedKey()))
			} else if after != before || m.listedKey() != lb {
				c.Direct("c11.rm.clear", "LoadPolicy failed in the role manager's Clear and left the enforcer changed", fmt.Sprintf("links %s -> %s listed %s -> %s", before, after, lb, m.listedKey()))
			}
		}
		c.Count("rm-clear-failure-during-load")
	}
	// an adapter that has the single-rule auto-save calls only (its batch calls answer the
	// tolerated "not implemented"): a batch call must stay all-or-nothing when a store call fails
	for _, kind := range []string{"removemany", "addmany", "addmanyex"} {
		for _, pt := range []string{"p", "g"} {
			for fail := 0; fail < 3; fail++ {
				m := newMach(c11Conf, true, false, "none", nil)
				m.A.BatchNotImpl = true
				P := [][]string{{"alice", "data1", "read"}, {"admin", "data1", "write"}, {"bob", "data2", "read"}}
				G := [][]string{{"alice", "admin"}, {"bob", "admin"}, {"admin", "root"}}
				R := map[string][][]string{"p": P, "g": G}[pt]
				if kind == "removemany" {
					for _, r := range R {
						m.apply(mOp{Kind: "add", Pt: pt, R1: [][]string{r}})
					}
				}
				lb, kb := m.listedKey(), m.linksKey("g", c11Names(), nil)
				m.apply(mOp{Kind: "failnext", K: fail})
				res := m.apply(mOp{Kind: kind, Pt: pt, R1: R})
				id := fmt.Sprintf("c11.nobatch.%s.%s.f%d", kind, pt, fail)
				if (res == "falseerr" || res == "trueerr") && (m.listedKey() != lb || m.linksKey("g", c11Names(), nil) != kb) {
					c.Direct(id, "a batch call on an adapter without batch calls returned an error but changed the enforcer", fmt.Sprintf("%s %s %v fail=%d: listed %s -> %s", kind, pt, R, fail, lb, m.listedKey()))
				}
				c.Count("adapter-without-batch-calls")
			}
		}
	}
	// two role definitions: the failure of EITHER manager must surface and roll back, whichever
	// order the definitions are rebuilt in (Go map order: repeated trials)
	for _, which := range []string{"g", "g2"} {
		for j := 1; j <= 2; j++ {
			for trial := 0; trial < 12; trial++ {
				mm, _ := model.NewModelFromString(machRBAC.Text)
				a := newRecAdapter()
				a.Content = []prule{{"p", []string{"admin", "data1", "read"}}, {"g", []string{"alice", "admin"}}, {"g", []string{"admin", "root"}},
					{"g2", []string{"data1", "grp"}}, {"g2", []string{"grp", "all"}}}
				e, _ := casbin.NewEnforcer(mm)
				frms := map[string]*c11FailingRM{}
				for _, pt := range []string{"g", "g2"} {
					frms[pt] = &c11FailingRM{RoleManager: defaultrolemanager.NewRoleManagerImpl(10)}
					e.SetNamedRoleManager(pt, frms[pt])
				}
				e.SetAdapter(a)
				id := fmt.Sprintf("c11.rm2.load.%s.j%d", which, j)
				if err := e.LoadPolicy(); err != nil {
					c.Direct(id, "initial load failed", "")
					continue
				}
				m := &mach{Conf: machRBAC, E: e, A: a}
				names := []string{"alice", "admin", "root", "zed", "data1", "grp", "all"}
				before := m.linksKey("g", names, nil) + "/" + m.linksKey("g2", names, nil)
				lb := m.listedKey()
				a.Content = append(a.Content, prule{"g", []string{"zed", "admin"}}, prule{"g2", []string{"all", "zed"}})
				frms[which].calls, frms[which].failAt = 0, j
				err := e.LoadPolicy()
				frms[which].failAt = 0
				after := m.linksKey("g", names, nil) + "/" + m.linksKey("g2", names, nil)
				if err == nil {
					c.Direct(id, "LoadPolicy did not report the error of the role manager of "+which+" (two role definitions)", id)
				} else if after != before || m.listedKey() != lb {
					c.Direct(id, "LoadPolicy failed while rebuilding the links of "+which+" and left the enforcer changed", fmt.Sprintf("links %s -> %s listed %s -> %s", before, after, lb, m.listedKey()))
				}
				c.Count("rm-failure-during-load-two-definitions")
			}
		}
	}
	// a role definition that is EMPTY in the live policy and gets several links from the reloaded
	// one: a failure at the j-th link must leave it empty again (nothing of the rejected policy stays)
	for _, which := range []string{"g", "g2"} {
		for j := 1; j <= 3; j++ {
			mm, _ := model.NewModelFromString(machRBAC.Text)
			a := newRecAdapter()
			other := map[string]string{"g": "g2", "g2": "g"}[which]
			a.Content = []prule{{"p", []string{"admin", "data1", "read"}}, {other, []string{"alice", "admin"}}}
			e, _ := casbin.NewEnforcer(mm)
			frms := map[string]*c11FailingRM{}
			for _, pt := range []string{"g", "g2"} {
				frms[pt] = &c11FailingRM{RoleManager: defaultrolemanager.NewRoleManagerImpl(10)}
				e.SetNamedRoleManager(pt, frms[pt])
			}
			e.SetAdapter(a)
			id := fmt.Sprintf("c11.rm3.load.%s.j%d", which, j)
			if err := e.LoadPolicy(); err != nil {
				c.Direct(id, "initial load failed", "")
				continue
			}
			m := &mach{Conf: machRBAC, E: e, A: a}
			names := []string{"alice", "admin", "root", "zed", "bob"}
			before := m.linksKey("g", names, nil) + "/" + m.linksKey("g2", names, nil)
			lb := m.listedKey()
			a.Content = append(a.Content, prule{which, []string{"zed", "admin"}}, prule{which, []string{"bob", "zed"}}, prule{which, []string{"root", "bob"}})
			frms[which].calls, frms[which].failAt = 0, j
			err := e.LoadPolicy()
			frms[which].failAt = 0
			after := m.linksKey("g", names, nil) + "/" + m.linksKey("g2", names, nil)
			if err == nil {
				c.Direct(id, "LoadPolicy did not report the role manager's error", id)
			} else if after != before || m.listedKey() != lb {
				c.Direct(id, "LoadPolicy failed while building the links of "+which+" (empty before) and left links of the rejected policy behind", fmt.Sprintf("links %s -> %s listed %s -> %s", before, after, lb, m.listedKey()))
			}
			c.Count("rm-failure-during-load-empty-definition")
		}
	}
	// a role manager whose AddLink / DeleteLink fails inside a single management call: whatever is
	// attached to the enforcer (watchers of every kind, auto-notify on or off), the error must
	// reach the caller (what is rolled back is F17's subject, not this one)
	for _, wk := range []string{"none", "plain", "ex", "upd"} {
		for _, an := range []bool{true, false} {
			m := newMach(c11Conf, true, an, wk, nil)
			frm := &c11FailingRM{RoleManager: defaultrolemanager.NewRoleManagerImpl(10), failAt: 1}
			m.E.SetRoleManager(frm)
			_, err := m.E.AddGroupingPolicy("alice", "admin")
			if err == nil {
				c.Direct(fmt.Sprintf("c11.rm.single.%s.%v", wk, an), "the role manager's AddLink failed inside AddGroupingPolicy but the call returned no error (watcher kind "+wk+")", "AddGroupingPolicy(alice, admin)")
			}
			frm.failAt, frm.calls = 0, 0
			_, _ = m.E.AddGroupingPolicy("bob", "admin")
			frm.failAt, frm.calls = 1, 0
			_, err = m.E.AddGroupingPolicies([][]string{{"carol", "admin"}, {"dave", "admin"}})
			if err == nil {
				c.Direct(fmt.Sprintf("c11.rm.batch.%s.%v", wk, an), "the role manager's AddLink failed inside AddGroupingPolicies but the call returned no error (watcher kind "+wk+")", "AddGroupingPolicies")
			}
			c.Count("rm-failure-in-single-call-with-watcher")
		}
	}
	// a reload rejected while the CONDITIONAL role links are built (a g2 line without its
	// condition parameters, behind new valid plain grouping rules): the plain role links, the
	// listing and the decisions stay what they were.  (What the conditional manager itself holds
	// after such a failure is the subject of the observation O4, not of this predicate.)
	{
		text := "[request_definition]\nr = sub, obj, act\n[policy_definition]\np = sub, obj, act\n[role_definition]\ng = _, _\ng2 = _, _, (_, _)\n[policy_effect]\ne = some(where (p.eft == allow))\n[matchers]\nm = g(r.sub, p.sub) && r.obj == p.obj && r.act == p.act\n"
		names := []string{"alice", "bob", "carol", "admin", "staff"}
		olds := []prule{{"p", []string{"admin", "data1", "read"}}, {"p", []string{"staff", "data2", "read"}}, {"g", []string{"alice", "admin"}}, {"g2", []string{"alice", "auditor", "0000-01-01 00:00:00", "9999-12-30 00:00:00"}}}
		fresh := []prule{{"p", []string{"admin", "data1", "read"}}, {"p", []string{"staff", "data2", "read"}}, {"g", []string{"bob", "admin"}}, {"g", []string{"alice", "staff"}}, {"g2", []string{"carol", "auditor", "0000-01-01 00:00:00", "9999-12-30 00:00:00"}}}
		short := prule{"g2", []string{"alice", "auditor"}}
		for pos := 0; pos <= len(fresh); pos++ {
			mm, _ := model.NewModelFromString(text)
			a := newRecAdapter()
			a.Content = olds
			e, err := casbin.NewEnforcer(mm, a)
			if err != nil {
				c.Direct("c11.cond.load", "initial load failed", err.Error())
				break
			}
			snap := func() string {
				var parts []string
				rm := e.GetRoleManager()
				for _, u := range names {
					for _, r := range names {
						if hl, _ := rm.HasLink(u, r); hl && u != r {
							parts = append(parts, u+">"+r)
						}
					}
					for _, o := range []string{"data1", "data2"} {
						if ok, _ := e.Enforce(u, o, "read"); ok {
							parts = append(parts, u+":"+o)
						}
					}
				}
				gp, _ := e.GetNamedGroupingPolicy("g")
				g2, _ := e.GetNamedGroupingPolicy("g2")
				pp, _ := e.GetPolicy()
				return fmt.Sprintf("%s | g=%v g2=%v p=%v", strings.Join(parts, " "), gp, g2, pp)
			}
			before := snap()
			var nc []prule
			nc = append(nc, fresh[:pos]...)
			nc = append(nc, short)
			nc = append(nc, fresh[pos:]...)
			a.Content = nc
			lerr := e.LoadPolicy()
			after := snap()
			id := fmt.Sprintf("c11.cond.reload.%d", pos)
			if lerr == nil {
				c.Direct(id, "a g2 rule without its condition parameters did not make LoadPolicy fail", fmt.Sprintf("%v", nc))
			} else if before != after {
				c.Direct(id, "LoadPolicy failed while the conditional role links were built and left the enforcer changed", fmt.Sprintf("content=%v error=%v: %s -> %s", nc, lerr, before, after))
			}
			c.Count("conditional-link-failure-during-load")
		}
	}
	// the other way round: the PLAIN role manager fails while the links of a reloaded policy are
	// built, in a model that also has a conditional role definition whose links the decisions
	// depend on: the rejected reload leaves the conditional links (and everything else) alone.
	{
		text := "[request_definition]\nr = sub, obj, act\n[policy_definition]\np = sub, obj, act\n[role_definition]\ng = _, _\ng2 = _, _, (_, _)\n[policy_effect]\ne = some(where (p.eft == allow))\n[matchers]\nm = (g(r.sub, p.sub) || g2(r.sub, p.sub)) && r.obj == p.obj && r.act == p.act\n"
		names := []string{"alice", "bob", "carol", "admin", "auditor"}
		olds := []prule{{"p", []string{"admin", "data1", "read"}}, {"p", []string{"auditor", "data2", "read"}}, {"g", []string{"alice", "admin"}}, {"g2", []string{"alice", "auditor", "0000-01-01 00:00:00", "9999-12-30 00:00:00"}}, {"g2", []string{"bob", "auditor", "0000-01-01 00:00:00", "9999-12-30 00:00:00"}}}
		fresh := []prule{{"p", []string{"admin", "data1", "read"}}, {"p", []string{"auditor", "data2", "read"}}, {"g", []string{"bob", "admin"}}, {"g", []string{"carol", "admin"}}, {"g2", []string{"carol", "auditor", "0000-01-01 00:00:00", "9999-12-30 00:00:00"}}}
		for j := 1; j <= 2; j++ {
			mm, _ := model.NewModelFromString(text)
			a := newRecAdapter()
			a.Content = olds
			e, err := casbin.NewEnforcer(mm, a)
			if err != nil {
				c.Direct("c11.cond.plainfail.load", "initial load failed", err.Error())
				break
			}
			e.AddNamedLinkConditionFunc("g2", "alice", "auditor", util.TimeMatchFunc)
			e.AddNamedLinkConditionFunc("g2", "bob", "auditor", util.TimeMatchFunc)
			snap := func() string {
				var parts []string
				for _, u := range names {
					for _, o := range []string{"data1", "data2"} {
						if ok, _ := e.Enforce(u, o, "read"); ok {
							parts = append(parts, u+":"+o)
						}
					}
				}
				gp, _ := e.GetNamedGroupingPolicy("g")
				g2, _ := e.GetNamedGroupingPolicy("g2")
				return fmt.Sprintf("%s | g=%v g2=%v", strings.Join(parts, " "), gp, g2)
			}
			before := snap()
			frm := &c11FailingRM{RoleManager: e.GetNamedRoleManager("g"), failAt: j}
			e.SetNamedRoleManager("g", frm)
			a.Content = fresh
			lerr := e.LoadPolicy()
			frm.failAt = 0
			after := snap()
			id := fmt.Sprintf("c11.cond.plainfail.%d", j)
			if lerr == nil {
				c.Direct(id, "LoadPolicy did not report the plain role manager's error", "")
			} else if before != after {
				c.Direct(id, "LoadPolicy failed while the plain role links were built and changed decisions that depend on the conditional role links", fmt.Sprintf("error=%v: %s -> %s", lerr, before, after))
			}
			c.Count("plain-link-failure-with-conditional-definition")
		}
	}
	// UpdateFilteredPolicies / UpdateFilteredNamedPolicies with a failing adapter (the call is not in
	// the enumeration's alphabet): the adapter's error reaches the caller and nothing changes
	for _, pt := range []string{"p", "named"} {
		m := newMach(c11Conf, true, false, "none", nil)
		_, _ = m.E.AddPolicy("alice", "data1", "read")
		_, _ = m.E.AddPolicy("alice", "data2", "read")
		lb, cb := m.listedKey(), m.A.contentKey()
		m.A.FailIn = 0
		var ok bool
		var err error
		if pt == "p" {
			ok, err = m.E.UpdateFilteredPolicies([][]string{{"bob", "data1", "read"}}, 0, "alice")
		} else {
			ok, err = m.E.UpdateFilteredNamedPolicies("p", [][]string{{"bob", "data1", "read"}}, 0, "alice")
		}
		m.A.FailIn = -1
		if err == nil {
			c.Direct("c11.updatefiltered."+pt, fmt.Sprintf("the adapter's UpdateFilteredPolicies failed but the call reported (%v, nil)", ok), "UpdateFiltered...Policies([[bob ...]], 0, alice)")
		}
		if lb != m.listedKey() || cb != m.A.contentKey() {
			c.Direct("c11.updatefiltered."+pt, "a failing UpdateFilteredPolicies changed the enforcer or the store", fmt.Sprintf("listed %s -> %s ; store %s -> %s", lb, m.listedKey(), cb, m.A.contentKey()))
		}
		c.Count("failing-updatefiltered")
	}
	// F17 (known): a failing AddLink inside AddGroupingPolicy leaves the rule listed without link
	mm, _ := model.NewModelFromString(c11Conf.Text)
	e, _ := casbin.NewEnforcer(mm)
	frm := &c11FailingRM{RoleManager: defaultrolemanager.NewRoleManagerImpl(10), failAt: 1}
	e.SetRoleManager(frm)
	ok, err := e.AddGroupingPolicy("alice", "admin")
	gp, _ := e.GetGroupingPolicy()
	if err != nil && (ok || len(gp) != 0) {
		c.Known = append(c.Known, fmt.Sprintf("F17\treproduced\trole manager whose AddLink fails: AddGroupingPolicy(alice,admin) returns (%v, error) and the rule stays listed %v without a link", ok, gp))
	} else {
		c.Known = append(c.Known, "F17\tgone\t")
	}
}
