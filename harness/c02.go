package main

import (
	"fmt"
	"strings"

	casbin "github.com/casbin/casbin/v2"
	"github.com/casbin/casbin/v2/model"
)

// C02: every match/effect vector through the real Enforce / EnforceEx.
// model: r = x ; p = id, flag, eft ; m = r.x == p.flag ; request x = "1".
// rule i = [id_i, "1"|"0", "allow"|"deny"|"other"] so rule i matches iff its flag is "1".

var c02Effects = []struct{ tag, expr string }{
	{"ao", "some(where (p.eft == allow))"},
	{"do", "!some(where (p.eft == deny))"},
	{"ad", "some(where (p.eft == allow)) && !some(where (p.eft == deny))"},
	{"pr", "priority(p.eft) || deny"},
	{"sp", "subjectPriority(p.eft) || deny"},
	{"un", "some(where (p.eft == allow)) || deny"},
}

func c02Model(effect string) model.Model {
	text := "[request_definition]\nr = x\n[policy_definition]\np = id, flag, eft\n[policy_effect]\ne = " + effect + "\n[matchers]\nm = r.x == p.flag\n"
	m, err := model.NewModelFromString(text)
	if err != nil {
		panic(err)
	}
	return m
}

// the same vector through a SECOND policy type selected by an EnforceContext (r2, p2, e2, m2),
// while the default type p holds decoy rules that match the request: decision and explanation
// must come from p2 alone
func c02ModelCtx(effect string) model.Model {
	text := "[request_definition]\nr = x\nr2 = x\n[policy_definition]\np = id, flag, eft\np2 = id, flag, eft\n[policy_effect]\ne = some(where (p.eft == allow))\ne2 = " + effect +
		"\n[matchers]\nm = r.x == p.flag\nm2 = r2.x == p2.flag\n"
	m, err := model.NewModelFromString(text)
	if err != nil {
		panic(err)
	}
	return m
}

// the same vector with the eft column FIRST (p = eft, id, flag): a column index of 0 is a column
func c02RunEftFirst(c *Ctx, ef int, vec []int) {
	tag := make([]string, len(vec))
	rules := make([][]string, len(vec))
	for i, k := range vec {
		l := c02Letters[k]
		tag[i] = l.tag
		rules[i] = []string{l.e, fmt.Sprintf("r%d", i), l.m}
	}
	vs := strings.Join(tag, "")
	if vs == "" {
		vs = "-"
	}
	id := fmt.Sprintf("c02eft0.%s.%s", c02Effects[ef].tag, vs)
	c.Case(id, c02Effects[ef].tag+" "+vs)
	c.Count(fmt.Sprintf("eft-first.n=%d", len(vec)))
	text := "[request_definition]\nr = x\n[policy_definition]\np = eft, id, flag\n[policy_effect]\ne = " + c02Effects[ef].expr + "\n[matchers]\nm = r.x == p.flag\n"
	mm, err := model.NewModelFromString(text)
	if err != nil {
		panic(err)
	}
	e, err := casbin.NewEnforcer(mm)
	if err != nil {
		panic(err)
	}
	for _, r := range rules {
		if ok, err := e.AddPolicy(r); !ok || err != nil {
			panic(fmt.Sprint("AddPolicy ", r, ok, err))
		}
	}
	d1, err1 := e.Enforce("1")
	d2, ex, err2 := e.EnforceEx("1")
	exi := -1
	if len(ex) > 0 {
		exi = -2
		for i, r := range rules {
			if len(ex) == 3 && r[0] == ex[0] && r[1] == ex[1] && r[2] == ex[2] {
				exi = i
			}
		}
	}
	c.Obs(id, "enforce", fmt.Sprintf("dec=%s err=%s", B(d1), B(err1 != nil)))
	c.Obs(id, "enforceex", fmt.Sprintf("dec=%s err=%s ex=%d", B(d2), B(err2 != nil), exi))
}

func c02RunCtx(c *Ctx, ef int, vec []int) {
	tag := make([]string, len(vec))
	rules := make([][]string, len(vec))
	for i, k := range vec {
		l := c02Letters[k]
		tag[i] = l.tag
		rules[i] = []string{fmt.Sprintf("r%d", i), l.m, l.e}
	}
	vs := strings.Join(tag, "")
	if vs == "" {
		vs = "-"
	}
	id := fmt.Sprintf("c02ctx.%s.%s", c02Effects[ef].tag, vs)
	c.Case(id, c02Effects[ef].tag+" "+vs)
	c.Count(fmt.Sprintf("ctx.n=%d", len(vec)))
	e, err := casbin.NewEnforcer(c02ModelCtx(c02Effects[ef].expr))
	if err != nil {
		panic(err)
	}
	for _, r := range [][]string{{"decoy0", "1", "deny"}, {"decoy1", "1", "allow"}, {"decoy2", "1", "deny"}} {
		_, _ = e.AddNamedPolicy("p", r)
	}
	for _, r := range rules {
		if ok, err := e.AddNamedPolicy("p2", r); !ok || err != nil {
			panic(fmt.Sprint("AddNamedPolicy p2 ", r, ok, err))
		}
	}
	ctx := casbin.NewEnforceContext("2")
	d1, err1 := e.Enforce(ctx, "1")
	d2, ex, err2 := e.EnforceEx(ctx, "1")
	exi := -1
	if len(ex) > 0 {
		exi = -2
		for i, r := range rules {
			if len(ex) == 3 && r[0] == ex[0] && r[1] == ex[1] && r[2] == ex[2] {
				exi = i
			}
		}
	}
	c.Obs(id, "enforce", fmt.Sprintf("dec=%s err=%s", B(d1), B(err1 != nil)))
	c.Obs(id, "enforceex", fmt.Sprintf("dec=%s err=%s ex=%d", B(d2), B(err2 != nil), exi))
}

var c02Letters = []struct {
	m   string
	e   string
	tag string
}{{"1", "allow", "1a"}, {"1", "other", "1i"}, {"1", "deny", "1d"}, {"0", "allow", "0a"}, {"0", "other", "0i"}, {"0", "deny", "0d"}}

func c02Run(c *Ctx, ef int, vec []int) {
	tag := make([]string, len(vec))
	rules := make([][]string, len(vec))
	nontrivial := false
	for i, k := range vec {
		l := c02Letters[k]
		tag[i] = l.tag
		rules[i] = []string{fmt.Sprintf("r%d", i), l.m, l.e}
		if l.m == "1" {
			nontrivial = true
		}
	}
	vs := strings.Join(tag, "")
	if vs == "" {
		vs = "-"
	}
	id := fmt.Sprintf("c02.%s.%s", c02Effects[ef].tag, vs)
	c.Case(id, c02Effects[ef].tag+" "+vs)
	c.Count(fmt.Sprintf("n=%d", len(vec)))
	if nontrivial {
		c.NonTrivial(id)
	}
	e, err := casbin.NewEnforcer(c02Model(c02Effects[ef].expr))
	if err != nil {
		panic(err)
	}
	for _, r := range rules {
		if ok, err := e.AddPolicy(r); !ok || err != nil {
			panic(fmt.Sprint("AddPolicy ", r, ok, err))
		}
	}
	d1, err1 := e.Enforce("1")
	d2, ex, err2 := e.EnforceEx("1")
	exi := -1
	if len(ex) > 0 {
		exi = -2 // names a rule that is not in the policy
		for i, r := range rules {
			if len(ex) == 3 && r[0] == ex[0] && r[1] == ex[1] && r[2] == ex[2] {
				exi = i
			}
		}
	}
	c.Obs(id, "enforce", fmt.Sprintf("dec=%s err=%s", B(d1), B(err1 != nil)))
	c.Obs(id, "enforceex", fmt.Sprintf("dec=%s err=%s ex=%d", B(d2), B(err2 != nil), exi))
	if d1 != d2 || (err1 != nil) != (err2 != nil) {
		c.Direct(id, "Enforce and EnforceEx disagree", vs)
	}
}

// the same vector through EnforceWithMatcher / EnforceExWithMatcher with the matcher handed in,
// on a model whose OWN matcher does not mention the policy at all (m = r.x == "never"): the
// merge runs over the rules the given matcher selects
func c02RunWithMatcher(c *Ctx, ef int, vec []int) {
	tag := make([]string, len(vec))
	rules := make([][]string, len(vec))
	for i, k := range vec {
		l := c02Letters[k]
		tag[i] = l.tag
		rules[i] = []string{fmt.Sprintf("r%d", i), l.m, l.e}
	}
	vs := strings.Join(tag, "")
	if vs == "" {
		vs = "-"
	}
	id := fmt.Sprintf("c02wm.%s.%s", c02Effects[ef].tag, vs)
	c.Case(id, c02Effects[ef].tag+" "+vs)
	c.Count(fmt.Sprintf("with-matcher.n=%d", len(vec)))
	text := "[request_definition]\nr = x\n[policy_definition]\np = id, flag, eft\n[policy_effect]\ne = " + c02Effects[ef].expr + "\n[matchers]\nm = r.x == \"never\"\n"
	m, err := model.NewModelFromString(text)
	if err != nil {
		panic(err)
	}
	e, err := casbin.NewEnforcer(m)
	if err != nil {
		panic(err)
	}
	for _, r := range rules {
		_, _ = e.AddPolicy(r)
	}
	d1, err1 := e.EnforceWithMatcher("r.x == p.flag", "1")
	d2, ex, err2 := e.EnforceExWithMatcher("r.x == p.flag", "1")
	exi := -1
	if len(ex) > 0 {
		exi = -2
		for i, r := range rules {
			if len(ex) == 3 && r[0] == ex[0] && r[1] == ex[1] && r[2] == ex[2] {
				exi = i
			}
		}
	}
	c.Obs(id, "enforce", fmt.Sprintf("dec=%s err=%s", B(d1), B(err1 != nil)))
	c.Obs(id, "enforceex", fmt.Sprintf("dec=%s err=%s ex=%d", B(d2), B(err2 != nil), exi))
}

// long vectors asked in sequences on ONE enforcer: n in {65, 70, 130} rules whose flag is "1",
// "2" or "0"; the requests "2", "1", "2", "1" are asked in turn, so that every call follows a call
// with a different match vector (per-call state such as the effect / match arrays must not leak
// from one request into the next).  For request x the vector is (flag == x, eft) per rule.
func c02Long(c *Ctx) {
	efts := []string{"allow", "other", "deny"}
	letter := func(m bool, e string) string {
		t := "0"
		if m {
			t = "1"
		}
		switch e {
		case "allow":
			return t + "a"
		case "deny":
			return t + "d"
		}
		return t + "i"
	}
	reps := 6
	if c.Thorough() {
		reps = 60
	}
	for ef := range c02Effects {
		for _, n := range []int{65, 70, 130} {
			for k := 0; k < reps; k++ {
				rules := make([][]string, n)
				dens := 1 + c.Rng.Intn(12) // sparse to dense
				for i := range rules {
					flag := "0"
					if c.Rng.Intn(14) < dens {
						flag = []string{"1", "2"}[c.Rng.Intn(2)]
					}
					rules[i] = []string{fmt.Sprintf("r%d", i), flag, efts[c.Rng.Intn(3)]}
				}
				e, err := casbin.NewEnforcer(c02Model(c02Effects[ef].expr))
				if err != nil {
					panic(err)
				}
				for _, r := range rules {
					_, _ = e.AddPolicy(r)
				}
				for step, x := range []string{"2", "1", "2", "1"} {
					tags := make([]string, n)
					for i, r := range rules {
						tags[i] = letter(r[1] == x, r[2])
					}
					id := fmt.Sprintf("c02long.%s.%d.%d.%d", c02Effects[ef].tag, n, k, step)
					c.Case(id, c02Effects[ef].tag+" "+strings.Join(tags, ""))
					c.NonTrivial(id)
					var d1, d2 bool
					var err1, err2 error
					var ex []string
					if step%2 == 0 {
						d1, err1 = e.Enforce(x)
						d2, ex, err2 = e.EnforceEx(x)
					} else {
						d2, ex, err2 = e.EnforceEx(x)
						d1, err1 = e.Enforce(x)
					}
					exi := -1
					if len(ex) > 0 {
						exi = -2
						for i, r := range rules {
							if len(ex) == 3 && r[0] == ex[0] && r[1] == ex[1] && r[2] == ex[2] {
								exi = i
							}
						}
					}
					c.Obs(id, "enforce", fmt.Sprintf("dec=%s err=%s", B(d1), B(err1 != nil)))
					c.Obs(id, "enforceex", fmt.Sprintf("dec=%s err=%s ex=%d", B(d2), B(err2 != nil), exi))
				}
				c.Count(fmt.Sprintf("long.n=%d", n))
			}
		}
	}
}

func init() {
	register("C02", func(c *Ctx) {
		c02Long(c)
		maxN := 5
		if c.Thorough() {
			maxN = 7
		}
		c.Exhaust = true
		c.Rule = fmt.Sprintf("every vector in ({matched,unmatched}x{allow,deny,other})^n for n=0..%d under each of the five effect expressions plus one unsupported expression, through the real Enforce and EnforceEx; non-trivial = at least one matched rule; distinct by (effect, vector) Each vector up to n=4 (all in the thorough tier) is also run through a second policy type p2 selected by an EnforceContext while p holds matching decoy rules (decision and explanation must come from p2).", maxN)
		for ef := range c02Effects {
			for n := 0; n <= maxN; n++ {
				vec := make([]int, n)
				for {
					c02Run(c, ef, vec)
					if n <= 4 || c.Thorough() {
						c02RunCtx(c, ef, vec)
					}
					if n <= 3 || c.Thorough() {
						c02RunEftFirst(c, ef, vec)
					}
					if n >= 1 && (n <= 3 || c.Thorough()) {
						c02RunWithMatcher(c, ef, vec)
					}
					i := 0
					for i < n {
						vec[i]++
						if vec[i] < 6 {
							break
						}
						vec[i] = 0
						i++
					}
					if i == n {
						break
					}
				}
			}
		}
	})
}
