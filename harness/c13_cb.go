package main

// C13, forced interleavings of READERS parked inside USER CALLBACKS.
//
// Defect class: state published / mutated on a READ path (under the read lock only) and visible to
// a concurrent reader -- e.g. a reader that stores a half-built per-domain role manager, a memo slot
// claimed before its value is known, a temporary object another reader picks up.  Such a defect is
// invisible to any single-threaded run and to the lock table (the lock is taken correctly); it shows
// only when a second call runs while the first one is in the middle of its read section.
//
// The middle of a read section is reached deterministically through the callbacks the library calls
// from inside it:
//   hook     custom matcher function (AddFunction), called before ("pre") and after ("post") g() for every rule
//   dommf    domain matching function (AddNamedDomainMatchingFunc): DomainManager.getRoleManager / Match
//   rolemf   role matching function (AddNamedMatchingFunc): RoleManagerImpl.HasLink / getRole / hasLinkHelper
//   cond     link condition function (AddNamedLinkConditionFunc / AddNamedDomainLinkConditionFunc)
// All callbacks of an enforcer report to one c13Parker: "arm once, park the first caller that reaches
// point k" (k = 1st, 2nd, ... callback call made by the first call, over all callback kinds), so the
// first call A is stopped at every depth of Enforce / HasLink / GetRoles / GetUsers in turn.
//
// Modes (per configuration x first call x ka):
//   nested   A parked at its ka-th callback; every second call (readers) runs to completion meanwhile
//            (a reader that does not finish within the watchdog = reader blocked by reader / deadlock);
//            then ONE writer is started: it must block (observed on the RWMutex + settle time) until A is
//            released; then A is released.
//   crossed  A parked at ka; B started and parked at its kb-th callback; A released and finishes
//            (running whatever clean-up its read path has) while B is in the middle; B released.
//   wfirst   A is a WRITER parked inside a callback of its write section; every reader must block
//            until the release and then answer from the post-state.
// Oracle (linearizability of read-only calls): the policy does not change while readers overlap, so
// every overlapping read must return what the same call returns on a quiescent TWIN enforcer built
// from the same model / policy / functions and used strictly sequentially (a plain casbin.Enforcer);
// a writer's result and the post-state must equal the twin's after the same write.  After the overlap
// every question is asked again on the enforcer under test and on the twin: a wrong answer memoised
// by g() or a half-built object left behind persists and is seen here.  Every wait has a watchdog.
//
// Guard (F20): with a ROLE matching function, RoleManagerImpl.getRole on a name that is not a
// permanent role of a SHARED manager creates a temporary role, links it to the matching roles and
// removes it again at the end of the read call; concurrent readers share it (known finding F20).
// c13CbExposed computes statically whether any call of a configuration can do that; exposed
// configurations are NOT part of the case stream: they run through the same engine from the F20 probe
// (c13CbProbeF20) and a disagreement is reported as KNOWN-FINDING F20, never as a violation.

import (
	"fmt"
	"runtime"
	"sort"
	"strings"
	"sync"
	"sync/atomic"
	"time"

	casbin "github.com/casbin/casbin/v2"
	"github.com/casbin/casbin/v2/model"
	"github.com/casbin/casbin/v2/rbac"
	"github.com/casbin/govaluate"
)

// ---------- parker ----------

type c13CbGate struct {
	inside chan struct{}
	resume chan struct{}
	once   sync.Once
}

func c13CbNewGate() *c13CbGate {
	return &c13CbGate{inside: make(chan struct{}), resume: make(chan struct{})}
}

func (g *c13CbGate) park() {
	close(g.inside)
	select {
	case <-g.resume:
	case <-time.After(40 * time.Second): // never hold a lock for ever: the watchdogs fire long before
	}
}

func (g *c13CbGate) release() { g.once.Do(func() { close(g.resume) }) }

// c13Parker: phase 1 counts the callbacks of call A (the only call running), phase 2 those of call B
// (A is parked, so every callback is B's); any other phase lets everything through.
type c13Parker struct {
	phase          int32
	nA, nB         int32
	ka, kb         int32
	gA, gB         *c13CbGate
	whereA, whereB string
}

func c13NewParker(ka, kb int) *c13Parker {
	return &c13Parker{ka: int32(ka), kb: int32(kb), gA: c13CbNewGate(), gB: c13CbNewGate()}
}

func (p *c13Parker) hit(tag string) {
	if p == nil {
		return
	}
	switch atomic.LoadInt32(&p.phase) {
	case 1:
		if atomic.AddInt32(&p.nA, 1) == p.ka {
			p.whereA = tag
			p.gA.park()
		}
	case 2:
		if p.kb > 0 && atomic.AddInt32(&p.nB, 1) == p.kb {
			p.whereB = tag
			p.gB.park()
		}
	}
}

// ---------- calls ----------

type c13CbCall struct {
	kind string // readers: enf roles users hasrole iroles iusers iperms hasg getp getg; writers: addg remg addp remp
	a    []string
}

func (c c13CbCall) String() string { return c.kind + "(" + strings.Join(c.a, ",") + ")" }

func (c c13CbCall) writer() bool {
	switch c.kind {
	case "addg", "remg", "addp", "remp":
		return true
	}
	return false
}

type c13CbAPI interface {
	Enforce(rvals ...interface{}) (bool, error)
	AddPolicy(params ...interface{}) (bool, error)
	RemovePolicy(params ...interface{}) (bool, error)
	AddGroupingPolicy(params ...interface{}) (bool, error)
	RemoveGroupingPolicy(params ...interface{}) (bool, error)
	GetPolicy() ([][]string, error)
	GetGroupingPolicy() ([][]string, error)
	HasGroupingPolicy(params ...interface{}) (bool, error)
	GetRolesForUser(name string, domain ...string) ([]string, error)
	GetUsersForRole(name string, domain ...string) ([]string, error)
	HasRoleForUser(name string, role string, domain ...string) (bool, error)
	GetImplicitRolesForUser(name string, domain ...string) ([]string, error)
	GetImplicitUsersForPermission(permission ...string) ([]string, error)
	GetNamedImplicitPermissionsForUser(ptype string, gtype string, user string, domain ...string) ([][]string, error)
	AddFunction(name string, function govaluate.ExpressionFunction)
	AddNamedMatchingFunc(ptype, name string, fn rbac.MatchingFunc) bool
	AddNamedDomainMatchingFunc(ptype, name string, fn rbac.MatchingFunc) bool
	AddNamedLinkConditionFunc(ptype, user, role string, fn rbac.LinkConditionFunc) bool
	AddNamedDomainLinkConditionFunc(ptype, user, role string, domain string, fn rbac.LinkConditionFunc) bool
}

var _ c13CbAPI = (*casbin.Enforcer)(nil)
var _ c13CbAPI = (*casbin.SyncedEnforcer)(nil)

func c13CbSet(ss []string, err error) string {
	s := "{" + strings.Join(sortedStrings(append([]string(nil), ss...)), ",") + "}"
	if err != nil {
		s += "/err"
	}
	return s
}

// c13CbDo performs one call and renders its result canonically (lists as sorted sets: the role
// manager iterates sync.Maps).  A panic escaping the call is a result of its own.
func c13CbDo(e c13CbAPI, c c13CbCall) (res string) {
	defer func() {
		if r := recover(); r != nil {
			res = "panic"
		}
	}()
	a := c.a
	switch c.kind {
	case "enf":
		args := make([]interface{}, len(a))
		for i, f := range a {
			args[i] = f
		}
		return c13BE(e.Enforce(args...))
	case "roles":
		return c13CbSet(e.GetRolesForUser(a[0], a[1:]...))
	case "users":
		return c13CbSet(e.GetUsersForRole(a[0], a[1:]...))
	case "hasrole":
		return c13BE(e.HasRoleForUser(a[0], a[1], a[2:]...))
	case "iroles":
		return c13CbSet(e.GetImplicitRolesForUser(a[0], a[1:]...))
	case "iusers":
		return c13CbSet(e.GetImplicitUsersForPermission(a...))
	case "iperms":
		p, err := e.GetNamedImplicitPermissionsForUser("p", "g", a[0], a[1:]...)
		s := sortedRulesKey(p)
		if err != nil {
			s += "/err"
		}
		return s
	case "hasg":
		return c13BE(e.HasGroupingPolicy(c13Cp(a)))
	case "getp":
		p, _ := e.GetPolicy()
		return rulesKey(p)
	case "getg":
		p, _ := e.GetGroupingPolicy()
		return rulesKey(p)
	case "addg":
		return c13BE(e.AddGroupingPolicy(c13Cp(a)))
	case "remg":
		return c13BE(e.RemoveGroupingPolicy(c13Cp(a)))
	case "addp":
		return c13BE(e.AddPolicy(c13Cp(a)))
	case "remp":
		return c13BE(e.RemovePolicy(c13Cp(a)))
	}
	panic("c13cb: unknown call kind " + c.kind)
}

// ---------- configurations ----------

type c13CbCfg struct {
	name    string
	dom     bool // request / rule shape has a domain column
	condG   bool // conditional role definition g = _, _[, _], (_, _)
	rules   [][]string
	domMF   bool
	roleMF  bool
	cond    [][]string // link condition registrations: [user, role] or [user, role, domain]
	warm    c13CbCall  // asked once before the overlap in "warm" runs (compiles and caches the matcher)
	firsts  []c13CbCall
	seconds []c13CbCall
	writers []c13CbCall
	extraQ  []c13CbCall
}

func (cfg *c13CbCfg) text() string {
	r, p, g, gc := "sub, obj, act", "sub, obj, act", "_, _", "g(r.sub, p.sub)"
	rest := "r.obj == p.obj && r.act == p.act"
	if cfg.dom {
		r, p, g, gc = "sub, dom, obj, act", "sub, dom, obj, act", "_, _, _", "g(r.sub, p.sub, r.dom)"
		rest = "r.dom == p.dom && " + rest
	}
	if cfg.condG {
		g += ", (_, _)"
	}
	return "[request_definition]\nr = " + r + "\n[policy_definition]\np = " + p + "\n[role_definition]\ng = " + g +
		"\n[policy_effect]\ne = some(where (p.eft == allow))\n[matchers]\nm = hook(r.sub, p.sub, \"pre\") && " + gc +
		" && hook(r.sub, p.sub, \"post\") && " + rest + "\n"
}

// domain pattern: "*" matches everything, "x*" matches by prefix.
func c13CbDomMatch(str, pat string) bool {
	return pat == "*" || c13Prefix(str, pat)
}

func c13CbCondFn(pk *c13Parker) rbac.LinkConditionFunc {
	return func(args ...string) (bool, error) {
		pk.hit("cond")
		return len(args) > 0 && args[0] == "yes", nil
	}
}

// c13CbBuild builds the enforcer under test (synced, callbacks reporting to pk) or the quiescent
// twin (plain Enforcer, pk == nil: the same functions without parking).
func c13CbBuild(cfg *c13CbCfg, pk *c13Parker, synced bool) (c13CbAPI, *c13Adapter) {
	m, err := model.NewModelFromString(cfg.text())
	if err != nil {
		panic(err)
	}
	ad := c13NewAdapter(cfg.rules)
	var e c13CbAPI
	if synced {
		se, err := casbin.NewSyncedEnforcer(m, ad)
		if err != nil {
			panic(err)
		}
		e = se
	} else {
		pe, err := casbin.NewEnforcer(m, ad)
		if err != nil {
			panic(err)
		}
		e = pe
	}
	// everything below is registered before any concurrency
	e.AddFunction("hook", func(args ...interface{}) (interface{}, error) {
		tag := "hook"
		if len(args) == 3 {
			if s, ok := args[2].(string); ok {
				tag += ":" + s
			}
		}
		pk.hit(tag)
		return true, nil
	})
	if cfg.roleMF {
		if !e.AddNamedMatchingFunc("g", "rolemf", func(str, pat string) bool {
			pk.hit("rolemf")
			return c13Prefix(str, pat)
		}) {
			panic("c13cb: AddNamedMatchingFunc refused")
		}
	}
	if cfg.domMF {
		if !e.AddNamedDomainMatchingFunc("g", "dommf", func(str, pat string) bool {
			pk.hit("dommf")
			return c13CbDomMatch(str, pat)
		}) {
			panic("c13cb: AddNamedDomainMatchingFunc refused")
		}
	}
	for _, cd := range cfg.cond {
		ok := false
		if len(cd) == 2 {
			ok = e.AddNamedLinkConditionFunc("g", cd[0], cd[1], c13CbCondFn(pk))
		} else {
			ok = e.AddNamedDomainLinkConditionFunc("g", cd[0], cd[1], cd[2], c13CbCondFn(pk))
		}
		if !ok {
			panic("c13cb: AddNamedLinkConditionFunc refused")
		}
	}
	return e, ad
}

func c13CbC(kind string, a ...string) c13CbCall { return c13CbCall{kind: kind, a: a} }

func c13CbConfigs() []*c13CbCfg {
	C := c13CbC
	return []*c13CbCfg{
		{name: "plain",
			rules: [][]string{{"p", "admin", "data1", "read"}, {"p", "editor", "data1", "write"}, {"p", "alice", "data2", "read"},
				{"g", "alice", "admin"}, {"g", "bob", "editor"}, {"g", "dave", "alice"}},
			warm:   C("enf", "zed", "data9", "none"),
			firsts: []c13CbCall{C("enf", "alice", "data1", "read"), C("enf", "carol", "data1", "read"), C("enf", "dave", "data1", "read"), C("iusers", "data1", "read")},
			seconds: []c13CbCall{C("enf", "alice", "data1", "read"), C("enf", "carol", "data1", "read"), C("enf", "dave", "data1", "read"), C("enf", "bob", "data1", "write"),
				C("roles", "alice"), C("roles", "carol"), C("users", "admin"), C("hasrole", "alice", "admin"), C("iroles", "dave"), C("iusers", "data1", "read"),
				C("iperms", "dave"), C("hasg", "alice", "admin"), C("getp")},
			writers: []c13CbCall{C("addg", "carol", "admin"), C("remg", "alice", "admin"), C("addp", "carol", "data1", "read"), C("remp", "admin", "data1", "read"), C("remg", "dave", "alice")},
			extraQ:  []c13CbCall{C("enf", "alice", "data1", "write"), C("enf", "alice", "data2", "read"), C("enf", "dave", "data2", "read"), C("getg")},
		},
		{name: "plain+rolemf", roleMF: true,
			// every subject asked about and every p.sub is a permanent role (appears in a g rule): no temporary roles
			rules: [][]string{{"p", "admin", "data1", "read"}, {"p", "editor", "data1", "write"},
				{"g", "alice", "admin"}, {"g", "bob", "editor"}, {"g", "a*", "editor"}, {"g", "carol", "bob"}},
			warm:   C("enf", "carol", "data9", "none"),
			firsts: []c13CbCall{C("enf", "alice", "data1", "write"), C("enf", "bob", "data1", "read"), C("enf", "alice", "data1", "read"), C("iusers", "data1", "write")},
			seconds: []c13CbCall{C("enf", "alice", "data1", "write"), C("enf", "alice", "data1", "read"), C("enf", "bob", "data1", "read"), C("enf", "bob", "data1", "write"),
				C("roles", "alice"), C("users", "editor"), C("hasrole", "alice", "editor"), C("iroles", "alice"), C("iusers", "data1", "write"), C("hasg", "a*", "editor")},
			writers: []c13CbCall{C("addg", "bob", "admin"), C("remg", "a*", "editor"), C("addp", "alice", "data1", "own"), C("remp", "editor", "data1", "write"), C("addg", "b*", "admin")},
			extraQ:  []c13CbCall{C("enf", "carol", "data1", "write"), C("enf", "carol", "data1", "read"), C("getp"), C("getg")},
		},
		{name: "domain", dom: true,
			rules: [][]string{{"p", "admin", "d1", "data1", "read"}, {"p", "editor", "d2", "data1", "write"}, {"p", "admin", "d2", "data1", "read"},
				{"g", "alice", "admin", "d1"}, {"g", "bob", "editor", "d2"}, {"g", "alice", "editor", "d2"}},
			warm:   C("enf", "zed", "dz", "data9", "none"),
			firsts: []c13CbCall{C("enf", "alice", "d1", "data1", "read"), C("enf", "alice", "d3", "data1", "read"), C("enf", "carol", "d2", "data1", "write"), C("iusers", "d1", "data1", "read")},
			seconds: []c13CbCall{C("enf", "alice", "d1", "data1", "read"), C("enf", "alice", "d3", "data1", "read"), C("enf", "carol", "d2", "data1", "write"), C("enf", "bob", "d2", "data1", "write"),
				C("roles", "alice", "d1"), C("roles", "alice", "d3"), C("users", "admin", "d1"), C("hasrole", "alice", "editor", "d2"), C("iroles", "alice", "d2"), C("iperms", "alice", "d1"), C("getp")},
			writers: []c13CbCall{C("addg", "carol", "editor", "d2"), C("remg", "alice", "admin", "d1"), C("addg", "alice", "admin", "d3"), C("remp", "admin", "d1", "data1", "read")},
			extraQ:  []c13CbCall{C("enf", "alice", "d2", "data1", "write"), C("enf", "alice", "d2", "data1", "read"), C("getg")},
		},
		{name: "domain+dommf", dom: true, domMF: true,
			// "g, alice, admin, *": alice is admin in every domain; d1 has no role manager of its own, so every
			// read about d1 assembles one from the pattern domains (the dommf callback is inside that loop)
			rules: [][]string{{"p", "admin", "d1", "data1", "read"}, {"p", "editor", "d2", "data1", "write"}, {"p", "admin", "d2", "data1", "read"},
				{"g", "alice", "admin", "*"}, {"g", "bob", "editor", "d2"}, {"g", "carol", "admin", "d3"}, {"g", "erin", "editor", "d*"}},
			warm: C("enf", "zed", "q9", "data9", "none"),
			firsts: []c13CbCall{C("enf", "alice", "d1", "data1", "read"), C("roles", "alice", "d1"), C("users", "admin", "d1"), C("iroles", "erin", "d1"),
				C("enf", "alice", "d2", "data1", "read"), C("iperms", "alice", "d1"), C("iusers", "d1", "data1", "read")},
			seconds: []c13CbCall{C("enf", "alice", "d1", "data1", "read"), C("enf", "bob", "d1", "data1", "read"), C("enf", "alice", "d2", "data1", "read"), C("enf", "erin", "d2", "data1", "write"),
				C("roles", "alice", "d1"), C("hasrole", "alice", "admin", "d1"), C("users", "admin", "d1"), C("users", "editor", "d1"), C("iroles", "alice", "d1"),
				C("iperms", "alice", "d1"), C("roles", "erin", "d4"), C("hasg", "alice", "admin", "*"), C("getp")},
			writers: []c13CbCall{C("addg", "dave", "admin", "d1"), C("remg", "alice", "admin", "*"), C("addp", "alice", "d1", "data1", "write"), C("remp", "admin", "d1", "data1", "read"), C("addg", "fay", "admin", "*")},
			extraQ: []c13CbCall{C("enf", "dave", "d1", "data1", "read"), C("enf", "fay", "d1", "data1", "read"), C("enf", "carol", "d3", "data1", "read"), C("enf", "alice", "d4", "data1", "read"),
				C("enf", "alice", "d1", "data1", "write"), C("getg")},
		},
		{name: "domain+dommf+rolemf", dom: true, domMF: true, roleMF: true,
			// F20-clean: d1 and d4 are never stored (private manager per call); in the stored domain d2 only
			// alice, admin, bob, editor, erin are asked about -- all permanent there (own links or copied patterns)
			rules: [][]string{{"p", "admin", "d1", "data1", "read"}, {"p", "editor", "d2", "data1", "write"}, {"p", "admin", "d2", "data1", "read"},
				{"g", "alice", "admin", "*"}, {"g", "bob", "editor", "d2"}, {"g", "erin", "editor", "*"}, {"g", "a*", "editor", "*"}},
			warm: C("enf", "zed", "q9", "data9", "none"),
			firsts: []c13CbCall{C("enf", "alice", "d1", "data1", "read"), C("enf", "alice", "d2", "data1", "write"), C("roles", "alice", "d1"), C("users", "editor", "d1"),
				C("enf", "bob", "d2", "data1", "read")},
			seconds: []c13CbCall{C("enf", "alice", "d1", "data1", "read"), C("enf", "alice", "d2", "data1", "write"), C("enf", "bob", "d2", "data1", "write"), C("enf", "carol", "d1", "data1", "read"),
				C("roles", "alice", "d1"), C("roles", "alice", "d2"), C("hasrole", "alice", "editor", "d2"), C("users", "editor", "d2"), C("iroles", "alice", "d4")},
			writers: []c13CbCall{C("addg", "bob", "admin", "d2"), C("remg", "a*", "editor", "*"), C("addp", "alice", "d2", "data1", "own"), C("remp", "editor", "d2", "data1", "write")},
			extraQ:  []c13CbCall{C("enf", "erin", "d2", "data1", "write"), C("enf", "bob", "d2", "data1", "read"), C("getp"), C("getg")},
		},
		{name: "cond-plain", condG: true,
			rules: [][]string{{"p", "admin", "data1", "read"}, {"p", "editor", "data1", "write"},
				{"g", "alice", "admin", "yes", "x"}, {"g", "bob", "admin", "no", "x"}, {"g", "bob", "editor", "yes", "y"}, {"g", "dave", "bob", "yes", "z"}},
			cond:    [][]string{{"alice", "admin"}, {"bob", "admin"}, {"bob", "editor"}, {"dave", "bob"}},
			warm:    C("enf", "zed", "data9", "none"),
			firsts:  []c13CbCall{C("enf", "alice", "data1", "read"), C("enf", "bob", "data1", "read"), C("enf", "dave", "data1", "write"), C("enf", "carol", "data1", "read")},
			seconds: []c13CbCall{C("enf", "alice", "data1", "read"), C("enf", "bob", "data1", "read"), C("enf", "bob", "data1", "write"), C("enf", "dave", "data1", "write"), C("enf", "carol", "data1", "read"), C("getp"), C("getg")},
			writers: []c13CbCall{C("addg", "carol", "admin", "yes", "w"), C("remg", "alice", "admin", "yes", "x"), C("addp", "bob", "data1", "read"), C("remp", "admin", "data1", "read")},
			extraQ:  []c13CbCall{C("enf", "dave", "data1", "read")},
		},
		{name: "cond-domain", dom: true, condG: true,
			rules: [][]string{{"p", "admin", "d1", "data1", "read"}, {"p", "editor", "d1", "data1", "write"}, {"p", "admin", "d2", "data1", "read"},
				{"g", "alice", "admin", "d1", "yes", "x"}, {"g", "bob", "admin", "d1", "no", "x"}, {"g", "bob", "editor", "d1", "yes", "y"}, {"g", "alice", "admin", "d2", "no", "x"}},
			cond:    [][]string{{"alice", "admin", "d1"}, {"bob", "admin", "d1"}, {"bob", "editor", "d1"}, {"alice", "admin", "d2"}},
			warm:    C("enf", "zed", "q9", "data9", "none"),
			firsts:  []c13CbCall{C("enf", "alice", "d1", "data1", "read"), C("enf", "bob", "d1", "data1", "read"), C("enf", "alice", "d2", "data1", "read"), C("enf", "alice", "d3", "data1", "read")},
			seconds: []c13CbCall{C("enf", "alice", "d1", "data1", "read"), C("enf", "bob", "d1", "data1", "read"), C("enf", "bob", "d1", "data1", "write"), C("enf", "alice", "d2", "data1", "read"), C("enf", "alice", "d3", "data1", "read"), C("getp"), C("getg")},
			writers: []c13CbCall{C("addg", "carol", "admin", "d1", "yes", "w"), C("remg", "alice", "admin", "d1", "yes", "x"), C("addp", "bob", "d1", "data1", "read"), C("remp", "admin", "d1", "data1", "read")},
			extraQ:  []c13CbCall{C("enf", "carol", "d1", "data1", "read")},
		},
	}
}

// Exposed configurations (F20 territory; probe only): a role matching function and a subject that is
// NOT a permanent role of the shared manager the call consults.
func c13CbExposedConfigs() []*c13CbCfg {
	C := c13CbC
	return []*c13CbCfg{
		{name: "x.plain+rolemf", roleMF: true,
			rules:   [][]string{{"p", "admin", "data1", "read"}, {"g", "tmp*", "admin"}, {"g", "alice", "admin"}},
			warm:    C("enf", "alice", "data9", "none"),
			firsts:  []c13CbCall{C("enf", "tmpU", "data1", "read"), C("roles", "tmpU")},
			seconds: []c13CbCall{C("enf", "tmpU", "data1", "read"), C("roles", "tmpU"), C("hasrole", "tmpU", "admin")},
		},
		{name: "x.domain+dommf+rolemf", dom: true, domMF: true, roleMF: true,
			rules:   [][]string{{"p", "admin", "d2", "data1", "read"}, {"g", "tmp*", "admin", "*"}, {"g", "bob", "editor", "d2"}},
			warm:    C("enf", "bob", "d2", "data9", "none"),
			firsts:  []c13CbCall{C("enf", "tmpU", "d2", "data1", "read"), C("roles", "tmpU", "d2")},
			seconds: []c13CbCall{C("enf", "tmpU", "d2", "data1", "read"), C("roles", "tmpU", "d2")},
		},
	}
}

// c13CbExposed: can a read call of cfg create a temporary role (with matches) in a SHARED role manager?
// True iff cfg has a role matching function and some call (or the p.sub of some rule, which Enforce
// feeds to g() for every request) names a role that is not permanent in the manager consulted:
// plain model -- the one manager; domain model -- the manager of the call's domain if that domain is
// stored (it appears literally in a g rule), whose permanent names are those of its own g rules and of
// the g rules of every pattern domain matching it.  A domain that is not stored gets a private manager
// per call: never exposed.  The result is independent of the writers: while readers overlap the policy
// is the initial one.
func c13CbExposed(cfg *c13CbCfg) (bool, string) {
	if !cfg.roleMF || cfg.condG {
		return false, ""
	}
	stored := map[string]bool{}
	for _, r := range cfg.rules {
		if r[0] == "g" {
			d := ""
			if cfg.dom {
				d = r[3]
			}
			stored[d] = true
		}
	}
	perm := func(d string) map[string]bool {
		out := map[string]bool{}
		for _, r := range cfg.rules {
			if r[0] != "g" {
				continue
			}
			rd := ""
			if cfg.dom {
				rd = r[3]
			}
			if rd == d || (cfg.domMF && c13CbDomMatch(d, rd)) {
				out[r[1]], out[r[2]] = true, true
			}
		}
		return out
	}
	var psubs []string
	for _, r := range cfg.rules {
		if r[0] == "p" {
			psubs = append(psubs, r[1])
		}
	}
	calls := append(append(append([]c13CbCall{cfg.warm}, cfg.firsts...), cfg.seconds...), cfg.extraQ...)
	for _, cl := range calls {
		var names []string
		d := ""
		switch cl.kind {
		case "enf":
			names = append([]string{cl.a[0]}, psubs...)
			if cfg.dom {
				d = cl.a[1]
			}
		case "roles", "users", "iroles", "iperms":
			names = []string{cl.a[0]}
			if cfg.dom && len(cl.a) > 1 {
				d = cl.a[1]
			}
		case "hasrole":
			names = []string{cl.a[0]}
			if cfg.dom && len(cl.a) > 2 {
				d = cl.a[2]
			}
		case "iusers":
			// Enforce for every subject of the policy: p subjects and g users that are nobody's role
			names = append([]string(nil), psubs...)
			for _, r := range cfg.rules {
				if r[0] == "g" {
					names = append(names, r[1])
				}
			}
			if cfg.dom {
				d = cl.a[0]
			}
		default:
			continue
		}
		if !stored[d] {
			continue
		}
		pm := perm(d)
		for _, n := range names {
			if !pm[n] {
				return true, fmt.Sprintf("%s consults the shared manager of domain %q where %q is not a permanent role", cl.String(), d, n)
			}
		}
	}
	return false, ""
}

// ---------- one run ----------

type c13CbRec struct {
	who  string
	call c13CbCall
	res  string
	want string
	done int32
}

type c13CbRun struct {
	cfg      *c13CbCfg
	e        c13CbAPI
	se       *casbin.SyncedEnforcer
	t        c13CbAPI
	pk       *c13Parker
	recs     []*c13CbRec
	problems []string
	trace    []string
}

func (r *c13CbRun) bad(format string, args ...interface{}) {
	r.problems = append(r.problems, fmt.Sprintf(format, args...))
}

func (r *c13CbRun) spawn(who string, cl c13CbCall) *c13CbRec {
	rec := &c13CbRec{who: who, call: cl}
	r.recs = append(r.recs, rec)
	go func() {
		rec.res = c13CbDo(r.e, cl)
		atomic.StoreInt32(&rec.done, 1)
	}()
	return rec
}

func (rec *c13CbRec) isDone() bool { return atomic.LoadInt32(&rec.done) != 0 }

func (rec *c13CbRec) wait(d time.Duration) bool {
	deadline := time.Now().Add(d)
	for i := 0; !rec.isDone(); i++ {
		if time.Now().After(deadline) {
			return false
		}
		if i < 2000 {
			runtime.Gosched()
		} else {
			time.Sleep(50 * time.Microsecond)
		}
	}
	return true
}

// waitParked: true = the call is parked in its gate; false = it returned (or hung: reported).
func (r *c13CbRun) waitParked(rec *c13CbRec, g *c13CbGate) bool {
	deadline := time.Now().Add(c13CbWatch)
	for i := 0; ; i++ {
		select {
		case <-g.inside:
			return true
		default:
		}
		if rec.isDone() {
			return false
		}
		if time.Now().After(deadline) {
			r.bad("%s %s neither reached its parking point nor returned within 5 s (hang)", rec.who, rec.call.String())
			return false
		}
		if i < 2000 {
			runtime.Gosched()
		} else {
			time.Sleep(50 * time.Microsecond)
		}
	}
}

func (r *c13CbRun) check(rec *c13CbRec, when string) {
	if !rec.isDone() {
		return // already reported as a hang
	}
	if rec.res != rec.want {
		r.bad("%s %s = %s %s, but the same call on the quiescent twin (same model, policy, functions; sequential) = %s", rec.who, rec.call.String(), rec.res, when, rec.want)
	}
}

const c13CbWatch = 20 * time.Second

func (r *c13CbRun) writerQueued(w *c13CbRec) bool {
	mu := r.se.GetLock()
	deadline := time.Now().Add(20 * time.Second)
	for time.Now().Before(deadline) {
		if w.isDone() {
			return false
		}
		if mu.TryRLock() {
			mu.RUnlock()
			runtime.Gosched()
			continue
		}
		return true
	}
	return false
}

// postCheck: after quiescence every question is asked again on both enforcers.
func (r *c13CbRun) postCheck() {
	qs := append(append(append([]c13CbCall(nil), r.cfg.firsts...), r.cfg.seconds...), r.cfg.extraQ...)
	seen := map[string]bool{}
	for _, q := range qs {
		if q.writer() || seen[q.String()] {
			continue
		}
		seen[q.String()] = true
		rec := r.spawn("after quiescence", q)
		r.recs = r.recs[:len(r.recs)-1] // not part of the recorded overlap
		if !rec.wait(c13CbWatch) {
			r.bad("after quiescence %s did not return within 5 s (lock leaked / deadlock)", q.String())
			return
		}
		want := c13CbDo(r.t, q)
		if rec.res != want {
			r.bad("after quiescence %s = %s but the twin says %s (a wrong result was retained)", q.String(), rec.res, want)
		}
	}
}

// c13CbOne runs one forced interleaving.  mode: "nested" | "crossed" | "wfirst".
// Returns whether A (and, crossed, B) reached their parking points.
func c13CbOne(cfg *c13CbCfg, first c13CbCall, ka int, mode string, second c13CbCall, kb int, warm bool, wi int) (run *c13CbRun, parkedA, parkedB bool) {
	pk := c13NewParker(ka, kb)
	e, _ := c13CbBuild(cfg, pk, true)
	t, _ := c13CbBuild(cfg, nil, false)
	r := &c13CbRun{cfg: cfg, e: e, se: e.(*casbin.SyncedEnforcer), t: t, pk: pk}
	run = r
	defer func() { // whatever happened: open every gate, stop counting
		atomic.StoreInt32(&pk.phase, 0)
		pk.gA.release()
		pk.gB.release()
	}()
	if warm {
		a, b := c13CbDo(e, cfg.warm), c13CbDo(t, cfg.warm)
		if a != b {
			r.bad("sequential warm-up %s = %s but the twin says %s", cfg.warm.String(), a, b)
		}
	}
	atomic.StoreInt32(&pk.phase, 1)
	A := r.spawn("A", first)
	if !first.writer() {
		A.want = c13CbDo(t, first)
	}
	parkedA = r.waitParked(A, pk.gA)
	if !parkedA {
		atomic.StoreInt32(&pk.phase, 0)
		if first.writer() {
			A.want = c13CbDo(t, first)
		}
		r.check(A, "(alone, never parked)")
		r.postCheck()
		return
	}
	switch mode {
	case "nested":
		atomic.StoreInt32(&pk.phase, 3)
		for _, s := range cfg.seconds {
			B := r.spawn("B", s)
			B.want = c13CbDo(t, s)
			if !B.wait(c13CbWatch) {
				r.bad("reader %s did not return within 5 s while reader %s was parked in callback %s under the READ lock (reader blocked by reader / deadlock)", s.String(), first.String(), pk.whereA)
				break
			}
			r.check(B, fmt.Sprintf("while %s was parked at its callback #%d (%s)", first.String(), ka, pk.whereA))
		}
		var W *c13CbRec
		if len(cfg.writers) > 0 && len(r.problems) == 0 {
			W = r.spawn("W", cfg.writers[wi%len(cfg.writers)])
			if !r.writerQueued(W) && !W.isDone() {
				r.bad("writer %s was not seen waiting on the lock within 5 s", W.call.String())
			}
			time.Sleep(2 * time.Millisecond)
			if W.isDone() {
				r.bad("writer %s returned (%s) while reader %s was parked in callback %s under the read lock", W.call.String(), W.res, first.String(), pk.whereA)
			}
		}
		pk.gA.release()
		if !A.wait(c13CbWatch) {
			r.bad("A %s did not return within 5 s after its release (deadlock)", first.String())
		}
		r.check(A, fmt.Sprintf("after being parked at its callback #%d (%s)", ka, pk.whereA))
		if W != nil {
			if !W.wait(c13CbWatch) {
				r.bad("writer %s did not return within 5 s after the parked reader was released (deadlock)", W.call.String())
				return
			}
			W.want = c13CbDo(t, W.call)
			r.check(W, "after the parked reader was released")
		}
	case "crossed":
		atomic.StoreInt32(&pk.phase, 2)
		B := r.spawn("B", second)
		B.want = c13CbDo(t, second)
		parkedB = r.waitParked(B, pk.gB)
		atomic.StoreInt32(&pk.phase, 3) // from here on A's callbacks must not be taken for B's
		pk.gA.release()
		if !A.wait(c13CbWatch) {
			r.bad("A %s did not return within 5 s after its release while B %s was parked (deadlock)", first.String(), second.String())
		}
		pk.gB.release()
		if !B.wait(c13CbWatch) {
			r.bad("B %s did not return within 5 s after its release (deadlock)", second.String())
		}
		atomic.StoreInt32(&pk.phase, 0)
		r.check(A, fmt.Sprintf("(parked at its callback #%d (%s), finished while B was parked at its callback #%d (%s))", ka, pk.whereA, kb, pk.whereB))
		r.check(B, fmt.Sprintf("(started while A was parked at #%d (%s), parked at its own callback #%d (%s) while A finished)", ka, pk.whereA, kb, pk.whereB))
	case "wfirst":
		// A is a writer parked inside a callback of its write section: nobody may get in
		atomic.StoreInt32(&pk.phase, 3)
		var rs []*c13CbRec
		for _, s := range cfg.seconds {
			rs = append(rs, r.spawn("B", s))
		}
		time.Sleep(3 * time.Millisecond)
		for _, B := range rs {
			if B.isDone() {
				r.bad("reader %s returned (%s) while writer %s was parked in callback %s inside its write section", B.call.String(), B.res, first.String(), pk.whereA)
			}
		}
		pk.gA.release()
		if !A.wait(c13CbWatch) {
			r.bad("writer %s did not return within 5 s after its release (deadlock)", first.String())
			return
		}
		A.want = c13CbDo(t, first)
		r.check(A, "after being parked in its write section")
		for _, B := range rs {
			if !B.wait(c13CbWatch) {
				r.bad("reader %s did not return within 5 s after the parked writer finished (deadlock)", B.call.String())
				return
			}
			B.want = c13CbDo(t, B.call)
			r.check(B, "after the parked writer finished (post-state)")
		}
	}
	atomic.StoreInt32(&pk.phase, 0)
	if len(r.problems) == 0 || !strings.Contains(strings.Join(r.problems, " "), "deadlock") {
		r.postCheck()
	}
	return
}

func (r *c13CbRun) replay(first c13CbCall, ka int, mode string, kb int, warm bool) string {
	var b strings.Builder
	cfg := r.cfg
	fmt.Fprintf(&b, "config=%s model=%q policy=%s functions=hook", cfg.name, strings.ReplaceAll(cfg.text(), "\n", "|"), rulesKey(cfg.rules))
	if cfg.domMF {
		b.WriteString(",AddNamedDomainMatchingFunc(g: pat==* or prefix*)")
	}
	if cfg.roleMF {
		b.WriteString(",AddNamedMatchingFunc(g: prefix*)")
	}
	if len(cfg.cond) > 0 {
		fmt.Fprintf(&b, ",link-condition(args[0]==yes) on %s", rulesKey(cfg.cond))
	}
	fmt.Fprintf(&b, " warm=%s mode=%s A=%s parked-at-callback#%d(%s)", B(warm), mode, first.String(), ka, r.pk.whereA)
	if mode == "crossed" {
		fmt.Fprintf(&b, " B-parked-at-callback#%d(%s)", kb, r.pk.whereB)
	}
	b.WriteString(" calls:")
	for _, rec := range r.recs {
		res := rec.res
		if !rec.isDone() {
			res = "<no return>"
		}
		fmt.Fprintf(&b, " %s:%s=%s(twin %s);", rec.who, rec.call.String(), res, rec.want)
	}
	return b.String()
}

// ---------- driver of the stream ----------

type c13CbTotals struct {
	runs, parked, crossedBoth, writersBlocked, wfirst int
	wall                                              time.Duration
}

func c13CbTagKind(tag string) string {
	if i := strings.IndexByte(tag, ':'); i >= 0 {
		return tag[:i]
	}
	return tag
}

// c13CbEmit writes one finished run to the case stream.
func c13CbEmit(c *Ctx, id string, r *c13CbRun, first c13CbCall, ka int, mode string, kb int, warm bool, parkedA, parkedB bool) {
	c.Case(id, L(Q("forced-callback"), Q(r.cfg.name), I(len(r.recs)), I(len(r.recs))))
	c.Count("kind=forced-callback")
	c.Count("cb-config=" + r.cfg.name)
	c.Count("cb-mode=" + mode)
	if parkedA {
		c.Count("cb-park=" + c13CbTagKind(r.pk.whereA))
		key := fmt.Sprintf("forced-callback|%s|%s|%s|A=%s@%s", r.cfg.name, mode, B(warm), first.kind, r.pk.whereA)
		if mode == "crossed" && parkedB {
			key += "|B@" + r.pk.whereB
		}
		c.NonTrivial(key)
		c.Count("non-trivial")
	} else {
		c.Count("cb-not-parked")
	}
	if len(r.problems) == 0 {
		c.Obs(id, "result", "ok")
		return
	}
	c.Obs(id, "result", "violation")
	rp := r.replay(first, ka, mode, kb, warm)
	for _, w := range r.problems {
		c.Direct(id, w, rp)
	}
}

type c13CbLimits struct{ kaMax, kaCross, kbMax, nCrossSeconds int }

// c13CbSweep runs every interleaving of one configuration; emit == nil collects problems only.
func c13CbSweep(cfg *c13CbCfg, lim c13CbLimits, tot *c13CbTotals, emit func(id string, r *c13CbRun, first c13CbCall, ka int, mode string, kb int, warm, pa, pb bool)) {
	for fi, f := range cfg.firsts {
		// nested: A at every depth, cold and warm
		for _, warm := range []bool{false, true} {
			for ka := 1; ka <= lim.kaMax; ka++ {
				r, pa, _ := c13CbOne(cfg, f, ka, "nested", c13CbCall{}, 0, warm, ka+fi)
				tot.runs++
				if pa {
					tot.parked++
					tot.writersBlocked++
				}
				emit(fmt.Sprintf("c13.cb.%s.f%d.%s.n.k%d", cfg.name, fi, B(warm), ka), r, f, ka, "nested", 0, warm, pa, false)
				if !pa {
					break
				}
			}
		}
		// crossed: A at ka, B at kb, A finishes first
		for ka := 1; ka <= lim.kaCross; ka++ {
			more := false
			for si := 0; si < lim.nCrossSeconds && si < len(cfg.seconds); si++ {
				s := cfg.seconds[(fi+si)%len(cfg.seconds)]
				if si == 0 {
					s = f // the very same call twice is the sharpest pair
				}
				for kb := 1; kb <= lim.kbMax; kb++ {
					warm := (ka+kb+si)%2 == 0
					r, pa, pb := c13CbOne(cfg, f, ka, "crossed", s, kb, warm, 0)
					tot.runs++
					if pa {
						more = true
						tot.parked++
					}
					if pa && pb {
						tot.crossedBoth++
					}
					emit(fmt.Sprintf("c13.cb.%s.f%d.x.k%d.s%d.k%d", cfg.name, fi, ka, si, kb), r, f, ka, "crossed", kb, warm, pa, pb)
					if !pa || !pb {
						break
					}
				}
				if !more {
					break
				}
			}
			if !more {
				break
			}
		}
	}
	// writers parked inside the callbacks of their write section
	for wi, w := range cfg.writers {
		for ka := 1; ka <= lim.kaCross; ka++ {
			r, pa, _ := c13CbOne(cfg, w, ka, "wfirst", c13CbCall{}, 0, ka%2 == 0, 0)
			tot.runs++
			if pa {
				tot.parked++
				tot.wfirst++
			}
			emit(fmt.Sprintf("c13.cb.%s.w%d.k%d", cfg.name, wi, ka), r, w, ka, "wfirst", 0, ka%2 == 0, pa, false)
			if !pa {
				break
			}
		}
	}
}

func c13CbLim(c *Ctx) c13CbLimits {
	if c.Thorough() {
		return c13CbLimits{kaMax: 60, kaCross: 24, kbMax: 16, nCrossSeconds: 6}
	}
	return c13CbLimits{kaMax: 14, kaCross: 6, kbMax: 4, nCrossSeconds: 3}
}

// c13RunCallbacks: the main-stream part (F20-clean configurations only).
func c13RunCallbacks(c *Ctx) {
	t0 := time.Now()
	tot := &c13CbTotals{}
	var names []string
	for _, cfg := range c13CbConfigs() {
		if x, why := c13CbExposed(cfg); x {
			// a configuration of the main stream must be F20-clean by construction
			c.Direct("c13.cb."+cfg.name, "harness configuration error: main-stream configuration is F20-exposed: "+why, cfg.name)
			continue
		}
		names = append(names, cfg.name)
		c13CbSweep(cfg, c13CbLim(c), tot, func(id string, r *c13CbRun, first c13CbCall, ka int, mode string, kb int, warm, pa, pb bool) {
			c13CbEmit(c, id, r, first, ka, mode, kb, warm, pa, pb)
		})
		c.cases.Flush()
		c.impl.Flush()
		c.direct.Flush()
	}
	tot.wall = time.Since(t0)
	c.Notes = append(c.Notes, fmt.Sprintf("callback-forced reader interleavings: %d runs on configurations %s; first call parked inside a user callback in %d; both calls parked (crossed) in %d; a writer observed blocked behind a parked reader in %d; writer parked inside its write section with readers blocked in %d; wall %.1fs",
		tot.runs, strings.Join(names, ", "), tot.parked, tot.crossedBoth, tot.writersBlocked, tot.wfirst, tot.wall.Seconds()))
}

// c13CbProbeF20 runs the F20-exposed configurations through the same engine.  Any disagreement there
// is the known finding F20 (temporary roles shared between readers): it is folded into the F20 probe
// line, never into the case stream.
func c13CbProbeF20(c *Ctx) {
	tot := &c13CbTotals{}
	var wit []string
	nbad := 0
	for _, cfg := range c13CbExposedConfigs() {
		x, why := c13CbExposed(cfg)
		if !x {
			c.Notes = append(c.Notes, "F20 callback probe: configuration "+cfg.name+" is not F20-exposed by the static guard (skipped)")
			continue
		}
		c13CbSweep(cfg, c13CbLim(c), tot, func(id string, r *c13CbRun, first c13CbCall, ka int, mode string, kb int, warm, pa, pb bool) {
			if len(r.problems) > 0 {
				nbad++
				if len(wit) < 2 {
					wit = append(wit, id+": "+r.problems[0]+" ["+why+"]")
				}
			}
		})
	}
	sort.Strings(wit)
	if nbad == 0 {
		c.Notes = append(c.Notes, fmt.Sprintf("F20 callback probe: %d forced interleavings on F20-exposed configurations (role matching function + a subject that is not a permanent role of the shared manager) all answered like the twin", tot.runs))
		return
	}
	detail := fmt.Sprintf("callback-forced interleavings on F20-exposed configurations: %d of %d runs disagree with the quiescent twin; e.g. %s", nbad, tot.runs, strings.Join(wit, " || "))
	c.Notes = append(c.Notes, "F20 callback probe (KNOWN-FINDING F20, kept out of the case stream by the guard c13CbExposed): "+detail)
	for i, l := range c.Known {
		if strings.HasPrefix(l, "F20\t") {
			if strings.HasPrefix(l, "F20\tgone") {
				c.Known[i] = "F20\treproduced\t" + detail
			}
			return
		}
	}
	c.Known = append(c.Known, "F20\treproduced\t"+detail)
}
