package main

import (
	"errors"
	"fmt"
	"strconv"
	"strings"
	"sync"
	"time"

	casbin "github.com/casbin/casbin/v2"
	"github.com/casbin/casbin/v2/model"
	"github.com/casbin/casbin/v2/persist"
	"github.com/casbin/casbin/v2/persist/cache"
	stringadapter "github.com/casbin/casbin/v2/persist/string-adapter"
)

// C14: the decision cache of CachedEnforcer / SyncedCachedEnforcer is transparent.
//
// Every case is a history of operations run on a REAL wrapper built from the basic ACL model
// (or, c14cx.go, from a model with several request / policy / effect / matcher sections that
// requests select with a leading casbin.EnforceContext) and a string adapter with a fixed text
// (auto-save off).  After every step the harness
// records what the call returned and what the EMBEDDED enforcer answers for a probe set of
// requests; the extracted Coq model (coq/Cache.v, ACL fixture) must print the same lines.
// In addition the property's own predicate is evaluated on the implementation: inside the
// guards of the theorems C14_transparent_acl_general / C14_transparent_cx (request without a
// context, listed invalidating operations only) and C14_transparent_quiet (any request, no
// mutator called since the cache was last empty) the wrapper's answer must equal the answer of
// the embedded enforcer, which is an uncached twin in the same state.

const c14ModelText = "[request_definition]\nr = sub, obj, act\n[policy_definition]\np = sub, obj, act\n[policy_effect]\ne = some(where (p.eft == allow))\n[matchers]\nm = r.sub == p.sub && r.obj == p.obj && r.act == p.act\n"

var c14Stored = [][]string{{"alice", "data1", "read"}, {"bob", "data2", "write"}, {"$a", "data1", "read"}, {"a", "b$c", "x"}}

func c14StoredText() string {
	var lines []string
	for _, r := range c14Stored {
		lines = append(lines, "p, "+strings.Join(r, ", "))
	}
	return strings.Join(lines, "\n")
}

// c14Key is a user type implementing casbin.CacheableParam.
type c14Key struct{ T string }

func (k c14Key) GetCacheKey() string { return k.T }

type c14Struct struct{ A int }

// c14Str is a named string type: not a `string` for the type switch of GetCacheKey.
type c14Str string

// c14Param mirrors Cache.param.
type c14Param struct {
	kind byte // 's' string, 'c' EnforceContext, 'k' c14Key, 'l' []string, 'n' other
	s    string
	ctx  [4]string
	l    []string
	n    int
	ptr  bool // kind 'k' only: the value is a *casbin.EnforceContext built from ctx (s = its key text)
}

func c14S(s string) c14Param { return c14Param{kind: 's', s: s} }

func c14Strs(ss []string) []c14Param {
	out := make([]c14Param, len(ss))
	for i, s := range ss {
		out[i] = c14S(s)
	}
	return out
}

func (p c14Param) value() interface{} {
	switch p.kind {
	case 's':
		return p.s
	case 'c':
		return casbin.EnforceContext{RType: p.ctx[0], PType: p.ctx[1], EType: p.ctx[2], MType: p.ctx[3]}
	case 'k':
		if p.ptr {
			// a pointer to an EnforceContext is a CacheableParam with the text of the context, but
			// enforce() does not take it for a context: it is an ordinary request value
			return &casbin.EnforceContext{RType: p.ctx[0], PType: p.ctx[1], EType: p.ctx[2], MType: p.ctx[3]}
		}
		return c14Key{p.s}
	case 'l':
		return append([]string(nil), p.l...)
	default:
		switch p.n % 7 {
		case 0:
			return 7
		case 1:
			return c14Struct{1}
		case 2:
			return 2.5
		case 3:
			return true
		case 4:
			return nil
		case 5:
			return c14Str("alice")
		default:
			return []byte("alice")
		}
	}
}

func (p c14Param) sx() string {
	switch p.kind {
	case 's':
		return L("s", Q(p.s))
	case 'c':
		return L("c", Q(p.ctx[0]), Q(p.ctx[1]), Q(p.ctx[2]), Q(p.ctx[3]))
	case 'k':
		return L("k", Q(p.s))
	case 'l':
		return L("l", QL(p.l))
	default:
		return L("n", I(p.n))
	}
}

// text is the GetCacheKey contribution of the parameter (ok=false: not cacheable).
func (p c14Param) text() (string, bool) {
	switch p.kind {
	case 's', 'k':
		return p.s, true
	case 'c':
		return "EnforceContext{" + p.ctx[0] + "-" + p.ctx[1] + "-" + p.ctx[2] + "-" + p.ctx[3] + "}", true
	}
	return "", false
}

func c14ParamsSx(ps []c14Param) string {
	items := make([]string, len(ps))
	for i, p := range ps {
		items[i] = p.sx()
	}
	return L(items...)
}

func c14Values(ps []c14Param) []interface{} {
	out := make([]interface{}, len(ps))
	for i, p := range ps {
		out[i] = p.value()
	}
	return out
}

// identity of a parameter tuple (kind-sensitive) and its cache key as the model defines it
func c14Ident(ps []c14Param) string {
	var b strings.Builder
	for _, p := range ps {
		b.WriteString(p.sx())
	}
	return b.String()
}

func c14KeyOf(ps []c14Param) (string, bool) {
	var b strings.Builder
	for _, p := range ps {
		t, ok := p.text()
		if !ok {
			return "", false
		}
		b.WriteString(t)
		b.WriteString("$$")
	}
	return b.String(), true
}

type c14Op struct {
	kind  string // e inv load clear rm add rms adds en ttl sleep pt
	sub   string // pt only: add2 / rm2 (Add/RemoveNamedPolicy("p2", rules[0]...))
	ps    []c14Param
	rules [][]string
	b     bool
	d     int // lifetime in microseconds
}

func (o c14Op) sx(now int64) string {
	switch o.kind {
	case "e":
		return L("e", fmt.Sprint(now), c14ParamsSx(o.ps))
	case "rm", "add":
		return L(o.kind, c14ParamsSx(o.ps))
	case "rms", "adds":
		return L(o.kind, QLL(o.rules))
	case "en":
		return L("en", B(o.b))
	case "ttl":
		return L("ttl", I(o.d))
	case "pt":
		return L("pt", o.sub, QL(o.rules[0]))
	}
	return L(o.kind)
}

type c14Wrapper interface {
	Enforce(rvals ...interface{}) (bool, error)
	InvalidateCache() error
	LoadPolicy() error
	ClearPolicy()
	RemovePolicy(params ...interface{}) (bool, error)
	RemovePolicies(rules [][]string) (bool, error)
	AddPolicy(params ...interface{}) (bool, error)
	AddPolicies(rules [][]string) (bool, error)
	EnableCache(bool)
	SetExpireTime(time.Duration)
	EnableAutoSave(bool)
	AddNamedPolicy(ptype string, params ...interface{}) (bool, error)
	RemoveNamedPolicy(ptype string, params ...interface{}) (bool, error)
}

// c14RecCache wraps the wrapper's own cache and counts the calls that reach it: while the cache
// is switched off the wrapper must be a pass-through (nothing stored, nothing served).
type c14RecCache struct {
	inner      cache.Cache
	sets, gets int
}

func (r *c14RecCache) Set(key string, value bool, extra ...interface{}) error {
	r.sets++
	return r.inner.Set(key, value, extra...)
}
func (r *c14RecCache) Get(key string) (bool, error) { r.gets++; return r.inner.Get(key) }
func (r *c14RecCache) Delete(key string) error      { return r.inner.Delete(key) }
func (r *c14RecCache) Clear() error                 { return r.inner.Clear() }

func c14New(synced bool) (c14Wrapper, func(...interface{}) (bool, error)) {
	w, under, _ := c14NewModel(false, synced)
	return w, under
}

// c14NewModel builds a wrapper over the basic ACL model (cx=false) or over the model with
// several request / policy / effect / matcher sections (cx=true); the second result is Enforce
// of the EMBEDDED enforcer: an uncached twin that always is in the same state.
func c14NewModel(cx bool, synced bool) (c14Wrapper, func(...interface{}) (bool, error), *c14RecCache) {
	text, stored := c14ModelText, c14StoredText()
	if cx {
		text, stored = c14CxModelText, c14CxStoredText()
	}
	m, err := model.NewModelFromString(text)
	if err != nil {
		panic(err)
	}
	a := stringadapter.NewAdapter(stored)
	if synced {
		e, err := casbin.NewSyncedCachedEnforcer(m, a)
		if err != nil {
			panic(err)
		}
		e.EnableAutoSave(false)
		sc, _ := cache.NewSyncCache()
		rec := &c14RecCache{inner: sc}
		e.SetCache(rec)
		return e, e.SyncedEnforcer.Enforce, rec
	}
	e, err := casbin.NewCachedEnforcer(m, a)
	if err != nil {
		panic(err)
	}
	e.EnableAutoSave(false)
	dc, _ := cache.NewDefaultCache()
	rec := &c14RecCache{inner: dc}
	e.SetCache(rec)
	return e, e.Enforcer.Enforce, rec
}

type c14Case struct {
	id     string
	synced bool
	probes [][]c14Param
	ops    []c14Op
	timed  bool
	tag    string
	cx     bool // the model with several sections (Cache.cx_ fixture)
}

type c14Result struct {
	dropped  string
	body     string
	obs      [][2]string
	directs  [][2]string
	hits     int
	panicked bool
}

func c14Call(f func() string) (res string) {
	defer func() {
		if r := recover(); r != nil {
			res = "panic"
		}
	}()
	return f()
}

func c14Ret(ok bool, err error) string {
	return fmt.Sprintf("ret=%s err=%s", B(ok), B(err != nil))
}

func c14Dec(ok bool, err error) string {
	return fmt.Sprintf("dec=%s err=%s", B(ok), B(err != nil))
}

// acl_req_ok of Cache.v
func c14ReqOK(ps []c14Param) bool {
	if len(ps) > 0 && ps[0].kind == 'c' {
		return false
	}
	for _, p := range ps {
		if !(p.kind == 's' && p.s == "") {
			return true
		}
	}
	return false // all-empty (or empty) tuple
}

// rule_of_params of Cache.v: nil,false = the underlying call panics
func c14RuleOf(ps []c14Param) ([]string, bool) {
	if len(ps) == 0 {
		return nil, false
	}
	if len(ps) == 1 && ps[0].kind == 'l' {
		return ps[0].l, true
	}
	var out []string
	for _, p := range ps {
		if p.kind != 's' {
			return nil, false
		}
		out = append(out, p.s)
	}
	return out, true
}

// acl_op_ok of Cache.v
func c14OpOK(synced bool, o c14Op) bool {
	switch o.kind {
	case "pt":
		return false
	case "add":
		if !synced {
			return false
		}
		if r, ok := c14RuleOf(o.ps); ok && len(r) != 3 {
			return false
		}
	case "adds":
		if !synced {
			return false
		}
		for _, r := range o.rules {
			if len(r) != 3 {
				return false
			}
		}
	}
	return true
}

// collision reports two different parameter tuples of the history that have one cache key:
// such histories are F21 (known finding) and are kept out of the main stream.
func c14Collision(cs *c14Case) bool {
	seen := map[string]string{}
	add := func(ps []c14Param) bool {
		k, ok := c14KeyOf(ps)
		if !ok {
			return false
		}
		id := c14Ident(ps)
		if prev, dup := seen[k]; dup && prev != id {
			return true
		}
		seen[k] = id
		return false
	}
	for _, p := range cs.probes {
		if add(p) {
			return true
		}
	}
	for _, o := range cs.ops {
		switch o.kind {
		case "e":
			if add(o.ps) {
				return true
			}
		case "rm", "add":
			ps := o.ps
			if len(ps) == 1 && ps[0].kind == 'l' {
				ps = c14Strs(ps[0].l)
			}
			if add(ps) {
				return true
			}
		case "rms", "adds":
			for _, r := range o.rules {
				if add(c14Strs(r)) {
					return true
				}
			}
		}
	}
	return false
}

const (
	c14TTL   = 30000 // microseconds
	c14Sleep = 80 * time.Millisecond
)

func c14Run(cs *c14Case) *c14Result {
	res := &c14Result{}
	w, under, rec := c14NewModel(cs.cx, cs.synced)
	var opsSx []string
	listed := true
	quiet := true // no mutator of the embedded enforcer was called since the cache was last empty
	start := time.Now()
	var stamps [][2]int64 // clock before and after every Enforce call so far
	ttls := map[int]bool{}
	seenKeys := map[string]bool{}
	step := 0
	cacheOn := true // the flag the user set last (EnableCache); a new wrapper starts switched on
	for _, o := range cs.ops {
		if o.kind == "sleep" {
			time.Sleep(c14Sleep)
			continue
		}
		var now int64
		if o.kind == "e" {
			if cs.timed {
				now = time.Since(start).Microseconds()
			} else {
				now = int64(step)
			}
		}
		opsSx = append(opsSx, o.sx(now))
		var out string
		setsBefore, getsBefore, wasOn := 0, 0, cacheOn
		if rec != nil {
			setsBefore, getsBefore = rec.sets, rec.gets
		}
		switch o.kind {
		case "e":
			vals := c14Values(o.ps)
			var d bool
			var err error
			out = c14Call(func() string { d, err = w.Enforce(vals...); return c14Dec(d, err) })
			if cs.timed {
				// the cache read its clock somewhere between `now` and `after`; an item was stored
				// somewhere between the two stamps of an earlier call.  Keep the case only when
				// every possible age is clearly (by ttl/3) on one side of every lifetime in use.
				after := time.Since(start).Microseconds()
				for _, t0 := range stamps {
					lo, hi := now-t0[1], after-t0[0]
					for d := range ttls {
						m := int64(d) / 3
						if lo < int64(d)+m && hi > int64(d)-m {
							res.dropped = "timing too close to an expiry instant"
							return res
						}
					}
				}
				stamps = append(stamps, [2]int64{now, after})
			}
			if k, ok := c14KeyOf(o.ps); ok {
				if seenKeys[k] {
					res.hits++
				}
				seenKeys[k] = true
			}
			// the property's own predicate, inside the guards of the theorems (collisions of keys are
			// kept out of the stream as a whole):
			//   C14_transparent_acl_general / C14_transparent_cx: a request without a leading context,
			//     not all-empty, after listed invalidating operations only;
			//   C14_transparent_quiet: ANY request (contexts, CacheableParam, non-cacheable values)
			//     while no mutator was called since the cache was last empty.
			if ((listed && c14ReqOK(o.ps)) || quiet) && out != "panic" {
				ud, uerr := under(c14Values(o.ps)...)
				if want := c14Dec(ud, uerr); want != out {
					why := "after listed invalidating operations only"
					if quiet {
						why = "with no mutator called since the cache was last empty"
					}
					res.directs = append(res.directs, [2]string{
						fmt.Sprintf("step %d: wrapper Enforce %s but embedded enforcer (uncached twin, same state) %s %s", step, out, want, why), ""})
				}
			}
		case "inv":
			out = c14Call(func() string { return c14Ret(true, w.InvalidateCache()) })
		case "load":
			out = c14Call(func() string { return c14Ret(true, w.LoadPolicy()) })
		case "clear":
			out = c14Call(func() string { w.ClearPolicy(); return c14Ret(true, nil) })
		case "rm":
			vals := c14Values(o.ps)
			out = c14Call(func() string { return c14Ret(w.RemovePolicy(vals...)) })
		case "add":
			vals := c14Values(o.ps)
			out = c14Call(func() string { return c14Ret(w.AddPolicy(vals...)) })
		case "rms":
			out = c14Call(func() string { return c14Ret(w.RemovePolicies(o.rules)) })
		case "adds":
			out = c14Call(func() string { return c14Ret(w.AddPolicies(o.rules)) })
		case "en":
			w.EnableCache(o.b)
			cacheOn = o.b
			out = c14Ret(true, nil)
		case "ttl":
			w.SetExpireTime(time.Duration(o.d) * time.Microsecond)
			if o.d > 0 {
				ttls[o.d] = true
			}
			out = c14Ret(true, nil)
		case "pt":
			vals := c14Values(c14Strs(o.rules[0]))
			if o.sub == "add2" {
				out = c14Call(func() string { return c14Ret(w.AddNamedPolicy("p2", vals...)) })
			} else {
				out = c14Call(func() string { return c14Ret(w.RemoveNamedPolicy("p2", vals...)) })
			}
		}
		switch o.kind {
		case "rm", "add", "rms", "adds", "pt":
			quiet = false
		case "inv", "load", "clear":
			quiet = true
		}
		if out == "panic" {
			res.panicked = true
		}
		if !c14OpOK(cs.synced, o) {
			listed = false
		}
		res.obs = append(res.obs, [2]string{fmt.Sprint(step), out})
		var ub strings.Builder
		for _, p := range cs.probes {
			d, err := under(c14Values(p)...)
			switch {
			case err != nil:
				ub.WriteByte('e')
			case d:
				ub.WriteByte('1')
			default:
				ub.WriteByte('0')
			}
		}
		res.obs = append(res.obs, [2]string{fmt.Sprintf("%d.u", step), ub.String()})
		// pass-through while the user has the cache switched off: the call neither stores nor
		// looks anything up (the flag is the one set through EnableCache, whatever the call was)
		if rec != nil && !wasOn && !cacheOn && out != "panic" && (rec.sets != setsBefore || rec.gets != getsBefore) {
			res.directs = append(res.directs, [2]string{
				fmt.Sprintf("step %d (%s): the cache is switched off (EnableCache(false)) but the call stored %d and looked up %d entries in it", step, o.kind, rec.sets-setsBefore, rec.gets-getsBefore), ""})
		}
		step++
	}
	v := "p"
	if cs.synced {
		v = "s"
	}
	probes := make([]string, len(cs.probes))
	for i, p := range cs.probes {
		probes[i] = c14ParamsSx(p)
	}
	if cs.cx {
		res.body = "c" + v + " " + QLL(c14CxStored1) + " " + QLL(c14CxStored2) + " " + L(probes...) + " " + L(opsSx...)
	} else {
		res.body = v + " " + QLL(c14Stored) + " " + L(probes...) + " " + L(opsSx...)
	}
	return res
}

// ---------------------------------------------------------------------------------------
// generators
// ---------------------------------------------------------------------------------------

var c14Universe = []string{"alice", "bob", "data1", "data2", "read", "write", "$", "$$", "a$", "$a", "", "a", "b", "c", "$$b", "a$$", "carol", "EnforceContext{r-p-e-m}", "a$b", "b$c", "x"}

type c14Gen struct{ c *Ctx }

func (g c14Gen) pick(ss []string) string { return ss[g.c.Rng.Intn(len(ss))] }

func (g c14Gen) tuple(n int) []string {
	out := make([]string, n)
	for i := range out {
		out[i] = g.pick(c14Universe)
	}
	return out
}

func (g c14Gen) arity() int {
	switch x := g.c.Rng.Intn(100); {
	case x < 88:
		return 3
	case x < 94:
		return 2
	default:
		return 4
	}
}

// focus tuples of a history: stored rules and random tuples that the operations keep reusing
// c14Near: pairs of tuples of sep_safe strings that have different keys only because the
// terminator is two characters long (they would share a key under a one-character separator);
// the second tuple of the first pair is a stored rule
var c14Near = [][2][]string{
	{{"a$b", "c", "x"}, {"a", "b$c", "x"}},
	{{"alice$data1", "read", "x"}, {"alice", "data1$read", "x"}},
	{{"$a", "b", "c"}, {"", "a$b", "c"}},
}

func (g c14Gen) focus() [][]string {
	n := 2 + g.c.Rng.Intn(3)
	var out [][]string
	if g.c.Rng.Intn(100) < 12 {
		pr := c14Near[g.c.Rng.Intn(len(c14Near))]
		out = append(out, pr[0], pr[1])
	}
	for i := 0; i < n; i++ {
		switch x := g.c.Rng.Intn(10); {
		case x < 4:
			out = append(out, c14Stored[g.c.Rng.Intn(len(c14Stored))])
		case x < 5:
			out = append(out, []string{"", "", ""})
		default:
			out = append(out, g.tuple(g.arity()))
		}
	}
	return out
}

func (g c14Gen) rule(focus [][]string) []string {
	if g.c.Rng.Intn(100) < 80 {
		return focus[g.c.Rng.Intn(len(focus))]
	}
	return g.tuple(g.arity())
}

// decorate turns a tuple of strings into a request with an EnforceContext in front, another
// CacheableParam (its key text is marked, so it does not collide with the string tuple), or a
// parameter that is not cacheable
func (g c14Gen) decorate(r []string) []c14Param {
	ps := c14Strs(r)
	switch x := g.c.Rng.Intn(100); {
	case x < 24: // default EnforceContext in front
		ps = append([]c14Param{{kind: 'c', ctx: [4]string{"r", "p", "e", "m"}}}, ps...)
	case x < 32: // a context that differs from the default one in exactly one name (a section
		// the model does not have: the embedded enforcer answers with an error)
		ctx := [4]string{"r", "p", "e", "m"}
		i := g.c.Rng.Intn(4)
		ctx[i] = g.pick([]string{ctx[i] + "2", "", ctx[i] + "-", "x"})
		ps = append([]c14Param{{kind: 'c', ctx: ctx}}, ps...)
	case x < 38: // a context naming sections the model does not have
		ps = append([]c14Param{{kind: 'c', ctx: [4]string{"r2", "p2", "e2", "m2"}}}, ps...)
	case x < 60: // another CacheableParam somewhere
		if len(ps) > 0 {
			i := g.c.Rng.Intn(len(ps))
			ps[i] = c14Param{kind: 'k', s: "key:" + ps[i].s}
		}
	case x < 95: // a parameter that is not cacheable
		if len(ps) > 0 {
			i := g.c.Rng.Intn(len(ps))
			ps[i] = c14Param{kind: 'n', n: g.c.Rng.Intn(7)}
		}
	default:
		if len(ps) > 0 {
			i := g.c.Rng.Intn(len(ps))
			ps[i] = c14Param{kind: 'l', l: []string{ps[i].s}}
		}
	}
	return ps
}

func (g c14Gen) request(focus [][]string, deco [][]c14Param) []c14Param {
	switch x := g.c.Rng.Intn(100); {
	case x < 22 && len(deco) > 0:
		return deco[g.c.Rng.Intn(len(deco))]
	case x < 26:
		return g.decorate(g.rule(focus))
	}
	return c14Strs(g.rule(focus))
}

// parameters of RemovePolicy / AddPolicy: both calling conventions, and rarely a malformed call
func (g c14Gen) ruleParams(focus [][]string) []c14Param {
	r := g.rule(focus)
	switch x := g.c.Rng.Intn(100); {
	case x < 46:
		return c14Strs(r)
	case x < 92:
		return []c14Param{{kind: 'l', l: r}}
	case x < 94:
		return nil // no parameter at all: params[0] panics in the embedded enforcer
	case x < 96:
		return append([]c14Param{{kind: 'l', l: r}}, c14S("x"))
	case x < 98:
		ps := c14Strs(r)
		if len(ps) > 0 {
			ps[0] = c14Param{kind: 'k', s: ps[0].s}
		}
		return ps
	default:
		ps := c14Strs(r)
		if len(ps) > 0 {
			ps[len(ps)-1] = c14Param{kind: 'n', n: 0}
		}
		return ps
	}
}

func (g c14Gen) batch(focus [][]string) [][]string {
	n := g.c.Rng.Intn(4) // 0..3 rules, each of its own length
	out := [][]string{}
	for i := 0; i < n; i++ {
		out = append(out, g.rule(focus))
	}
	return out
}

func (g c14Gen) op(focus [][]string, deco [][]c14Param, timed bool) c14Op {
	x := g.c.Rng.Intn(100)
	if timed {
		switch {
		case x < 12:
			return c14Op{kind: "sleep"}
		case x < 24:
			return c14Op{kind: "ttl", d: []int{c14TTL, c14TTL, 0, -1000, 10000000}[g.c.Rng.Intn(5)]}
		}
		x = g.c.Rng.Intn(100)
	}
	switch {
	case x < 46:
		return c14Op{kind: "e", ps: g.request(focus, deco)}
	case x < 57:
		return c14Op{kind: "rm", ps: g.ruleParams(focus)}
	case x < 66:
		return c14Op{kind: "add", ps: g.ruleParams(focus)}
	case x < 72:
		return c14Op{kind: "rms", rules: g.batch(focus)}
	case x < 77:
		return c14Op{kind: "adds", rules: g.batch(focus)}
	case x < 81:
		return c14Op{kind: "inv"}
	case x < 86:
		return c14Op{kind: "load"}
	case x < 90:
		return c14Op{kind: "clear"}
	default:
		return c14Op{kind: "en", b: g.c.Rng.Intn(2) == 0}
	}
}

func c14Probes(focus [][]string, deco ...[]c14Param) [][]c14Param {
	var out [][]c14Param
	seen := map[string]bool{}
	all := make([][]c14Param, 0, len(focus)+len(deco))
	for _, f := range focus {
		all = append(all, c14Strs(f))
	}
	all = append(all, deco...)
	for _, ps := range all {
		if id := c14Ident(ps); !seen[id] {
			seen[id] = true
			out = append(out, ps)
		}
	}
	return out
}

// every history ends with one wrapper Enforce per focus tuple, so the cache content left by
// the last operations is observed as well
func c14Finish(ops []c14Op, focus [][]string, deco ...[]c14Param) []c14Op {
	for _, p := range c14Probes(focus, deco...) {
		ops = append(ops, c14Op{kind: "e", ps: p})
	}
	return ops
}

func (g c14Gen) random(id string, synced bool, maxLen int, timed bool) *c14Case {
	focus := g.focus()
	var deco [][]c14Param
	for i := g.c.Rng.Intn(3); i > 0; i-- {
		deco = append(deco, g.decorate(focus[g.c.Rng.Intn(len(focus))]))
	}
	n := 1 + g.c.Rng.Intn(maxLen)
	var ops []c14Op
	if timed {
		ops = append(ops, c14Op{kind: "ttl", d: c14TTL})
	}
	sleeps := 0
	for i := 0; i < n; i++ {
		o := g.op(focus, deco, timed)
		if o.kind == "en" && !o.b && g.c.Rng.Intn(2) == 0 {
			// a short phase with the cache disabled
			ops = append(ops, o, g.op(focus, deco, false))
			if g.c.Rng.Intn(2) == 0 {
				ops = append(ops, g.op(focus, deco, false))
			}
			ops = append(ops, c14Op{kind: "en", b: true})
			continue
		}
		if o.kind == "sleep" {
			if sleeps >= 2 {
				continue
			}
			sleeps++
		}
		ops = append(ops, o)
	}
	if timed {
		// make sure a lifetime matters: cache the decision of an unlisted tuple T, change the
		// embedded answer for T by a call that is no invalidation event for T (AddPolicy(T) on
		// the plain variant, a rule of the wrong arity on both), enforce (stale within the
		// lifetime), sleep, and let the final Enforce calls see whether it expired
		T := []string{"carol", g.pick([]string{"data1", "data2", "a$b"}), "read"}
		focus = append(focus, T)
		change := c14Op{kind: "add", ps: c14Strs([]string{"x", "y"})}
		if !synced && g.c.Rng.Intn(2) == 0 {
			change = c14Op{kind: "add", ps: c14Strs(T)}
		}
		tpl := []c14Op{{kind: "e", ps: c14Strs(T)}, change, {kind: "e", ps: c14Strs(T)}}
		// interleave the template with the random operations, keeping its order
		var merged []c14Op
		ti := 0
		for _, o := range ops {
			for ti < len(tpl) && g.c.Rng.Intn(3) == 0 {
				merged = append(merged, tpl[ti])
				ti++
			}
			merged = append(merged, o)
		}
		merged = append(merged, tpl[ti:]...)
		ops = merged
		if sleeps < 2 {
			ops = append(ops, c14Op{kind: "sleep"})
		}
	}
	tag := "random"
	if timed {
		tag = "timed"
	}
	return &c14Case{id: id, synced: synced, probes: c14Probes(focus, deco...), ops: c14Finish(ops, focus, deco...), timed: timed, tag: tag}
}

// the witnesses of the repaired findings, as ordinary cases of the main stream
// a watcher whose notification fails: the management call then returns (true, error) although
// the rule was removed (added)
type c14BadWatcher struct{}

func (c14BadWatcher) SetUpdateCallback(func(string)) error { return nil }
func (c14BadWatcher) Update() error                        { return errors.New("watcher down") }
func (c14BadWatcher) Close()                               {}

// c14FailingWatcher: removal (and, for the synced variant, addition) of the identical rule drops
// the cached decision also when the call reports an error AFTER the rule has changed (the
// watcher could not be notified): the wrapper must answer like the embedded enforcer.
func c14FailingWatcher(c *Ctx) {
	for _, synced := range []bool{false, true} {
		for _, how := range []string{"remove", "removes", "add", "adds"} {
			if !synced && (how == "add" || how == "adds") {
				continue // the plain wrapper does not intercept additions (F31 territory)
			}
			w, under, _ := c14NewModel(false, synced)
			sw, ok := w.(interface{ SetWatcher(persist.Watcher) error })
			if !ok {
				continue
			}
			_ = sw.SetWatcher(c14BadWatcher{})
			rule := []string{"alice", "data1", "read"}
			if how == "add" || how == "adds" {
				rule = []string{"zoe", "data9", "read"}
			}
			req := toIface(rule)
			first, _ := w.Enforce(req...)
			var rok bool
			var rerr error
			switch how {
			case "remove":
				rok, rerr = w.RemovePolicy(req...)
			case "removes":
				rok, rerr = w.RemovePolicies([][]string{rule})
			case "add":
				rok, rerr = w.AddPolicy(req...)
			case "adds":
				rok, rerr = w.AddPolicies([][]string{rule})
			}
			after, _ := w.Enforce(req...)
			ref, _ := under(req...)
			if after != ref {
				c.Direct(fmt.Sprintf("c14.failing-watcher.%v.%s", synced, how), fmt.Sprintf("watcher whose Update fails: Enforce%v=%v, then %s of that rule reported (%v, %v), then the wrapper answers %v while the embedded enforcer answers %v", rule, first, how, rok, rerr, after, ref), how)
			}
			c.Count("failing-watcher")
		}
	}
}

// the cache key is injective on tuples whose fields contain no '$' (F21 is about fields that
// contain the separator): every pair of different tuples of 1..3 fields over a universe of digit
// laden, prefix-shifted and empty strings gets different keys from casbin.GetCacheKey, and a
// decision cached for one tuple is not served for another (through the real wrappers, for the
// pairs whose concatenations coincide).
func c14KeyInjective(c *Ctx) {
	u := []string{"", "1", "3", "4", "11", "13", "113", "a", "1a", "a1", "xyz", "3xyz", "read", "4read", "abcdefghi", "13abcdefghi", "abcdefghi3xyz", "1abcdefghi", "9abcdefghi", "alice", "alic", "e", "data1", "data", "1read"}
	seen := map[string][]string{}
	n := 0
	var rec func(cur []string)
	rec = func(cur []string) {
		if len(cur) > 0 {
			k, ok := casbin.GetCacheKey(toIface(cur)...)
			n++
			if ok {
				if prev, dup := seen[k]; dup && strings.Join(prev, "\x00") != strings.Join(cur, "\x00") {
					c.Direct("c14.key-injective", fmt.Sprintf("two different request tuples without '$' get the same cache key %q", k), fmt.Sprintf("%q and %q", prev, cur))
					return
				}
				seen[k] = append([]string(nil), cur...)
			}
		}
		if len(cur) == 3 {
			return
		}
		for _, x := range u {
			rec(append(cur, x))
		}
	}
	rec(nil)
	c.Count(fmt.Sprintf("key-injectivity-tuples=%d", n))
	// and through the wrappers: tuples with equal concatenation do not share a decision
	pairs := [][2][]string{{{"1", "abcdefghi3xyz", "read"}, {"13abcdefghi", "xyz", "read"}}, {{"alice", "data1", "read"}, {"alic", "edata1", "read"}}, {{"a", "1a", "x"}, {"a1", "a", "x"}}, {{"11", "3", "read"}, {"1", "13", "read"}}}
	for _, synced := range []bool{false, true} {
		for pi, pr := range pairs {
			for _, first := range []int{0, 1} {
				w, under, _ := c14NewModel(false, synced)
				_, _ = w.AddPolicy(toIface(pr[first])...)
				_, _ = w.InvalidateCache(), 0
				a, _ := w.Enforce(toIface(pr[first])...)
				b, _ := w.Enforce(toIface(pr[1-first])...)
				rb, _ := under(toIface(pr[1-first])...)
				if b != rb {
					c.Direct(fmt.Sprintf("c14.key-share.%v.%d.%d", synced, pi, first), fmt.Sprintf("Enforce%q = %v was cached; Enforce%q then answered %v while the embedded enforcer answers %v", pr[first], a, pr[1-first], b, rb), "")
				}
			}
		}
	}
}

// expiry under concurrent use: while other goroutines keep asking other requests (and so keep
// using the cache), a decision whose lifetime is over is not served any more -- 2001 questions
// after the lifetime, all answered like the embedded enforcer.
func c14ExpiryUnderLoad(c *Ctx) {
	for _, synced := range []bool{false, true} {
		if !synced {
			continue // the plain wrapper is documented as not safe for concurrent use
		}
		w, under, rec := c14NewModel(false, synced)
		w.SetExpireTime(200 * time.Millisecond)
		req := []interface{}{"carol", "data1", "read"}
		_, _ = w.Enforce(req...) // false, cached
		// the policy changes through the embedded enforcer, which the wrapper cannot see: only
		// the lifetime bounds how long the cached false is served
		if sw, ok := w.(*casbin.SyncedCachedEnforcer); ok {
			_, _ = sw.SyncedEnforcer.AddPolicy("carol", "data1", "read")
		}
		stop := make(chan struct{})
		var wg sync.WaitGroup
		for g := 0; g < 8; g++ {
			wg.Add(1)
			go func(g int) {
				defer wg.Done()
				for i := 0; ; i++ {
					select {
					case <-stop:
						return
					default:
					}
					_, _ = w.Enforce(fmt.Sprintf("u%d", g), fmt.Sprintf("o%d", i%7), "read")
				}
			}(g)
		}
		time.Sleep(500 * time.Millisecond)
		stale := 0
		// one more user of the cache that is inside a read section (as SyncCache.Get is) for
		// 100 ms at the moment the expired decision is asked for
		if sc, ok := rec.inner.(*cache.SyncCache); ok {
			sc.RLock()
			go func() {
				time.Sleep(100 * time.Millisecond)
				sc.RUnlock()
			}()
			got, _ := w.Enforce(req...)
			want, _ := under(req...)
			if got != want {
				stale++
			}
		}
		for i := 0; i < 2000; i++ {
			got, _ := w.Enforce(req...)
			want, _ := under(req...)
			if got != want {
				stale++
			}
		}
		close(stop)
		wg.Wait()
		if stale != 0 {
			c.Direct(fmt.Sprintf("c14.expiry-under-load.%v", synced), fmt.Sprintf("lifetime 200 ms, other goroutines using the cache: 300 ms after the lifetime was over %d of 2001 answers were still the expired decision", stale), "")
		}
		c.Count("expiry-under-load")
	}
}

// the cache layer keeps long keys apart: 600000 different keys that share their first 120 bytes
// are stored with alternating decisions and read back -- every key gets its own decision (a store
// that shortens keys to a prefix plus a small digest mixes some of them up).
func c14LongKeys(c *Ctx) {
	prefix := strings.Repeat("tenant-0123456789/", 8)
	mk := []func() cache.Cache{
		func() cache.Cache { x, _ := cache.NewDefaultCache(); return x },
		func() cache.Cache { x, _ := cache.NewSyncCache(); return x },
	}
	const n = 600000
	for ci, f := range mk {
		ch := f()
		val := func(i int) bool { return (i*2654435761>>7)&1 == 1 }
		// (scattered suffixes: consecutive decimal numbers never collide under the usual digests)
		key := func(i int) string { return prefix + strconv.FormatUint(uint64(i)*0x9E3779B97F4A7C15, 36) + "$$read$$" }
		for i := 0; i < n; i++ {
			_ = ch.Set(key(i), val(i))
		}
		bad := 0
		first := ""
		for i := 0; i < n; i++ {
			k := key(i)
			got, err := ch.Get(k)
			if err != nil || got != val(i) {
				bad++
				if first == "" {
					first = k
				}
			}
		}
		if bad != 0 {
			c.Direct(fmt.Sprintf("c14.long-keys.%d", ci), fmt.Sprintf("%d of %d long keys (common prefix of %d bytes) read back another key's decision or nothing", bad, n, len(prefix)), first)
		}
		c.Count("long-keys")
	}
}

// c14LifetimeUnderPolling: a lifetime runs from the moment a decision was STORED.  A cached
// (now stale) decision that is asked for again and again at intervals much shorter than the
// lifetime must still give way to the fresh decision once the lifetime is over.  Real time,
// generous margins: lifetime 300 ms, polling every 40 ms, the answer at >= 900 ms must be fresh.
func c14LifetimeUnderPolling(c *Ctx) {
	for _, synced := range []bool{false, true} {
		w, under, _ := c14NewModel(false, synced)
		_ = under
		w.SetExpireTime(300 * time.Millisecond)
		req := []interface{}{"carol", "data1", "read"}
		first, _ := w.Enforce(req...) // false: carol has no rule; cached
		// a policy change that the wrapper does not intercept (named variant: F31 territory on the
		// plain wrapper is irrelevant here, only the lifetime is under test)
		_, _ = w.AddNamedPolicy("p", "carol", "data1", "read")
		start := time.Now()
		var last bool
		for time.Since(start) < 900*time.Millisecond {
			last, _ = w.Enforce(req...)
			time.Sleep(40 * time.Millisecond)
		}
		last, _ = w.Enforce(req...)
		if first || !last {
			c.Direct(fmt.Sprintf("c14.lifetime.polling.%v", synced), fmt.Sprintf("lifetime 300 ms: a decision cached before the policy changed is still served %d ms later when it is asked for every 40 ms (first=%v last=%v): hits must not extend the lifetime", time.Since(start).Milliseconds(), first, last), "SetExpireTime(300ms); Enforce(carol,data1,read); AddNamedPolicy(p,carol,data1,read); poll")
		}
		c.Count("lifetime-under-polling")
	}
}

func c14Witnesses() []*c14Case {
	r1 := []string{"alice", "data1", "read"}
	r2 := []string{"bob", "data2", "write"}
	nr := []string{"carol", "data1", "read"}
	e := func(r []string) c14Op { return c14Op{kind: "e", ps: c14Strs(r)} }
	sl := func(kind string, r []string) c14Op { return c14Op{kind: kind, ps: []c14Param{{kind: 'l', l: r}}} }
	va := func(kind string, r []string) c14Op { return c14Op{kind: kind, ps: c14Strs(r)} }
	en := func(b bool) c14Op { return c14Op{kind: "en", b: b} }
	hs := []struct {
		name string
		ops  []c14Op
	}{
		{"F22-clear-while-disabled", []c14Op{e(r1), en(false), {kind: "clear"}, en(true), e(r1)}},
		{"F22-load-while-disabled", []c14Op{va("rm", r1), e(r1), en(false), {kind: "load"}, en(true), e(r1)}},
		{"F22-remove-while-disabled", []c14Op{e(r1), en(false), va("rm", r1), en(true), e(r1)}},
		{"F22-removepolicies-while-disabled", []c14Op{e(r1), en(false), {kind: "rms", rules: [][]string{r1}}, en(true), e(r1)}},
		{"F22-add-while-disabled", []c14Op{e(nr), en(false), va("add", nr), en(true), e(nr)}},
		{"F30-clear", []c14Op{e(r1), e(r2), {kind: "clear"}, e(r1), e(r2)}},
		{"F23-remove-slice", []c14Op{e(r1), sl("rm", r1), e(r1)}},
		{"F23-add-slice", []c14Op{e(nr), sl("add", nr), e(nr)}},
		{"F33-remove-longer-first", []c14Op{e(r2), {kind: "rms", rules: [][]string{{"q", "q", "q", "q"}, r2}}, e(r2)}},
		{"F33-remove-shorter-first", []c14Op{e(r2), {kind: "rms", rules: [][]string{{"q", "q"}, r2}}, e(r2)}},
		{"F33-add-longer-first", []c14Op{e(nr), {kind: "adds", rules: [][]string{{"carol", "data1", "read", "x"}, nr}}, e(nr), va("rm", []string{"carol", "data1", "read", "x"}), e(nr)}},
		{"F33-add-shorter-first", []c14Op{e(nr), {kind: "adds", rules: [][]string{{"z", "z"}, nr}}, e(nr), va("rm", []string{"z", "z"}), e(nr)}},
		{"invalidate", []c14Op{e(r1), va("rm", r1), {kind: "inv"}, e(r1)}},
		{"load", []c14Op{e(r1), {kind: "clear"}, e(r1), {kind: "load"}, e(r1)}},
		{"errors-are-not-cached", []c14Op{va("add", []string{"x", "y"}), e(nr), e([]string{"a", "b"}), va("rm", []string{"x", "y"}), e(nr), e([]string{"a", "b"})}},
	}
	var out []*c14Case
	for _, h := range hs {
		for _, synced := range []bool{false, true} {
			v := "p"
			if synced {
				v = "s"
			}
			focus := [][]string{r1, r2, nr}
			out = append(out, &c14Case{id: "c14.w." + h.name + "." + v, synced: synced, probes: c14Probes(focus),
				ops: c14Finish(append([]c14Op(nil), h.ops...), focus), tag: "witness"})
		}
	}
	// lifetime witnesses (real time)
	for _, synced := range []bool{false, true} {
		v := "p"
		if synced {
			v = "s"
		}
		focus := [][]string{r1, nr}
		// carol is cached false; AddPolicy makes the embedded answer true (on the plain variant
		// the cached false keeps being served, which the model predicts too); after the
		// lifetime has run out the fresh decision is served on both variants
		ops := []c14Op{{kind: "ttl", d: c14TTL}, e(nr), va("add", nr), e(nr), {kind: "sleep"}, e(nr)}
		out = append(out, &c14Case{id: "c14.w.ttl-expiry." + v, synced: synced, probes: c14Probes(focus),
			ops: c14Finish(ops, focus), timed: true, tag: "witness"})
		for _, d := range []int{0, -1000, 10000000} {
			// a lifetime <= 0 never expires, a long one has not expired yet: the cached false
			// stays (plain variant: AddPolicy is not intercepted; synced: the rule of the wrong
			// arity turns the embedded answer into an error without touching carol's key)
			ops3 := []c14Op{{kind: "ttl", d: d}, e(nr), va("add", nr), va("add", []string{"x", "y"}), e(nr), {kind: "sleep"}, e(nr)}
			out = append(out, &c14Case{id: fmt.Sprintf("c14.w.ttl-%d.%s", d, v), synced: synced, probes: c14Probes(focus),
				ops: c14Finish(ops3, focus), timed: true, tag: "witness"})
		}
		// expiry seen on the synced variant as well: the rule of the wrong arity is not an
		// invalidation event for carol, the error shows only after the lifetime ran out
		ops4 := []c14Op{{kind: "ttl", d: c14TTL}, e(nr), va("add", []string{"x", "y"}), e(nr), {kind: "sleep"}, e(nr), va("rm", []string{"x", "y"}), e(nr), {kind: "sleep"}, e(nr)}
		out = append(out, &c14Case{id: "c14.w.ttl-expiry-error." + v, synced: synced, probes: c14Probes(focus),
			ops: c14Finish(ops4, focus), timed: true, tag: "witness"})
		// a lifetime is counted from the moment the decision was stored: hits in between must not
		// extend it (250 ms lifetime, hits after 80 and 160 ms, the next question after 560 ms)
		sleep := c14Op{kind: "sleep"}
		ops5 := []c14Op{{kind: "ttl", d: 250000}, e(nr), va("add", nr), va("add", []string{"x", "y"}), sleep, e(nr), sleep, e(nr), sleep, sleep, sleep, sleep, sleep, e(nr)}
		out = append(out, &c14Case{id: "c14.w.ttl-not-extended-by-hits." + v, synced: synced, probes: c14Probes(focus),
			ops: c14Finish(ops5, focus), timed: true, tag: "witness"})
		ops2 := []c14Op{{kind: "ttl", d: c14TTL}, e(nr), e(nr), {kind: "ttl", d: 0}, {kind: "sleep"}, e(nr), e(r1), {kind: "ttl", d: -1000}, e(r2), {kind: "sleep"}, e(r1), e(r2)}
		out = append(out, &c14Case{id: "c14.w.ttl-per-item." + v, synced: synced, probes: c14Probes([][]string{r1, r2, nr}),
			ops: c14Finish(ops2, [][]string{r1, r2, nr}), timed: true, tag: "witness"})
	}
	return out
}

// all histories of length <= n over a small alphabet, both variants; plus, for the same
// alphabet, every history of the shapes [a b OFF x ON] and [a OFF x y ON] (a phase with the
// cache disabled in the middle)
func c14Exhaustive(n int) []*c14Case {
	r1 := []string{"alice", "data1", "read"}
	nr := []string{"carol", "data1", "read"}
	alpha := []c14Op{
		{kind: "e", ps: c14Strs(r1)},
		{kind: "e", ps: c14Strs(nr)},
		{kind: "inv"}, {kind: "load"}, {kind: "clear"},
		{kind: "rm", ps: c14Strs(r1)},
		{kind: "rm", ps: []c14Param{{kind: 'l', l: r1}}},
		{kind: "add", ps: c14Strs(nr)},
		{kind: "add", ps: []c14Param{{kind: 'l', l: nr}}},
		{kind: "rms", rules: [][]string{r1}},
		{kind: "adds", rules: [][]string{nr}},
		{kind: "en", b: false}, {kind: "en", b: true},
		// a rule of the wrong arity: changes other decisions (into errors and back) without
		// being an invalidation event for them, on both wrappers
		{kind: "add", ps: c14Strs([]string{"x", "y"})},
		{kind: "rm", ps: c14Strs([]string{"x", "y"})},
	}
	off, on := c14Op{kind: "en", b: false}, c14Op{kind: "en", b: true}
	focus := [][]string{r1, nr}
	var out []*c14Case
	emit := func(family string, idx []int, build func(ops []c14Op) []c14Op) {
		for _, synced := range []bool{false, true} {
			v := "p"
			if synced {
				v = "s"
			}
			ops := make([]c14Op, len(idx))
			name := make([]string, len(idx))
			for i, k := range idx {
				ops[i] = alpha[k]
				name[i] = fmt.Sprintf("%x", k)
			}
			out = append(out, &c14Case{id: "c14." + family + "." + strings.Join(name, "") + "." + v, synced: synced,
				probes: c14Probes(focus), ops: c14Finish(build(ops), focus), tag: "exhaustive"})
		}
	}
	each := func(l int, f func(idx []int)) {
		idx := make([]int, l)
		for {
			f(idx)
			i := 0
			for i < l {
				idx[i]++
				if idx[i] < len(alpha) {
					break
				}
				idx[i] = 0
				i++
			}
			if i == l {
				break
			}
		}
	}
	for l := 1; l <= n; l++ {
		each(l, func(idx []int) { emit("x", idx, func(ops []c14Op) []c14Op { return ops }) })
	}
	each(3, func(idx []int) {
		emit("xo1", idx, func(ops []c14Op) []c14Op { return []c14Op{ops[0], ops[1], off, ops[2], on} })
		emit("xo2", idx, func(ops []c14Op) []c14Op { return []c14Op{ops[0], off, ops[1], ops[2], on} })
	})
	return out
}

// ---------------------------------------------------------------------------------------
// known-finding probes (not repaired in /repo)
// ---------------------------------------------------------------------------------------

func c14ProbeF21(c *Ctx) {
	k1, _ := casbin.GetCacheKey("a$$", "b", "c")
	k2, _ := casbin.GetCacheKey("a", "$$b", "c")
	m, _ := model.NewModelFromString(c14ModelText)
	e, err := casbin.NewCachedEnforcer(m, stringadapter.NewAdapter("p, a, $$b, c"))
	if err != nil {
		panic(err)
	}
	d1, _ := e.Enforce("a$$", "b", "c")
	d2, _ := e.Enforce("a", "$$b", "c")
	u2, _ := e.Enforcer.Enforce("a", "$$b", "c")
	if k1 == k2 || d2 != u2 {
		c.Known = append(c.Known, fmt.Sprintf("F21\treproduced\tGetCacheKey(a$$,b,c)=%q GetCacheKey(a,$$b,c)=%q; Enforce(a$$,b,c)=%v then Enforce(a,$$b,c)=%v, embedded enforcer %v", k1, k2, d1, d2, u2))
	} else {
		c.Known = append(c.Known, "F21\tgone\tthe two tuples have different keys and do not share a decision")
	}
}

func c14ProbeF31(c *Ctx) {
	var stale []string
	// the entry points are methods promoted from the embedded enforcer, so they are called on
	// the wrapper itself, as a user would
	r1 := []string{"alice", "data1", "read"}
	nr := []string{"carol", "data1", "read"}
	type probe struct {
		name   string
		synced bool
		req    []string
		mut    func(p *casbin.CachedEnforcer, s *casbin.SyncedCachedEnforcer)
	}
	probes := []probe{
		{"RemoveNamedPolicy", false, r1, func(p *casbin.CachedEnforcer, s *casbin.SyncedCachedEnforcer) {
			_, _ = p.RemoveNamedPolicy("p", "alice", "data1", "read")
		}},
		{"RemoveFilteredPolicy", false, r1, func(p *casbin.CachedEnforcer, s *casbin.SyncedCachedEnforcer) {
			_, _ = p.RemoveFilteredPolicy(0, "alice")
		}},
		{"DeletePermissionForUser", false, r1, func(p *casbin.CachedEnforcer, s *casbin.SyncedCachedEnforcer) {
			_, _ = p.DeletePermissionForUser("alice", "data1", "read")
		}},
		{"DeletePermission", false, r1, func(p *casbin.CachedEnforcer, s *casbin.SyncedCachedEnforcer) {
			_, _ = p.DeletePermission("data1", "read")
		}},
		{"UpdatePolicy", false, r1, func(p *casbin.CachedEnforcer, s *casbin.SyncedCachedEnforcer) {
			_, _ = p.UpdatePolicy(r1, []string{"alice", "data1", "write"})
		}},
		{"synced.RemoveNamedPolicy", true, r1, func(p *casbin.CachedEnforcer, s *casbin.SyncedCachedEnforcer) {
			_, _ = s.RemoveNamedPolicy("p", "alice", "data1", "read")
		}},
		{"synced.RemoveFilteredPolicy", true, r1, func(p *casbin.CachedEnforcer, s *casbin.SyncedCachedEnforcer) {
			_, _ = s.RemoveFilteredPolicy(0, "alice")
		}},
		{"synced.UpdatePolicy", true, r1, func(p *casbin.CachedEnforcer, s *casbin.SyncedCachedEnforcer) {
			_, _ = s.UpdatePolicy(r1, []string{"alice", "data1", "write"})
		}},
		{"synced.AddNamedPolicy", true, nr, func(p *casbin.CachedEnforcer, s *casbin.SyncedCachedEnforcer) {
			_, _ = s.AddNamedPolicy("p", "carol", "data1", "read")
		}},
		{"synced.AddPermissionForUser", true, nr, func(p *casbin.CachedEnforcer, s *casbin.SyncedCachedEnforcer) {
			_, _ = s.AddPermissionForUser("carol", "data1", "read")
		}},
	}
	for _, pr := range probes {
		w, under := c14New(pr.synced)
		vals := c14Values(c14Strs(pr.req))
		_, _ = w.Enforce(vals...)
		p, _ := w.(*casbin.CachedEnforcer)
		s, _ := w.(*casbin.SyncedCachedEnforcer)
		pr.mut(p, s)
		got, _ := w.Enforce(vals...)
		want, _ := under(vals...)
		if got != want {
			stale = append(stale, pr.name)
		}
	}
	if len(stale) > 0 {
		c.Known = append(c.Known, "F31\treproduced\tcached decision of the identical rule survives: "+strings.Join(stale, ", "))
	} else {
		c.Known = append(c.Known, "F31\tgone\tevery probed entry point drops the cached decision")
	}
}

func init() {
	register("C14", func(c *Ctx) {
		g := c14Gen{c}
		nRandom, nTimed, exLen, maxLen, nCx := 1500, 120, 3, 12, 1200
		if c.Thorough() {
			nRandom, nTimed, exLen, maxLen, nCx = 30000, 1500, 4, 16, 30000
		}
		c.Rule = fmt.Sprintf("histories on the real NewCachedEnforcer and NewSyncedCachedEnforcer (basic ACL model, string adapter with a fixed text, auto-save off): "+
			"(a) the witnesses of the repaired findings F22 F30 F23 F33 and of lifetime expiry; (b) ALL histories of length <= %d over a 13-operation alphabet "+
			"(Enforce of a listed / an unlisted rule, InvalidateCache, LoadPolicy, ClearPolicy, Remove/AddPolicy in both calling conventions, Remove/AddPolicies, EnableCache on/off); "+
			"(c) %d random histories of length <= %d per wrapper over Enforce / InvalidateCache / LoadPolicy / ClearPolicy / AddPolicy / RemovePolicy (varargs, []string, malformed) / "+
			"AddPolicies / RemovePolicies (rules of mixed lengths) / EnableCache, request fields from a universe containing $, $$, a$, $a, the empty string and the EnforceContext key text, "+
			"requests of length 2-4 with EnforceContext, other CacheableParam and non-cacheable parameters; (d) %d timed histories per wrapper with SetExpireTime (30 ms, 0, negative, 10 s) and real sleeps of 80 ms, "+
			"the measured clock passed to the model, cases whose timing comes within ttl/2 of an expiry instant dropped. Every history ends with one wrapper Enforce per focus tuple; after every step the embedded enforcer is asked a probe set. "+
			"(e) on a second model with the sections r r2 / p p2 / e e2 / m m2 m3 m4 m5 m6 (two stored rule sets, matchers and effects that decide differently), requests whose first argument is a casbin.EnforceContext: "+
			"every one of the 12 deciding contexts against each context that differs from it in exactly ONE of RType / PType / EType / MType (existing and missing sections) and against contexts whose names are the same characters cut differently "+
			"(merged names, names containing '-', '}', '$'), same request strings, both orders, asked twice; every deciding context mixed with the plain request of the same strings around RemovePolicy / AddPolicy / RemoveNamedPolicy(p2) / InvalidateCache / LoadPolicy; "+
			"%d random histories per wrapper over Enforce (contexts in front / elsewhere / twice, *EnforceContext and another CacheableParam, int / struct / float / bool / nil / named string / []byte values) and the mutators of p and p2. "+
			"Direct predicate: every wrapper answer is compared with the embedded enforcer (an uncached twin in the same state) whenever a theorem says they agree: request without context after listed invalidating operations only (C14_transparent_acl_general, C14_transparent_cx), "+
			"or ANY request while no mutator was called since the cache was last empty (C14_transparent_quiet). "+
			"Histories in which two different tuples have one cache key (F21 and its variants for the context text) are kept out. Non-trivial = some cacheable request is enforced at least twice (a potential cache hit); distinct by case id.", exLen, nRandom, maxLen, nTimed, nCx)
		c14LifetimeUnderPolling(c)
		c14FailingWatcher(c)
		c14KeyInjective(c)
		c14ExpiryUnderLoad(c)
		c14LongKeys(c)
		var cases []*c14Case
		cases = append(cases, c14Witnesses()...)
		cases = append(cases, c14Exhaustive(exLen)...)
		for i := 0; i < nRandom; i++ {
			for _, synced := range []bool{false, true} {
				cases = append(cases, g.random(fmt.Sprintf("c14.r.%d.%v", i, B(synced)), synced, maxLen, false))
			}
		}
		for i := 0; i < nTimed; i++ {
			for _, synced := range []bool{false, true} {
				cases = append(cases, g.random(fmt.Sprintf("c14.t.%d.%v", i, B(synced)), synced, maxLen, true))
			}
		}
		cases = append(cases, c14CxCases(g, nCx, maxLen)...)
		// run: untimed cases sequentially, timed ones on a small pool (they mostly sleep)
		results := make([]*c14Result, len(cases))
		var wg sync.WaitGroup
		sem := make(chan struct{}, 8)
		for i, cs := range cases {
			if c14Collision(cs) {
				results[i] = &c14Result{dropped: "two tuples with one cache key (F21)"}
				continue
			}
			if !cs.timed {
				results[i] = c14Run(cs)
				continue
			}
			wg.Add(1)
			sem <- struct{}{}
			go func(i int, cs *c14Case) {
				defer wg.Done()
				defer func() { <-sem }()
				r := c14Run(cs)
				for try := 0; r.dropped != "" && try < 2; try++ {
					r = c14Run(cs) // unlucky scheduling: the same history again
				}
				results[i] = r
			}(i, cs)
		}
		wg.Wait()
		for i, cs := range cases {
			r := results[i]
			if r.dropped != "" {
				c.Count("dropped: " + r.dropped)
				continue
			}
			c.Case(cs.id, r.body)
			for _, o := range r.obs {
				c.Obs(cs.id, o[0], o[1])
			}
			for _, d := range r.directs {
				c.Direct(cs.id, d[0], r.body)
			}
			c.Count("kind=" + cs.tag)
			c.Count(fmt.Sprintf("ops=%d", len(cs.ops)))
			if r.panicked {
				c.Count("with a panicking malformed call")
			}
			if r.hits > 0 {
				c.NonTrivial(cs.id)
			}
		}
		c14ProbeF21(c)
		c14ProbeF31(c)
	})
}
