package main

import (
	"fmt"
	"strconv"
	"strings"
	"time"

	casbin "github.com/casbin/casbin/v2"
	"github.com/casbin/casbin/v2/model"
	"github.com/casbin/casbin/v2/persist"
	stringadapter "github.com/casbin/casbin/v2/persist/string-adapter"
)

// C07: priority order.
// (a) every insertion order of up to 4 (quick) / 5 (thorough) rules out of a pool with ties,
//     negative, "01" and non-numeric priorities, with and without an initial load, followed by
//     one removal / update / filtered removal; listed order compared with the Coq model at every
//     step; the deciding rule compared with the firewall reference on the implementation alone;
// (b) loads of shuffled contents (SortPoliciesByPriority);
// (c) subject priority: every digraph on 3 (quick) / 4 (thorough) nodes incl. self loops as the
//     role graph, loaded under a watchdog: must terminate; the resulting order is compared with
//     the model when it does not depend on Go's map iteration order.

var c07Pool = [][]string{
	{"-1", "alice", "data1", "read", "deny"},
	{"0", "alice", "data1", "read", "allow"},
	{"1", "alice", "data1", "read", "deny"},
	{"1", "bob", "data1", "read", "allow"},
	{"2", "alice", "data1", "read", "allow"},
	{"x", "alice", "data1", "read", "allow"},
	{"01", "carol", "data1", "read", "deny"},
	{"1", "alice", "data1", "read", "other"},
}

func c07Numeric(r []string) (int, bool) {
	v, err := strconv.Atoi(r[0])
	return v, err == nil
}

// firewall reference: among the listed rules matching (sub, data1, read) with eft allow/deny,
// the one with the smallest priority, earliest inserted among equals; none => deny.
func c07Reference(inserted [][]string, sub string) bool {
	best := -1
	bestV := 0
	for i, r := range inserted {
		if r[1] != sub || (r[4] != "allow" && r[4] != "deny") {
			continue
		}
		v, _ := c07Numeric(r)
		if best == -1 || v < bestV {
			best, bestV = i, v
		}
	}
	return best != -1 && inserted[best][4] == "allow"
}

func c07Case(c *Ctx, id string, content []prule, ops []mOp, refCheck bool) {
	conf := machPriority
	var cs []string
	for _, x := range content {
		cs = append(cs, L(Q(x.Pt), QL(x.Rule)))
	}
	c.Case(id, fmt.Sprintf("(cfg %s) (flags 0 0 none) (content %s) (obs res (pol p)) (ops %s)",
		strings.TrimSuffix(strings.TrimPrefix(conf.Sx(), "("), ")"), strings.Join(cs, " "),
		strings.TrimSuffix(strings.TrimPrefix(opsSx(ops), "("), ")")))
	m := newMach(conf, false, false, "none", content)
	var inserted [][]string // listed rules in insertion order (the reference's view)
	numeric := true
	for k, o := range ops {
		res := m.apply(o)
		c.Obs(id, fmt.Sprintf("%d.res", k), res)
		pol, _ := m.E.GetNamedPolicy("p")
		c.Obs(id, fmt.Sprintf("%d.pol.p", k), rulesKey(pol))
		c.Count(o.Kind)
		switch o.Kind {
		case "load":
			inserted = nil
			for _, x := range content {
				if x.Pt == "p" && !containsRule(inserted, x.Rule) {
					inserted = append(inserted, x.Rule)
				}
			}
		case "add":
			if res == "ok1" {
				inserted = append(inserted, o.R1[0])
			}
		case "remove":
			var out [][]string
			for _, x := range inserted {
				if !sameRule(x, o.R1[0]) {
					out = append(out, x)
				}
			}
			inserted = out
		default:
			refCheck = false
		}
		for _, r := range inserted {
			if _, ok := c07Numeric(r); !ok {
				numeric = false
			}
		}
		if refCheck && numeric {
			for _, sub := range []string{"alice", "bob", "carol"} {
				got, err := m.E.Enforce(sub, "data1", "read")
				want := c07Reference(inserted, sub)
				if err != nil || got != want {
					c.Direct(id, fmt.Sprintf("decision for %s is %v, the matching allow/deny rule with the smallest priority (earliest among equals) says %v", sub, got, want), opsSx(ops[:k+1]))
				}
			}
		}
	}
}

// named policy types with their own priority column (at another position than p's, or with a p
// that has none): the column must be resolved per policy type
var c07Named = []machConf{
	{Name: "prio-named-a", Text: `[request_definition]
r = sub, obj, act
[policy_definition]
p = sub, obj, act, eft
p2 = sub, priority, obj, eft
[role_definition]
g = _, _
[policy_effect]
e = some(where (p.eft == allow))
e2 = priority(p.eft) || deny
[matchers]
m = g(r.sub, p.sub) && r.obj == p.obj && r.act == p.act
m2 = r.sub == p2.sub && r.obj == p2.obj
`, Defs: []machDef{{"g", true, 2, -1}, {"p", false, 4, -1}, {"p2", false, 4, 1}}},
	{Name: "prio-named-b", Text: `[request_definition]
r = sub, obj, act
[policy_definition]
p = priority, sub, obj, eft
p2 = sub, obj, priority, eft
[role_definition]
g = _, _
[policy_effect]
e = priority(p.eft) || deny
[matchers]
m = g(r.sub, p.sub) && r.obj == p.obj
`, Defs: []machDef{{"g", true, 2, -1}, {"p", false, 4, 0}, {"p2", false, 4, 2}}},
}

// c07NamedCase: additions to p and p2 in the given order (rules carry their priority in the
// column of their own type), then a save/load round trip; listed order of both types compared
// with the model at every step.
func c07NamedCase(c *Ctx, id string, conf machConf, ops []mOp) {
	c.Case(id, fmt.Sprintf("(cfg %s) (flags 0 0 none) (content) (obs res (pol p) (pol p2)) (ops %s)",
		strings.TrimSuffix(strings.TrimPrefix(conf.Sx(), "("), ")"),
		strings.TrimSuffix(strings.TrimPrefix(opsSx(ops), "("), ")")))
	m := newMach(conf, false, false, "none", nil)
	for k, o := range ops {
		res := m.apply(o)
		c.Obs(id, fmt.Sprintf("%d.res", k), res)
		for _, pt := range []string{"p", "p2"} {
			pol, _ := m.E.GetNamedPolicy(pt)
			c.Obs(id, fmt.Sprintf("%d.pol.%s", k, pt), rulesKey(pol))
			// the property's own predicate: numeric priorities of a type are listed in ascending order
			if d := conf.Def(pt); d.Prio >= 0 {
				last, have := 0, false
				for _, r := range pol {
					v, err := strconv.Atoi(r[d.Prio])
					if err != nil {
						have = false
						break
					}
					if have && v < last {
						c.Direct(id, "rules of "+pt+" are not listed in ascending priority order", fmt.Sprintf("%s listed=%s", opsSx(ops[:k+1]), rulesKey(pol)))
						break
					}
					last, have = v, true
				}
			}
		}
		c.Count(o.Kind)
	}
	// the firewall reference through an EnforceContext that selects p2 / e2 / m2 (first model only:
	// it has the sections): the matching allow/deny rule of p2 with the smallest priority decides
	if strings.Contains(conf.Text, "e2 = priority") {
		pol, _ := m.E.GetNamedPolicy("p2")
		d := conf.Def("p2")
		for i := 0; i < 7; i++ {
			sub, obj := fmt.Sprintf("s%d", i), fmt.Sprintf("o%d", i%2)
			if i == 6 {
				sub, obj = "s9", "o1"
			}
			want, best, have := false, 0, false
			for _, r := range pol { // sub, priority, obj, eft
				if r[0] != sub || r[2] != obj || (r[3] != "allow" && r[3] != "deny") {
					continue
				}
				v, err := strconv.Atoi(r[d.Prio])
				if err != nil {
					continue
				}
				if !have || v < best {
					have, best, want = true, v, r[3] == "allow"
				}
			}
			got, err := m.E.Enforce(casbin.EnforceContext{RType: "r", PType: "p2", EType: "e2", MType: "m2"}, sub, obj, "allow")
			if err != nil || got != want {
				c.Direct(id, fmt.Sprintf("through EnforceContext{r,p2,e2,m2}: decision for (%s,%s) is %v (err %v), the matching rule of p2 with the smallest priority says %v", sub, obj, got, err != nil, want), fmt.Sprintf("%s p2=%s", opsSx(ops), rulesKey(pol)))
				break
			}
		}
	}
}

func c07NamedRule(d *machDef, prio string, i int) []string {
	r := []string{"s" + strconv.Itoa(i), "o" + strconv.Itoa(i%2), "allow", "allow"}
	if d.Prio >= 0 {
		// fill the columns around the priority column
		out := make([]string, 0, 4)
		vals := []string{"s" + strconv.Itoa(i), "o" + strconv.Itoa(i%2)}
		vi := 0
		for col := 0; col < 3; col++ {
			if col == d.Prio {
				out = append(out, prio)
			} else {
				out = append(out, vals[vi])
				vi++
			}
		}
		return append(out, []string{"allow", "deny"}[i%2])
	}
	return r[:3+1]
}

// an adapter that fills the rule lists directly (as database adapters that bypass
// persist.LoadPolicyArray do): the stored order reaches SortPoliciesByPriority unsorted
type c07DirectFill struct{ *recAdapter }

func (a *c07DirectFill) LoadPolicy(m model.Model) error {
	for _, x := range a.Content {
		ast := m[x.Pt[:1]][x.Pt]
		if ast == nil {
			continue
		}
		ast.Policy = append(ast.Policy, append([]string(nil), x.Rule...))
		ast.PolicyMap[strings.Join(x.Rule, ",")] = len(ast.Policy) - 1
	}
	return nil
}

func c07Perms(n, k int, f func([]int)) {
	used := make([]bool, n)
	cur := make([]int, 0, k)
	var rec func()
	rec = func() {
		if len(cur) == k {
			f(append([]int(nil), cur...))
			return
		}
		for i := 0; i < n; i++ {
			if !used[i] {
				used[i] = true
				cur = append(cur, i)
				rec()
				cur = cur[:len(cur)-1]
				used[i] = false
			}
		}
	}
	rec()
}

const c07SubjModel = `[request_definition]
r = sub, obj, act
[policy_definition]
p = sub, obj, act, eft
[role_definition]
g = _, _
[policy_effect]
e = subjectPriority(p_eft) || deny
[matchers]
m = g(r.sub, p.sub) && r.obj == p.obj && r.act == p.act
`

// rules that reach a model through the persist helpers WITHOUT an enforcer load afterwards (an
// adapter's LoadPolicy on a model that is then handed to NewEnforcer(model); persist.LoadPolicyLine
// into the live model) are in priority order like rules added through the API: every permutation
// of four rules with distinct priorities, the listing ascending and the decision that of the
// smallest priority.
func c07PersistHelpers(c *Ctx) {
	lines := []string{"p, 3, alice, data1, read, deny", "p, 1, alice, data1, read, allow", "p, 2, alice, data1, read, deny", "p, 4, bob, data1, read, allow"}
	c07Perms(len(lines), len(lines), func(idx []int) {
		var text []string
		for _, i := range idx {
			text = append(text, lines[i])
		}
		for _, how := range []string{"adapter-then-new", "loadpolicyline-live"} {
			mm, _ := model.NewModelFromString(machPriority.Text)
			var e *casbin.Enforcer
			if how == "adapter-then-new" {
				if err := stringadapter.NewAdapter(strings.Join(text, "\n")).LoadPolicy(mm); err != nil {
					continue
				}
				e, _ = casbin.NewEnforcer(mm)
			} else {
				e, _ = casbin.NewEnforcer(mm)
				for _, ln := range text {
					_ = persist.LoadPolicyLine(ln, e.GetModel())
				}
			}
			pol, _ := e.GetPolicy()
			sorted := len(pol) == len(lines)
			for i := 1; i < len(pol); i++ {
				if pol[i-1][0] > pol[i][0] {
					sorted = false
				}
			}
			dec, _ := e.Enforce("alice", "data1", "read")
			if !sorted || !dec {
				c.Direct(fmt.Sprintf("c07.persist-helpers.%s.%v", how, idx), fmt.Sprintf("rules brought in through the persist helpers are not in priority order: listed %v, Enforce(alice,data1,read)=%v (priority 1 allows)", pol, dec), strings.Join(text, " / "))
			}
			c.Count("persist-helpers")
		}
	})
}

func init() {
	register("C07", func(c *Ctx) {
		c07PersistHelpers(c)
		c.Rule = "(a) all insertion orders of <=4 (quick) / <=5 (thorough) rules from an 8-rule pool (ties, negative, \"01\", non-numeric priorities, indeterminate effect) with and without an initial load, then one follow-up call; (b) loads of shuffled contents; (c) every digraph on 3/4 nodes (self loops included) as role graph under subjectPriority. Distinct = op sequence / graph; non-trivial = at least two rules with different priorities or a graph with an edge. Additions: named policy types (p2) with their own priority column at another position than p (or with a p that has none); subject priority with a domain column over random per-domain forests; after every ordering load the index is probed (HasPolicy on every listed rule, RemovePolicy hits its slot)."
		maxK := 4
		if c.Thorough() {
			maxK = 5
		}
		n := 0
		for k := 1; k <= maxK; k++ {
			c07Perms(len(c07Pool), k, func(p []int) {
				var ops []mOp
				for _, i := range p {
					ops = append(ops, mOp{Kind: "add", Pt: "p", R1: [][]string{c07Pool[i]}})
				}
				n++
				id := fmt.Sprintf("c07.ins.%d", n)
				c07Case(c, id, nil, ops, true)
				c.NonTrivial(id)
				// with an initial load of two stored rules (given in the wrong order)
				if k <= 3 {
					content := []prule{{"p", []string{"5", "alice", "data1", "read", "allow"}}, {"p", []string{"-5", "bob", "data1", "read", "deny"}}}
					ops2 := append([]mOp{{Kind: "load"}}, ops...)
					c07Case(c, id+".loaded", content, ops2, true)
				}
				// follow-ups
				if k == 3 {
					first := c07Pool[p[0]]
					last := c07Pool[p[2]]
					c07Case(c, id+".rm", nil, append(append([]mOp(nil), ops...), mOp{Kind: "remove", Pt: "p", R1: [][]string{first}}), true)
					keep := append([]string(nil), last...)
					keep[1] = "dave" // same priority, other subject: allowed by the guard
					c07Case(c, id+".upd", nil, append(append([]mOp(nil), ops...), mOp{Kind: "update", Pt: "p", R1: [][]string{last}, R2: [][]string{keep}}), false)
					c07Case(c, id+".rf", nil, append(append([]mOp(nil), ops...), mOp{Kind: "removefiltered", Pt: "p", Fi: 1, Fvs: []string{"alice"}}), false)
					c07Case(c, id+".save-load", nil, append(append([]mOp(nil), ops...), mOp{Kind: "save"}, mOp{Kind: "load"}), false)
				}
			})
		}
		// (a') named policy types with their own priority column
		prios := []string{"3", "1", "2", "1", "-4", "10"}
		for ci, conf := range c07Named {
			np := 0
			c07Perms(len(prios), 3, func(p []int) {
				np++
				if !c.Thorough() && np%4 != ci {
					return
				}
				var ops []mOp
				for j, i := range p {
					ops = append(ops, mOp{Kind: "add", Pt: "p2", R1: [][]string{c07NamedRule(conf.Def("p2"), prios[i], i)}})
					ops = append(ops, mOp{Kind: "add", Pt: "p", R1: [][]string{c07NamedRule(conf.Def("p"), prios[p[(j+1)%3]], i)}})
				}
				if conf.Def("p2").Prio == 1 {
					// one subject with an allow rule and a deny rule of different priorities (p2 = sub, priority, obj, eft)
					ops = append(ops, mOp{Kind: "add", Pt: "p2", R1: [][]string{{"s9", prios[p[0]], "o1", "allow"}}},
						mOp{Kind: "add", Pt: "p2", R1: [][]string{{"s9", prios[p[1]], "o1", "deny"}}})
				}
				ops = append(ops, mOp{Kind: "remove", Pt: "p2", R1: ops[0].R1}, mOp{Kind: "add", Pt: "p2", R1: ops[0].R1}, mOp{Kind: "save"}, mOp{Kind: "load"})
				id := fmt.Sprintf("c07.named.%s.%d", conf.Name, np)
				c07NamedCase(c, id, conf, ops)
				c.NonTrivial(id)
			})
		}
		// (a'') a priority column declared through SetFieldIndex (its token is not named "priority"):
		// single and batch additions must order by it all the same
		custom := machConf{Name: "prio-custom", Text: `[request_definition]
r = sub, obj, act
[policy_definition]
p = rank, sub, obj, act, eft
[role_definition]
g = _, _
[policy_effect]
e = priority(p.eft) || deny
[matchers]
m = g(r.sub, p.sub) && r.obj == p.obj && r.act == p.act
`, Defs: []machDef{{"g", true, 2, -1}, {"p", false, 5, 0}}}
		// ... and a definition that HAS a column named priority while SetFieldIndex points at another
		// one: the explicitly set index wins (GetFieldIndex looks at FieldIndexMap first)
		both := machConf{Name: "prio-both", Text: strings.Replace(custom.Text, "p = rank, sub, obj, act, eft", "p = priority, rank, obj, act, eft", 1),
			Defs: []machDef{{"g", true, 2, -1}, {"p", false, 5, 1}}}
		nb := 0
		c07Perms(len(prios), 3, func(p []int) {
			nb++
			if !c.Thorough() && nb%6 != 0 {
				return
			}
			var ops []mOp
			for j, i := range p {
				// column 0 ("priority") descends while column 1 (the index set explicitly) varies
				ops = append(ops, mOp{Kind: "add", Pt: "p", R1: [][]string{{strconv.Itoa(9 - j), prios[i], "data1", "read", []string{"allow", "deny"}[i%2]}}})
			}
			ops = append(ops, mOp{Kind: "save"}, mOp{Kind: "load"})
			id := fmt.Sprintf("c07.both.%d", nb)
			c.Case(id, fmt.Sprintf("(cfg %s) (flags 0 0 none) (content) (obs res (pol p)) (ops %s)",
				strings.TrimSuffix(strings.TrimPrefix(both.Sx(), "("), ")"),
				strings.TrimSuffix(strings.TrimPrefix(opsSx(ops), "("), ")")))
			m := newMach(both, false, false, "none", nil)
			m.E.SetFieldIndex("p", "priority", 1)
			for k, o := range ops {
				c.Obs(id, fmt.Sprintf("%d.res", k), m.apply(o))
				pol, _ := m.E.GetNamedPolicy("p")
				c.Obs(id, fmt.Sprintf("%d.pol.p", k), rulesKey(pol))
			}
			c.NonTrivial(id)
			c.Count("priority-token-and-set-index")
		})
		ncu := 0
		c07Perms(len(prios), 4, func(p []int) {
			ncu++
			if !c.Thorough() && ncu%9 != 0 {
				return
			}
			rule := func(i int) []string {
				return []string{prios[p[i]], fmt.Sprintf("s%d", p[i]), "data1", "read", []string{"allow", "deny"}[p[i]%2]}
			}
			ops := []mOp{{Kind: "add", Pt: "p", R1: [][]string{rule(0)}}, {Kind: "addmany", Pt: "p", R1: [][]string{rule(1), rule(2)}},
				{Kind: "addmanyex", Pt: "p", R1: [][]string{rule(3), rule(0)}}, {Kind: "remove", Pt: "p", R1: [][]string{rule(1)}}, {Kind: "add", Pt: "p", R1: [][]string{rule(1)}}}
			id := fmt.Sprintf("c07.custom.%d", ncu)
			c.Case(id, fmt.Sprintf("(cfg %s) (flags 0 0 none) (content) (obs res (pol p)) (ops %s)",
				strings.TrimSuffix(strings.TrimPrefix(custom.Sx(), "("), ")"),
				strings.TrimSuffix(strings.TrimPrefix(opsSx(ops), "("), ")")))
			m := newMach(custom, false, false, "none", nil)
			m.E.SetFieldIndex("p", "priority", 0)
			for k, o := range ops {
				c.Obs(id, fmt.Sprintf("%d.res", k), m.apply(o))
				pol, _ := m.E.GetNamedPolicy("p")
				c.Obs(id, fmt.Sprintf("%d.pol.p", k), rulesKey(pol))
			}
			c.NonTrivial(id)
			c.Count("custom-priority-column")
		})
		// (b) loads of shuffled contents
		nl := 150
		if c.Thorough() {
			nl = 3000
		}
		for i := 0; i < nl; i++ {
			perm := c.Rng.Perm(len(c07Pool))
			k := 2 + c.Rng.Intn(len(c07Pool)-1)
			var content []prule
			for _, j := range perm[:k] {
				content = append(content, prule{"p", c07Pool[j]})
			}
			id := fmt.Sprintf("c07.load.%d", i)
			c07Case(c, id, content, []mOp{{Kind: "load"}, {Kind: "add", Pt: "p", R1: [][]string{{"1", "erin", "data1", "read", "allow"}}}}, true)
			c.NonTrivial(id)
		}
		// (b') 13..20 rules with many ties filled in directly by the adapter: the post-load sort
		// must be stable (equal priorities keep their stored order); <= 20 rules: the model's
		// insertion sort is exactly Go's stable sort
		nd := 40
		if c.Thorough() {
			nd = 800
		}
		for i := 0; i < nd; i++ {
			k := 13 + c.Rng.Intn(8)
			var content []prule
			for j := 0; j < k; j++ {
				content = append(content, prule{"p", []string{strconv.Itoa(1 + c.Rng.Intn(3)), fmt.Sprintf("s%d", j), "data1", "read", []string{"allow", "deny"}[c.Rng.Intn(2)]}})
			}
			id := fmt.Sprintf("c07.directfill.%d", i)
			conf := machPriority
			var cs []string
			for _, x := range content {
				cs = append(cs, L(Q(x.Pt), QL(x.Rule)))
			}
			ops := []mOp{{Kind: "load"}}
			c.Case(id, fmt.Sprintf("(cfg %s) (flags 0 0 none) (content %s) (obs res (pol p)) (ops %s)",
				strings.TrimSuffix(strings.TrimPrefix(conf.Sx(), "("), ")"), strings.Join(cs, " "),
				strings.TrimSuffix(strings.TrimPrefix(opsSx(ops), "("), ")")))
			m := newMach(conf, false, false, "none", content)
			m.E.SetAdapter(&c07DirectFill{m.A})
			res := m.apply(ops[0])
			c.Obs(id, "0.res", res)
			pol, _ := m.E.GetNamedPolicy("p")
			c.Obs(id, "0.pol.p", rulesKey(pol))
			// stability on the implementation alone: among equal priorities the stored order
			last := map[string]int{}
			for _, r := range pol {
				var idx int
				fmt.Sscanf(r[1], "s%d", &idx)
				if prev, ok := last[r[0]]; ok && idx < prev {
					c.Direct(id, "the post-load priority sort is not stable: rules of equal priority changed their stored order", rulesKey(pol))
					break
				}
				last[r[0]] = idx
			}
			c.NonTrivial(id)
			c.Count("directfill-load")
		}
		// (c) subject hierarchy
		nodes := []string{"n0", "n1", "n2"}
		if c.Thorough() {
			nodes = append(nodes, "n3")
		}
		nn := len(nodes)
		total := 1 << uint(nn*nn)
		step := 1
		if c.Thorough() {
			step = 1 // all 65536 graphs on 4 nodes
		}
		for mask := 0; mask < total; mask += step {
			var gs [][]string
			adj := make([][]int, nn) // parent -> children
			hasParent := make([]bool, nn)
			for a := 0; a < nn; a++ {
				for b := 0; b < nn; b++ {
					if mask&(1<<uint(a*nn+b)) != 0 {
						gs = append(gs, []string{nodes[a], nodes[b]}) // a is a child of b
						adj[b] = append(adj[b], a)
						hasParent[a] = true
					}
				}
			}
			var ps [][]string
			for _, nd := range nodes {
				ps = append(ps, []string{nd, "data1", "read", "allow"})
			}
			ps = append(ps, []string{"zed", "data1", "read", "deny"})
			id := fmt.Sprintf("c07.hier.%d.%d", nn, mask)
			// determinism of the Go result: roots' reachable sets pairwise disjoint, or a cycle below a root
			inGraph := make([]bool, nn)
			for a := 0; a < nn; a++ {
				if hasParent[a] || len(adj[a]) > 0 {
					inGraph[a] = true
				}
			}
			owner := make([]int, nn)
			for i := range owner {
				owner[i] = -1
			}
			deterministic := true
			cyc := false
			for r := 0; r < nn; r++ {
				if !inGraph[r] || hasParent[r] {
					continue
				}
				// DFS from root r
				state := make([]int, nn)
				var dfs func(x int)
				dfs = func(x int) {
					state[x] = 1
					if owner[x] != -1 && owner[x] != r {
						deterministic = false
					}
					owner[x] = r
					for _, y := range adj[x] {
						if state[y] == 1 {
							cyc = true
						} else if state[y] == 0 {
							dfs(y)
						} else if state[y] == 2 {
							// reached twice inside one root's traversal: level = longest path, fine
						}
					}
					state[x] = 2
				}
				dfs(r)
			}
			compare := deterministic || cyc
			type out struct {
				key string
			}
			bad := ""
			ch := make(chan out, 1)
			go func() {
				defer func() {
					if r := recover(); r != nil {
						ch <- out{"panic"}
					}
				}()
				m, _ := model.NewModelFromString(c07SubjModel)
				a := newRecAdapter()
				for _, g := range gs {
					a.Content = append(a.Content, prule{"g", g})
				}
				for _, p := range ps {
					a.Content = append(a.Content, prule{"p", p})
				}
				e, err := casbin.NewEnforcer(m, a)
				if err != nil {
					ch <- out{"err"}
					return
				}
				pol, _ := e.GetPolicy()
				key := rulesKey(pol)
				// the index must follow the re-ordering: every listed rule is present, and removing
				// the rule in slot i yields exactly the listing without slot i (same order)
				pol = append([][]string(nil), pol...)
				for i, r := range pol {
					if ok, _ := e.HasPolicy(toIface(r)...); !ok {
						bad = fmt.Sprintf("after the ordering load HasPolicy%v is false although the rule is listed %s", r, key)
					}
					if mask%7 == i%7 && bad == "" {
						okr, _ := e.RemovePolicy(toIface(r)...)
						after, _ := e.GetPolicy()
						var want [][]string
						want = append(want, pol[:i]...)
						want = append(want, pol[i+1:]...)
						if !okr || rulesKey(after) != rulesKey(want) {
							bad = fmt.Sprintf("after the ordering load RemovePolicy%v = %v leaves %s, expected %s", r, okr, rulesKey(after), rulesKey(want))
						}
						break
					}
				}
				ch <- out{key}
			}()
			var got string
			select {
			case o := <-ch:
				got = o.key
			case <-time.After(10 * time.Second):
				got = "hang"
			}
			if got == "hang" || got == "panic" {
				c.Direct(id, "ordering the policy by subject hierarchy did not terminate normally: "+got, QLL(gs))
			} else if bad != "" {
				c.Direct(id, bad, QLL(gs))
			}
			if compare {
				c.Case(id, fmt.Sprintf("hier %s %s -1", QLL(gs), QLL(ps)))
				c.Obs(id, "hier", got)
				if len(gs) > 0 {
					c.NonTrivial(id)
				}
				c.Count("hier-compared")
			} else {
				c.Count("hier-termination-only(map-order dependent)")
			}
		}
		// (c') subject priority with a domain column: the depth of a rule's subject is its depth
		// in the rule's OWN domain.  Per domain a random forest (at most one parent per name, no
		// cycle: the result does not depend on Go's map order), rules of both domains interleaved.
		nd = 60
		if c.Thorough() {
			nd = 1500
		}
		names := []string{"staff", "dev", "carol", "dan", "eve"}
		for i := 0; i < nd; i++ {
			var gs, ps [][]string
			for _, dom := range []string{"d1", "d2"} {
				perm := c.Rng.Perm(len(names))
				// parent of perm[k] is some perm[j], j < k, or none: acyclic, single parent
				for k := 1; k < len(perm); k++ {
					if c.Rng.Intn(3) > 0 {
						gs = append(gs, []string{names[perm[k]], names[perm[c.Rng.Intn(k)]], dom})
					}
				}
				for _, nm := range names {
					if c.Rng.Intn(4) > 0 {
						ps = append(ps, []string{nm, dom, "data1", "read", []string{"allow", "deny"}[c.Rng.Intn(2)]})
					}
				}
			}
			c.Rng.Shuffle(len(ps), func(a, b int) { ps[a], ps[b] = ps[b], ps[a] })
			c.Rng.Shuffle(len(gs), func(a, b int) { gs[a], gs[b] = gs[b], gs[a] })
			id := fmt.Sprintf("c07.hierdom.%d", i)
			mm, _ := model.NewModelFromString(c07SubjDomModel)
			a := newRecAdapter()
			for _, g := range gs {
				a.Content = append(a.Content, prule{"g", g})
			}
			for _, p := range ps {
				a.Content = append(a.Content, prule{"p", p})
			}
			got := "err"
			if e, err := casbin.NewEnforcer(mm, a); err == nil {
				pol, _ := e.GetPolicy()
				got = rulesKey(pol)
			}
			c.Case(id, fmt.Sprintf("hier %s %s 1", QLL(gs), QLL(ps)))
			c.Obs(id, "hier", got)
			c.NonTrivial(id)
			c.Count("hier-domain")
		}
		c07Probes(c)
	})
}

const c07SubjDomModel = `[request_definition]
r = sub, dom, obj, act
[policy_definition]
p = sub, dom, obj, act, eft
[role_definition]
g = _, _, _
[policy_effect]
e = subjectPriority(p_eft) || deny
[matchers]
m = g(r.sub, p.sub, r.dom) && r.dom == p.dom && r.obj == p.obj && r.act == p.act
`

// F11 (not repaired): UpdatePolicy that changes the priority keeps the slot.
func c07Probes(c *Ctx) {
	m := newMach(machPriority, false, false, "none", nil)
	m.apply(mOp{Kind: "add", Pt: "p", R1: [][]string{{"5", "alice", "data1", "read", "deny"}}})
	m.apply(mOp{Kind: "add", Pt: "p", R1: [][]string{{"10", "alice", "data1", "read", "deny"}}})
	m.apply(mOp{Kind: "update", Pt: "p", R1: [][]string{{"5", "alice", "data1", "read", "deny"}}, R2: [][]string{{"20", "alice", "data1", "read", "allow"}}})
	ok, _ := m.E.Enforce("alice", "data1", "read")
	if ok {
		c.Known = append(c.Known, "F11\treproduced\tUpdatePolicy 5->20 keeps the first slot: [20 allow][10 deny], allow decides although deny(10) has the smaller priority")
	} else {
		c.Known = append(c.Known, "F11\tgone\t")
	}
}
