package main

// Shared machinery for the management-API state machine (properties C05 C06 C07 C10 C11 C15):
// an operation vocabulary, its application to a real enforcer, a recording set-semantics
// adapter implementing every optional adapter interface (with injectable failures), recording
// watchers of the three kinds, and observers.  The Coq model is coq/Machine.v.

import (
	"errors"
	"fmt"
	"sort"
	"strings"

	casbin "github.com/casbin/casbin/v2"
	"github.com/casbin/casbin/v2/model"
	"github.com/casbin/casbin/v2/persist"
)

// ---------- model configurations ----------

type machDef struct {
	Pt    string
	IsG   bool
	Arity int
	Prio  int // priority column or -1
}

type machConf struct {
	Name string
	Text string
	Defs []machDef // sorted by ptype
}

func (c machConf) Sx() string {
	var items []string
	for _, d := range c.Defs {
		items = append(items, L(Q(d.Pt), B(d.IsG), I(d.Arity), I(d.Prio)))
	}
	return L(items...)
}

func (c machConf) Def(pt string) *machDef {
	for i := range c.Defs {
		if c.Defs[i].Pt == pt {
			return &c.Defs[i]
		}
	}
	return nil
}

var machRBAC = machConf{Name: "rbac", Text: `[request_definition]
r = sub, obj, act
[policy_definition]
p = sub, obj, act
p2 = sub, obj
[role_definition]
g = _, _
g2 = _, _
[policy_effect]
e = some(where (p.eft == allow))
[matchers]
m = g(r.sub, p.sub) && g2(r.obj, p.obj) && r.act == p.act
`, Defs: []machDef{{"g", true, 2, -1}, {"g2", true, 2, -1}, {"p", false, 3, -1}, {"p2", false, 2, -1}}}

var machDomain = machConf{Name: "domain", Text: `[request_definition]
r = sub, dom, obj, act
[policy_definition]
p = sub, dom, obj, act
[role_definition]
g = _, _, _
[policy_effect]
e = some(where (p.eft == allow))
[matchers]
m = g(r.sub, p.sub, r.dom) && r.dom == p.dom && r.obj == p.obj && r.act == p.act
`, Defs: []machDef{{"g", true, 3, -1}, {"p", false, 4, -1}}}

var machPriority = machConf{Name: "priority", Text: `[request_definition]
r = sub, obj, act
[policy_definition]
p = priority, sub, obj, act, eft
[role_definition]
g = _, _
[policy_effect]
e = priority(p.eft) || deny
[matchers]
m = g(r.sub, p.sub) && r.obj == p.obj && r.act == p.act
`, Defs: []machDef{{"g", true, 2, -1}, {"p", false, 5, 0}}}

// ---------- operations ----------

type mOp struct {
	Kind string // add addmany addmanyex remove removemany update updatemany removefiltered updatefiltered clear load save autosave autonotify failnext
	Pt   string
	R1   [][]string // rule(s) / old rules
	R2   [][]string // new rules
	Fi   int
	Fvs  []string
	B    bool
	K    int
	Self bool
	Quiet bool // part of a composite API call: executed by the model, not observed
	NoRes bool // last part of a composite call: observed, but the boolean result is the composite's
}

func (o mOp) Sx() string {
	var s string
	switch o.Kind {
	case "add", "remove":
		s = L(o.Kind, Q(o.Pt), QL(o.R1[0]))
	case "addmany", "addmanyex", "removemany":
		s = L(o.Kind, Q(o.Pt), QLL(o.R1))
	case "update":
		s = L(o.Kind, Q(o.Pt), QL(o.R1[0]), QL(o.R2[0]))
	case "updatemany":
		s = L(o.Kind, Q(o.Pt), QLL(o.R1), QLL(o.R2))
	case "removefiltered":
		s = L(o.Kind, Q(o.Pt), I(o.Fi), QL(o.Fvs))
	case "updatefiltered":
		s = L(o.Kind, Q(o.Pt), QLL(o.R2), I(o.Fi), QL(o.Fvs))
	case "clear", "load", "save":
		s = L(o.Kind)
	case "autosave", "autonotify":
		s = L(o.Kind, B(o.B))
	case "failnext":
		s = L(o.Kind, I(o.K))
	default:
		panic("bad op kind " + o.Kind)
	}
	if o.Self {
		s = L("self", s)
	}
	if o.Quiet {
		return L("quiet", s)
	}
	if o.NoRes {
		return L("nores", s)
	}
	return s
}

func opsSx(ops []mOp) string {
	items := make([]string, len(ops))
	for i, o := range ops {
		items[i] = o.Sx()
	}
	return L(items...)
}

// ---------- recording adapter ----------

type prule struct {
	Pt   string
	Rule []string
}

func sameRule(a, b []string) bool {
	if len(a) != len(b) {
		return false
	}
	for i := range a {
		if a[i] != b[i] {
			return false
		}
	}
	return true
}

func containsRule(rs [][]string, r []string) bool {
	for _, x := range rs {
		if sameRule(x, r) {
			return true
		}
	}
	return false
}

type recAdapter struct {
	Content []prule
	Log     []string
	FailIn  int // -1: never; k: the (k+1)-th call from now fails
	// BatchNotImpl: the batch calls answer the tolerated "not implemented" (an adapter with the
	// single-rule auto-save calls only); used by implementation-only predicates, not by the model
	BatchNotImpl bool
}

var errNotImplemented = errors.New("not implemented")

func newRecAdapter() *recAdapter { return &recAdapter{FailIn: -1} }

var errInjected = errors.New("injected adapter failure")

func (a *recAdapter) enter(entry string) error {
	a.Log = append(a.Log, entry)
	if a.FailIn == 0 {
		a.FailIn = -1
		return errInjected
	}
	if a.FailIn > 0 {
		a.FailIn--
	}
	return nil
}

func (a *recAdapter) has(pt string, r []string) bool {
	for _, x := range a.Content {
		if x.Pt == pt && sameRule(x.Rule, r) {
			return true
		}
	}
	return false
}
func (a *recAdapter) cAdd(pt string, r []string) {
	if !a.has(pt, r) {
		a.Content = append(a.Content, prule{pt, append([]string(nil), r...)})
	}
}
func (a *recAdapter) cRemove(pt string, r []string) {
	var out []prule
	for _, x := range a.Content {
		if !(x.Pt == pt && sameRule(x.Rule, r)) {
			out = append(out, x)
		}
	}
	a.Content = out
}

// the field filter of the store, total: out-of-range fields do not match
func specMatches(fi int, fvs []string, r []string) bool {
	for i, fv := range fvs {
		if fv == "" {
			continue
		}
		if fi+i >= len(r) {
			return false
		}
		if r[fi+i] != fv {
			return false
		}
	}
	return true
}
func (a *recAdapter) cUpdate(pt string, o, n []string) {
	if !a.has(pt, o) {
		return
	}
	if a.has(pt, n) {
		a.cRemove(pt, o)
		return
	}
	for i, x := range a.Content {
		if x.Pt == pt && sameRule(x.Rule, o) {
			a.Content[i] = prule{pt, append([]string(nil), n...)}
		}
	}
}

func (a *recAdapter) LoadPolicy(m model.Model) error {
	if err := a.enter("load"); err != nil {
		return err
	}
	for _, x := range a.Content {
		if err := persist.LoadPolicyArray(append([]string{x.Pt}, x.Rule...), m); err != nil {
			return err
		}
	}
	return nil
}

func (a *recAdapter) SavePolicy(m model.Model) error {
	var all []prule
	for _, sec := range []string{"g", "p"} {
		var pts []string
		for pt := range m[sec] {
			pts = append(pts, pt)
		}
		sort.Strings(pts)
		for _, pt := range pts {
			for _, r := range m[sec][pt].Policy {
				all = append(all, prule{pt, append([]string(nil), r...)})
			}
		}
	}
	sort.SliceStable(all, func(i, j int) bool { return all[i].Pt < all[j].Pt })
	var parts []string
	for _, x := range all {
		parts = append(parts, Q(x.Pt)+rulesKey([][]string{x.Rule}))
	}
	if err := a.enter("save " + strings.Join(parts, "")); err != nil {
		return err
	}
	a.Content = all
	return nil
}

func (a *recAdapter) AddPolicy(sec, pt string, rule []string) error {
	if err := a.enter("add " + Q(pt) + rulesKey([][]string{rule})); err != nil {
		return err
	}
	a.cAdd(pt, rule)
	return nil
}
func (a *recAdapter) RemovePolicy(sec, pt string, rule []string) error {
	if err := a.enter("remove " + Q(pt) + rulesKey([][]string{rule})); err != nil {
		return err
	}
	a.cRemove(pt, rule)
	return nil
}
func (a *recAdapter) RemoveFilteredPolicy(sec, pt string, fi int, fvs ...string) error {
	if err := a.enter(fmt.Sprintf("removefiltered %s %d %s", Q(pt), fi, QL(fvs))); err != nil {
		return err
	}
	var out []prule
	for _, x := range a.Content {
		if !(x.Pt == pt && specMatches(fi, fvs, x.Rule)) {
			out = append(out, x)
		}
	}
	a.Content = out
	return nil
}
func (a *recAdapter) AddPolicies(sec, pt string, rules [][]string) error {
	if a.BatchNotImpl {
		return errNotImplemented
	}
	if err := a.enter("addmany " + Q(pt) + rulesKey(rules)); err != nil {
		return err
	}
	for _, r := range rules {
		a.cAdd(pt, r)
	}
	return nil
}
func (a *recAdapter) RemovePolicies(sec, pt string, rules [][]string) error {
	if a.BatchNotImpl {
		return errNotImplemented
	}
	if err := a.enter("removemany " + Q(pt) + rulesKey(rules)); err != nil {
		return err
	}
	for _, r := range rules {
		a.cRemove(pt, r)
	}
	return nil
}
func (a *recAdapter) UpdatePolicy(sec, pt string, o, n []string) error {
	if err := a.enter("update " + Q(pt) + rulesKey([][]string{o}) + rulesKey([][]string{n})); err != nil {
		return err
	}
	a.cUpdate(pt, o, n)
	return nil
}
func (a *recAdapter) UpdatePolicies(sec, pt string, os, ns [][]string) error {
	if err := a.enter("updatemany " + Q(pt) + rulesKey(os) + "/" + rulesKey(ns)); err != nil {
		return err
	}
	for _, o := range os {
		if !a.has(pt, o) {
			return nil // atomic: all old rules stored, or no change
		}
	}
	for i := range os {
		if i < len(ns) {
			a.cUpdate(pt, os[i], ns[i])
		}
	}
	return nil
}
func (a *recAdapter) UpdateFilteredPolicies(sec, pt string, ns [][]string, fi int, fvs ...string) ([][]string, error) {
	if err := a.enter(fmt.Sprintf("updatefiltered %s %s %d %s", Q(pt), rulesKey(ns), fi, QL(fvs))); err != nil {
		return nil, err
	}
	var out []prule
	var old [][]string
	for _, x := range a.Content {
		if x.Pt == pt && specMatches(fi, fvs, x.Rule) {
			old = append(old, x.Rule)
		} else {
			out = append(out, x)
		}
	}
	a.Content = out
	for _, r := range ns {
		a.cAdd(pt, r)
	}
	return old, nil
}

func (a *recAdapter) contentKey() string {
	var parts []string
	for _, x := range a.Content {
		parts = append(parts, Q(x.Pt)+rulesKey([][]string{x.Rule}))
	}
	return strings.Join(parts, "")
}

// ---------- recording watchers ----------

type recWatcherBase struct {
	Log      []string
	snap     func() string
	Callback func(string) // what SetWatcher / the user registered through SetUpdateCallback
}

func (w *recWatcherBase) rec(what string) { w.Log = append(w.Log, what+" @ "+w.snap()) }
func (w *recWatcherBase) SetUpdateCallback(f func(string)) error { w.Callback = f; return nil }
func (w *recWatcherBase) Update() error                         { w.rec("update"); return nil }
func (w *recWatcherBase) Close()                                {}

type recWatcherPlain struct{ recWatcherBase }

type recWatcherEx struct{ recWatcherBase }

func (w *recWatcherEx) UpdateForAddPolicy(sec, pt string, params ...string) error {
	w.rec("add " + Q(pt) + rulesKey([][]string{params}))
	return nil
}
func (w *recWatcherEx) UpdateForRemovePolicy(sec, pt string, params ...string) error {
	w.rec("remove " + Q(pt) + rulesKey([][]string{params}))
	return nil
}
func (w *recWatcherEx) UpdateForRemoveFilteredPolicy(sec, pt string, fi int, fvs ...string) error {
	w.rec(fmt.Sprintf("removefiltered %s %d %s", Q(pt), fi, QL(fvs)))
	return nil
}
func (w *recWatcherEx) UpdateForSavePolicy(m model.Model) error { w.rec("save"); return nil }
func (w *recWatcherEx) UpdateForAddPolicies(sec, pt string, rules ...[]string) error {
	w.rec("addmany " + Q(pt) + rulesKey(rules))
	return nil
}
func (w *recWatcherEx) UpdateForRemovePolicies(sec, pt string, rules ...[]string) error {
	w.rec("removemany " + Q(pt) + rulesKey(rules))
	return nil
}

type recWatcherUpd struct{ recWatcherBase }

func (w *recWatcherUpd) UpdateForUpdatePolicy(sec, pt string, o, n []string) error {
	w.rec("updatepolicy " + Q(pt) + rulesKey([][]string{o}) + rulesKey([][]string{n}))
	return nil
}
func (w *recWatcherUpd) UpdateForUpdatePolicies(sec, pt string, os, ns [][]string) error {
	w.rec("updatepolicies " + Q(pt) + rulesKey(os) + "/" + rulesKey(ns))
	return nil
}

// ---------- a machine instance ----------

type mach struct {
	Conf    machConf
	E       *casbin.Enforcer
	A       *recAdapter
	WLog    *[]string
	WKind   string
	logSeen int
	wSeen   int
	AutoSave bool // current auto-save flag (tracked by newMach / apply)
}

func toIface(r []string) []interface{} {
	out := make([]interface{}, len(r))
	for i, f := range r {
		out[i] = f
	}
	return out
}

// newMach builds a real enforcer over a recording adapter with the given initial content.
func newMach(conf machConf, autosave, autonotify bool, wkind string, content []prule) *mach {
	m, err := model.NewModelFromString(conf.Text)
	if err != nil {
		panic(err)
	}
	a := newRecAdapter()
	a.Content = append([]prule(nil), content...)
	// the enforcer is created without loading (the model starts empty, like init_state)
	e, err := casbin.NewEnforcer(m)
	if err != nil {
		panic(err)
	}
	e.SetAdapter(a)
	e.EnableAutoSave(autosave)
	e.EnableAutoNotifyWatcher(autonotify)
	mm := &mach{Conf: conf, E: e, A: a, WKind: wkind, AutoSave: autosave}
	snap := func() string { return mm.listedKey() + " # " + a.contentKey() }
	switch wkind {
	case "plain":
		w := &recWatcherPlain{recWatcherBase{snap: snap}}
		mm.WLog = &w.Log
		_ = e.SetWatcher(w)
	case "ex":
		w := &recWatcherEx{recWatcherBase{snap: snap}}
		mm.WLog = &w.Log
		_ = e.SetWatcher(w)
	case "upd":
		w := &recWatcherUpd{recWatcherBase{snap: snap}}
		mm.WLog = &w.Log
		_ = e.SetWatcher(w)
	default:
		empty := []string{}
		mm.WLog = &empty
	}
	return mm
}

func (m *mach) listedKey() string {
	var parts []string
	for _, d := range m.Conf.Defs {
		var rules [][]string
		if d.IsG {
			rules, _ = m.E.GetNamedGroupingPolicy(d.Pt)
		} else {
			rules, _ = m.E.GetNamedPolicy(d.Pt)
		}
		parts = append(parts, Q(d.Pt)+"="+rulesKey(rules))
	}
	return strings.Join(parts, ";")
}

func resStr(ok bool, err error) string {
	switch {
	case err == nil && ok:
		return "ok1"
	case err == nil && !ok:
		return "ok0"
	case err != nil && ok:
		return "trueerr"
	default:
		return "falseerr"
	}
}

// apply runs one operation on the real enforcer.
func (m *mach) apply(o mOp) (res string) {
	defer func() {
		if r := recover(); r != nil {
			res = "panic"
		}
	}()
	e := m.E
	d := m.Conf.Def(o.Pt)
	isG := d != nil && d.IsG
	sec := "p"
	if isG {
		sec = "g"
	}
	switch o.Kind {
	case "add":
		if o.Self {
			return resStr(e.SelfAddPolicy(sec, o.Pt, o.R1[0]))
		}
		if isG {
			return resStr(e.AddNamedGroupingPolicy(o.Pt, toIface(o.R1[0])...))
		}
		return resStr(e.AddNamedPolicy(o.Pt, toIface(o.R1[0])...))
	case "addmany":
		if o.Self {
			return resStr(e.SelfAddPolicies(sec, o.Pt, o.R1))
		}
		if isG {
			return resStr(e.AddNamedGroupingPolicies(o.Pt, o.R1))
		}
		return resStr(e.AddNamedPolicies(o.Pt, o.R1))
	case "addmanyex":
		if o.Self {
			return resStr(e.SelfAddPoliciesEx(sec, o.Pt, o.R1))
		}
		if isG {
			return resStr(e.AddNamedGroupingPoliciesEx(o.Pt, o.R1))
		}
		return resStr(e.AddNamedPoliciesEx(o.Pt, o.R1))
	case "remove":
		if o.Self {
			return resStr(e.SelfRemovePolicy(sec, o.Pt, o.R1[0]))
		}
		if isG {
			return resStr(e.RemoveNamedGroupingPolicy(o.Pt, toIface(o.R1[0])...))
		}
		return resStr(e.RemoveNamedPolicy(o.Pt, toIface(o.R1[0])...))
	case "removemany":
		if o.Self {
			return resStr(e.SelfRemovePolicies(sec, o.Pt, o.R1))
		}
		if isG {
			return resStr(e.RemoveNamedGroupingPolicies(o.Pt, o.R1))
		}
		return resStr(e.RemoveNamedPolicies(o.Pt, o.R1))
	case "update":
		if o.Self {
			return resStr(e.SelfUpdatePolicy(sec, o.Pt, o.R1[0], o.R2[0]))
		}
		if isG {
			return resStr(e.UpdateNamedGroupingPolicy(o.Pt, o.R1[0], o.R2[0]))
		}
		return resStr(e.UpdateNamedPolicy(o.Pt, o.R1[0], o.R2[0]))
	case "updatemany":
		if o.Self {
			return resStr(e.SelfUpdatePolicies(sec, o.Pt, o.R1, o.R2))
		}
		if isG {
			return resStr(e.UpdateNamedGroupingPolicies(o.Pt, o.R1, o.R2))
		}
		return resStr(e.UpdateNamedPolicies(o.Pt, o.R1, o.R2))
	case "removefiltered":
		if o.Self {
			return resStr(e.SelfRemoveFilteredPolicy(sec, o.Pt, o.Fi, o.Fvs...))
		}
		if isG {
			return resStr(e.RemoveFilteredNamedGroupingPolicy(o.Pt, o.Fi, o.Fvs...))
		}
		return resStr(e.RemoveFilteredNamedPolicy(o.Pt, o.Fi, o.Fvs...))
	case "updatefiltered":
		return resStr(e.UpdateFilteredNamedPolicies(o.Pt, o.R2, o.Fi, o.Fvs...))
	case "clear":
		e.ClearPolicy()
		return "ok1"
	case "load":
		err := e.LoadPolicy()
		return resStr(err == nil, err)
	case "save":
		err := e.SavePolicy()
		return resStr(err == nil, err)
	case "autosave":
		e.EnableAutoSave(o.B)
		m.AutoSave = o.B
		return "ok1"
	case "autonotify":
		e.EnableAutoNotifyWatcher(o.B)
		return "ok1"
	case "failnext":
		m.A.FailIn = o.K
		return "ok1"
	}
	panic("bad op " + o.Kind)
}

// newAdapterLog / newWatcherLog return what was recorded since the last call.
func (m *mach) newAdapterLog() string {
	s := strings.Join(m.A.Log[m.logSeen:], " ; ")
	m.logSeen = len(m.A.Log)
	return s
}
func (m *mach) newWatcherLog() string {
	s := strings.Join((*m.WLog)[m.wSeen:], " ;; ")
	m.wSeen = len(*m.WLog)
	return s
}

// linksKey: HasLink over names x names (x domains) as a bit string, plus sorted GetRoles/GetUsers.
func (m *mach) linksKey(pt string, names []string, domains []string) string {
	rm := m.E.GetNamedRoleManager(pt)
	if rm == nil {
		return "norm"
	}
	var b strings.Builder
	doms := domains
	if len(doms) == 0 {
		doms = []string{""}
	}
	for _, d := range doms {
		for _, u := range names {
			for _, r := range names {
				var ok bool
				if len(domains) == 0 {
					ok, _ = rm.HasLink(u, r)
				} else {
					ok, _ = rm.HasLink(u, r, d)
				}
				b.WriteString(B(ok))
			}
		}
		for _, u := range names {
			var rs, us []string
			if len(domains) == 0 {
				rs, _ = rm.GetRoles(u)
				us, _ = rm.GetUsers(u)
			} else {
				rs, _ = rm.GetRoles(u, d)
				us, _ = rm.GetUsers(u, d)
			}
			b.WriteString(" " + QL(sortedStrings(rs)) + QL(sortedStrings(us)))
		}
		b.WriteString("|")
	}
	return b.String()
}

// machDirectFill is an adapter that appends to the model's rule lists itself (as database
// adapters that bypass persist.LoadPolicyLine do), so that rules which LoadPolicyLine would
// refuse (a grouping rule shorter than its role definition) reach the rebuild of the role links.
type machDirectFill struct{ *recAdapter }

func (a *machDirectFill) LoadPolicy(m model.Model) error {
	for _, x := range a.Content {
		ast := m[x.Pt[:1]][x.Pt]
		if ast == nil {
			continue
		}
		ast.Policy = append(ast.Policy, append([]string(nil), x.Rule...))
		ast.PolicyMap[strings.Join(x.Rule, ",")] = len(ast.Policy) - 1
	}
	return nil
}

// machFailedReloads enumerates reloads that are rejected while the role links are rebuilt: the
// old (valid) content, then a new content with new valid grouping rules around one rule that is
// too short for the role definition, at every position.  f is called after the rejected reload.
func machFailedReloads(c *Ctx, tag string, f func(id string, m *mach, conf machConf)) {
	type fam struct {
		conf       machConf
		old, fresh []prule
		short      prule
	}
	fams := []fam{
		{machRBAC,
			[]prule{{"p", []string{"admin", "data1", "read"}}, {"p", []string{"staff", "data2", "read"}}, {"g", []string{"alice", "admin"}}},
			[]prule{{"p", []string{"admin", "data1", "read"}}, {"p", []string{"staff", "data2", "read"}}, {"g", []string{"carol", "admin"}}, {"g", []string{"alice", "staff"}}, {"g", []string{"bob", "admin"}}},
			prule{"g", []string{"dave"}}},
		{machDomain,
			[]prule{{"p", []string{"admin", "d1", "data1", "read"}}, {"g", []string{"alice", "admin", "d1"}}},
			[]prule{{"p", []string{"admin", "d1", "data1", "read"}}, {"g", []string{"carol", "admin", "d1"}}, {"g", []string{"alice", "admin", "d2"}}, {"g", []string{"bob", "admin", "d1"}}},
			prule{"g", []string{"dave", "admin"}}},
	}
	for fi, fm := range fams {
		for pos := 0; pos <= len(fm.fresh); pos++ {
			m := newMach(fm.conf, false, false, "none", fm.old)
			m.E.SetAdapter(&machDirectFill{m.A})
			if err := m.E.LoadPolicy(); err != nil {
				c.Direct(tag+".failed-reload", "initial load failed", err.Error())
				continue
			}
			// ask before, so that memoised answers exist
			for _, r := range fm.fresh {
				if r.Pt == "p" {
					_, _ = m.E.Enforce(toIface(append([]string{"carol"}, r.Rule[1:]...))...)
					_, _ = m.E.Enforce(toIface(append([]string{"alice"}, r.Rule[1:]...))...)
				}
			}
			var nc []prule
			nc = append(nc, fm.fresh[:pos]...)
			nc = append(nc, fm.short)
			nc = append(nc, fm.fresh[pos:]...)
			m.A.Content = nc
			_ = m.E.LoadPolicy()
			f(fmt.Sprintf("%s.failed-reload.%d.%d", tag, fi, pos), m, fm.conf)
			c.Count("failed-reload")
		}
	}
}
