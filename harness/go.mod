module verif/harness

go 1.13

require (
	github.com/casbin/casbin/v2 v2.0.0
	github.com/casbin/govaluate v1.3.0
)

replace github.com/casbin/casbin/v2 => /repo
