package main

import (
	"fmt"
	"strings"

	casbin "github.com/casbin/casbin/v2"
)

// C16, history mode.  The property quantifies over role graphs and policies however they were
// reached.  Here ONE enforcer per history is driven through a sequence of rbac_api calls
// (AddRoleForUser, AddRolesForUser, DeleteRoleForUser, DeleteRolesForUser, DeleteUser, DeleteRole,
// AddPermission(s)ForUser, DeletePermission(s)ForUser, DeletePermission, the *InDomain variants,
// DeleteAllUsersByDomain, DeleteDomains, plus UpdateGroupingPolicy / RemoveFilteredGroupingPolicy /
// BuildRoleLinks), and after EVERY call the full observation of c16Observe is taken on that same
// enforcer: every introspection API for every name (and domain), Enforce for every subject x
// permission (so every g() answer is memoised before the next change), the property's own
// predicate (introspection vs Enforce / HasLink), and — as a case for the Coq model — the rules the
// enforcer LISTS at that moment (GetGroupingPolicy / GetPolicy): the model is a function of the
// listed rules, so whatever the role manager, the compiled-matcher cache or the g() memo kept from
// earlier states shows as a difference.

type c16HOp struct {
	K string     // call name
	A []string   // string arguments
	M [][]string // list arguments (roles / permissions)
}

func (o c16HOp) String() string {
	s := o.K + "(" + strings.Join(o.A, ",")
	for _, m := range o.M {
		s += " [" + strings.Join(m, ",") + "]"
	}
	return s + ")"
}

func c16IfaceAll(ss []string) []interface{} { return toIfaceC16(ss) }

// apply performs the call on the real enforcer; results are not observables of this property
// (C05/C06 own them), only the state they leave behind is.
func (o c16HOp) apply(e *casbin.Enforcer) (res string) {
	defer func() {
		if x := recover(); x != nil {
			res = "panic:" + fmt.Sprint(x)
		}
	}()
	var ok bool
	var err error
	a := o.A
	switch o.K {
	case "AddRoleForUser":
		ok, err = e.AddRoleForUser(a[0], a[1], a[2:]...)
	case "AddRolesForUser":
		ok, err = e.AddRolesForUser(a[0], o.M[0], a[1:]...)
	case "DeleteRoleForUser":
		ok, err = e.DeleteRoleForUser(a[0], a[1], a[2:]...)
	case "DeleteRolesForUser":
		ok, err = e.DeleteRolesForUser(a[0], a[1:]...)
	case "DeleteUser":
		ok, err = e.DeleteUser(a[0])
	case "DeleteRole":
		ok, err = e.DeleteRole(a[0])
	case "AddPermissionForUser":
		ok, err = e.AddPermissionForUser(a[0], a[1:]...)
	case "AddPermissionsForUser":
		ok, err = e.AddPermissionsForUser(a[0], o.M...)
	case "DeletePermissionForUser":
		ok, err = e.DeletePermissionForUser(a[0], a[1:]...)
	case "DeletePermissionsForUser":
		ok, err = e.DeletePermissionsForUser(a[0])
	case "DeletePermission":
		ok, err = e.DeletePermission(a...)
	case "AddRoleForUserInDomain":
		ok, err = e.AddRoleForUserInDomain(a[0], a[1], a[2])
	case "DeleteRoleForUserInDomain":
		ok, err = e.DeleteRoleForUserInDomain(a[0], a[1], a[2])
	case "DeleteRolesForUserInDomain":
		ok, err = e.DeleteRolesForUserInDomain(a[0], a[1])
	case "DeleteAllUsersByDomain":
		ok, err = e.DeleteAllUsersByDomain(a[0])
	case "DeleteDomains":
		ok, err = e.DeleteDomains(a...)
	case "UpdateGroupingPolicy":
		ok, err = e.UpdateGroupingPolicy(o.M[0], o.M[1])
	case "RemoveFilteredGroupingPolicy1":
		ok, err = e.RemoveFilteredGroupingPolicy(1, a[0])
	case "AddGroupingPolicies":
		ok, err = e.AddGroupingPolicies(o.M)
	case "RemoveGroupingPolicies":
		ok, err = e.RemoveGroupingPolicies(o.M)
	case "BuildRoleLinks":
		err = e.BuildRoleLinks()
		ok = true
	case "ClearPolicy":
		e.ClearPolicy()
		ok = true
	case "ModelRemoveAndRebuild":
		// the manual way: edit the model's rule list, then rebuild the role links from it
		ok, err = e.GetModel().RemovePolicy("g", "g", a)
		if err == nil {
			err = e.BuildRoleLinks()
		}
	default:
		panic("c16: bad history op " + o.K)
	}
	if err != nil {
		return "err"
	}
	return B(ok)
}

type c16HUni struct {
	kind    string
	names   []string
	domains []string // [""] for plain
	perms   [][]string
}

func c16Listed(e *casbin.Enforcer, kind string) (links [][3]string, policy [][]string) {
	g, err := e.GetGroupingPolicy()
	if err != nil {
		panic(err)
	}
	for _, r := range g {
		l := [3]string{r[0], r[1], ""}
		if kind == "dom" {
			l[2] = r[2]
		}
		links = append(links, l)
	}
	p, err := e.GetPolicy()
	if err != nil {
		panic(err)
	}
	for _, r := range p {
		policy = append(policy, append([]string(nil), r...))
	}
	return
}

// c16HGen draws the next call from the current listing.
type c16HGen struct {
	c       *Ctx
	u       c16HUni
	pending []c16HOp
}

func (g *c16HGen) name() string { return g.u.names[g.c.Rng.Intn(len(g.u.names))] }
func (g *c16HGen) dom() string  { return g.u.domains[g.c.Rng.Intn(len(g.u.domains))] }
func (g *c16HGen) perm(d string) []string {
	var cand [][]string
	for _, p := range g.u.perms {
		if g.u.kind == "plain" || d == "" || p[0] == d {
			cand = append(cand, p)
		}
	}
	return cand[g.c.Rng.Intn(len(cand))]
}
func (g *c16HGen) dargs(d string, a ...string) []string {
	if g.u.kind == "dom" {
		return append(a, d)
	}
	return a
}
func (g *c16HGen) grule(u, r, d string) []string { return g.dargs(d, u, r) }

// a new link that extends the existing graph (chains, diamonds, cycles) half of the time
func (g *c16HGen) newLink(links [][3]string) (string, string, string) {
	rng := g.c.Rng
	if len(links) > 0 && rng.Intn(2) == 0 {
		l := links[rng.Intn(len(links))]
		if rng.Intn(2) == 0 {
			return l[1], g.name(), l[2] // on top of a role
		}
		return g.name(), l[0], l[2] // below a user
	}
	return g.name(), g.name(), g.dom()
}

// a node with users below and roles above (in one domain)
func c16Mids(links [][3]string) [][2]string {
	var out [][2]string
	seen := map[[2]string]bool{}
	for _, a := range links {
		for _, b := range links {
			if a[2] == b[2] && a[1] == b[0] && a[0] != a[1] && b[0] != b[1] {
				k := [2]string{a[1], a[2]}
				if !seen[k] {
					seen[k] = true
					out = append(out, k)
				}
			}
		}
	}
	return out
}

func (g *c16HGen) next(links [][3]string, policy [][]string) c16HOp {
	if len(g.pending) > 0 {
		o := g.pending[0]
		g.pending = g.pending[1:]
		return o
	}
	rng := g.c.Rng
	dom := g.u.kind == "dom"
	x := rng.Intn(100)
	switch {
	case x < 27:
		u, r, d := g.newLink(links)
		if dom && rng.Intn(2) == 0 {
			return c16HOp{K: "AddRoleForUserInDomain", A: []string{u, r, d}}
		}
		return c16HOp{K: "AddRoleForUser", A: g.dargs(d, u, r)}
	case x < 32:
		u, d := g.name(), g.dom()
		return c16HOp{K: "AddRolesForUser", A: g.dargs(d, u), M: [][]string{{g.name(), g.name()}}}
	case x < 44:
		if len(links) > 0 && rng.Intn(8) > 0 {
			l := links[rng.Intn(len(links))]
			if dom && rng.Intn(2) == 0 {
				return c16HOp{K: "DeleteRoleForUserInDomain", A: []string{l[0], l[1], l[2]}}
			}
			return c16HOp{K: "DeleteRoleForUser", A: g.dargs(l[2], l[0], l[1])}
		}
		return c16HOp{K: "DeleteRoleForUser", A: g.dargs(g.dom(), g.name(), g.name())}
	case x < 50:
		// delete ALL roles of a node, preferably of an intermediate one, then (queued) give it a
		// new parent: the shape of an orphaned role object
		u, d := g.name(), g.dom()
		if mids := c16Mids(links); len(mids) > 0 && rng.Intn(4) > 0 {
			m := mids[rng.Intn(len(mids))]
			u, d = m[0], m[1]
		}
		if rng.Intn(2) == 0 {
			g.pending = append(g.pending, c16HOp{K: "AddRoleForUser", A: g.dargs(d, u, g.name())})
		}
		switch {
		case dom && rng.Intn(2) == 0:
			return c16HOp{K: "DeleteRolesForUserInDomain", A: []string{u, d}}
		case rng.Intn(3) == 0:
			// one by one
			var ops []c16HOp
			for _, l := range links {
				if l[0] == u && l[2] == d {
					ops = append(ops, c16HOp{K: "DeleteRoleForUser", A: g.dargs(d, u, l[1])})
				}
			}
			if len(ops) > 0 {
				g.pending = append(ops[1:], g.pending...)
				return ops[0]
			}
		}
		return c16HOp{K: "DeleteRolesForUser", A: g.dargs(d, u)}
	case x < 53:
		return c16HOp{K: "DeleteUser", A: []string{g.name()}}
	case x < 56:
		return c16HOp{K: "DeleteRole", A: []string{g.name()}}
	case x < 70:
		u := g.name()
		if len(links) > 0 && rng.Intn(2) == 0 {
			u = links[rng.Intn(len(links))][1] // a permission for a role
		}
		return c16HOp{K: "AddPermissionForUser", A: append([]string{u}, g.perm("")...)}
	case x < 73:
		return c16HOp{K: "AddPermissionsForUser", A: []string{g.name()}, M: [][]string{g.perm(""), g.perm("")}}
	case x < 79:
		if len(policy) > 0 && rng.Intn(8) > 0 {
			return c16HOp{K: "DeletePermissionForUser", A: policy[rng.Intn(len(policy))]}
		}
		return c16HOp{K: "DeletePermissionForUser", A: append([]string{g.name()}, g.perm("")...)}
	case x < 81:
		return c16HOp{K: "DeletePermissionsForUser", A: []string{g.name()}}
	case x < 84:
		return c16HOp{K: "DeletePermission", A: g.perm("")}
	case x < 88:
		if len(links) > 0 {
			l := links[rng.Intn(len(links))]
			nu, nr := l[0], g.name()
			if rng.Intn(2) == 0 {
				nu, nr = g.name(), l[1]
			}
			// guard (F08, known for C06/C19): UpdateGroupingPolicy onto a rule that is already listed
			// lists it twice; a later removal then drops the link while the rule stays listed, so
			// the listing no longer determines the role graph.  Only updates to a rule that is not
			// listed are generated.
			listed := false
			for _, x := range links {
				if x == [3]string{nu, nr, l[2]} {
					listed = true
				}
			}
			if !listed {
				return c16HOp{K: "UpdateGroupingPolicy", M: [][]string{g.grule(l[0], l[1], l[2]), g.grule(nu, nr, l[2])}}
			}
			g.c.Count("hist-redrawn:update-onto-listed-rule(F08)")
		}
		return g.next(links, policy)
	case x < 90:
		return c16HOp{K: "RemoveFilteredGroupingPolicy1", A: []string{g.name()}}
	case x < 93:
		u1, r1, d1 := g.newLink(links)
		u2, r2, d2 := g.newLink(links)
		return c16HOp{K: "AddGroupingPolicies", M: [][]string{g.grule(u1, r1, d1), g.grule(u2, r2, d2)}}
	case x < 95:
		if len(links) >= 2 {
			a, b := links[rng.Intn(len(links))], links[rng.Intn(len(links))]
			if a != b {
				return c16HOp{K: "RemoveGroupingPolicies", M: [][]string{g.grule(a[0], a[1], a[2]), g.grule(b[0], b[1], b[2])}}
			}
		}
		return g.next(links, policy)
	case x < 94:
		if dom {
			if rng.Intn(2) == 0 {
				return c16HOp{K: "DeleteAllUsersByDomain", A: []string{g.dom()}}
			}
			return c16HOp{K: "DeleteDomains", A: []string{g.dom()}}
		}
		return g.next(links, policy)
	default:
		if len(links) > 0 && len(policy) > 0 && rng.Intn(4) == 0 {
			// wipe everything, then grant the first listed permission again (no role links): what
			// was reachable through roles before must be gone from Enforce as from the listings
			g.pending = append([]c16HOp{{K: "AddPermissionForUser", A: append([]string(nil), policy[0]...)}}, g.pending...)
			return c16HOp{K: "ClearPolicy"}
		}
		if len(links) > 0 && rng.Intn(3) > 0 {
			l := links[rng.Intn(len(links))]
			return c16HOp{K: "ModelRemoveAndRebuild", A: g.grule(l[0], l[1], l[2])}
		}
		return c16HOp{K: "BuildRoleLinks"}
	}
}

// scripted openings: shapes that must be in the stream whatever the seed
func (g *c16HGen) script(k int) []c16HOp {
	rng := g.c.Rng
	perm := rng.Perm(len(g.u.names))
	n := func(i int) string { return g.u.names[perm[i%len(perm)]] }
	d := g.dom()
	add := func(u, r string) c16HOp { return c16HOp{K: "AddRoleForUser", A: g.dargs(d, u, r)} }
	del := func(u, r string) c16HOp { return c16HOp{K: "DeleteRoleForUser", A: g.dargs(d, u, r)} }
	grant := func(u string) c16HOp { return c16HOp{K: "AddPermissionForUser", A: append([]string{u}, g.perm(d)...)} }
	switch k % 6 {
	case 0:
		// user -> mid -> {p1, p2}; all parents of mid deleted; mid re-parented
		ops := []c16HOp{grant(n(2)), grant(n(3)), add(n(0), n(1)), add(n(1), n(2))}
		if rng.Intn(2) == 0 {
			ops = append(ops, add(n(1), n(3)), del(n(1), n(3)))
		}
		return append(ops, del(n(1), n(2)), add(n(1), n(3)), del(n(0), n(1)), add(n(0), n(1)))
	case 1:
		// the same through DeleteRolesForUser on a longer chain
		return []c16HOp{grant(n(3)), add(n(0), n(1)), add(n(1), n(2)), add(n(2), n(3)),
			{K: "DeleteRolesForUser", A: g.dargs(d, n(2))}, add(n(2), n(3)),
			{K: "DeleteRolesForUser", A: g.dargs(d, n(1))}, grant(n(2)), add(n(1), n(2))}
	case 2:
		// a link that is redundant when added, then the longer path is cut
		return []c16HOp{grant(n(2)), add(n(0), n(1)), add(n(1), n(2)), add(n(0), n(2)), del(n(1), n(2)), del(n(0), n(2)), add(n(1), n(2))}
	case 3:
		// a request denied (and its g() answers memoised), then granted through a new role
		return []c16HOp{grant(n(1)), grant(n(2)), add(n(1), n(2)), add(n(0), n(1)), del(n(0), n(1)), add(n(0), n(2))}
	case 4:
		// a cycle built and broken
		return []c16HOp{grant(n(0)), add(n(0), n(1)), add(n(1), n(2)), add(n(2), n(0)), grant(n(2)), del(n(1), n(2)), add(n(1), n(2)), {K: "DeleteRole", A: []string{n(1)}}}
	default:
		// user and role deletion in the middle of a chain, then rebuilt
		return []c16HOp{grant(n(2)), add(n(0), n(1)), add(n(1), n(2)), {K: "DeleteUser", A: []string{n(1)}}, add(n(1), n(2)), add(n(0), n(1))}
	}
}

// c16History runs one history; returns the number of observed states.
func c16History(c *Ctx, tag string, hno int, u c16HUni, steps int, scripted bool) int {
	e := c16Enforcer(u.kind)
	g := &c16HGen{c: c, u: u}
	if scripted {
		g.pending = g.script(hno)
		if steps < len(g.pending)+2 {
			steps = len(g.pending) + 2
		}
	}
	query := append(append([]string(nil), u.names...), "zed")
	var hist []string
	// the empty enforcer is observed too: every request is denied and memoised before the first grant
	for k := 0; k <= steps; k++ {
		if k > 0 {
			links, policy := c16Listed(e, u.kind)
			o := g.next(links, policy)
			res := o.apply(e)
			hist = append(hist, o.String())
			c.Count("hist-op:" + o.K)
			if strings.HasPrefix(res, "panic") {
				c.Direct(fmt.Sprintf("c16.%s.%d.%d", tag, hno, k), "the implementation panicked in "+o.String()+": "+res, QL(hist))
				return k
			}
		}
		links, policy := c16Listed(e, u.kind)
		cs := &c16Case{kind: u.kind, links: links, policy: policy, names: query, domains: u.domains, perms: u.perms,
			hist: append([]string(nil), hist...)}
		c16Observe(c, fmt.Sprintf("c16.%s.%d.%d", tag, hno, k), "history-"+u.kind, cs, e)
	}
	return steps + 1
}

func c16Histories(c *Ctx) string {
	plain := c16HUni{kind: "plain", names: []string{"alice", "bob", "carol", "admin", "root"}, domains: []string{""},
		perms: c16Perms("plain", nil, []string{"data1", "data2"}, []string{"read", "write"})}
	dom := c16HUni{kind: "dom", names: []string{"alice", "bob", "admin", "root"}, domains: []string{"d1", "d2"},
		perms: c16Perms("dom", []string{"d1", "d2"}, []string{"data1", "data2"}, []string{"read"})}
	nPlain, nDom, steps := 170, 90, 14
	if c.Thorough() {
		nPlain, nDom, steps = 4000, 2500, 30
	}
	states := 0
	for i := 0; i < nPlain; i++ {
		states += c16History(c, "hp", i, plain, steps, i%3 == 0)
	}
	for i := 0; i < nDom; i++ {
		states += c16History(c, "hd", i, dom, steps, i%3 == 0)
	}
	return fmt.Sprintf("HISTORY MODE: %d + %d histories (plain / domains) of %d rbac_api calls on ONE enforcer each (AddRoleForUser, AddRolesForUser, DeleteRoleForUser, DeleteRolesForUser, DeleteUser, DeleteRole, AddPermission(s)ForUser, DeletePermission(s)ForUser, DeletePermission, *InDomain variants, DeleteAllUsersByDomain, DeleteDomains, UpdateGroupingPolicy, RemoveFilteredGroupingPolicy, batch add/remove, BuildRoleLinks; a third of them open with a scripted shape: chain user->mid->parents with all parents of mid deleted and mid re-parented, redundant link added then the longer path cut, deny-then-grant, cycle built and broken, DeleteUser/DeleteRole inside a chain), the full observation (every introspection call, Enforce for every subject x permission, the property's predicate) taken on that same enforcer after EVERY call and compared with the model run on the rules the enforcer lists at that moment (%d observed states)", nPlain, nDom, steps, states)
}
