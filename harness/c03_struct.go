package main

import (
	"bufio"
	"bytes"
	"fmt"
	"os"
	"path/filepath"
	"strings"

	casbin "github.com/casbin/casbin/v2"
	"github.com/casbin/casbin/v2/model"
	"github.com/casbin/casbin/v2/persist"
	fileadapter "github.com/casbin/casbin/v2/persist/file-adapter"
	stringadapter "github.com/casbin/casbin/v2/persist/string-adapter"
)

// ---------------------------------------------------------------------------------------
// C03, structured stream: cases whose outcome class the extracted model (coq/Enforce.v,
// coq/Csv.v, coq/Total.v) predicts exactly: ok | err, the decision, the explained rule, what a
// loader left in the model.  Enforce cases are built with the C01 machinery (c01Build /
// c01Run: same case format, same observables) but centred on failures; load cases run the real
// persist.LoadPolicyLine, string adapter, file adapter and NewEnforcer(model, adapter).
// Everything runs under c03Guarded: a panic or a 20 s hang escaping the real code is a direct
// violation, and so is an error that comes with decision true.
// ---------------------------------------------------------------------------------------

var c03Stop bool // a hang was seen: the goroutine is still running, stop generating

// c03RunEnf runs one C01-format case through c01Run into private buffers, checks the
// property's own predicate on what the implementation answered and forwards everything.
func c03RunEnf(c *Ctx, cs *c01Case, class string) {
	if c03Stop {
		return
	}
	var bc, bi, bd bytes.Buffer
	sub := &Ctx{Prop: c.Prop, Tier: c.Tier, Seed: c.Seed, Rng: c.Rng, Out: c.Out,
		cases: bufio.NewWriter(&bc), impl: bufio.NewWriter(&bi), direct: bufio.NewWriter(&bd),
		Dist: map[string]int{}, Distinct: map[string]bool{}}
	s := c03Guarded(func() { c01Run(sub, cs) })
	if s != "" {
		var qs []string
		for _, rq := range cs.reqs {
			qs = append(qs, c01ReqSexp(rq))
		}
		c.Direct(cs.id, "Enforce family ("+class+"): "+s, fmt.Sprintf("matcher=%q wm=%q policy=%v requests=%s", cs.mText(cs.m[0]), cs.wm, cs.p[0].rules, strings.Join(qs, " ")))
		if strings.HasPrefix(s, "hang") {
			c03Stop = true
		}
		return
	}
	sub.cases.Flush()
	sub.impl.Flush()
	sub.direct.Flush()
	c.cases.Write(bc.Bytes())
	c.impl.Write(bi.Bytes())
	c.direct.Write(bd.Bytes())
	c.NCases += sub.NCases
	c.NObs += sub.NObs
	c.NDirect += sub.NDirect
	if len(c.Samples) < 3 {
		c.Samples = append(c.Samples, sub.Samples...)
	}
	// err => decision false, on every observable of the implementation; BatchEnforce is
	// consistent with the single calls: results exactly for the requests in front of the first
	// failing one
	nerr, nok := 0, 0
	firstErr := -1
	batch := ""
	for _, line := range strings.Split(bi.String(), "\n") {
		parts := strings.SplitN(line, "\t", 3)
		if len(parts) < 3 {
			continue
		}
		val := parts[2]
		if parts[1] == "batch" {
			batch = val
			continue
		}
		if strings.Contains(val, "err=1") {
			nerr++
			if strings.HasSuffix(parts[1], ".enf") && firstErr < 0 {
				fmt.Sscanf(parts[1], "%d.enf", &firstErr)
			}
			if strings.Contains(val, "dec=1") {
				c.Direct(cs.id, "an Enforce variant ("+parts[1]+") returned an error together with decision true", val)
			}
			if strings.Contains(val, "ex=") && !strings.Contains(val, "ex=-1") {
				c.Direct(cs.id, "EnforceEx returned an error together with an explanation", val)
			}
		} else {
			nok++
		}
	}
	if batch != "" {
		res := strings.TrimPrefix(strings.Fields(batch)[0], "res=")
		if strings.Contains(batch, "err=1") {
			if firstErr < 0 || len(res) != firstErr {
				c.Direct(cs.id, fmt.Sprintf("BatchEnforce returned an error and %d results, the first failing Enforce is request %d", len(res), firstErr), batch)
			}
		} else if len(res) != len(cs.reqs) || firstErr >= 0 {
			c.Direct(cs.id, fmt.Sprintf("BatchEnforce returned no error and %d results for %d requests (first failing Enforce: %d)", len(res), len(cs.reqs), firstErr), batch)
		}
	}
	c.Count("enforce class=" + class)
	c.Dist["enforce calls err"] += nerr
	c.Dist["enforce calls ok"] += nok
	if nerr > 0 {
		c.NonTrivial(cs.id)
		// an error must not poison later calls: the sentinels must still answer (c03_after.go)
		var qs []string
		for _, rq := range cs.reqs {
			qs = append(qs, c01ReqSexp(rq))
		}
		c03AfterError(c, cs.id, fmt.Sprintf("matcher=%q wm=%q policy=%v requests=%s", cs.mText(cs.m[0]), cs.wm, cs.p[0].rules, strings.Join(qs, " ")))
	}
}

// values that are not strings (and strings that are odd)
func c03Odd() []c01V {
	return []c01V{c01N(5), c01N(0), c01N(-3), c01B(true), c01B(false), {k: 'z'},
		c01Map(c01F{"Name", c01S("alice")}, c01F{"Age", c01N(30)}), c01Map(),
		c01UserV("alice", 30, "bob"), c01ResV("data1", "alice", 3), c01S(""), c01S("\x00"), c01S("a,b"), c01S("\xff\xfe")}
}

// one well-formed request plus every wrong arity and every odd value at every position
func c03Reqs(ctx []string, base []c01V, full bool, c *Ctx) []c01Req {
	cp := func() []c01V { return append([]c01V{}, base...) }
	out := []c01Req{{ctx, cp()}}
	out = append(out, c01Req{ctx, []c01V{}})
	if len(base) > 0 {
		out = append(out, c01Req{ctx, cp()[:1]}, c01Req{ctx, cp()[:len(base)-1]})
	}
	out = append(out, c01Req{ctx, append(cp(), c01S("extra"))},
		c01Req{ctx, append(cp(), c01N(1), c01S("b"), c01V{k: 'z'}, c01S("d"), c01S("e"))})
	odd := c03Odd()
	for i := range base {
		for j, o := range odd {
			if !full && c.Rng.Intn(3) != 0 && j > 2 {
				continue
			}
			v := cp()
			v[i] = o
			out = append(out, c01Req{ctx, v})
		}
	}
	all := cp()
	for i := range all {
		all[i] = odd[c.Rng.Intn(len(odd))]
	}
	out = append(out, c01Req{ctx, all})
	return out
}

func c03Base(f *c01Family, c *Ctx) []c01V {
	pos := f.pos(c.Rng)
	base := make([]c01V, len(pos))
	for i := range pos {
		base[i] = pos[i][c.Rng.Intn(len(pos[i]))]
	}
	return base
}

func c03Enforce(c *Ctx) {
	r := c.Rng
	fams := c01Families()
	byName := map[string]*c01Family{}
	for _, f := range fams {
		byName[f.name] = f
	}
	seq := 0
	next := func(tag string) string { seq++; return fmt.Sprintf("c03.enf.%s.%d", tag, seq) }
	rounds := 1
	if c.Thorough() {
		rounds = 25
	}
	acl, rbac := byName["acl"], byName["rbac"]
	for round := 0; round < rounds && !c03Stop; round++ {
		full := round == 0
		// ---- a. ill-typed and wrong-arity requests against every family, under every effect
		for _, f := range fams {
			for _, eff := range c01EffectTags {
				if !c.Thorough() && eff != "ao" && r.Intn(2) == 0 && f.name != "rbac" && f.name != "deny" {
					continue
				}
				cs := c01Build(r, next("types."+f.name+"."+eff), f, nil, eff, 1+r.Intn(4), r.Intn(5))
				cs.reqs = c03Reqs(nil, c03Base(f, c), full, c)
				c03RunEnf(c, cs, "ill-typed/arity "+f.name)
			}
		}
		// non-strings inside g() and keyMatch-style functions at every argument position, with
		// literals of the wrong type as well
		for _, eff := range c01EffectTags {
			ms := []*c01E{
				c01Call("g", c01V_("r_sub"), c01V_("p_sub")),
				c01Call("g", c01V_("p_sub"), c01V_("r_sub")),
				c01Call("g", c01V_("r_sub"), c01Num(1)),
				c01Call("g", c01V_("r_sub")),
				c01Call("g"),
				c01Call("g", c01V_("r_sub"), c01V_("p_sub"), c01V_("r_obj")),
				c01Call("g", c01V_("r_sub"), c01V_("p_sub"), c01V_("r_obj"), c01V_("r_act")),
				c01Call("g", c01Bool(true), c01V_("p_sub")),
				c01Bin("||", c01Call("keyMatch", c01V_("r_obj"), c01V_("p_obj")), c01Call("g", c01V_("r_sub"), c01V_("p_sub"))),
				c01Call("keyMatch", c01V_("r_obj"), c01Num(3)),
				c01Call("keyMatch", c01V_("r_obj")),
				c01Call("keyMatch2", c01V_("r_obj"), c01V_("p_obj"), c01V_("p_act")),
				c01Call("regexMatch", c01V_("r_act"), c01V_("p_act")),
				c01Call("ipMatch", c01V_("r_sub"), c01V_("p_sub")),
				c01Bin("&&", c01In(c01V_("r_sub"), c01V_("r_obj"), c01V_("p_sub")), c01Bool(true)),
				c01Bin("<", c01V_("r_sub"), c01V_("p_sub")),
				c01Bin("+", c01V_("r_sub"), c01V_("r_obj")),
				c01Not(c01V_("r_sub")),
			}
			for _, m := range ms {
				if !c.Thorough() && eff != "ao" && r.Intn(3) != 0 {
					continue
				}
				cs := c01Build(r, next("fn."+eff), rbac, m, eff, 1+r.Intn(3), 1+r.Intn(4))
				cs.reqs = c03Reqs(nil, c03Base(rbac, c), full, c)
				c03RunEnf(c, cs, "non-strings in functions")
			}
		}

		// ---- b. EnforceContext with unknown names
		for _, eff := range c01EffectTags {
			cs := c01Build(r, next("ctx."+eff), rbac, nil, "ao", 3, 3)
			cs.r = append(cs.r, c01RDef{"r2", "sub, obj"})
			cs.p = append(cs.p, c01PDef{"p2", "sub, obj, eft", c01RandRules(r, 1+r.Intn(3), [][]string{c01RoleNames, c01Objs, {"allow", "deny", "x"}})})
			cs.e = append(cs.e, c01EDef{"e2", eff})
			m2 := c01And(c01Call("g", c01V_("r2_sub"), c01V_("p2_sub")), c01Eq(c01V_("r2_obj"), c01V_("p2_obj")))
			cs.m = append(cs.m, c01MDef{key: "m2", ast: m2, st: c01RandStyle(r)})
			cs.reqs = nil
			for _, ctx := range [][]string{{"r2", "p2", "e2", "m2"}, {"r3", "p2", "e2", "m2"}, {"r2", "p3", "e2", "m2"}, {"r2", "p2", "e3", "m2"}, {"r2", "p2", "e2", "m3"},
				{"", "", "", ""}, {"r2", "p", "e", "m"}, {"r", "p2", "e", "m"}, {"r", "p", "e2", "m"}, {"r2", "p2", "e", "m2"}, {"r", "p", "e", "m"},
				{"m", "e", "p", "r"}, {"r9", "p9", "e9", "m9"}, {"r2", "p2", "e2", "\x00"}} {
				cs.reqs = append(cs.reqs, c01Req{ctx, c01StrVals("alice", "data1")}, c01Req{ctx, c01StrVals("alice", "data1", "read")},
					c01Req{ctx, nil}, c01Req{ctx, []c01V{c01N(1), c01S("data1")}})
			}
			// the custom matcher of these cases is the model's own (no oracle functions)
			c03RunEnf(c, cs, "unknown context names")
		}

		// ---- c. stored content: rules of the wrong size, odd eft values
		for _, eff := range c01EffectTags {
			for _, shape := range []int{0, 1, 2, 4, 7} {
				cs := c01Build(r, next("rule-size."+eff), acl, nil, eff, r.Intn(4), 0)
				bad := make([]string, shape)
				for i := range bad {
					bad[i] = []string{"alice", "data1", "read", "x", "", "allow", "deny"}[i]
				}
				at := r.Intn(len(cs.p[0].rules) + 1)
				cs.p[0].rules = append(cs.p[0].rules[:at:at], append([][]string{bad}, cs.p[0].rules[at:]...)...)
				cs.reqs = c01AllReqs(r, nil, acl.pos(r), true)
				if !c.Thorough() {
					cs.reqs = cs.reqs[len(cs.reqs)-9:]
					cs.reqs = append(cs.reqs, c01Req{nil, c01StrVals("alice", "data1", "read")}, c01Req{nil, c01StrVals("bob", "data2", "write")})
				}
				c03RunEnf(c, cs, "stored rule of the wrong size")
			}
			for _, fn := range []string{"deny", "priority"} {
				f := byName[fn]
				cs := c01Build(r, next("eft."+fn+"."+eff), f, nil, eff, 0, 3)
				cs.p[0].rules = c01RandRules(r, 2+r.Intn(4), [][]string{c01Subs[:2], c01Objs, c01Acts[:1], {"allow", "deny", "", "ALLOW", "other", "\x00", " allow"}})
				cs.reqs = c01AllReqs(r, nil, f.pos(r), true)
				c03RunEnf(c, cs, "odd eft values")
			}
		}

		// ---- d. matcher results that are not bool (numbers, strings, nil), with and without rules
		for _, eff := range c01EffectTags {
			for _, m := range []*c01E{c01Num(1), c01Num(0), c01Bin("+", c01Num(1), c01Num(1)), c01V_("r_sub"), c01V_("p_sub"), c01Str("true"),
				c01Bin("-", c01Num(2), c01Num(2)), c01Bin("+", c01V_("p_sub"), c01Num(1)), c01Bin("+", c01V_("r_sub"), c01Bool(true)), c01Acc("r_sub", "Age")} {
				for _, n := range []int{0, 2} {
					if !c.Thorough() && eff != "ao" && r.Intn(2) == 0 {
						continue
					}
					cs := c01Build(r, next("non-bool."+eff), acl, m, eff, n, 0)
					cs.reqs = append(c01AllReqs(r, nil, [][]c01V{c01StrVals("alice", ""), c01StrVals("data1"), c01StrVals("read")}, true),
						c01Req{nil, []c01V{c01Map(c01F{"Age", c01N(3)}), c01S("data1"), c01S("read")}},
						c01Req{nil, []c01V{c01N(0), c01S("data1"), c01S("read")}})
					c03RunEnf(c, cs, "matcher result not bool")
				}
			}
		}

		// ---- d'. matchers that mention no policy field (one evaluation on blank fields, explanation
		//          index 0) with an EMPTY and a non-empty policy, under every effect: the
		//          explanation lookup must not fail, and never after the decision was made
		for _, eff := range c01EffectTags {
			for _, m := range []*c01E{c01Eq(c01V_("r_sub"), c01Str("alice")), c01Bool(true), c01Bool(false), c01Eq(c01V_("r_obj"), c01V_("r_sub")),
				c01Bin("||", c01Eq(c01V_("r_sub"), c01Str("alice")), c01Eq(c01V_("r_act"), c01Str("read")))} {
				for _, n := range []int{0, 1, 3} {
					cs := c01Build(r, next("policy-free."+eff), acl, m, eff, n, 0)
					cs.reqs = c01AllReqs(r, nil, [][]c01V{c01StrVals("alice", "bob"), c01StrVals("data1", "alice"), c01StrVals("read")}, true)
					c03RunEnf(c, cs, "matcher without policy fields")
				}
			}
		}

		// ---- e. EnforceWithMatcher: texts that do not parse, unknown functions / identifiers,
		//         blank and comment-only texts, the empty text (= the model's matcher)
		type wmT struct {
			text string
			ast  *c01E
		}
		wms := []wmT{{"r.sub == ", nil}, {"(", nil}, {")", nil}, {"r.sub ==== p.sub", nil}, {"&&", nil}, {"r.sub == 'x", nil}, {"r.sub == p.sub &&", nil},
			{"foo(r.sub)", nil}, {"g(r.sub, p.sub)", nil}, {"eval(", nil}, {" ", nil}, {"# only a comment", nil}, {"\x00", nil}, {"r.sub in ()", nil},
			{"", nil},
			{"r.zzz == p.sub", c01Eq(c01V_("r_zzz"), c01V_("p_sub"))},
			{"zzz == p.sub", c01Eq(c01V_("zzz"), c01V_("p_sub"))},
			{"r.sub == p.zzz && r.obj == p.obj", c01And(c01Eq(c01V_("r_sub"), c01V_("p_zzz")), c01Eq(c01V_("r_obj"), c01V_("p_obj")))},
			{"r.sub.Name == p.sub", c01Eq(c01Acc("r_sub", "Name"), c01V_("p_sub"))},
			{"r.sub == p.sub  # tail", c01Eq(c01V_("r_sub"), c01V_("p_sub"))},
			{"1", c01Num(1)}, {"'alice'", c01Str("alice")}, {"r.sub", c01V_("r_sub")},
			{"true", c01Bool(true)}}
		for _, w := range wms {
			eff := c01Pick(r, c01EffectTags)
			cs := c01Build(r, next("wm"), acl, nil, eff, r.Intn(3), 0)
			cs.wm, cs.wmAst = w.text, w.ast
			if w.text == "" {
				cs.wmAst = cs.m[0].ast
			}
			cs.reqs = c03Reqs(nil, c03Base(acl, c), false, c)
			c03RunEnf(c, cs, "EnforceWithMatcher hostile text")
		}

		// ---- f. eval(): unparsable, non-bool, nested, self-referential and mutually
		//         referential sub-rules (F29 repaired: its witness is the first rule here)
		evf := byName["eval"]
		selfE := c01ParseEnt{"eval(p_sub_rule)", c01Call("eval", c01V_("p_sub_rule"))}
		for _, eff := range c01EffectTags {
			cs := c01Build(r, next("eval.self."+eff), evf, nil, eff, 0, 0)
			cs.extra = []c01ParseEnt{selfE}
			cs.p[0].rules = [][]string{{"eval(p.sub_rule)", "data1", "read"}}
			c03RunEnf(c, cs, "eval self-reference (F29)")

			cs = c01Build(r, next("eval.self-ctx."+eff), evf, nil, eff, 0, 0)
			cs.extra = []c01ParseEnt{{"eval(p_sub_rule) && true", c01Bin("&&", c01Call("eval", c01V_("p_sub_rule")), c01Bool(true))}}
			cs.p[0].rules = [][]string{{"eval(p.sub_rule) && true", "data1", "read"}}
			c03RunEnf(c, cs, "eval self-reference (F29)")

			cs = c01Build(r, next("eval.mutual."+eff), evf, nil, eff, 0, 0)
			cs.extra = []c01ParseEnt{selfE, {"eval(p_obj)", c01Call("eval", c01V_("p_obj"))}}
			cs.p[0].rules = [][]string{{"eval(p.obj)", "eval(p.sub_rule)", "read"}}
			c03RunEnf(c, cs, "eval mutual reference")

			// behind a rule that decides (allow-override): never evaluated
			cs = c01Build(r, next("eval.behind."+eff), evf, nil, eff, 0, 0)
			cs.extra = []c01ParseEnt{selfE, {"true", c01Bool(true)}}
			cs.p[0].rules = [][]string{{"true", "data1", "read"}, {"eval(p.sub_rule)", "data1", "read"}, {"true", "data2", "read"}}
			c03RunEnf(c, cs, "eval self-reference (F29)")

			cs = c01Build(r, next("eval.mix."+eff), evf, nil, eff, 3+r.Intn(5), 0)
			c03RunEnf(c, cs, "eval sub-rules (random mix)")
			cs = c01Build(r, next("eval.empty."+eff), evf, nil, eff, 0, 0)
			cs.reqs = cs.reqs[len(cs.reqs)-8:]
			c03RunEnf(c, cs, "eval with empty policy")
		}
		// the nesting bound exactly: a chain of n nested eval() calls through n policy columns
		// (column k holds eval(p.c<k+1>), the last one `true`): 99 and 100 calls are evaluated,
		// the 101st is the nesting error
		for _, n := range []int{2, 99, 100, 101, 102} {
			cols := make([]string, n)
			rule := make([]string, n)
			cs := c01Build(r, next(fmt.Sprintf("eval.depth%d", n)), acl, c01Call("eval", c01V_("p_c0")), c01Pick(r, c01EffectTags), 0, 0)
			cs.extra = []c01ParseEnt{{"true", c01Bool(true)}}
			for k := 0; k < n; k++ {
				cols[k] = fmt.Sprintf("c%d", k)
				rule[k] = fmt.Sprintf("eval(p.c%d)", k+1)
				cs.extra = append(cs.extra, c01ParseEnt{fmt.Sprintf("eval(p_c%d)", k+1), c01Call("eval", c01V_(fmt.Sprintf("p_c%d", k+1)))})
			}
			rule[n-1] = "true"
			cs.p = []c01PDef{{"p", strings.Join(cols, ", "), [][]string{rule}}}
			cs.wm = c01Print(cs.m[0].ast, c01Style{dot: true})
			cs.reqs = []c01Req{{nil, c01StrVals("alice", "data1", "read")}, {nil, c01StrVals("alice")}}
			c03RunEnf(c, cs, "eval nesting bound")
		}

		// eval() spelled in a matcher although no rule holds a sub-rule
		cs := c01Build(r, next("eval.literal"), acl, c01And(c01Call("eval", c01Str("r_sub == p_sub")), c01Eq(c01V_("r_obj"), c01V_("p_obj"))), "ao", 3, 0)
		cs.extra = []c01ParseEnt{{"r_sub == p_sub", c01Eq(c01V_("r_sub"), c01V_("p_sub"))}}
		cs.m[0].st.sq = false
		cs.wm = c01Print(cs.m[0].ast, c01Style{})
		cs.reqs = c03Reqs(nil, c03Base(acl, c), false, c)
		c03RunEnf(c, cs, "eval of a literal")
		for _, arg := range []*c01E{c01Num(1), c01V_("r_sub"), c01Bool(true)} {
			cs = c01Build(r, next("eval.arg"), acl, c01And(c01Call("eval", arg), c01Eq(c01V_("r_obj"), c01V_("p_obj"))), "ao", 2, 0)
			cs.extra = []c01ParseEnt{{"alice", c01V_("alice")}}
			cs.wm = c01Print(cs.m[0].ast, c01Style{})
			cs.reqs = c03Reqs(nil, c03Base(acl, c), false, c)
			c03RunEnf(c, cs, "eval of a non-string")
		}

		// ---- g. g() in the matcher without a role definition; an unknown function
		for _, m := range []*c01E{
			c01And(c01Call("g", c01V_("r_sub"), c01V_("p_sub")), c01Eq(c01V_("r_obj"), c01V_("p_obj"))),
			c01And(c01Call("g2", c01V_("r_sub"), c01V_("p_sub")), c01Eq(c01V_("r_obj"), c01V_("p_obj"))),
			c01And(c01Call("foo", c01V_("r_sub")), c01Eq(c01V_("r_obj"), c01V_("p_obj")))} {
			cs = c01Build(r, next("no-role-def"), acl, m, c01Pick(r, c01EffectTags), 2, 0)
			cs.reqs = c03Reqs(nil, c03Base(acl, c), false, c)
			c03RunEnf(c, cs, "missing role definition / unknown function")
		}

		// ---- h. disabled enforcer: everything is allowed without error, broken requests included
		cs = c01Build(r, next("disabled"), rbac, nil, c01Pick(r, c01EffectTags), 3, 3)
		cs.disabled = true
		cs.reqs = c03Reqs(nil, c03Base(rbac, c), full, c)
		cs.reqs = append(cs.reqs, c01Req{[]string{"r9", "p9", "e9", "m9"}, c01StrVals("a")})
		c03RunEnf(c, cs, "disabled enforcer")

		// ---- i. cyclic role graphs under every effect (F12 repaired: subjectPriority included;
		//         the load-time side of F12 is in the text cases below), unsupported effect
		for _, eff := range append(append([]string{}, c01EffectTags...), "un") {
			for _, fn := range []string{"rbac", "priority", "rbac-domains"} {
				f := byName[fn]
				cs = c01Build(r, next("cycle."+fn+"."+eff), f, nil, eff, 4, 0)
				for gi := range cs.g {
					rules := [][]string{{"alice", "admin"}, {"admin", "user"}, {"user", "alice"}, {"bob", "bob"}, {"user", "root"}, {"root", "user"}}
					if cs.g[gi].count == 3 {
						for i := range rules {
							rules[i] = append(rules[i], c01Doms[i%2])
						}
						rules = append(rules, []string{"alice", "admin", "d2"}, []string{"admin", "alice", "d2"})
					}
					cs.g[gi].rules = rules
				}
				if !c.Thorough() {
					cs.reqs = append(cs.reqs[:6:6], cs.reqs[len(cs.reqs)-6:]...)
				}
				c03RunEnf(c, cs, "cyclic role graph")
			}
		}

		// ---- k. built-in operators over stored patterns that do not compile (the operator
		//         panics, Enforce's recover turns it into the error outcome) next to patterns
		//         that do; the model takes the operator's answer from the oracle table, what it
		//         predicts is the outcome class of every request and where the policy loop stops.
		//         keyMatch4 / keyGet2 / keyGet3 go through the process-wide regexp cache: the
		//         requests behind the failing one, and the sentinels, show a cache left locked.
		opPats := []string{"/p/{id}/c/{id}", "/x/{id}/unbalanced(", "/p/:id", "/x/:id/unbalanced(", "/p/*", "/a/[", "/a/)", "(", "[a-", "/*+", "{", "{}",
			"/{a}/(b)", "/(a)/{b}", "10.0.0.0/8", "10.0.0.0/33", "not-an-ip", "", "^(", "a{2,1}", "\xff", "/p/{id}", "^/d/[0-9]+$", "/d/*"}
		opObjs := []string{"/p/1/c/1", "/p/1/c/2", "/x/1/unbalanced(", "/p/7", "/a/b", "10.0.0.1", "", "(", "/d/42"}
		pobj, robj, ract := c01V_("p_obj"), c01V_("r_obj"), c01V_("r_act")
		opMs := []struct {
			name string
			m    *c01E
		}{
			{"keyMatch4", c01Call("keyMatch4", robj, pobj)},
			{"keyGet2", c01Eq(c01Call("keyGet2", robj, pobj, c01Str("id")), ract)},
			{"keyGet3", c01Eq(c01Call("keyGet3", robj, pobj, c01Str("id")), ract)},
			{"keyGet", c01Eq(c01Call("keyGet", robj, pobj), ract)},
			{"keyMatch2", c01Call("keyMatch2", robj, pobj)},
			{"keyMatch3", c01Call("keyMatch3", robj, pobj)},
			{"keyMatch5", c01Call("keyMatch5", robj, pobj)},
			{"regexMatch", c01Call("regexMatch", robj, pobj)},
			{"globMatch", c01Call("globMatch", robj, pobj)},
			{"ipMatch", c01Call("ipMatch", robj, pobj)},
			{"keyMatch4-swapped", c01Call("keyMatch4", pobj, robj)},
			{"mix", c01Bin("||", c01Call("keyMatch4", robj, pobj), c01Bin("||", c01Eq(c01Call("keyGet2", robj, pobj, c01Str("id")), ract), c01Eq(c01Call("keyGet3", robj, pobj, c01Str("id")), ract)))},
		}
		for _, om := range opMs {
			for _, eff := range c01EffectTags {
				if eff != "ao" && eff != "do" && (!c.Thorough() || r.Intn(2) == 0) {
					continue
				}
				cs := c01Build(r, next("op."+om.name+"."+eff), acl, c01And(c01Eq(c01V_("r_sub"), c01V_("p_sub")), om.m), eff, 0, 0)
				n := 3 + r.Intn(4)
				var rules [][]string
				for i := 0; i < n; i++ {
					rule := []string{"alice", c01Pick(r, opPats), c01Pick(r, []string{"read", "7", "1"})}
					if c01FindRule(rules, rule) < 0 {
						rules = append(rules, rule)
					}
				}
				cs.p[0].rules = rules
				cs.reqs = nil
				for _, o := range opObjs {
					cs.reqs = append(cs.reqs, c01Req{nil, c01StrVals("alice", o, c01Pick(r, []string{"read", "7", "1"}))})
				}
				cs.reqs = append(cs.reqs, c01Req{nil, c01StrVals("bob", "/p/7", "7")}, c01Req{nil, []c01V{c01S("alice"), c01N(7), c01S("7")}}, c01Req{nil, c01StrVals("alice", "/p/7")})
				c03RunEnf(c, cs, "built-in operator on a hostile pattern")
			}
		}

		// ---- j. random matchers with a high share of ill-typed sub-expressions
		nr := 30
		if c.Thorough() {
			nr = 120
		}
		for i := 0; i < nr; i++ {
			f := fams[r.Intn(len(fams))]
			f.vocab.illTyped = 300
			f.vocab.gs = f.gs
			m := f.vocab.genBool(r, 1+r.Intn(3))
			f.vocab.illTyped = 0
			cs = c01Build(r, next("rnd."+f.name), f, m, c01Pick(r, c01EffectTags), r.Intn(4), r.Intn(5))
			cs.reqs = c03Reqs(nil, c03Base(f, c), false, c)
			c03RunEnf(c, cs, "random ill-typed matcher")
		}
	}
}

// ---------------------------------------------------------------------------------------
// loading
// ---------------------------------------------------------------------------------------

func c03ModelText(name string) string {
	switch name {
	case "flat":
		return "[request_definition]\nr = sub, obj, act\n[policy_definition]\np = sub, obj, act\n[role_definition]\ng = _, _\n[policy_effect]\ne = some(where (p.eft == allow))\n[matchers]\nm = g(r.sub, p.sub) && r.obj == p.obj && r.act == p.act\n"
	case "dom":
		return "[request_definition]\nr = sub, dom, obj, act\n[policy_definition]\np = sub, dom, obj, act\n[role_definition]\ng = _, _, _\n[policy_effect]\ne = some(where (p.eft == allow))\n[matchers]\nm = g(r.sub, p.sub, r.dom) && r.dom == p.dom && r.obj == p.obj && r.act == p.act\n"
	case "sp":
		return "[request_definition]\nr = sub, obj, act\n[policy_definition]\np = sub, obj, act, eft\n[role_definition]\ng = _, _\n[policy_effect]\ne = subjectPriority(p.eft) || deny\n[matchers]\nm = g(r.sub, p.sub) && r.obj == p.obj && r.act == p.act\n"
	}
	panic("c03ModelText " + name)
}

func c03Model(name string) model.Model {
	m, err := model.NewModelFromString(c03ModelText(name))
	if err != nil {
		panic(err)
	}
	return m
}

func c03Rules(m model.Model, sec, key string) string {
	if a := m[sec][key]; a != nil {
		return rulesKey(a.Policy)
	}
	return "<nil>"
}

// single lines through persist.LoadPolicyLine, loaded one after the other into one model
func c03LineCase(c *Ctx, id, name string, lines []string) {
	if c03Stop {
		return
	}
	m := c03Model(name)
	outs := make([]string, len(lines))
	nerr := 0
	for i, l := range lines {
		l := l
		var err error
		if s := c03Guarded(func() { err = persist.LoadPolicyLine(l, m) }); s != "" {
			c.Direct(id, "persist.LoadPolicyLine: "+s, fmt.Sprintf("%q", l))
			if strings.HasPrefix(s, "hang") {
				c03Stop = true
			}
			return
		}
		outs[i] = errStr(err)
		if err != nil {
			nerr++
		}
	}
	c.Case(id, "line "+name+" "+QL(lines))
	for i := range lines {
		c.Obs(id, I(i), outs[i])
	}
	c.Obs(id, "end", fmt.Sprintf("p=%s g=%s r=%s e=%s m=%s", c03Rules(m, "p", "p"), c03Rules(m, "g", "g"), c03Rules(m, "r", "r"), c03Rules(m, "e", "e"), c03Rules(m, "m", "m")))
	c.Count("load lines")
	c.Dist["load line err"] += nerr
	c.Dist["load line ok"] += len(lines) - nerr
	if nerr > 0 {
		c.NonTrivial(id)
	}
}

var c03Dir string

// a whole text through the string adapter or the file adapter, then through NewEnforcer
func c03TextCase(c *Ctx, id, adapter, name, text string) {
	if c03Stop {
		return
	}
	mk := func() persist.Adapter {
		if adapter == "str" {
			return stringadapter.NewAdapter(text)
		}
		path := filepath.Join(c03Dir, "policy.csv")
		if err := os.WriteFile(path, []byte(text), 0o644); err != nil {
			panic(err)
		}
		return fileadapter.NewAdapter(path)
	}
	replay := fmt.Sprintf("adapter=%s model=%s text=%q", adapter, name, text)
	if len(replay) > 2000 {
		replay = replay[:2000] + "..."
	}
	// the adapter alone, on a fresh model: what a failed load leaves behind is visible here
	m := c03Model(name)
	var err error
	if s := c03Guarded(func() { err = mk().LoadPolicy(m) }); s != "" {
		c.Direct(id, adapter+" adapter LoadPolicy: "+s, replay)
		c03Stop = c03Stop || strings.HasPrefix(s, "hang")
		return
	}
	obsA := fmt.Sprintf("%s p=%s g=%s", errStr(err), c03Rules(m, "p", "p"), c03Rules(m, "g", "g"))
	// the constructor on top of it
	var e *casbin.Enforcer
	var err2 error
	if s := c03Guarded(func() { e, err2 = casbin.NewEnforcer(c03Model(name), mk()) }); s != "" {
		c.Direct(id, "NewEnforcer(model, "+adapter+" adapter): "+s, replay)
		c03Stop = c03Stop || strings.HasPrefix(s, "hang")
		return
	}
	obsE := "err"
	if err2 == nil && e != nil {
		p, _ := e.GetPolicy()
		g, _ := e.GetGroupingPolicy()
		obsE = fmt.Sprintf("ok p=%s g=%s", sortedRulesKey(p), sortedRulesKey(g))
		// whatever was loaded: enforcement on it is total and fails closed
		if s := c03Guarded(func() {
			for _, rq := range [][]interface{}{{"alice", "data1", "read"}, {"a", "d", "read"}, {"", "", ""}, {"alice", "data1"}, {1, "data1", "read"}, {"alice", "d1", "data1", "read"}} {
				ok, err := e.Enforce(rq...)
				if err != nil && ok {
					panic(fmt.Sprint("error with decision true for ", rq))
				}
			}
		}); s != "" {
			c.Direct(id, "Enforce after loading: "+s, replay)
			c03Stop = c03Stop || strings.HasPrefix(s, "hang")
		}
	}
	c.Case(id, "text "+adapter+" "+name+" "+Q(text))
	c.Obs(id, "adapter", obsA)
	c.Obs(id, "enforcer", obsE)
	c.Count("load text " + adapter + " " + name)
	if err != nil || err2 != nil {
		c.Count("load text err")
		c.NonTrivial(id)
	} else {
		c.Count("load text ok")
	}
}

var c03Blanks = []string{" ", "\t", "\r", "\v", "\f", "\u0085", "\u00a0", "\u1680", "\u2000", "\u2003", "\u200a", "\u2028", "\u2029", "\u202f", "\u205f", "\u3000"}
var c03NearBlanks = []string{"\xc2", "\xe2\x80", "\xe2", "\xa0", "\x85", "\u200b", "\ufeff", "\xc0\xa0", "\x80", "\xff", "\xff\xfe", "\xef\xbf\xbd", "\xe2\x80\x8b", "\xe1\x9a\x81"}
var c03Words = []string{"alice", "bob", "admin", "data1", "data2", "read", "write", "allow", "deny", "a", "r", "root", "x y", "é", "日本", "a#b", "0", ""}
var c03Keys = []string{"p", "g", "p", "g", "p", "p2", "g2", "e", "m", "r", "", "q", "P", "pp", " p", "p ", "#", "#p", "\x00", "p\x00"}

func c03Piece(c *Ctx) string {
	pick := func(xs []string) string { return xs[c.Rng.Intn(len(xs))] }
	switch x := c.Rng.Intn(100); {
	case x < 45:
		return pick(c03Words)
	case x < 55:
		return pick(c03Blanks) + pick(c03Words) + pick(c03Blanks)
	case x < 62:
		return pick(c03NearBlanks) + pick(c03Words)
	case x < 70:
		return "\"" + pick(c03Words) + "\""
	case x < 75:
		return "\"" + pick(c03Words) + "," + pick(c03Words) + "\""
	case x < 79:
		return "\"" + pick(c03Words) + "\"\"" + pick(c03Words) + "\""
	case x < 83:
		return pick(c03Words) + "\"" + pick(c03Words) // bare quote
	case x < 86:
		return "\"" + pick(c03Words) // unterminated
	case x < 89:
		return "\"" + pick(c03Words) + "\" x" // text behind the closing quote
	case x < 92:
		return pick(c03Words) + "\x00" + pick(c03Words)
	case x < 95:
		return "#" + pick(c03Words)
	case x < 97:
		return pick(c03Words) + "\r"
	default:
		return pick(c03Blanks)
	}
}

func c03Line(c *Ctx, arity int) string {
	pick := func(xs []string) string { return xs[c.Rng.Intn(len(xs))] }
	n := arity
	key := "p"
	if c.Rng.Intn(3) == 0 {
		key, n = "g", arity-1
	}
	switch c.Rng.Intn(10) {
	case 0:
		key = pick(c03Keys)
	case 1:
		n = c.Rng.Intn(7)
	}
	parts := []string{key}
	for i := 0; i < n; i++ {
		parts = append(parts, c03Piece(c))
	}
	sep := pick([]string{", ", ",", ", ", " ,", ",\t", ", ", ",\u00a0"})
	line := strings.Join(parts, sep)
	switch c.Rng.Intn(14) {
	case 0:
		line = pick(c03Blanks) + line
	case 1:
		line += pick(c03Blanks)
	case 2:
		line += "\r"
	case 3:
		line = "#" + line
	case 4:
		line += ","
	case 5:
		line = "," + line
	}
	return strings.ReplaceAll(line, "\n", " ")
}

// hand-picked hostile lines (no LF: the domain of LoadPolicyLine's model)
func c03CuratedLines() []string {
	long := strings.Repeat("a", 70000)
	return []string{
		",a", ",", ",,", "", " ", "#", "# p, a, b, c", " # p, a, b, c", "p", "p,", "p, ", "g", "g, a", "g, a, b", "g, a, b, c", "g, a, b, c, d",
		"p, a, b, c", "p, a, b, c", "p,a,b,c", " p , a , b , c ", "p, a, b", "p, a, b, c, d", "p, a, b, c,", "q, a, b, c", "P, a, b, c", "p2, a, b, c", "g2, a, b",
		"e, x", "m, x", "r, a, b, c", "e", "m", "r, a",
		"\"", "\"\"", "\"p\", \"a\", \"b\", \"c\"", "p, \"a,b\", c, d", "p, \"a\"\"b\", c, d", "p, a\"b, c, d", "p, \"a\" b, c, d", "p, \"a, b, c", "p, a, b, \"c", "p, a, b, c\"",
		"p, a, b, \"c\"\r", "p, a, b, c\r", "p, a\rb, c, d", "\rp, a, b, c", "p, a, b, c\r\r", "\r",
		"p, \x00, b, c", "\x00", "p\x00, a, b, c", "p, a, b, c\x00",
		"p, \xff, \xfe\xff, c", "p, \xc2, \xe2\x80, c", "p, \u00a0a\u2003, \u3000b, c\u2028", "\u00a0p, a, b, c", "p, a, b,\u0085c", "\u3000", "p, \u200ba, b, c",
		"p, #a, b, c", "p, a, b, #c", "#", "##", "p, a, b, c # tail",
		"p, " + long + ", b, c", long, "p, a, b, " + strings.Repeat("\"\"", 3000), "p, \"" + strings.Repeat("\"\"", 2000) + "\", b, c",
		strings.Repeat(",", 3000), "p" + strings.Repeat(", a", 3000), strings.Repeat(" ", 5000) + "p, a, b, c", "p, a, b, c" + strings.Repeat("\t", 5000),
		"g, a, b, " + long, "p, \"" + long + "\", b, c",
	}
}

func c03Loading(c *Ctx) {
	r := c.Rng
	dir, err := os.MkdirTemp("", "verif-c03s-")
	if err != nil {
		panic(err)
	}
	defer os.RemoveAll(dir)
	c03Dir = dir
	seq := 0
	next := func(tag string) string { seq++; return fmt.Sprintf("c03.load.%s.%d", tag, seq) }

	// ---- single lines: the curated list (every model), then generated ones
	cur := c03CuratedLines()
	for _, name := range []string{"flat", "dom", "sp"} {
		for i := 0; i < len(cur); i += 8 {
			j := i + 8
			if j > len(cur) {
				j = len(cur)
			}
			c03LineCase(c, next("line.cur."+name), name, cur[i:j])
		}
	}
	nl := 400
	if c.Thorough() {
		nl = 20000
	}
	for i := 0; i < nl; i++ {
		name := []string{"flat", "dom", "sp"}[r.Intn(3)]
		ar := map[string]int{"flat": 3, "dom": 4, "sp": 4}[name]
		k := 1 + r.Intn(8)
		lines := make([]string, k)
		for j := range lines {
			lines[j] = c03Line(c, ar)
			if j > 0 && r.Intn(8) == 0 {
				lines[j] = lines[r.Intn(j)] // duplicates
			}
		}
		c03LineCase(c, next("line."+name), name, lines)
	}

	// ---- whole texts through both adapters
	chain := func(n int) string { // a -> n1 -> ... acyclic
		var b strings.Builder
		for i := 0; i < n; i++ {
			fmt.Fprintf(&b, "g, n%d, n%d\n", i+1, i)
		}
		return b.String()
	}
	diamonds := func(k int) string { // 2^k paths from the root: exponential before F12's repair
		var b strings.Builder
		b.WriteString("g, L0, root\ng, R0, root\n")
		for i := 0; i < k; i++ {
			fmt.Fprintf(&b, "g, L%d, L%d\ng, L%d, R%d\ng, R%d, L%d\ng, R%d, R%d\n", i+1, i, i+1, i, i+1, i, i+1, i)
		}
		return b.String()
	}
	pol := "p, a, d, read, allow\np, r, d, read, deny\np, root, d, read, allow\n"
	long := strings.Repeat("x", 65536)
	texts := []string{
		"", "\n", "\n\n\n", " ", "\r\n", "#\n", "# comment\np, alice, data1, read\n",
		"p, alice, data1, read\ng, alice, admin\n", "p, alice, data1, read\r\ng, alice, admin\r\n", "p, alice, data1, read\n\n\ng, alice, admin",
		"  p, alice, data1, read  \n\tg, alice, admin\t\n", "p, alice, data1, read\n,a\np, bob, data2, write\n", ",a", ",a\n",
		"p, alice, data1, read\np, alice, data1\np, bob, data2, write\n", "p, alice, data1, read\nq, x\ng, alice, admin\n",
		"p, alice, data1, read\np, \"bob, data2, write\ng, alice, admin\n", "p, alice, data1, read\np, b\"ob, data2, write\ng, alice, admin\n",
		"p, alice, data1, read\np, alice, data1, read\np,alice,data1,read\n", "p, \"a,b\", \"c\"\"d\", e\n", "p, alice, data1, read\x00\n\x00\ng, a, b\n",
		"p, \xff\xfe, data1, read\ng, \xc2, \xe2\x80\n", "\u00a0p, alice, data1, read\u3000\n\u2028g, alice, admin\u2029\n", "p, alice, data1, read\rg, alice, admin\n",
		"p, alice, data1, read\n # p, x, y, z\ng, alice, admin\n", "g, alice\n", "g, alice, admin, extra\ng, alice, admin, d2\n",
		// F12 (repaired): a cycle below a root, a cycle without a root, a self loop, diamonds
		pol + "g, a, root\ng, b, a\ng, a, b\n", pol + "g, a, r\ng, b, a\ng, a, b\ng, r, r\n", pol + "g, a, b\ng, b, a\n", pol + "g, a, a\n", pol + "g, a, root\ng, a, a\n",
		pol + "g, a, root\ng, b, a\ng, c, b\ng, a, c\n", pol + "g, a, root\ng, root, a\n", pol + diamonds(40), pol + diamonds(40) + "g, L0, L40\n", pol + chain(60),
		pol + "g, a, root, d1\ng, root, a, d1\n", pol + "g, a, root\ng, b, a\n,a\ng, a, b\n",
		// the Scanner's limit: a line of 65535 bytes passes, one of 65536 ends the scan
		"p, alice, data1, read\n#" + long[:65534] + "\ng, alice, admin\n", "p, alice, data1, read\n#" + long[:65535] + "\ng, alice, admin\n",
		"p, alice, data1, read\n" + long, "p, alice, data1, read\n#" + long[:65534] + "\r\ng, alice, admin\n", "p, alice, data1, " + long + "\n",
	}
	models := []string{"flat", "sp", "dom"}
	for ti, text := range texts {
		for _, ad := range []string{"str", "file"} {
			for _, name := range models {
				if name == "dom" && ti%3 != 0 {
					continue
				}
				c03TextCase(c, next("text."+ad+"."+name), ad, name, text)
			}
		}
	}
	nt := 150
	if c.Thorough() {
		nt = 6000
	}
	for i := 0; i < nt; i++ {
		name := models[r.Intn(2)]
		ar := map[string]int{"flat": 3, "sp": 4}[name]
		var b strings.Builder
		k := r.Intn(9)
		for j := 0; j < k; j++ {
			switch r.Intn(12) {
			case 0:
				b.WriteString(fmt.Sprintf("g, %s, %s", c01Pick(r, []string{"a", "b", "c", "root"}), c01Pick(r, []string{"a", "b", "c", "root"})))
			case 1:
				b.WriteString("")
			case 2, 3, 4, 5, 6:
				// a clean rule, so that something is loaded before (and after) a hostile line
				f := []string{"p", c01Pick(r, c01Subs), c01Pick(r, c01Objs), c01Pick(r, c01Acts)}
				if ar == 4 {
					f = append(f, c01Pick(r, []string{"allow", "deny"}))
				}
				b.WriteString(strings.Join(f, c01Pick(r, []string{", ", ",", " , "})))
			default:
				b.WriteString(c03Line(c, ar))
			}
			b.WriteString(c01Pick(r, []string{"\n", "\n", "\n", "\r\n", "\n\n", ""}))
		}
		ad := []string{"str", "file"}[r.Intn(2)]
		c03TextCase(c, next("text."+ad+"."+name), ad, name, b.String())
	}
}

func c03Struct(c *Ctx) {
	c03Enforce(c)
	c03Loading(c)
}
