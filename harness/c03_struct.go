package main

// placeholder until the Enforce model (coq/Enforce.v) is wired in: emits the cases whose
// outcome class (ok / err, decision) the model predicts.
func c03Struct(c *Ctx) {}
