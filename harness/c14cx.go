package main

import (
	"fmt"
	"strings"
)

// C14, second fixture: a model with several request / policy / effect / matcher sections, selected
// per call by a leading casbin.EnforceContext.  Every component of the context changes what the
// embedded enforcer answers for the same strings (Cache.cx_names_matter), so a cache key that
// leaves a component out, or writes it ambiguously, makes the wrapper serve a decision that the
// embedded enforcer (the uncached twin) does not give.  Model: Cache.cx_enforce / cx_step.

const c14CxModelText = `[request_definition]
r = sub, obj, act
r2 = sub, obj, act
[policy_definition]
p = sub, obj, act
p2 = sub, obj, act
[policy_effect]
e = some(where (p.eft == allow))
e2 = !some(where (p.eft == deny))
[matchers]
m = r.sub == p.sub && r.obj == p.obj && r.act == p.act
m2 = r2.sub == p2.sub && r2.obj == p2.obj
m3 = r.sub == p.sub && r.obj == p.obj
m4 = r2.sub == p2.sub && r2.obj == p2.obj && r2.act == p2.act
m5 = r.sub == p2.sub && r.obj == p2.obj && r.act == p2.act
m6 = r2.sub == p.sub && r2.obj == p.obj
`

var c14CxStored1 = [][]string{{"alice", "data1", "read"}, {"bob", "data2", "write"}}
var c14CxStored2 = [][]string{{"alice", "data1", "write"}, {"carol", "data2", "read"}}

func c14CxStoredText() string {
	var lines []string
	for _, r := range c14CxStored1 {
		lines = append(lines, "p, "+strings.Join(r, ", "))
	}
	for _, r := range c14CxStored2 {
		lines = append(lines, "p2, "+strings.Join(r, ", "))
	}
	return strings.Join(lines, "\n")
}

// the contexts under which the embedded enforcer decides (everything else is an error)
var c14CxDeciding = [][4]string{
	{"r", "p", "e", "m"}, {"r", "p", "e", "m3"}, {"r", "p", "e2", "m"}, {"r", "p", "e2", "m3"},
	{"r", "p2", "e", "m5"}, {"r", "p2", "e2", "m5"}, {"r2", "p", "e", "m6"}, {"r2", "p", "e2", "m6"},
	{"r2", "p2", "e", "m2"}, {"r2", "p2", "e", "m4"}, {"r2", "p2", "e2", "m2"}, {"r2", "p2", "e2", "m4"},
}

// names tried in each position (sections that exist and some that do not)
var c14CxNames = [4][]string{
	{"r", "r2", "r3", ""},
	{"p", "p2", "p3"},
	{"e", "e2", "e3"},
	{"m", "m2", "m3", "m4", "m5", "m6", "m7"},
}

var c14CxReqs = [][]string{
	{"alice", "data1", "read"}, {"alice", "data1", "write"}, {"zed", "data1", "write"},
	{"carol", "data2", "read"}, {"bob", "data2", "write"}, {"", "", ""}, {"", "", "x"},
}

func c14Ctx(ctx [4]string) c14Param { return c14Param{kind: 'c', ctx: ctx} }

func c14CtxReq(ctx [4]string, q []string) []c14Param {
	return append([]c14Param{c14Ctx(ctx)}, c14Strs(q)...)
}

func c14CtxName(ctx [4]string) string {
	return strings.Join(ctx[:], "-")
}

// contexts that differ from base in exactly one name, and contexts whose names are base's names
// cut differently (they would share base's key text under another way of writing the names:
// no separator, another separator, a name written twice / left out)
func c14CxNeighbours(base [4]string) [][4]string {
	var out [][4]string
	for pos := 0; pos < 4; pos++ {
		for _, alt := range c14CxNames[pos] {
			if alt != base[pos] {
				c := base
				c[pos] = alt
				out = append(out, c)
			}
		}
	}
	b := base
	out = append(out,
		[4]string{b[0] + b[1], "", b[2], b[3]},
		[4]string{b[0], b[1] + b[2], "", b[3]},
		[4]string{b[0], b[1], b[2] + b[3], ""},
		[4]string{"", b[0] + b[1], b[2], b[3]},
		[4]string{b[0] + "-" + b[1], b[2], b[3], ""},
		[4]string{"", b[0], b[1] + "-" + b[2], b[3]},
		[4]string{b[0], b[1], "", b[2] + "-" + b[3]},
		[4]string{b[0], b[1], b[2], b[3] + "}"},
		[4]string{b[1], b[0], b[2], b[3]},
		[4]string{b[0], b[1], b[3], b[2]},
		[4]string{b[0], b[1], b[2], b[3] + "$"},
	)
	return out
}

func c14V(synced bool) string {
	if synced {
		return "s"
	}
	return "p"
}

// (1) every deciding context against each of its neighbours, same strings, both orders, twice
func c14CxPairs() []*c14Case {
	qs := [][]string{{"alice", "data1", "read"}, {"alice", "data1", "write"}, {"zed", "data1", "write"}}
	var out []*c14Case
	for bi, base := range c14CxDeciding {
		for ni, nb := range c14CxNeighbours(base) {
			for _, synced := range []bool{false, true} {
				var ops []c14Op
				var probes [][]c14Param
				for qi, q := range qs {
					a, b := c14CtxReq(base, q), c14CtxReq(nb, q)
					probes = append(probes, a, b)
					if (qi+ni+bi)%2 == 1 {
						a, b = b, a
					}
					ops = append(ops, c14Op{kind: "e", ps: a}, c14Op{kind: "e", ps: b})
				}
				for _, q := range qs {
					ops = append(ops, c14Op{kind: "e", ps: c14CtxReq(nb, q)}, c14Op{kind: "e", ps: c14CtxReq(base, q)})
				}
				out = append(out, &c14Case{
					id:     fmt.Sprintf("c14.cx.pair.%s.%d.%s", c14CtxName(base), ni, c14V(synced)),
					synced: synced, probes: probes, ops: ops, tag: "cx-pair", cx: true})
			}
		}
	}
	return out
}

// (2) a context and the plain request with the same strings (and the default context written
// out, and NewEnforceContext("2")), with a removal / addition of the rule in between
func c14CxMixes() []*c14Case {
	var out []*c14Case
	ctxs := append([][4]string{}, c14CxDeciding...)
	for i, ctx := range ctxs {
		for qi, q := range c14CxReqs[:5] {
			for _, synced := range []bool{false, true} {
				plain, with := c14Strs(q), c14CtxReq(ctx, q)
				other := c14CtxReq(c14CxDeciding[(i+5)%len(c14CxDeciding)], q)
				first, second := plain, with
				if (i+qi)%2 == 1 {
					first, second = with, plain
				}
				e := func(ps []c14Param) c14Op { return c14Op{kind: "e", ps: ps} }
				ops := []c14Op{e(first), e(second), e(other), e(first), e(second), e(other),
					{kind: "rm", ps: c14Strs(q)}, e(plain), e(with),
					{kind: "inv"}, e(with), e(plain),
					{kind: "add", ps: []c14Param{{kind: 'l', l: q}}}, e(plain), e(with),
					{kind: "pt", sub: "rm2", rules: [][]string{q}}, e(with), e(other),
					{kind: "load"}, e(other), e(with), e(plain)}
				out = append(out, &c14Case{
					id:     fmt.Sprintf("c14.cx.mix.%s.%d.%s", c14CtxName(ctx), qi, c14V(synced)),
					synced: synced, probes: [][]c14Param{plain, with, other}, ops: ops, tag: "cx-mix", cx: true})
			}
		}
	}
	return out
}

// (3) random histories
func (g c14Gen) cxContext() [4]string {
	base := c14CxDeciding[g.c.Rng.Intn(len(c14CxDeciding))]
	switch x := g.c.Rng.Intn(100); {
	case x < 45:
		return base
	case x < 80:
		nbs := c14CxNeighbours(base)
		return nbs[g.c.Rng.Intn(len(nbs))]
	case x < 90:
		var c [4]string
		for i := range c {
			c[i] = g.pick(c14CxNames[i])
		}
		return c
	default:
		junk := []string{"", "r", "p", "e", "m", "r-p", "p-e", "e-m", "m}", "$$", "m}$$alice", "-", "}", "EnforceContext{"}
		c := base
		c[g.c.Rng.Intn(4)] = g.pick(junk)
		return c
	}
}

func (g c14Gen) cxStrings() []string {
	switch x := g.c.Rng.Intn(100); {
	case x < 80:
		return c14CxReqs[g.c.Rng.Intn(len(c14CxReqs))]
	case x < 90:
		q := append([]string(nil), c14CxReqs[g.c.Rng.Intn(len(c14CxReqs))]...)
		q[g.c.Rng.Intn(len(q))] = g.pick([]string{"alice", "data1", "read", "write", "", "$", "a$$", "EnforceContext{r-p-e-m}", "x}"})
		return q
	default:
		return g.tuple(g.arity())
	}
}

func (g c14Gen) cxRequest(pool [][]c14Param) []c14Param {
	if len(pool) > 0 && g.c.Rng.Intn(100) < 60 {
		return pool[g.c.Rng.Intn(len(pool))]
	}
	q := g.cxStrings()
	switch x := g.c.Rng.Intn(100); {
	case x < 62:
		return c14CtxReq(g.cxContext(), q)
	case x < 80:
		return c14Strs(q)
	case x < 84: // the context somewhere else than in front: an ordinary (never matching) value
		ps := c14Strs(q)
		if len(ps) > 0 {
			ps[g.c.Rng.Intn(len(ps))] = c14Ctx(g.cxContext())
		}
		return ps
	case x < 88: // two contexts
		return append([]c14Param{c14Ctx(g.cxContext())}, c14CtxReq(g.cxContext(), q)...)
	case x < 92: // a pointer to a context in front: CacheableParam, but not a context for enforce()
		ctx := g.cxContext()
		p := c14Param{kind: 'k', ptr: true, ctx: ctx}
		p.s, _ = c14Ctx(ctx).text()
		return append([]c14Param{p}, c14Strs(q)...)
	case x < 96: // another CacheableParam / a value that is not cacheable behind a context
		ps := c14CtxReq(g.cxContext(), q)
		i := 1 + g.c.Rng.Intn(len(ps)-1+1)
		if i >= len(ps) {
			i = len(ps) - 1
		}
		if i >= 1 {
			if g.c.Rng.Intn(2) == 0 {
				ps[i] = c14Param{kind: 'k', s: "key:" + ps[i].s}
			} else {
				ps[i] = c14Param{kind: 'n', n: g.c.Rng.Intn(7)}
			}
		}
		return ps
	default:
		return []c14Param{c14Ctx(g.cxContext())}
	}
}

func (g c14Gen) cxRandom(id string, synced bool, maxLen int) *c14Case {
	// a pool of requests the history keeps coming back to: some contexts over the same strings
	q := c14CxReqs[g.c.Rng.Intn(5)]
	var pool [][]c14Param
	pool = append(pool, c14Strs(q))
	for i := 2 + g.c.Rng.Intn(4); i > 0; i-- {
		if g.c.Rng.Intn(4) == 0 {
			pool = append(pool, g.cxRequest(nil))
		} else {
			pool = append(pool, c14CtxReq(g.cxContext(), q))
		}
	}
	rule := func() []string {
		if g.c.Rng.Intn(100) < 70 {
			return q
		}
		return g.cxStrings()
	}
	n := 2 + g.c.Rng.Intn(maxLen)
	var ops []c14Op
	for i := 0; i < n; i++ {
		switch x := g.c.Rng.Intn(100); {
		case x < 64:
			ops = append(ops, c14Op{kind: "e", ps: g.cxRequest(pool)})
		case x < 69:
			ops = append(ops, c14Op{kind: "rm", ps: c14Strs(rule())})
		case x < 74:
			ops = append(ops, c14Op{kind: "add", ps: []c14Param{{kind: 'l', l: rule()}}})
		case x < 77:
			ops = append(ops, c14Op{kind: "rms", rules: [][]string{rule()}})
		case x < 80:
			ops = append(ops, c14Op{kind: "adds", rules: [][]string{rule()}})
		case x < 84:
			ops = append(ops, c14Op{kind: "pt", sub: "add2", rules: [][]string{rule()}})
		case x < 88:
			ops = append(ops, c14Op{kind: "pt", sub: "rm2", rules: [][]string{rule()}})
		case x < 91:
			ops = append(ops, c14Op{kind: "inv"})
		case x < 94:
			ops = append(ops, c14Op{kind: "load"})
		case x < 96:
			ops = append(ops, c14Op{kind: "clear"})
		case x < 98:
			ops = append(ops, c14Op{kind: "en", b: false}, c14Op{kind: "e", ps: g.cxRequest(pool)}, c14Op{kind: "en", b: true})
		default:
			ops = append(ops, c14Op{kind: "rm", ps: append([]c14Param{c14Ctx(g.cxContext())}, c14Strs(rule())...)})
		}
	}
	return &c14Case{id: id, synced: synced, probes: c14Probes(nil, pool...), ops: c14Finish(ops, nil, pool...), tag: "cx-random", cx: true}
}

// (4) values that are neither a string nor a CacheableParam (GetCacheKey answers "not cacheable",
// the wrapper must ask the embedded enforcer every time) next to the strings they resemble: for
// every kind of value (int, struct, float, bool, nil, a named string type holding "alice",
// []byte("alice")) and every position, the stored rule, the rule with "" there, and the rule with
// the value there, interleaved; then the same over the empty policy, where the all-empty request
// is allowed and a request with such a value is not.  On both fixtures.
func c14NonString() []*c14Case {
	var out []*c14Case
	base := []string{"alice", "data1", "read"}
	for n := 0; n < 7; n++ {
		for pos := 0; pos < 3; pos++ {
			for _, cx := range []bool{false, true} {
				for _, synced := range []bool{false, true} {
					q0 := c14Strs(base)
					q1 := c14Strs(base)
					q1[pos] = c14Param{kind: 'n', n: n}
					q2 := c14Strs(base)
					q2[pos] = c14S("")
					e0 := c14Strs([]string{"", "", ""})
					e1 := c14Strs([]string{"", "", ""})
					e1[pos] = c14Param{kind: 'n', n: n}
					e := func(ps []c14Param) c14Op { return c14Op{kind: "e", ps: ps} }
					ops := []c14Op{e(q0), e(q1), e(q2), e(q1), e(q0), e(q1), e(q2),
						{kind: "clear"}, e(e0), e(e1), e(e0), e(e1), e(q1), e(q0)}
					if cx {
						with := append([]c14Param{c14Ctx([4]string{"r", "p", "e2", "m3"})}, q1...)
						ops = append(ops, c14Op{kind: "load"}, e(append([]c14Param{c14Ctx([4]string{"r", "p", "e2", "m3"})}, q0...)), e(with), e(q1), e(with))
					}
					fx := "acl"
					if cx {
						fx = "cx"
					}
					out = append(out, &c14Case{
						id:     fmt.Sprintf("c14.nonstr.%s.%d.%d.%s", fx, n, pos, c14V(synced)),
						synced: synced, probes: [][]c14Param{q0, q1, q2, e0, e1}, ops: ops, tag: "non-string", cx: cx})
				}
			}
		}
	}
	return out
}

func c14CxCases(g c14Gen, nRandom, maxLen int) []*c14Case {
	var out []*c14Case
	out = append(out, c14CxPairs()...)
	out = append(out, c14CxMixes()...)
	out = append(out, c14NonString()...)
	for i := 0; i < nRandom; i++ {
		for _, synced := range []bool{false, true} {
			out = append(out, g.cxRandom(fmt.Sprintf("c14.cx.r.%d.%s", i, c14V(synced)), synced, maxLen))
		}
	}
	return out
}
